package main

// E5 "unverified-value typestate" (written for C03).
//
// A *source* produces a value obtained by a raw keyed lookup (hash-indexed
// table).  The value (and everything that is the same pointer: phis, type
// assertions, interface boxing, local cells) may be *served or escaped* —
// passed to a function, returned, stored, captured, copied, have a field
// value flow anywhere but a branch — only at program points that are
// unreachable from the lookup without crossing, for every key dimension of
// one alternative of the value's type, a branch edge that establishes that
// dimension for this very value:
//
//   * `v.path == x` true edge (x not derived from v)            → "path"
//   * `v.path == const` true edge                               → "path=const"
//   * leafComparator(..., v.path, ...) true edge                → "path"
//   * falseMeans(v.path) false edge (e.g. !scope.IsValid())     → "path"
//   * g(.., v.prefix, ..) true edge, g a module function with a single bool
//     result: prefix + every path of g's computed summary; "*" (every
//     dimension) when v itself is passed and g is a full verifier
//
// Summaries are computed, not declared: for parameter p of g, path d is in
// the summary when every return edge of g that may carry `true` is either
// unreachable without crossing a d-edge or carries a value that itself
// establishes d when true.  g is a *full verifier* when every such edge
// establishes all dimensions of one alternative.
//
// Free before verification: nil / identity comparisons, passing the value to
// the establishing call itself, field reads whose values only reach branch
// conditions (through arithmetic, comparisons and single-bool-result calls on
// non-reference values), a call listed as inspector, and passing the value to
// a *verifying consumer* (a function whose own parameter passes this same
// analysis from its entry).  A function that returns the value unverified is
// a *raw returner*: it must be listed, and each of its call sites becomes a
// source in turn.

import (
	"fmt"
	"go/token"
	"go/types"
	"sort"
	"strings"

	"golang.org/x/tools/go/ssa"
)

type c03Spec struct {
	Rule string
	// Alts returns the alternatives (each a list of dimensions = field paths
	// relative to the value, optionally "path=const") for a value type.
	Alts func(t types.Type) [][]string
	// Comparators: leaf equality functions; the listed argument positions may
	// carry the stored field.
	Comparators map[*types.Func][]int
	// FalseMeans: predicates whose FALSE result on a stored field (arg 0)
	// establishes that field.
	FalseMeans map[*types.Func]string
	// Inspectors: "<callee funcObjKey> in <caller fnKey>" → reason; calls allowed on an unverified value in that one function.
	Inspectors map[string]string
	// RawReturners: fnKey → reason; functions allowed to return unverified values.
	RawReturners map[string]string
	// RuleFor overrides the rule id per function (positive controls).
	RuleFor func(fn *ssa.Function) string
}

type c03SumKey struct {
	fn  *ssa.Function
	idx int
}

type c03Summary struct {
	paths map[string]bool
	full  bool
}

type c03Engine struct {
	c        *Ctx
	spec     *c03Spec
	summ     map[c03SumKey]*c03Summary
	summBusy map[c03SumKey]bool
	cons     map[c03SumKey]*c03Cons
	consBusy map[c03SumKey]bool
	usedInsp map[string]bool
	usedRaw  map[string]bool
	Sources  int
	Analysed []c03Source
}

type c03Cons struct {
	ok       bool
	findings []c03Finding
	free     int
}

func newC03Engine(c *Ctx, spec *c03Spec) *c03Engine {
	return &c03Engine{c: c, spec: spec, summ: map[c03SumKey]*c03Summary{}, summBusy: map[c03SumKey]bool{},
		cons: map[c03SumKey]*c03Cons{}, consBusy: map[c03SumKey]bool{}, usedInsp: map[string]bool{}, usedRaw: map[string]bool{}}
}

func (e *c03Engine) rule(fn *ssa.Function) string {
	if e.spec.RuleFor != nil {
		if r := e.spec.RuleFor(fn); r != "" {
			return r
		}
	}
	return e.spec.Rule
}

// ---------------------------------------------------------------------------
// alias sets

type c03Alias struct {
	vals  map[ssa.Value]bool
	cells map[*ssa.Alloc]bool
	order []ssa.Value
}

func c03Closure(seeds ...ssa.Value) *c03Alias {
	a := &c03Alias{vals: map[ssa.Value]bool{}, cells: map[*ssa.Alloc]bool{}}
	var work []ssa.Value
	add := func(v ssa.Value) {
		if v != nil && !a.vals[v] {
			a.vals[v] = true
			a.order = append(a.order, v)
			work = append(work, v)
		}
	}
	for _, s := range seeds {
		add(s)
	}
	for len(work) > 0 {
		v := work[len(work)-1]
		work = work[:len(work)-1]
		refs := v.Referrers()
		if refs == nil {
			continue
		}
		for _, r := range *refs {
			switch x := r.(type) {
			case *ssa.Phi:
				add(x)
			case *ssa.ChangeType:
				add(x)
			case *ssa.MakeInterface:
				add(x)
			case *ssa.ChangeInterface:
				add(x)
			case *ssa.TypeAssert:
				if x.CommaOk {
					if rr := x.Referrers(); rr != nil {
						for _, q := range *rr {
							if ex, ok := q.(*ssa.Extract); ok && ex.Index == 0 {
								add(ex)
							}
						}
					}
				} else {
					add(x)
				}
			case *ssa.Store:
				if x.Val != v {
					continue
				}
				al, ok := x.Addr.(*ssa.Alloc)
				if !ok || a.cells[al] {
					continue
				}
				a.cells[al] = true
				if rr := al.Referrers(); rr != nil {
					for _, q := range *rr {
						if u, ok := q.(*ssa.UnOp); ok && u.Op == token.MUL && u.X == al {
							add(u)
						}
					}
				}
			}
		}
	}
	return a
}

func c03SingleStore(al *ssa.Alloc) ssa.Value {
	refs := al.Referrers()
	if refs == nil {
		return nil
	}
	var val ssa.Value
	n := 0
	for _, r := range *refs {
		switch x := r.(type) {
		case *ssa.Store:
			if x.Addr == al {
				val = x.Val
				n++
			}
		case *ssa.FieldAddr:
			if rr := x.Referrers(); rr != nil {
				for _, q := range *rr {
					if st, ok := q.(*ssa.Store); ok && st.Addr == x {
						return nil // partially written struct
					}
				}
			}
		}
	}
	if n == 1 {
		return val
	}
	return nil
}

// root: is v a field path below a member of the alias set?
func (a *c03Alias) root(v ssa.Value) (bool, []*types.Var) {
	var path []*types.Var
	for i := 0; i < 64 && v != nil; i++ {
		if a.vals[v] {
			return true, path
		}
		switch x := v.(type) {
		case *ssa.UnOp:
			if x.Op != token.MUL {
				return false, nil
			}
			switch y := x.X.(type) {
			case *ssa.FieldAddr:
				v = y
			case *ssa.Alloc:
				v = c03SingleStore(y)
			default:
				return false, nil
			}
		case *ssa.FieldAddr:
			st, ok := deref(x.X.Type()).Underlying().(*types.Struct)
			if !ok {
				return false, nil
			}
			path = append([]*types.Var{st.Field(x.Field)}, path...)
			v = x.X
		case *ssa.Field:
			st, ok := x.X.Type().Underlying().(*types.Struct)
			if !ok {
				return false, nil
			}
			path = append([]*types.Var{st.Field(x.Field)}, path...)
			v = x.X
		case *ssa.Alloc:
			v = c03SingleStore(x)
		case *ssa.ChangeType:
			v = x.X
		case *ssa.MakeInterface:
			v = x.X
		case *ssa.ChangeInterface:
			v = x.X
		case *ssa.Convert:
			v = x.X
		default:
			return false, nil
		}
	}
	return false, nil
}

func c03PathString(p []*types.Var) string {
	var s []string
	for _, v := range p {
		s = append(s, v.Name())
	}
	return strings.Join(s, ".")
}

func c03Join(prefix, p string) string {
	if prefix == "" {
		return p
	}
	if p == "" {
		return prefix
	}
	return prefix + "." + p
}

// ---------------------------------------------------------------------------
// what a branch atom establishes

func (e *c03Engine) atomPaths(v ssa.Value, a *c03Alias) (onTrue, onFalse map[string]bool) {
	onTrue, onFalse = map[string]bool{}, map[string]bool{}
	switch x := v.(type) {
	case *ssa.BinOp:
		if x.Op != token.EQL && x.Op != token.NEQ {
			return
		}
		for _, pr := range [][2]ssa.Value{{x.X, x.Y}, {x.Y, x.X}} {
			ok, path := a.root(pr[0])
			if !ok || len(path) == 0 {
				continue
			}
			if ok2, _ := a.root(pr[1]); ok2 {
				continue // compared with itself
			}
			key := c03PathString(path)
			if k, isC := pr[1].(*ssa.Const); isC {
				if k.Value == nil {
					continue
				}
				key += "=" + k.Value.ExactString()
			}
			if x.Op == token.EQL {
				onTrue[key] = true
			} else {
				onFalse[key] = true
			}
		}
	case *ssa.Call:
		if x.Call.IsInvoke() {
			return
		}
		fo, sf, _ := calleeObj(&x.Call)
		args := x.Call.Args
		rootedOther := func(skip int) bool {
			for j, o := range args {
				if j == skip {
					continue
				}
				if ok, _ := a.root(o); ok {
					return true
				}
			}
			return false
		}
		if fo != nil {
			for cf, pos := range e.spec.Comparators {
				if !sameFunc(fo, cf) {
					continue
				}
				for _, i := range pos {
					if i >= len(args) {
						continue
					}
					if ok, path := a.root(args[i]); ok && len(path) > 0 && !rootedOther(i) {
						onTrue[c03PathString(path)] = true
					}
				}
				return
			}
			for ff := range e.spec.FalseMeans {
				if sameFunc(fo, ff) && len(args) > 0 {
					if ok, path := a.root(args[0]); ok && len(path) > 0 {
						onFalse[c03PathString(path)] = true
					}
					return
				}
			}
		}
		if sf == nil || len(sf.Blocks) == 0 || !c03SingleBool(sf.Signature) {
			return
		}
		for i, arg := range args {
			ok, path := a.root(arg)
			if !ok || i >= len(sf.Params) {
				continue
			}
			s := e.summary(sf, i)
			prefix := c03PathString(path)
			for p := range s.paths {
				onTrue[c03Join(prefix, p)] = true
			}
			if s.full && len(path) == 0 {
				onTrue["*"] = true
			}
		}
	}
	return
}

func c03SingleBool(sig *types.Signature) bool {
	if sig == nil || sig.Results().Len() != 1 {
		return false
	}
	b, ok := sig.Results().At(0).Type().Underlying().(*types.Basic)
	return ok && b.Kind() == types.Bool
}

// impliesDim: does "v has the value want" imply that dim is established for the
// alias set?  Looks through negation, comparison with a bool constant and
// boolean phis (x := a && b; if x — every operand that can produce `want`
// must itself imply dim when it has that value).
func (e *c03Engine) impliesDim(v ssa.Value, a *c03Alias, dim string, want bool, depth int) (implied, vacuous bool) {
	if v == nil || depth > 8 {
		return false, false
	}
	switch x := v.(type) {
	case *ssa.Const:
		if IsConstBool(!want)(Desc(x)) {
			return true, true // can never have the value `want`
		}
		return false, false
	case *ssa.UnOp:
		if x.Op == token.NOT {
			return e.impliesDim(x.X, a, dim, !want, depth+1)
		}
	case *ssa.BinOp:
		if x.Op == token.EQL || x.Op == token.NEQ {
			for _, pr := range [][2]ssa.Value{{x.X, x.Y}, {x.Y, x.X}} {
				if k, ok := pr[1].(*ssa.Const); ok {
					if IsConstBool(true)(Desc(k)) || IsConstBool(false)(Desc(k)) {
						kv := IsConstBool(true)(Desc(k))
						w := want
						if (x.Op == token.EQL) != kv {
							w = !w
						}
						return e.impliesDim(pr[0], a, dim, w, depth+1)
					}
				}
			}
		}
	case *ssa.Phi:
		n := 0
		for _, ed := range x.Edges {
			ok, vac := e.impliesDim(ed, a, dim, want, depth+1)
			if !ok {
				return false, false
			}
			if !vac {
				n++
			}
		}
		return true, n == 0
	}
	onT, onF := e.atomPaths(v, a)
	if want {
		return onT[dim] || onT["*"], false
	}
	return onF[dim] || onF["*"], false
}

func (e *c03Engine) barrier(a *c03Alias, dim string) Barrier {
	return Barrier{Name: "verified:" + dim, Edge: func(cond *Expr) (bool, int) {
		if cond == nil || cond.V == nil {
			return false, 0
		}
		if ok, vac := e.impliesDim(cond.V, a, dim, true, 0); ok && !vac {
			return true, 0
		}
		if ok, vac := e.impliesDim(cond.V, a, dim, false, 0); ok && !vac {
			return true, 1
		}
		return false, 0
	}}
}

// ---------------------------------------------------------------------------
// summaries of bool functions

type c03RetEdge struct {
	val  ssa.Value       // nil = constant true
	ret  ssa.Instruction // for a non-phi result: the return itself
	pred *ssa.BasicBlock // for a phi edge: predecessor …
	succ *ssa.BasicBlock // … and the phi's block
}

func c03ReturnEdges(g *ssa.Function) []c03RetEdge {
	var out []c03RetEdge
	var flat func(v ssa.Value, ret ssa.Instruction, pred, succ *ssa.BasicBlock, seen map[ssa.Value]bool)
	flat = func(v ssa.Value, ret ssa.Instruction, pred, succ *ssa.BasicBlock, seen map[ssa.Value]bool) {
		switch x := v.(type) {
		case *ssa.Const:
			if IsConstBool(false)(Desc(x)) {
				return
			}
			out = append(out, c03RetEdge{val: nil, ret: ret, pred: pred, succ: succ})
		case *ssa.Phi:
			if seen[x] {
				return
			}
			seen[x] = true
			for k, ev := range x.Edges {
				flat(ev, nil, x.Block().Preds[k], x.Block(), seen)
			}
		default:
			out = append(out, c03RetEdge{val: v, ret: ret, pred: pred, succ: succ})
		}
	}
	for _, b := range g.Blocks {
		for _, in := range b.Instrs {
			r, ok := in.(*ssa.Return)
			if !ok || len(r.Results) != 1 {
				continue
			}
			flat(r.Results[0], r, nil, nil, map[ssa.Value]bool{})
		}
	}
	return out
}

func (e *c03Engine) summary(g *ssa.Function, idx int) *c03Summary {
	key := c03SumKey{g, idx}
	if s, ok := e.summ[key]; ok {
		return s
	}
	empty := &c03Summary{paths: map[string]bool{}}
	if e.summBusy[key] || len(g.Blocks) == 0 || idx >= len(g.Params) || !c03SingleBool(g.Signature) {
		return empty
	}
	e.summBusy[key] = true
	defer delete(e.summBusy, key)

	p := g.Params[idx]
	a := c03Closure(p)
	var alts [][]string
	if e.spec.Alts != nil {
		alts = e.spec.Alts(p.Type())
	}
	edges := c03ReturnEdges(g)
	cands := map[string]bool{}
	var collect func(v ssa.Value)
	collect = func(v ssa.Value) {
		if v == nil {
			return
		}
		switch x := v.(type) {
		case *ssa.Phi:
			for _, ed := range x.Edges {
				if _, isPhi := ed.(*ssa.Phi); !isPhi {
					collect(ed)
				}
			}
			return
		case *ssa.UnOp:
			if x.Op == token.NOT {
				collect(x.X)
				return
			}
		}
		t, f := e.atomPaths(v, a)
		for k := range t {
			cands[k] = true
		}
		for k := range f {
			cands[k] = true
		}
	}
	for _, b := range g.Blocks {
		if len(b.Instrs) == 0 {
			continue
		}
		if iff, ok := b.Instrs[len(b.Instrs)-1].(*ssa.If); ok {
			collect(iff.Cond)
			if atom, _ := Truthy(condOf(iff)); atom != nil {
				collect(atom.V)
			}
		}
	}
	for _, ed := range edges {
		collect(ed.val)
	}
	for _, alt := range alts {
		for _, d := range alt {
			cands[d] = true
		}
	}
	delete(cands, "*")
	reaches := map[string]*reachResult{}
	bars := map[string]Barrier{}
	established := func(ed c03RetEdge, d string) bool {
		if ed.val != nil {
			if ok, _ := e.impliesDim(ed.val, a, d, true, 0); ok {
				return true
			}
		}
		r, ok := reaches[d]
		if !ok {
			bars[d] = e.barrier(a, d)
			r = reach(entryPoint(g), []Barrier{bars[d]}, nil)
			reaches[d] = r
		}
		if ed.pred == nil {
			return !r.visited[ed.ret]
		}
		last := ed.pred.Instrs[len(ed.pred.Instrs)-1]
		if !r.visited[last] {
			return true
		}
		if iff, ok := last.(*ssa.If); ok {
			if m, which := bars[d].Edge(condOf(iff)); m && which < len(ed.pred.Succs) && ed.pred.Succs[which] == ed.succ {
				return true
			}
		}
		return false
	}
	s := &c03Summary{paths: map[string]bool{}}
	for d := range cands {
		all := true
		for _, ed := range edges {
			if !established(ed, d) {
				all = false
				break
			}
		}
		if all {
			s.paths[d] = true
		}
	}
	if len(alts) > 0 {
		s.full = true
		for _, ed := range edges {
			some := false
			for _, alt := range alts {
				all := true
				for _, d := range alt {
					if !established(ed, d) {
						all = false
						break
					}
				}
				if all {
					some = true
					break
				}
			}
			if !some {
				s.full = false
				break
			}
		}
	}
	e.summ[key] = s
	return s
}

// ---------------------------------------------------------------------------
// uses

type c03Use struct {
	In       ssa.Instruction
	Kind     string // call | return | store | capture | copy | escape | field→…
	Desc     string
	Callee   *types.Func
	CalleeFn *ssa.Function
	ArgIdx   int
	RetIdx   int
	Cell     *ssa.Alloc
}

type c03Finding struct {
	Use       c03Use
	OK        bool
	RawReturn bool
	How       string
}

func c03CalleeDesc(cc *ssa.CallCommon) string {
	fo, sf, name := calleeObj(cc)
	if cc.IsInvoke() {
		return "invoke " + name
	}
	if fo != nil {
		return funcObjKey(fo)
	}
	if sf != nil {
		return fnKey(sf)
	}
	if name != "" {
		return name
	}
	return "dynamic call"
}

func c03ValueTyped(t types.Type) bool {
	switch t.Underlying().(type) {
	case *types.Basic, *types.Struct, *types.Array:
		return true
	}
	return false
}

func (e *c03Engine) usesOf(a *c03Alias) (uses []c03Use, free int) {
	seenDerived := map[ssa.Value]bool{}
	for _, v := range a.order {
		refs := v.Referrers()
		if refs == nil {
			continue
		}
		for _, r := range *refs {
			switch x := r.(type) {
			case *ssa.DebugRef, *ssa.Phi, *ssa.ChangeType, *ssa.MakeInterface, *ssa.ChangeInterface, *ssa.TypeAssert, *ssa.Extract:
				continue
			case *ssa.BinOp:
				if x.Op == token.EQL || x.Op == token.NEQ {
					free++
				} else {
					uses = append(uses, c03Use{In: x, Kind: "escape", Desc: "arithmetic on the value"})
				}
			case *ssa.FieldAddr:
				if x.X == v {
					e.derived(x, &uses, &free, seenDerived)
				}
			case *ssa.Field:
				if x.X == v {
					e.derived(x, &uses, &free, seenDerived)
				}
			case *ssa.UnOp:
				if x.Op == token.MUL && x.X == v {
					uses = append(uses, c03Use{In: x, Kind: "copy", Desc: "copy of the pointed-to value"})
				} else {
					uses = append(uses, c03Use{In: x, Kind: "escape", Desc: "unary op"})
				}
			case *ssa.Return:
				for i, res := range x.Results {
					if res == v {
						uses = append(uses, c03Use{In: x, Kind: "return", Desc: fmt.Sprintf("return #%d", i), RetIdx: i})
					}
				}
			case *ssa.Store:
				if x.Val == v {
					if al, ok := x.Addr.(*ssa.Alloc); ok && a.cells[al] {
						continue
					}
					uses = append(uses, c03Use{In: x, Kind: "store", Desc: "store into " + trunc(Desc(x.Addr).String(), 60)})
				} else {
					uses = append(uses, c03Use{In: x, Kind: "escape", Desc: "write through the value"})
				}
			case *ssa.MakeClosure:
				uses = append(uses, c03Use{In: x, Kind: "capture", Desc: "captured by " + fnKey(x.Fn.(*ssa.Function))})
			default:
				cc := callCommon(r)
				if cc == nil {
					uses = append(uses, c03Use{In: r, Kind: "escape", Desc: fmt.Sprintf("%T", r)})
					continue
				}
				fo, sf, _ := calleeObj(cc)
				hit := false
				if cc.IsInvoke() && cc.Value == v {
					hit = true
					uses = append(uses, c03Use{In: r, Kind: "call", Desc: "call " + c03CalleeDesc(cc) + " recv", ArgIdx: -1})
				}
				for i, arg := range cc.Args {
					if arg == v {
						hit = true
						uses = append(uses, c03Use{In: r, Kind: "call", Desc: fmt.Sprintf("call %s arg%d", c03CalleeDesc(cc), i), Callee: fo, CalleeFn: sf, ArgIdx: i})
					}
				}
				if !hit {
					uses = append(uses, c03Use{In: r, Kind: "escape", Desc: "called as a function"})
				}
			}
		}
	}
	var cells []*ssa.Alloc
	for al := range a.cells {
		cells = append(cells, al)
	}
	sort.Slice(cells, func(i, j int) bool { return cells[i].Pos() < cells[j].Pos() })
	for _, al := range cells {
		for _, r := range *al.Referrers() {
			switch x := r.(type) {
			case *ssa.DebugRef:
			case *ssa.Store:
				if x.Addr != al {
					uses = append(uses, c03Use{In: x, Kind: "escape", Desc: "address of the holding variable stored"})
				}
			case *ssa.UnOp:
			case *ssa.MakeClosure:
				uses = append(uses, c03Use{In: x, Kind: "capture", Desc: "variable captured by " + fnKey(x.Fn.(*ssa.Function)), Cell: al})
			default:
				uses = append(uses, c03Use{In: r, Kind: "escape", Desc: "address of the holding variable escapes"})
			}
		}
	}
	return
}

// derived follows a field address / field value of the unverified value:
// reaching a branch is free, anything else but arithmetic, comparisons and
// boolean predicates over non-reference values is a use.
func (e *c03Engine) derived(start ssa.Value, uses *[]c03Use, free *int, seen map[ssa.Value]bool) {
	work := []ssa.Value{start}
	push := func(v ssa.Value) {
		if v != nil && !seen[v] {
			seen[v] = true
			work = append(work, v)
		}
	}
	seen[start] = true
	for len(work) > 0 {
		d := work[len(work)-1]
		work = work[:len(work)-1]
		refs := d.Referrers()
		if refs == nil {
			continue
		}
		for _, r := range *refs {
			switch x := r.(type) {
			case *ssa.DebugRef:
			case *ssa.If:
				*free++
			case *ssa.FieldAddr:
				push(x)
			case *ssa.Field:
				push(x)
			case *ssa.IndexAddr:
				push(x)
			case *ssa.Index:
				push(x)
			case *ssa.Slice:
				push(x)
			case *ssa.BinOp:
				push(x)
			case *ssa.UnOp:
				push(x)
			case *ssa.Convert:
				push(x)
			case *ssa.ChangeType:
				push(x)
			case *ssa.Phi:
				push(x)
			case *ssa.Extract:
				push(x)
			case *ssa.Store:
				if x.Val == d {
					if al, ok := x.Addr.(*ssa.Alloc); ok && !al.Heap {
						push(al)
					} else {
						*uses = append(*uses, c03Use{In: x, Kind: "field→store", Desc: "field value stored into " + trunc(Desc(x.Addr).String(), 60)})
					}
				} else if _, isAl := d.(*ssa.Alloc); !isAl {
					*uses = append(*uses, c03Use{In: x, Kind: "field→write", Desc: "write into a field of the value"})
				}
			case *ssa.MakeInterface:
				push(x)
			case *ssa.Return:
				if b, ok := d.Type().Underlying().(*types.Basic); ok && b.Kind() == types.Bool {
					*free++ // a predicate's verdict: the caller can only branch on it
				} else {
					*uses = append(*uses, c03Use{In: x, Kind: "field→return", Desc: "field value returned"})
				}
			default:
				cc := callCommon(r)
				if cc == nil {
					*uses = append(*uses, c03Use{In: r, Kind: "field→other", Desc: fmt.Sprintf("field value reaches %T", r)})
					continue
				}
				if b, ok := cc.Value.(*ssa.Builtin); ok && (b.Name() == "len" || b.Name() == "cap") {
					if cv, ok := r.(ssa.Value); ok {
						push(cv)
					}
					continue
				}
				cv, isCall := r.(*ssa.Call)
				if isCall && c03ValueTyped(d.Type()) && c03SingleBool(cc.Signature()) {
					push(cv) // boolean predicate over a non-reference value
					continue
				}
				*uses = append(*uses, c03Use{In: r, Kind: "field→call", Desc: "field value passed to " + c03CalleeDesc(cc)})
			}
		}
	}
}

// ---------------------------------------------------------------------------
// analysis of one source

func (e *c03Engine) altsOf(a *c03Alias) [][]string {
	if e.spec.Alts == nil {
		return nil
	}
	for _, v := range a.order {
		if alts := e.spec.Alts(v.Type()); len(alts) > 0 {
			return alts
		}
	}
	return nil
}

func (e *c03Engine) analyse(fn *ssa.Function, start []Point, seeds []ssa.Value) (findings []c03Finding, free int) {
	a := c03Closure(seeds...)
	alts := e.altsOf(a)
	uses, free := e.usesOf(a)
	reaches := map[string]*reachResult{}
	guarded := func(at ssa.Instruction) (bool, string) {
		if len(alts) == 0 {
			return false, "no verifier is defined for this value type"
		}
		why := ""
		for _, alt := range alts {
			all := true
			for _, d := range alt {
				r, ok := reaches[d]
				if !ok {
					r = reach(start, []Barrier{e.barrier(a, d)}, nil)
					reaches[d] = r
				}
				if r.visited[at] {
					all = false
					if why == "" {
						why = fmt.Sprintf("dimension %q not established on path %s", d, e.c.trail(r, at))
					}
					break
				}
			}
			if all {
				return true, ""
			}
		}
		return false, why
	}
	for _, u := range uses {
		if u.In.Parent() != fn {
			findings = append(findings, c03Finding{Use: u, OK: false, How: "use outside the analysed function"})
			continue
		}
		ok, why := guarded(u.In)
		if ok {
			how := "behind a full verification of this value"
			if u.Kind == "capture" && u.Cell != nil {
				// the closure must only ever see what was stored before its creation
				r := reach([]Point{pointAfter(u.In)}, nil, nil)
				late := false
				for _, rr := range *u.Cell.Referrers() {
					if st, isSt := rr.(*ssa.Store); isSt && st.Addr == u.Cell && r.visited[st] {
						late = true
					}
				}
				if late {
					findings = append(findings, c03Finding{Use: u, OK: false, How: "the captured variable is reassigned after the closure is created"})
					continue
				}
			}
			findings = append(findings, c03Finding{Use: u, OK: true, How: how})
			continue
		}
		switch u.Kind {
		case "return":
			findings = append(findings, c03Finding{Use: u, OK: false, RawReturn: true, How: why})
		case "call":
			if u.Callee != nil {
				k := funcObjKey(u.Callee) + " in " + fnKey(TopLevel(fn))
				if reason, ok := e.spec.Inspectors[k]; ok {
					e.usedInsp[k] = true
					findings = append(findings, c03Finding{Use: u, OK: true, How: "inspector: " + reason})
					continue
				}
			}
			if u.CalleeFn != nil && len(u.CalleeFn.Blocks) > 0 && u.ArgIdx >= 0 && u.ArgIdx < len(u.CalleeFn.Params) {
				if cr := e.consumer(u.CalleeFn, u.ArgIdx); cr.ok {
					findings = append(findings, c03Finding{Use: u, OK: true, How: "verifying consumer: " + fnKey(u.CalleeFn) + " verifies its parameter before any serving use (or only tests it)"})
					continue
				} else {
					inner := ""
					for _, f := range cr.findings {
						if !f.OK {
							inner = f.Use.Desc + ": " + f.How
							break
						}
					}
					findings = append(findings, c03Finding{Use: u, OK: false, How: why + "; callee is not a verifying consumer (" + trunc(inner, 200) + ")"})
					continue
				}
			}
			findings = append(findings, c03Finding{Use: u, OK: false, How: why})
		default:
			findings = append(findings, c03Finding{Use: u, OK: false, How: why})
		}
	}
	return
}

// consumer: does fn verify its parameter idx before any serving use?
func (e *c03Engine) consumer(fn *ssa.Function, idx int) *c03Cons {
	key := c03SumKey{fn, idx}
	if r, ok := e.cons[key]; ok {
		return r
	}
	if e.consBusy[key] {
		return &c03Cons{ok: false}
	}
	e.consBusy[key] = true
	defer delete(e.consBusy, key)
	findings, free := e.analyse(fn, entryPoint(fn), []ssa.Value{fn.Params[idx]})
	r := &c03Cons{ok: true, findings: findings, free: free}
	for _, f := range findings {
		if !f.OK {
			r.ok = false
		}
	}
	e.cons[key] = r
	return r
}

// ---------------------------------------------------------------------------
// driver

type c03Source struct {
	Fn   *ssa.Function
	At   ssa.Instruction
	Vals []ssa.Value
	Desc string
}

// c03ResultVals returns the SSA values carrying result #idx of a call instruction.
func c03ResultVals(in ssa.Instruction, idx int) []ssa.Value {
	cl, ok := in.(*ssa.Call)
	if !ok {
		return nil
	}
	if cl.Call.Signature().Results().Len() == 1 {
		if idx == 0 {
			return []ssa.Value{cl}
		}
		return nil
	}
	var out []ssa.Value
	if refs := cl.Referrers(); refs != nil {
		for _, r := range *refs {
			if ex, ok := r.(*ssa.Extract); ok && ex.Index == idx {
				out = append(out, ex)
			}
		}
	}
	return out
}

func (e *c03Engine) Run(primary []c03Source) {
	c := e.c
	queue := append([]c03Source{}, primary...)
	type sk struct {
		at  ssa.Instruction
		val ssa.Value
	}
	seen := map[sk]bool{}
	rawDone := map[string]bool{}
	reportedCons := map[c03SumKey]bool{}
	for len(queue) > 0 {
		s := queue[0]
		queue = queue[1:]
		if len(s.Vals) == 0 {
			continue
		}
		if seen[sk{s.At, s.Vals[0]}] {
			continue
		}
		seen[sk{s.At, s.Vals[0]}] = true
		e.Sources++
		e.Analysed = append(e.Analysed, s)
		rule := e.rule(s.Fn)
		findings, free := e.analyse(s.Fn, []Point{pointAfter(s.At)}, s.Vals)
		base := fmt.Sprintf("%s|%s|from %s", rule, fnKey(s.Fn), s.Desc)
		good := 0
		var hows []string
		for _, f := range findings {
			key := base + "|" + f.Use.Desc
			switch {
			case f.OK:
				good++
				hows = append(hows, f.Use.Desc)
				if f.Use.Kind == "call" && f.Use.CalleeFn != nil && strings.HasPrefix(f.How, "verifying consumer") {
					ck := c03SumKey{f.Use.CalleeFn, f.Use.ArgIdx}
					if !reportedCons[ck] {
						reportedCons[ck] = true
						cr := e.cons[ck]
						n := 0
						for _, cf := range cr.findings {
							if cf.OK {
								n++
							}
						}
						c.ok(e.rule(f.Use.CalleeFn), fmt.Sprintf("%s|%s|parameter %s", e.rule(f.Use.CalleeFn), fnKey(f.Use.CalleeFn), f.Use.CalleeFn.Params[f.Use.ArgIdx].Name()), f.Use.CalleeFn.Pos(),
							fmt.Sprintf("verifying consumer: all %d serving uses of the parameter lie behind a full verification (%d free nil/field tests)", n, cr.free))
					}
				}
			case f.RawReturn:
				top := s.Fn
				k := fnKey(top)
				if reason, ok := e.spec.RawReturners[k]; ok && top.Parent() == nil {
					e.usedRaw[k] = true
					c.ok(rule, key, instrPos(f.Use.In), fmt.Sprintf("%s returns the looked-up value unverified (listed raw returner: %s); its call sites are checked as sources", k, reason))
				} else {
					c.violation(rule, key, instrPos(f.Use.In), fmt.Sprintf("%s returns a value obtained from %s without verifying it against the full key preimage and is not a listed raw lookup (%s)", k, s.Desc, f.How))
				}
				fo := funcObjOf(top)
				rk := fmt.Sprintf("%s#%d", k, f.Use.RetIdx)
				if fo == nil || top.Parent() != nil || rawDone[rk] {
					continue
				}
				rawDone[rk] = true
				for _, site := range c.CallSites(fo) {
					switch site.Kind {
					case "call", "invoke":
						vals := c03ResultVals(site.Instr, f.Use.RetIdx)
						if len(vals) > 0 {
							queue = append(queue, c03Source{Fn: site.Fn, At: site.Instr, Vals: vals, Desc: funcObjKey(fo) + "()"})
						}
					case "ref":
						c.violation(e.rule(site.Fn), fmt.Sprintf("%s|%s|%s taken as a function value", e.rule(site.Fn), fnKey(site.Fn), funcObjKey(fo)), instrPos(site.Instr),
							"a raw lookup is taken as a function value: its results cannot be followed to a verification")
					}
				}
			default:
				c.violation(rule, key, instrPos(f.Use.In), fmt.Sprintf("value from %s is used (%s) before it is verified against the full key preimage: %s", s.Desc, f.Use.Desc, f.How))
			}
		}
		c.ok(rule, base, instrPos(s.At), fmt.Sprintf("source %s in %s: %d serving/escaping uses decided (%d ok: %s); %d free nil/identity/field tests",
			s.Desc, fnKey(s.Fn), len(findings), good, trunc(strings.Join(hows, "; "), 300), free))
	}
}

// Finish reports stale table rows.
func (e *c03Engine) Finish() {
	var ks []string
	for k := range e.spec.Inspectors {
		ks = append(ks, k)
	}
	sort.Strings(ks)
	for _, k := range ks {
		if !e.usedInsp[k] {
			e.c.unresolved(e.spec.Rule, "inspector "+k, "table row no longer used (stale)")
		}
	}
	ks = ks[:0]
	for k := range e.spec.RawReturners {
		ks = append(ks, k)
	}
	sort.Strings(ks)
	for _, k := range ks {
		if !e.usedRaw[k] {
			e.c.unresolved(e.spec.Rule, "raw returner "+k, "table row no longer used (stale)")
		}
	}
}
