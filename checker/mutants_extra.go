package main

func init() {
	addMutants("C01", []Mutant{
		{ID: "c01-filter-after-wildcard-check", File: "middleware/resolver/resolver.go", Expect: "C01-R9",
			Old: "\t\t\t\t\tresp.Ns = dnsutil.FilterRRsToZone(resp.Ns, signer)\n\n\t\t\t\t\t// RFC 4035 §5.3.4: a wildcard-expanded answer is only",
			New: "\t\t\t\t\tdefer func() { resp.Ns = dnsutil.FilterRRsToZone(resp.Ns, signer) }()\n\n\t\t\t\t\t// RFC 4035 §5.3.4: a wildcard-expanded answer is only",
			Why: "foreign unsigned NSEC records reach the wildcard next-closer proof (seeded C01)"},
	})
	addMutants("C12", []Mutant{
		{ID: "c12-restart-loses-ledger", File: "middleware/resolver/resolver.go", Expect: "C12-R6",
			Old: "\t\t\t\trequestID: rs.requestID,\n\t\t\t\twork:      rs.work,\n", New: "\t\t\t\trequestID: rs.requestID,\n",
			Why: "the no-minimisation restart runs unbudgeted (seeded C12)"},
		{ID: "c12-child-fresh-ledger", File: "middleware/resolver/resolver.go", Expect: "C12-R6",
			Old: "\t\twork:      middleware.RecursionWorkFrom(ctx),\n", New: "\t\twork:      nil,\n"},
	})
}
