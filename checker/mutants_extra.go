package main

func init() {
	addMutants("C01", []Mutant{
		{ID: "c01-bare-nxdomain-relayed", File: "middleware/resolver/resolver.go", Expect: "C01-R8|resolve|bypass|upstream-message",
			Old: "\t\tif resp.Rcode == dns.RcodeNameError {\n\t\t\t// A bare NXDOMAIN carries no denial proof.", New: "\t\tif resp.Rcode == dns.RcodeNameError && rs.req.CheckingDisabled {\n\t\t\t// A bare NXDOMAIN carries no denial proof.",
			Why: "re-introduces F-C01-1 (fixed in caa9244)"},
		{ID: "c01-empty-noerror-fabricated-unchecked", File: "middleware/resolver/resolver.go", Expect: "C01-R8|resolve|bypass|fabricated-reply",
			Old: "\tif _, err := r.authority(ctx, rs.req, resp, rs.parentDS, rs.servers.Zone); err != nil {\n\t\treturn nil, err\n\t}\n\n\t// create new msg safer", New: "\t// create new msg safer",
			Why: "re-introduces F-C01-2 (fixed in caa9244)"},
		{ID: "c01-filter-after-wildcard-check", File: "middleware/resolver/resolver.go", Expect: "C01-R9",
			Old: "\t\t\t\t\tresp.Ns = dnsutil.FilterRRsToZone(resp.Ns, signer)\n\n\t\t\t\t\t// RFC 4035 §5.3.4: a wildcard-expanded answer is only",
			New: "\t\t\t\t\tdefer func() { resp.Ns = dnsutil.FilterRRsToZone(resp.Ns, signer) }()\n\n\t\t\t\t\t// RFC 4035 §5.3.4: a wildcard-expanded answer is only",
			Why: "foreign unsigned NSEC records reach the wildcard next-closer proof (seeded C01)"},
	})
	addMutants("C05", []Mutant{
		{ID: "c05-chase-ad-from-alias-only", File: "middleware/cache/entry_wire_chase.go", Expect: "C05-R9",
			Old: "\tad := true\n\thasDNSSEC := false\n\tfor i := range segs {\n\t\tanTotal += segs[i].anCount\n\t\tad = ad && segs[i].ad\n", New: "\tad := segs[0].ad\n\thasDNSSEC := false\n\tfor i := range segs {\n\t\tanTotal += segs[i].anCount\n",
			Why: "AD=1 over an unvalidated chase target on the wire path only (seeded C05)"},
	})
	addMutants("C06", []Mutant{
		{ID: "c06-cancel-echoes-request-extra", File: "middleware/chain.go", Expect: "C06-R7|ratelimit",
			Old: "\tm.Extra = rcodeReplyExtra(req)\n", New: "\tm.Extra = req.Extra\n",
			Why: "re-introduces F-C06-1 (fixed in 5939612): pre-edns rejects reflect the client's options"},
		{ID: "c06-dnssec-flag-answer-only", File: "middleware/cache/entry_wire.go", Expect: "C06-R8",
			Old: "\t\tif i < answered {\n\t\t\tswitch rr.Type {", New: "\t\tif i < int(header.ANCount) {\n\t\t\tswitch rr.Type {",
			Why: "signed negative answers served unstripped to DO=0 clients on the byte path (seeded C06)"},
	})
	addMutants("C18", []Mutant{
		{ID: "c18-unlink-before-rename", File: "middleware/blocklist/blocklist.go", Expect: "C18-R8",
			Old: "\tif err := os.Rename(tmpName, path); err != nil {", New: "\t_ = os.Remove(path)\n\tif err := os.Rename(tmpName, path); err != nil {",
			Why: "a window (or a failed rename) with no local file at all (seeded C18-w2A)"},
	})
	addMutants("C19", []Mutant{
		{ID: "c19-clampscope-source-preempts-floor", File: "internal/ecs/policy.go", Expect: "C19-R6",
			Old: "\tif source.IsValid() && bits > source.Bits() {\n\t\tbits = source.Bits()\n\t}\n", New: "\tif source.IsValid() && bits > source.Bits() {\n\t\tclamped, err := scope.Addr().Prefix(source.Bits())\n\t\tif err == nil {\n\t\t\treturn clamped\n\t\t}\n\t}\n",
			Why: "SCOPE>SOURCE clamp skips the min_scope widening (seeded C19-w2B)"},
	})
	addMutants("C20", []Mutant{
		{ID: "c20-negttl-minimum-always", File: "middleware/dns64/dns64.go", Expect: "C20-R7",
			Old: "\t\t\tif soa.Minttl < ttl {", New: "\t\t\tif soa.Minttl > 0 {",
			Why: "synthesised TTL outlives the NODATA it derives from (seeded C20-w2B)"},
	})
	addMutants("C11", []Mutant{
		{ID: "c11-replay-fallback-fresh-clock", File: "server/strict.go", Expect: "C11-R7",
			Old: "\t\treturn false\n\t}\n\tif f, ok := w.(middleware.StagedFlusher); ok {\n\t\tf.FlushStaged()\n\t}\n\ts.serveMsgBy(context.Background(), w, m, true, readTime.Add(s.queryTimeout()))\n\treturn true\n}", New: "\t\treturn false\n\t}\n\tif f, ok := w.(middleware.StagedFlusher); ok {\n\t\tf.FlushStaged()\n\t}\n\t_ = readTime\n\ts.serveMsg(context.Background(), w, m, true)\n\treturn true\n}",
			Why: "queue time handed back as fresh budget (variation of seeded C11-w2B)"},
	})
	addMutants("C14", []Mutant{
		{ID: "c14-rsa-compare-right-aligned", File: "middleware/resolver/dnssec/rsa.go", Expect: "C14-R5",
			Old: "\tpadded := make([]byte, size)\n\tcopy(padded[size-len(em):], em)\n\n\tif subtle.ConstantTimeCompare(padded, expected) != 1 {", New: "\tif subtle.ConstantTimeCompare(em, expected[size-len(em):]) != 1 {",
			Why: "an all-zero signature verifies under a wide-exponent key (seeded C14)"},
	})
	addMutants("C02", []Mutant{
		{ID: "c02-encloser-ignores-next", File: "middleware/resolver/dnssec/aggressive_negative.go", Expect: "C02-R9",
			Old: "\tshared := ownerShared\n\tif nextShared > shared {\n\t\tshared = nextShared\n\t}\n", New: "\tshared := ownerShared\n\t_ = nextShared\n",
			Why: "a wildcard-covered name under an ENT is denied (seeded C02)"},
	})
	addMutants("C13", []Mutant{
		{ID: "c13-wire-lookup-serves-expired", File: "middleware/cache/failure_cache.go", Expect: "C13-R8",
			Old: "\t\t\tinternalcache.WireNameEqualsPresentation(name, entry.question.Question.Name) &&\n\t\t\tnow.Before(entry.retryAfter) {", New: "\t\t\tinternalcache.WireNameEqualsPresentation(name, entry.question.Question.Name) {",
			Why: "expired failure entries (kept as streak history) served on the wire route (seeded C13)"},
		{ID: "c13-zone-lookup-serves-expired", File: "middleware/cache/failure_cache.go", Expect: "C13-R8",
			Old: "\t\tif !ok || !now.Before(entry.retryAfter) {\n\t\t\treturn true\n\t\t}", New: "\t\tif !ok {\n\t\t\treturn true\n\t\t}"},
	})
	addMutants("C09", []Mutant{
		{ID: "c09-sweep-only-config-seeded", File: "middleware/resolver/auto_trust_anchor.go", Expect: "C09-R10",
			Old: "\tfor tag, ta := range kskCurrent {\n\t\tif ta.State == StateRevoked || ta.State == StateRemoved {\n\t\t\tcontinue\n\t\t}\n\t\tif _, tombstoned := tombstones[dnskeyMaterialFP(ta.DNSKey)]; tombstoned {",
			New: "\tfor tag, ta := range kskCurrent {\n\t\tif err == nil || ta.State == StateRevoked || ta.State == StateRemoved {\n\t\t\tcontinue\n\t\t}\n\t\tif _, tombstoned := tombstones[dnskeyMaterialFP(ta.DNSKey)]; tombstoned {",
			Why: "state-file entries exempt from tombstone precedence: a crash between the two writes republishes a revoked key (seeded C09)"},
	})
	addMutants("C12", []Mutant{
		{ID: "c12-restart-loses-ledger", File: "middleware/resolver/resolver.go", Expect: "C12-R6",
			Old: "\t\t\t\trequestID: rs.requestID,\n\t\t\t\twork:      rs.work,\n", New: "\t\t\t\trequestID: rs.requestID,\n",
			Why: "the no-minimisation restart runs unbudgeted (seeded C12)"},
		{ID: "c12-child-fresh-ledger", File: "middleware/resolver/resolver.go", Expect: "C12-R6",
			Old: "\t\twork:      middleware.RecursionWorkFrom(ctx),\n", New: "\t\twork:      nil,\n"},
	})
}
