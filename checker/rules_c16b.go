package main

// C16 second batch: structural invariants of the open-addressing table that all
// sibling operations must agree on.  Nothing is executed; the rules look at
// how slot indices are produced, where the zero key is diverted, and how the
// size counter follows slot claims.
//
//   R9  zero key is held out of band: in every UInt64Map method taking a key,
//       the slot array (and primaryIndex) is reached only behind key != 0.
//   R10 one probe sequence for every operation: each index into the slot array
//       is primaryIndex(k), (<probe index> + 1) & mask, offset & mask, a
//       whole-array scan counter, or an index parameter whose every caller
//       passes such a value.  A sibling that steps differently (or hashes
//       differently) cannot find what the others stored.
//   R11 size follows slot claims: a store of a key into a slot (only possible
//       behind "slot empty") is followed on every path by size++, the
//       "key already present" edge never reaches a size change, and setting
//       hasZeroKey is accompanied by size++ unless the flag was known set.

import (
	"fmt"
	"go/token"
	"go/types"

	"golang.org/x/tools/go/ssa"
)

func runC16b(c *Ctx) {
	const pkg = "internal/cache"
	pairKey := c.field("C16-R9", pkg+".Pair.Key")
	maskF := c.field("C16-R10", pkg+".UInt64Map.mask")
	sizeF := c.field("C16-R11", pkg+".UInt64Map.size")
	hasZero := c.field("C16-R11", pkg+".UInt64Map.hasZeroKey")
	primary := c.fobj("C16-R10", pkg+".(*UInt64Map).primaryIndex")
	if pairKey == nil || maskF == nil || sizeF == nil || hasZero == nil || primary == nil {
		return
	}
	pairT := c.P.TypeName(pkg + ".Pair")

	isSlotIndex := func(in ssa.Instruction) (*ssa.IndexAddr, bool) {
		ia, ok := in.(*ssa.IndexAddr)
		if !ok {
			return nil, false
		}
		sl, ok := ia.X.Type().Underlying().(*types.Slice)
		if !ok {
			return nil, false
		}
		n, ok := sl.Elem().(*types.Named)
		if !ok || pairT == nil || n.Origin().Obj() != pairT {
			return nil, false
		}
		return ia, true
	}

	var methods []*ssa.Function
	for _, fn := range c.P.FuncsInPkg(pkg) {
		if methodOn(funcObjOf(TopLevel(fn)), "UInt64Map") {
			methods = append(methods, fn)
		}
	}

	// ---- R9 ----------------------------------------------------------------
	c.Doc("C16-R9", "the zero key lives out of band (hasZeroKey/zeroVal): in every UInt64Map method with a key parameter, every access to the slot array and every primaryIndex call is behind the key != 0 edge — otherwise key 0 aliases an empty slot (Key == 0 is the empty marker)")
	isKeyParam := func(e *Expr) bool { e = strip(e); return e != nil && e.K == EParam && e.Name == "key" }
	for _, fn := range methods {
		if fn.Parent() != nil {
			continue
		}
		hasKey := false
		for _, p := range fn.Params {
			if p.Name() == "key" {
				if b, ok := p.Type().Underlying().(*types.Basic); ok && b.Kind() == types.Uint64 {
					hasKey = true
				}
			}
		}
		if !hasKey {
			continue
		}
		tgt := func(in ssa.Instruction) bool {
			if _, ok := isSlotIndex(in); ok {
				return true
			}
			return isPlainCallTo(primary)(in)
		}
		if len(instrsWhere(fn, tgt)) == 0 {
			continue
		}
		bar := OnCmp("key!=0", isKeyParam, token.NEQ, IsConstInt(0), true)
		fo := funcObjOf(fn)
		selfGuarded := true
		for _, in := range instrsWhere(fn, tgt) {
			if ug, _ := c.unguarded(in, []Barrier{bar}, fn); ug {
				selfGuarded = false
			}
		}
		if selfGuarded || fo == nil || fo.Exported() {
			c.MustCross("C16-R9", fn, "slot access / hash of key", tgt, bar)
			continue
		}
		// an unexported lookup helper may rely on its callers having diverted the zero key
		kidx := -1
		for i, p := range fn.Params {
			if p.Name() == "key" {
				kidx = i
			}
		}
		sites := c.CallSites(fo)
		key := fmt.Sprintf("C16-R9|%s|callers divert key 0", fnKey(fn))
		if len(sites) == 0 {
			c.violation("C16-R9", key, fn.Pos(), "helper probes the slot array without diverting key 0 and has no callers to do it")
		}
		for _, s := range sites {
			cc := callCommon(s.Instr)
			if cc == nil || kidx >= len(cc.Args) {
				c.violation("C16-R9", key, instrPos(s.Instr), "helper that probes without a zero-key check escapes as a value")
				continue
			}
			want := Desc(cc.Args[kidx]).String()
			cb := OnCmp("arg!=0", func(e *Expr) bool { e = strip(e); return e != nil && e.String() == want }, token.NEQ, IsConstInt(0), true)
			if ug, tr := c.unguarded(s.Instr, []Barrier{cb}, TopLevel(s.Fn)); ug {
				c.violation("C16-R9", key, instrPos(s.Instr), fmt.Sprintf("%s calls %s with a key that may be 0 (neither side diverts the zero key); path %s", fnKey(s.Fn), fo.Name(), tr))
			} else {
				c.ok("C16-R9", key, instrPos(s.Instr), fmt.Sprintf("%s diverts key 0 before calling %s", fnKey(s.Fn), fo.Name()))
			}
		}
	}
	c.Floor("C16-R9", 10)

	// ---- R10 ---------------------------------------------------------------
	c.Doc("C16-R10", "every index into a UInt64Map slot array is primaryIndex(k), (<probe index>+1) & mask, <int parameter> & mask, a whole-array scan counter (constants and +const only), or an index parameter all of whose callers pass such a value — all operations walk the same probe sequence, so what one stores another finds")
	g := &c16Grammar{c: c, primary: primary, maskF: maskF, memo: map[ssa.Value]string{}, inprog: map[ssa.Value]bool{}}
	for _, fn := range methods {
		for _, b := range fn.Blocks {
			for _, in := range b.Instrs {
				ia, ok := isSlotIndex(in)
				if !ok {
					continue
				}
				cls := g.classify(ia.Index, 0)
				key := fmt.Sprintf("C16-R10|%s|slot index", fnKey(fn))
				if cls == "" {
					c.violation("C16-R10", key, instrPos(in), fmt.Sprintf("slot index %s is not produced by the shared probe sequence (primaryIndex / (+1)&mask / scan counter): %s", Desc(ia.Index).String(), g.why))
				} else {
					c.ok("C16-R10", key, instrPos(in), "slot index is "+cls)
				}
			}
		}
	}
	c.Floor("C16-R10", 30)

	// ---- R11 ---------------------------------------------------------------
	c.Doc("C16-R11", "size follows slot claims: every store of a non-zero key into a slot is followed on all paths by a size increment; the `slot key == key` (update) edge reaches no size change; and hasZeroKey = true is accompanied (before or after, on every path through it) by a size increment unless the flag was known set and the function never clears it")
	isKeyClaim := func(in ssa.Instruction) bool {
		st, ok := in.(*ssa.Store)
		if !ok {
			return false
		}
		fa, ok := st.Addr.(*ssa.FieldAddr)
		if !ok {
			return false
		}
		if _, ok := fa.X.(*ssa.IndexAddr); !ok {
			return false
		}
		s, ok := deref(fa.X.Type()).Underlying().(*types.Struct)
		if !ok || fa.Field != 0 || s.Field(fa.Field).Name() != pairKey.Name() {
			return false
		}
		return !IsConstInt(0)(Desc(st.Val))
	}
	sizeDelta := func(sign token.Token) func(ssa.Instruction) bool {
		return func(in ssa.Instruction) bool {
			if !isFieldStore(in, sizeF, nil) {
				return false
			}
			st := in.(*ssa.Store)
			bo, ok := st.Val.(*ssa.BinOp)
			return ok && bo.Op == sign
		}
	}
	anySize := func(in ssa.Instruction) bool { return isFieldStore(in, sizeF, nil) }
	for _, fn := range methods {
		if fn.Parent() != nil {
			continue
		}
		if len(instrsWhere(fn, isKeyClaim)) > 0 {
			c.Paired("C16-R11", fn, "slot claim → size++", isKeyClaim, sizeDelta(token.ADD))
			// the update edge: slot key == key parameter
			upd := OnCmp("slot.Key==key", func(e *Expr) bool { return isSlotKeyLoad(e, pairKey) }, token.EQL, isKeyParam, true)
			if len(edgePoints(fn, upd)) > 0 {
				c.AfterEdge("C16-R11", fn, "size change on update of an existing key", upd, anySize)
			}
		}
		// zero-key flag
		setTrue := instrsWhere(fn, func(in ssa.Instruction) bool { return isFieldStore(in, hasZero, IsConstBool(true)) })
		if len(setTrue) == 0 {
			continue
		}
		clears := len(instrsWhere(fn, func(in ssa.Instruction) bool { return isFieldStore(in, hasZero, IsConstBool(false)) })) > 0
		bars := []Barrier{{Name: "size++", Instr: sizeDelta(token.ADD)}}
		if !clears {
			bars = append(bars, OnTrue("hasZeroKey already set", FieldIs(hasZero)))
		}
		for _, st := range setTrue {
			key := fmt.Sprintf("C16-R11|%s|hasZeroKey=true", fnKey(fn))
			before := reach(entryPoint(fn), bars, nil)
			if !before.visited[st] {
				c.ok("C16-R11", key, instrPos(st), "flag set only after size++ or with the flag already set")
				continue
			}
			after := reach([]Point{pointAfter(st)}, bars, nil)
			bad := false
			for _, t := range after.order {
				if isReturn(t) {
					bad = true
					c.violation("C16-R11", key, instrPos(st), "hasZeroKey = true on a path with no size increment before or after it: Len() loses the zero key; path "+c.trail(after, t))
					break
				}
			}
			if !bad {
				c.ok("C16-R11", key, instrPos(st), "flag set is followed by size++ on every path")
			}
		}
	}
	c.Floor("C16-R11", 8)
}

type c16Grammar struct {
	c       *Ctx
	primary *types.Func
	maskF   *types.Var
	memo    map[ssa.Value]string
	inprog  map[ssa.Value]bool
	why     string
}

func (g *c16Grammar) isMaskLoad(v ssa.Value) bool {
	e := strip(Desc(v))
	return e != nil && e.K == EField && e.Var == g.maskF
}

// counter: constants, + constant, phis of counters (a plain scan cursor)
func (g *c16Grammar) counter(v ssa.Value, seen map[ssa.Value]bool) bool {
	if seen[v] {
		return true
	}
	seen[v] = true
	switch x := v.(type) {
	case *ssa.Const:
		return true
	case *ssa.Phi:
		for _, e := range x.Edges {
			if !g.counter(e, seen) {
				return false
			}
		}
		return true
	case *ssa.BinOp:
		if x.Op == token.ADD || x.Op == token.SUB {
			_, c1 := x.Y.(*ssa.Const)
			return c1 && g.counter(x.X, seen)
		}
	}
	return false
}

func (g *c16Grammar) classify(v ssa.Value, depth int) string {
	if s, ok := g.memo[v]; ok {
		return s
	}
	if g.inprog[v] {
		return "probe (loop-carried)"
	}
	if depth > 12 {
		g.why = "too deep"
		return ""
	}
	g.inprog[v] = true
	defer delete(g.inprog, v)
	res := g.classify1(v, depth)
	if res != "" {
		g.memo[v] = res
	}
	return res
}

func (g *c16Grammar) classify1(v ssa.Value, depth int) string {
	if g.counter(v, map[ssa.Value]bool{}) {
		return "scan counter"
	}
	switch x := v.(type) {
	case *ssa.Call:
		if callIs(&x.Call, g.primary) {
			return "primaryIndex(k)"
		}
		// an unexported same-package helper computing the next index: every
		// value it can return must itself be in the grammar (its parameters are
		// resolved through all its call sites by the Parameter case)
		if h := localHelper(x.Parent(), &x.Call); h != nil && len(h.Blocks) > 0 {
			n := 0
			for _, b := range h.Blocks {
				for _, in := range b.Instrs {
					if r, ok := in.(*ssa.Return); ok && len(r.Results) == 1 {
						n++
						if g.classify(r.Results[0], depth+1) == "" {
							return ""
						}
					}
				}
			}
			if n > 0 {
				return "helper " + h.Name() + "(…)"
			}
		}
		g.why = "result of " + Desc(v).String()
		return ""
	case *ssa.Phi:
		for _, e := range x.Edges {
			if g.classify(e, depth+1) == "" {
				return ""
			}
		}
		return "probe cursor"
	case *ssa.BinOp:
		if x.Op == token.REM {
			// x % len(data): the same wrap as & mask (mask == len-1 by construction)
			if cl, ok := x.Y.(*ssa.Call); ok {
				if b, ok := cl.Call.Value.(*ssa.Builtin); ok && b.Name() == "len" && len(cl.Call.Args) == 1 {
					if sl, ok := cl.Call.Args[0].Type().Underlying().(*types.Slice); ok {
						if n, ok := sl.Elem().(*types.Named); ok && n.Obj().Name() == "Pair" {
							return g.stepOrOffset(x.X, depth)
						}
					}
				}
			}
		}
		if x.Op != token.AND {
			g.why = fmt.Sprintf("%s is not masked (wrap-around lost) or steps differently", Desc(v).String())
			return ""
		}
		other := x.X
		if g.isMaskLoad(x.X) {
			other = x.Y
		} else if !g.isMaskLoad(x.Y) {
			g.why = "masked with something other than m.mask"
			return ""
		}
		return g.stepOrOffset(other, depth)
	case *ssa.Parameter:
		fn := x.Parent()
		fo := funcObjOf(fn)
		if fo == nil || fo.Exported() {
			g.why = "index parameter of an exported function"
			return ""
		}
		idx := -1
		for i, p := range fn.Params {
			if p == x {
				idx = i
			}
		}
		sites := g.c.CallSites(fo)
		if len(sites) == 0 || idx < 0 {
			g.why = "no callers of " + fo.Name()
			return ""
		}
		for _, s := range sites {
			cc := callCommon(s.Instr)
			if cc == nil || idx >= len(cc.Args) {
				g.why = "non-call reference to " + fo.Name()
				return ""
			}
			if g.classify(cc.Args[idx], depth+1) == "" {
				return ""
			}
		}
		return "index parameter (all callers pass probe indices)"
	}
	g.why = Desc(v).String()
	return ""
}

// stepOrOffset: the value that is wrapped by the mask is a +1 step from a probe
// index or a plain int parameter (scan offset chosen by the caller).
func (g *c16Grammar) stepOrOffset(other ssa.Value, depth int) string {
	if p, ok := other.(*ssa.Parameter); ok {
		if b, ok := p.Type().Underlying().(*types.Basic); ok && b.Kind() == types.Int {
			return "offset & mask"
		}
	}
	if add, ok := other.(*ssa.BinOp); ok && add.Op == token.ADD {
		if k, ok := add.Y.(*ssa.Const); ok && IsConstInt(1)(Desc(k)) {
			if g.classify(add.X, depth+1) != "" {
				return "(probe+1) & mask"
			}
			return ""
		}
		g.why = fmt.Sprintf("probe step %s is not +1", Desc(add).String())
		return ""
	}
	g.why = fmt.Sprintf("%s & mask is neither a +1 step nor an int offset (a different hash than primaryIndex)", Desc(other).String())
	return ""
}
