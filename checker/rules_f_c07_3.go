package main

// F-C07-3 / C07-R10 — the descent level travels with the server set.
//
// resolveState.level is what checkGlueRR measures a glue owner's bailiwick
// against ("the owner shares at least `level` trailing labels with the query
// name"): it stands for the label count of the zone whose servers are being
// asked.  The two facts are one pair: whenever a resolveState is given a NEW
// server set, the level that accompanies it has to be computed from a name (a
// label count, a suffix comparison, the cached match's own depth, a constant
// for the root) — never from the level the state had before.  "One more than
// last time" counts referrals, not labels; a referral that skips an empty
// non-terminal moves two labels down, the count moves one, and from then on
// the servers of the deeper zone may supply glue for hosts in their sibling
// zones.
//
// Decided on the SSA CFG, nothing is executed:
//   for every store to resolveState.servers (discovered through the field, so a
//   new descent site is checked without being listed), on the same state object
//     (a) every path from the store to the point where the state leaves the
//         function (return, or a call that receives it) crosses a store to
//         .level whose value does not read .level, or
//     (b) such a store was crossed on every path that leads to the servers
//         store from the function entry and from every `.level = f(.level)`.
//   A freshly allocated state without a level store has level 0 (absolute).
//   A value that is a parameter of an in-module function is followed to the
//   arguments of its call sites (the pair extracted into a setter).
//
// Not decided: that the absolute value is the RIGHT label count (value-level).

import (
	"fmt"

	"golang.org/x/tools/go/ssa"
)

func init() {
	wrap := func(id string, extra func(c *Ctx), explain string) {
		pd := props[id]
		if pd == nil {
			return
		}
		orig := pd.Run
		pd.Run = func(c *Ctx) { orig(c); extra(c) }
		pd.Explanation += " " + explain
	}
	wrap("C07", c07R10, "R10 (added): a resolveState never receives a new server set together with a level that was counted up from its previous level — on every path the level stored next to resolveState.servers is computed from a name (label count / suffix comparison / the cached match's depth / a constant), because checkGlueRR measures the glue bailiwick with it and a referral may skip more than one label.")
}

func c07R10(c *Ctx) {
	const R = "C07-R10"
	c.Doc(R, "every store to resolveState.servers is accompanied, on every path before the state is handed on, by a store to resolveState.level (same state object) whose value does not derive from resolveState.level — the bailiwick depth checkGlueRR uses is the label count of the zone whose servers are asked, not the number of referrals followed")
	serversF := c.field(R, c07res+".resolveState.servers")
	levelF := c.field(R, c07res+".resolveState.level")
	if serversF == nil || levelF == nil {
		return
	}
	readsLevel := Contains(FieldIs(levelF))

	// relative(v, fn): the value is computed from the state's previous level,
	// directly or through a parameter whose call sites pass such a value.
	var relative func(e *Expr, fn *ssa.Function, depth int) (bool, string)
	relative = func(e *Expr, fn *ssa.Function, depth int) (bool, string) {
		if readsLevel(e) {
			return true, trunc(e.String(), 160)
		}
		if depth >= 3 || fn == nil {
			return false, ""
		}
		var params []*Expr
		Contains(func(x *Expr) bool {
			if x != nil && x.K == EParam && x.Idx >= 0 {
				params = append(params, x)
			}
			return false
		})(e)
		if len(params) == 0 {
			return false, ""
		}
		fo := funcObjOf(fn)
		if fo == nil { // a closure's parameter: not followed
			return false, ""
		}
		for _, p := range params {
			if pv, ok := p.V.(*ssa.Parameter); !ok || pv.Parent() != fn {
				continue
			}
			for _, s := range c.CallSites(fo) {
				if s.Kind == "ref" || s.Kind == "invoke" {
					continue
				}
				av := callArg(s.Instr, p.Idx)
				if av == nil {
					continue
				}
				if rel, why := relative(Desc(av), s.Fn, depth+1); rel {
					return true, fmt.Sprintf("%s (argument %q of %s in %s)", why, p.Name, fnKey(fn), fnKey(s.Fn))
				}
			}
		}
		return false, ""
	}

	sameBase := func(a, b ssa.Value) bool {
		if a == b {
			return true
		}
		// two loads of the same local cell; never across functions
		ia, oka := a.(ssa.Instruction)
		ib, okb := b.(ssa.Instruction)
		return oka && okb && ia.Parent() == ib.Parent() && Desc(a).String() == Desc(b).String()
	}
	levelStoreOn := func(in ssa.Instruction, base ssa.Value) (*ssa.Store, bool) {
		st, ok := in.(*ssa.Store)
		if !ok || !isFieldStore(in, levelF, nil) {
			return nil, false
		}
		return st, sameBase(st.Addr.(*ssa.FieldAddr).X, base)
	}

	// setsAbs: executing in stores an absolute level into the state `base`:
	// a direct store, or a call handing the state to a same-package function
	// that does so on every path from its entry to its returns.
	var setsAbs func(in ssa.Instruction, base ssa.Value, depth int) bool
	summary := map[string]int{} // 1 yes, 2 no, 3 in progress
	setsAbs = func(in ssa.Instruction, base ssa.Value, depth int) bool {
		if ls, same := levelStoreOn(in, base); ls != nil {
			if !same {
				return false
			}
			rel, _ := relative(Desc(ls.Val), in.Parent(), 0)
			return !rel
		}
		cl, ok := in.(*ssa.Call)
		if !ok || depth >= 3 {
			return false
		}
		h := cl.Call.StaticCallee()
		if h == nil || len(h.Blocks) == 0 || h.Pkg == nil || in.Parent().Pkg != h.Pkg {
			return false
		}
		for i, a := range cl.Call.Args {
			if !sameBase(a, base) || i >= len(h.Params) {
				continue
			}
			k := fmt.Sprintf("%s#%d", fnKey(h), i)
			switch summary[k] {
			case 1:
				return true
			case 2, 3:
				return false
			}
			summary[k] = 3
			hp := h.Params[i]
			r := reach(entryPoint(h), []Barrier{{Name: "level store in helper", Instr: func(x ssa.Instruction) bool { return x.Parent() == h && setsAbs(x, hp, depth+1) }}}, nil)
			all := true
			for _, x := range r.order {
				if isReturn(x) && x.Parent() == h {
					all = false
				}
			}
			if all {
				summary[k] = 1
				return true
			}
			summary[k] = 2
		}
		return false
	}

	n := 0
	seenKey := map[string]int{}
	for _, site := range c.StoreSites(serversF) {
		st, ok := site.Instr.(*ssa.Store)
		if !ok {
			continue
		}
		fa, ok := st.Addr.(*ssa.FieldAddr)
		if !ok {
			continue
		}
		n++
		fn := site.Fn
		base := fa.X
		what := "level stored with servers"
		if _, fresh := base.(*ssa.Alloc); fresh {
			what = "level stored with servers (new state)"
		}
		key := fmt.Sprintf("%s|%s|%s", R, fnKey(fn), what)
		seenKey[key]++
		if k := seenKey[key]; k > 1 {
			key = fmt.Sprintf("%s #%d", key, k)
		}

		var relWhy string
		absStore := Barrier{Name: "level = <from a name>", Instr: func(in ssa.Instruction) bool {
			return setsAbs(in, base, 0)
		}}
		var relStores []ssa.Instruction
		nLevel := 0
		for _, in := range instrsWhere(fn, func(in ssa.Instruction) bool { ls, same := levelStoreOn(in, base); return ls != nil && same }) {
			if in.Parent() != fn {
				continue
			}
			nLevel++
			if rel, why := relative(Desc(in.(*ssa.Store).Val), fn, 0); rel {
				relStores = append(relStores, in)
				relWhy = why
			}
		}

		// a state under construction: no level store at all means level 0
		if _, fresh := base.(*ssa.Alloc); fresh && nLevel == 0 {
			c.ok(R, key, instrPos(st), "fresh resolveState without a level store: level is the zero value (root)")
			continue
		}

		// (a) after the servers store, before the state leaves the function
		leaves := func(in ssa.Instruction) bool {
			if isReturn(in) {
				return true
			}
			cc := callCommon(in)
			if cc == nil || setsAbs(in, base, 0) {
				return false
			}
			for _, a := range cc.Args {
				if sameBase(a, base) {
					return true
				}
			}
			return cc.IsInvoke() && sameBase(cc.Value, base)
		}
		after := reach([]Point{pointAfter(st)}, []Barrier{absStore}, leaves)
		var escape ssa.Instruction
		for _, in := range after.order {
			if in != ssa.Instruction(st) && leaves(in) {
				// a call that merely precedes the level store in a helper that
				// crosses it is already cut by reach (alwaysCrosses)
				escape = in
				break
			}
		}
		if escape == nil {
			c.ok(R, key, instrPos(st), "every path from the servers store to the hand-over crosses an absolute level store")
			continue
		}
		// (b) primed before: no way from the entry or from a relative level store to the servers store
		starts := entryPoint(fn)
		for _, rs := range relStores {
			starts = append(starts, pointAfter(rs))
		}
		before := reach(starts, []Barrier{absStore}, nil)
		if !before.visited[st] {
			// and nothing relative happens between the servers store and the hand-over
			relAfter := false
			for _, rs := range relStores {
				if after.visited[rs] {
					relAfter = true
				}
			}
			if !relAfter {
				c.ok(R, key, instrPos(st), "an absolute level store precedes the servers store on every path")
				continue
			}
		}
		msg := "resolveState.servers is replaced and the state is handed on (" + c.lineOf(escape) + ") with a level that was not recomputed from a name"
		if relWhy != "" {
			msg += ": the level on this path is " + relWhy + " — one label per referral"
		} else {
			msg += ": no store to resolveState.level on this path"
		}
		msg += "; checkGlueRR measures the glue bailiwick against the last `level` labels of the query name, so after a referral that skipped a label (empty non-terminal, minimisation off or exhausted) the new zone's servers can plant addresses for hosts of their sibling zones in the process-wide glue cache; path " + c.trail(after, escape)
		c.violation(R, key, instrPos(st), msg)
	}
	if n < 2 {
		c.unresolved(R, "resolveState.servers stores", fmt.Sprintf("expected the descent sites and the state constructors, found %d stores", n))
	}
}
