package main

import (
	"fmt"
	"go/token"
	"go/types"
	"strings"

	"golang.org/x/tools/go/ssa"
)

func init() {
	register(&PropDef{
		ID:    "C16",
		Title: "Bounded concurrent tables behave as maps and stay within capacity",
		Run:   runC16,
		Explanation: "Decided (structure only): R1 every UInt64Map method call on segment.data happens under that segment's rwlock (write lock for mutators); " +
			"R2 the global count is changed only by Add(delta) with delta a constant ±1 or derived from a size/deletion count read from the same table — never Store/Swap/CAS after construction; " +
			"R3 the write paths take only segment locks, never nested; R4 EvictKeysAt is called with the inserted key as skip and clears a slot only behind k != skip / skip != 0; " +
			"R5 every slot clear in UInt64Map is followed on all paths by size-- and backwardShiftDelete; R6 CompareAndSwap/CompareAndDelete write only behind the identity comparison under the write lock; " +
			"R7 LimiterStore map accesses under its mutex; R8 the backward-shift move condition is the cyclic-interval predicate (decision table over three comparison atoms); " +
			"R9 the zero key is diverted before any slot access in every keyed operation; R10 every slot index comes from the one shared probe sequence (primaryIndex, +1 & mask, scan counters); R11 the size counter follows slot claims (claim ⇒ size++, update ⇒ no change, zero-key flag ⇒ size++).",
		NotDecided: []string{
			"the map abstraction of the open-addressing table itself (ghost entries, duplicate keys, wrap-around of probe chains, growth) — an inductive invariant over operation sequences",
			"the numeric bound capacity + concurrent writers",
			"linearizability under interleavings",
		},
	})
}

func methodOn(fo *types.Func, typeName string) bool {
	if fo == nil {
		return false
	}
	sig, _ := fo.Type().(*types.Signature)
	if sig == nil || sig.Recv() == nil {
		return false
	}
	t := deref(sig.Recv().Type())
	if n, ok := t.(*types.Named); ok {
		return n.Obj().Name() == typeName
	}
	return false
}

func methodOnPkg(fo *types.Func, pkgSuffix, typeName string) bool {
	if !methodOn(fo, typeName) {
		return false
	}
	return fo.Pkg() != nil && strings.HasSuffix(fo.Pkg().Path(), pkgSuffix)
}

func runC16(c *Ctx) {
	const pkg = "internal/cache"
	dataF := c.field("C16-R1", pkg+".segment.data")
	countF := c.field("C16-R2", pkg+".SegmentUInt64Map.count")
	if dataF == nil || countF == nil {
		return
	}
	writers := map[string]bool{"Put": true, "PutIfNotExists": true, "Del": true, "EvictKeysAt": true, "Clear": true}

	// R1 lock discipline
	c.Doc("C16-R1", "every UInt64Map method call whose receiver is a load of segment.data executes with that segment's rwlock held (write lock for Put/PutIfNotExists/Del/EvictKeysAt/Clear)")
	for _, fn := range c.P.FuncsInPkg(pkg) {
		var acc []Access
		for _, b := range fn.Blocks {
			for _, in := range b.Instrs {
				cl, ok := in.(*ssa.Call)
				if !ok {
					continue
				}
				fo, _, _ := calleeObj(&cl.Call)
				if !methodOn(fo, "UInt64Map") || len(cl.Call.Args) == 0 {
					continue
				}
				recv := Desc(cl.Call.Args[0])
				if recv.K != EField || recv.Var != dataF {
					continue
				}
				acc = append(acc, Access{In: in, Lock: recv.X.String() + ".rwlock", Write: writers[fo.Name()], What: "segment.data." + fo.Name()})
			}
		}
		if len(acc) > 0 {
			c.LockHeld("C16-R1", fn, nil, acc)
		}
	}
	c.Floor("C16-R1", 16)

	// R2 count discipline
	c.Doc("C16-R2", "SegmentUInt64Map.count is mutated only through Add(delta); delta is the constant ±1 or a (negated/converted) result of a UInt64Map method; Store/Swap/CompareAndSwap never (after construction the zero value is the initial count)")
	for _, fn := range c.P.FuncsInPkg(pkg) {
		for _, b := range fn.Blocks {
			for _, in := range b.Instrs {
				cl, ok := in.(*ssa.Call)
				if !ok || len(cl.Call.Args) == 0 {
					continue
				}
				fo, _, _ := calleeObj(&cl.Call)
				if fo == nil || fo.Pkg() == nil || fo.Pkg().Path() != "sync/atomic" {
					continue
				}
				recv := Desc(cl.Call.Args[0])
				if recv.K != EField || recv.Var != countF {
					continue
				}
				key := fmt.Sprintf("C16-R2|%s|count.%s", fnKey(fn), fo.Name())
				switch fo.Name() {
				case "Load":
					c.ok("C16-R2", key, instrPos(in), "read of count")
				case "Add":
					c.OriginCheck("C16-R2", key, in, "count.Add delta", cl.Call.Args[1], func(e *Expr) []int { return nil },
						func(e *Expr) bool {
							// ±1, or -(x)/conv(x) of a UInt64Map method result
							for {
								e = strip(e)
								if e != nil && e.K == EUn && e.Op == token.SUB {
									e = e.X
									continue
								}
								break
							}
							if e == nil {
								return false
							}
							if e.K == EConst {
								return IsConstInt(1)(e) || IsConstInt(-1)(e)
							}
							if e.K == ECall && methodOn(e.Fn, "UInt64Map") {
								return true
							}
							return false
						})
				default:
					c.violation("C16-R2", key, instrPos(in), fmt.Sprintf("count.%s overwrites the global count: a concurrent Set's Add(1) between the segment unlock and this call is lost, so Len() != reachable entries", fo.Name()))
				}
			}
		}
	}
	c.Floor("C16-R2", 9)

	// R3 no global / nested lock on the write path
	c.Doc("C16-R3", "Set, SetWithCap, PutIfNotExists, Del, CompareAndSwap, CompareAndDelete acquire only segment rwlocks and never a second one while one is held")
	for _, name := range []string{pkg + ".(*SegmentUInt64Map).Set", pkg + ".(*SegmentUInt64Map).SetWithCap", pkg + ".(*SegmentUInt64Map).PutIfNotExists", pkg + ".(*SegmentUInt64Map).Del", pkg + ".(*Cache).CompareAndSwap", pkg + ".(*Cache).CompareAndDelete", pkg + ".(*Cache).Add", pkg + ".(*Cache).Remove"} {
		fn := c.fn("C16-R3", name)
		if fn == nil {
			continue
		}
		c.NoNestedLock("C16-R3", fn, func(recv string) bool { return true })
		for _, f := range WithAnons(fn) {
			for _, b := range f.Blocks {
				for _, in := range b.Instrs {
					if op, recv, ok := lockOp(in); ok && (op == "Lock" || op == "RLock") {
						key := fmt.Sprintf("C16-R3|%s|lockclass", fnKey(fn))
						if strings.HasSuffix(recv, ".rwlock") {
							c.ok("C16-R3", key, instrPos(in), "segment lock "+recv)
						} else {
							c.violation("C16-R3", key, instrPos(in), "write path acquires a non-segment lock "+recv)
						}
					}
				}
			}
		}
	}
	c.Floor("C16-R3", 8)

	// R4 an insert never evicts itself
	c.Doc("C16-R4", "both EvictKeysAt calls in SetWithCap pass the inserted key as skip; in EvictKeysAt a slot is cleared only behind k != skip and the zero key only behind skip != 0")
	evict := c.fobj("C16-R4", pkg+".(*UInt64Map).EvictKeysAt")
	if swc := c.fn("C16-R4", pkg+".(*SegmentUInt64Map).SetWithCap"); swc != nil && evict != nil {
		n := 0
		for _, in := range instrsWhere(swc, isPlainCallTo(evict)) {
			n++
			c.OriginCheck("C16-R4", "C16-R4|SetWithCap|skip", in, "EvictKeysAt skip argument", callArg(in, 3), nil,
				func(e *Expr) bool { return e.K == EParam && e.Name == "key" })
		}
		if n < 2 {
			c.unresolved("C16-R4", "SetWithCap", fmt.Sprintf("expected 2 EvictKeysAt calls, found %d", n))
		}
	}
	pairKey := c.field("C16-R4", pkg+".Pair.Key")
	hasZero := c.field("C16-R4", pkg+".UInt64Map.hasZeroKey")
	sizeF := c.field("C16-R5", pkg+".UInt64Map.size")
	isSkip := func(e *Expr) bool { return e.K == EParam && e.Name == "skip" }
	if ev := c.fn("C16-R4", pkg+".(*UInt64Map).EvictKeysAt"); ev != nil && pairKey != nil && hasZero != nil {
		c.MustCross("C16-R4", ev, "slot clear (Key=0)", func(in ssa.Instruction) bool { return isSlotKeyClear(in, pairKey) },
			OnCmp("k==skip", func(e *Expr) bool { return isSlotKeyLoad(e, pairKey) }, token.EQL, isSkip, false))
		c.MustCross("C16-R4", ev, "zero-key eviction (hasZeroKey=false)", func(in ssa.Instruction) bool { return isFieldStore(in, hasZero, IsConstBool(false)) },
			OnCmp("skip!=0", isSkip, token.NEQ, IsConstInt(0), true))
	}

	// R5 every slot clear repairs its chain
	c.Doc("C16-R5", "in UInt64Map every data[i].Key = 0 outside Clear/grow/backwardShiftDelete is followed on all paths by size-- and backwardShiftDelete")
	bsd := c.fobj("C16-R5", pkg+".(*UInt64Map).backwardShiftDelete")
	if pairKey != nil && bsd != nil && sizeF != nil {
		for _, fn := range c.P.FuncsInPkg(pkg) {
			top := TopLevel(fn)
			if !methodOn(funcObjOf(top), "UInt64Map") {
				continue
			}
			switch top.Name() {
			case "Clear", "grow", "backwardShiftDelete":
				continue
			}
			has := false
			for _, b := range fn.Blocks {
				for _, in := range b.Instrs {
					if isSlotKeyClear(in, pairKey) {
						has = true
					}
				}
			}
			if !has || fn.Parent() != nil {
				continue
			}
			c.Paired("C16-R5", fn, "slot clear → backwardShiftDelete", func(in ssa.Instruction) bool { return isSlotKeyClear(in, pairKey) }, isPlainCallTo(bsd))
			c.Paired("C16-R5", fn, "slot clear → size--", func(in ssa.Instruction) bool { return isSlotKeyClear(in, pairKey) }, func(in ssa.Instruction) bool { return isFieldStore(in, sizeF, nil) })
		}
	}
	c.Floor("C16-R5", 2) // ≥ one function that clears a slot (two obligations per function); the three sites may legitimately share a helper

	// R6 identity CAS
	c.Doc("C16-R6", "CompareAndSwap/CompareAndDelete mutate only behind ok=true and cur == old (identity), under the segment write lock (R1)")
	getF := c.fobj("C16-R6", pkg+".(*UInt64Map).Get")
	putF := c.fobj("C16-R6", pkg+".(*UInt64Map).Put")
	delF := c.fobj("C16-R6", pkg+".(*UInt64Map).Del")
	isOld := func(e *Expr) bool { return e.K == EParam && e.Name == "old" }
	for _, pr := range []struct {
		fn  string
		mut *types.Func
	}{{pkg + ".(*Cache).CompareAndSwap", putF}, {pkg + ".(*Cache).CompareAndDelete", delF}} {
		fn := c.fn("C16-R6", pr.fn)
		if fn == nil || getF == nil || pr.mut == nil {
			continue
		}
		c.MustCross("C16-R6", fn, "mutation", isPlainCallTo(pr.mut), OnCmp("cur==old", ResultOf(0, getF), token.EQL, isOld, true))
		c.MustCross("C16-R6", fn, "mutation", isPlainCallTo(pr.mut), OnTrue("present", ResultOf(1, getF)))
	}

	// R8 backward-shift move condition = cyclic interval predicate
	c.Doc("C16-R8", "backwardShiftDelete: the entry at j is left in place (continue) exactly when its ideal slot k lies cyclically in (i, j]: (i<=j ? i<k && k<=j : i<k || k<=j); decided as a decision table of the branch structure over the three comparison atoms, nothing executed")
	if fn := c.fn("C16-R8", pkg+".(*UInt64Map).backwardShiftDelete"); fn != nil {
		primary := c.fobj("C16-R8", pkg+".(*UInt64Map).primaryIndex")
		isK := CallTo(primary)
		isJ := func(e *Expr) bool { e = strip(e); return e != nil && e.K == EBin && e.Op == token.AND }
		isI := func(e *Expr) bool { e = strip(e); return e != nil && (e.K == EPhi || e.K == EParam) }
		atoms := []CmpAtom{{"i<=j", isI, isJ, token.LEQ}, {"i<k", isI, isK, token.LSS}, {"k<=j", isK, isJ, token.LEQ}}
		// start right after k is computed
		var start *Point
		for _, in := range instrsWhere(fn, isPlainCallTo(primary)) {
			p := pointAfter(in)
			start = &p
		}
		key := "C16-R8|backwardShiftDelete|move condition"
		if start == nil {
			c.unresolved("C16-R8", "backwardShiftDelete", "primaryIndex call not found")
		} else {
			loopHead := start.B
			tab, why := DecisionTable(*start, atoms, func(in ssa.Instruction) string {
				if st, ok := in.(*ssa.Store); ok {
					if _, isIdx := st.Addr.(*ssa.IndexAddr); isIdx {
						return "move"
					}
				}
				// back at the loop body head without having moved = continue
				if in.Block() != loopHead && len(in.Block().Instrs) > 0 && in == in.Block().Instrs[0] {
					for _, s := range in.Block().Succs {
						_ = s
					}
				}
				if in.Block() != start.B && in == in.Block().Instrs[0] && c16IsLoopBody(in.Block(), primary) {
					return "continue"
				}
				return ""
			})
			if why != "" {
				c.undecided("C16-R8", key, fn.Pos(), "cannot decide the move condition: "+why)
			} else {
				bad := ""
				for row := range tab {
					A, B, C := row&1 != 0, row&2 != 0, row&4 != 0
					wantContinue := (A && B && C) || (!A && (B || C))
					got := tab[row] == "continue"
					if got != wantContinue {
						bad = fmt.Sprintf("for i<=j=%v, i<k=%v, k<=j=%v the code does %q, the cyclic-interval rule says continue=%v", A, B, C, tab[row], wantContinue)
						break
					}
				}
				if bad != "" {
					c.violation("C16-R8", key, fn.Pos(), "backward shift moves/keeps the wrong entries: "+bad)
				} else {
					c.ok("C16-R8", key, fn.Pos(), "continue ⇔ k ∈ (i, j] cyclically, for all 8 atom assignments")
				}
			}
		}
	}

	// R7 LimiterStore under mu
	runLimiterStore(c)

	// R9-R11 probe-sequence / zero-key / size discipline shared by all operations
	runC16b(c)
}

// c16IsLoopBody: the block (re)computes the probe index — i.e. it is the head
// of the scan loop body, reached again without a move.
func c16IsLoopBody(b *ssa.BasicBlock, primary *types.Func) bool {
	for _, in := range b.Instrs {
		if bo, ok := in.(*ssa.BinOp); ok && bo.Op == token.AND {
			return true
		}
		if isPlainCallTo(primary)(in) {
			return true
		}
	}
	return false
}

func funcObjOf(fn *ssa.Function) *types.Func {
	if fn == nil {
		return nil
	}
	f := fn
	if o := f.Origin(); o != nil {
		f = o
	}
	fo, _ := f.Object().(*types.Func)
	return fo
}

// isSlotKeyClear: store of constant 0 into data[i].Key
func isSlotKeyClear(in ssa.Instruction, pairKey *types.Var) bool {
	st, ok := in.(*ssa.Store)
	if !ok {
		return false
	}
	fa, ok := st.Addr.(*ssa.FieldAddr)
	if !ok {
		return false
	}
	s, ok := deref(fa.X.Type()).Underlying().(*types.Struct)
	if !ok || s.Field(fa.Field).Name() != pairKey.Name() || fa.Field != 0 {
		return false
	}
	if _, ok := fa.X.(*ssa.IndexAddr); !ok {
		return false
	}
	return IsConstInt(0)(Desc(st.Val))
}

func isSlotKeyLoad(e *Expr, pairKey *types.Var) bool {
	e = strip(e)
	return e != nil && e.K == EField && e.Name == pairKey.Name() && e.X != nil && e.X.K == EIndex
}

func runLimiterStore(c *Ctx) {
	c.Doc("C16-R7", "every access to LimiterStore.limiters happens under LimiterStore.mu (write lock for map writes/deletes); helpers without lock operations inherit what all their callers hold")
	lim := c.field("C16-R7", "middleware/ratelimit.LimiterStore.limiters")
	if lim == nil {
		return
	}
	c.GuardedFields(guardSpec{Rule: "C16-R7", Pkg: "middleware/ratelimit", Fields: []*types.Var{lim}, Mutex: "mu"})
	c.Floor("C16-R7", 8)
}
