package main

import (
	"fmt"
	"go/constant"
	"go/token"
	"go/types"
	"sort"
	"strings"

	"golang.org/x/tools/go/ssa"
)

// ---------------------------------------------------------------------------
// R4 replies are derived from the request

type c06Derive struct {
	c        *Ctx
	rule     string
	setters  []*types.Func // SetReply, SetRcode, SetRcodeFormatError
	fId      *types.Var
	fResp    *types.Var
	fOpcode  *types.Var
	fMsgHdr  *types.Var
	done     map[*ssa.Function]bool
	nAlloc   int
	nCallees int
}

// hdrStore: `in` writes header field fv of the message allocated at a with a
// value matching val — directly (a.MsgHdr.f = v, also inside &dns.Msg{…}) or
// through a header image (a.MsgHdr = dns.MsgHdr{f: v, …}).
func (d *c06Derive) hdrStore(in ssa.Instruction, a *ssa.Alloc, fv *types.Var, val Pat) bool {
	if x5FieldStoreOn(in, a, fv, val) {
		return true
	}
	st, ok := in.(*ssa.Store)
	if !ok {
		return false
	}
	fa, ok := st.Addr.(*ssa.FieldAddr)
	if !ok || fa.X != a {
		return false
	}
	s, ok := deref(fa.X.Type()).Underlying().(*types.Struct)
	if !ok || s.Field(fa.Field).Origin() != d.fMsgHdr {
		return false
	}
	ld, ok := st.Val.(*ssa.UnOp)
	if !ok || ld.Op != token.MUL {
		return false
	}
	img, ok := ld.X.(*ssa.Alloc)
	if !ok || img.Referrers() == nil {
		return false
	}
	for _, r := range *img.Referrers() {
		ifa, ok := r.(*ssa.FieldAddr)
		if !ok || ifa.Referrers() == nil {
			continue
		}
		for _, rr := range *ifa.Referrers() {
			if x5FieldStoreOn(rr, img, fv, val) {
				return true
			}
		}
	}
	return false
}

func x5ReqID(fId *types.Var) Pat {
	return AnyOf(FieldIs(fId), MethodNamed("ID"))
}

// checkAlloc: the sink is unreachable from the allocation without the three
// header facts being taken from the request.
func (d *c06Derive) checkAlloc(fn *ssa.Function, a *ssa.Alloc, sink ssa.Instruction, what string) {
	c := d.c
	d.nAlloc++
	key := fmt.Sprintf("%s|%s|%s", d.rule, fnKey(fn), what)
	common := []Barrier{
		{Name: "SetReply/SetRcode on the message", Instr: x5CallOnValue(a, d.setters...)},
		// no request to echo: the nil-request arm of a constructor
		OnFalse("req==nil", func(e *Expr) bool { return e.K == EParam && e.V != nil && x5IsDNSMsgPtr(e.V.Type()) }),
	}
	facts := []struct {
		name string
		fv   *types.Var
		val  Pat
	}{
		{"Id", d.fId, AnyOf(FieldIs(d.fId), MethodNamed("ID"))},
		{"Response", d.fResp, IsConstBool(true)},
		{"Opcode", d.fOpcode, AnyOf(FieldIs(d.fOpcode), MethodNamed("Opcode"))},
	}
	var missing []string
	for _, f := range facts {
		f := f
		bars := append([]Barrier{{Name: f.name + " from request", Instr: func(in ssa.Instruction) bool { return d.hdrStore(in, a, f.fv, f.val) }}}, common...)
		r := reach([]Point{pointAfter(a)}, bars, nil)
		if r.visited[sink] {
			missing = append(missing, f.name+" (path "+c.trail(r, sink)+")")
		}
	}
	if len(missing) == 0 {
		c.ok(d.rule, key, instrPos(sink), "message allocated at "+c.P.pos(a.Pos())+" carries Id/QR/Opcode derived from the request on every path to "+what)
	} else {
		c.violation(d.rule, key, instrPos(sink), "message allocated at "+c.P.pos(a.Pos())+" reaches "+what+" without taking from the request: "+strings.Join(missing, "; "))
	}
}

// checkValue classifies the origins of a message value flowing into a sink.
func (d *c06Derive) checkValue(fn *ssa.Function, v ssa.Value, sink ssa.Instruction, what string, depth int) {
	allocs, others := x5LeafKinds(v)
	for _, a := range allocs {
		if x5IsNamedType(a.Type(), x5DnsPkg, "Msg") {
			d.checkAlloc(fn, a, sink, what)
		}
	}
	for _, o := range others {
		o = strip(o)
		if o == nil {
			continue
		}
		call := o
		idx := 0
		if o.K == EExtract {
			call, idx = strip(o.X), o.Idx
		}
		if call == nil || call.K != ECall || call.SFn == nil || len(call.SFn.Blocks) == 0 || depth >= 3 {
			continue // parameter, nil, field, upstream exchange result: not built here
		}
		callee := call.SFn
		if !x5InPkgTree(callee, "middleware", "server", "internal/dnsutil") || d.done[callee] {
			continue
		}
		d.done[callee] = true
		d.nCallees++
		for _, b := range callee.Blocks {
			for _, in := range b.Instrs {
				ret, ok := in.(*ssa.Return)
				if !ok || idx >= len(ret.Results) || !x5IsDNSMsgPtr(ret.Results[idx].Type()) {
					continue
				}
				d.checkValue(callee, ret.Results[idx], ret, "return", depth+1)
			}
		}
	}
}

func c06R4(c *Ctx) {
	const R = "C06-R4"
	c.Doc(R, "every *dns.Msg allocated in middleware/…, server/…, internal/dnsutil that reaches a WriteMsg call (directly or as the result of an in-module constructor, ≤3 levels) crosses SetReply/SetRcode/SetRcodeFormatError on that message, or explicit stores of Id←request id, Response←true, Opcode←request opcode; committed wire bodies cross wire.ApplyReply(body, request id, request opcode, …); doq.WriteMsg zeroes Id before Pack")
	d := &c06Derive{c: c, rule: R, done: map[*ssa.Function]bool{}}
	d.setters = c.fobjs(R, x5DnsPkg+".(*Msg).SetReply", x5DnsPkg+".(*Msg).SetRcode", x5DnsPkg+".(*Msg).SetRcodeFormatError")
	d.fId = c.field(R, x5DnsPkg+".MsgHdr.Id")
	d.fResp = c.field(R, x5DnsPkg+".MsgHdr.Response")
	d.fOpcode = c.field(R, x5DnsPkg+".MsgHdr.Opcode")
	d.fMsgHdr = c.field(R, x5DnsPkg+".Msg.MsgHdr")
	if len(d.setters) != 3 || d.fId == nil || d.fResp == nil || d.fOpcode == nil || d.fMsgHdr == nil {
		return
	}
	for _, fn := range c.P.RepoFuncs() {
		if !x5InPkgTree(fn, "middleware", "server", "internal/dnsutil") {
			continue
		}
		for _, b := range fn.Blocks {
			for _, in := range b.Instrs {
				if a := x5MsgWriteArg(in); a != nil {
					d.checkValue(fn, a, in, "WriteMsg", 0)
				}
			}
		}
	}
	if d.nAlloc < 20 {
		c.unresolved(R, "allocated replies", fmt.Sprintf("expected ≥20 locally allocated reply messages (16 at writers + constructors), found %d", d.nAlloc))
	}

	// wire producers
	apply := c.fobj(R, "internal/wire.ApplyReply")
	if apply == nil {
		return
	}
	applyOK := map[*ssa.Function]bool{}
	var producerOK func(g *ssa.Function, depth int) (bool, string)
	producerOK = func(g *ssa.Function, depth int) (bool, string) {
		// every return of a non-nil body crosses ApplyReply, or forwards the
		// body of another producer that does
		n := 0
		for _, in := range returnsWhere(g, 0, func(e *Expr) bool { return !IsNilConst(e) }) {
			n++
			ug, tr := c.unguarded(in, []Barrier{CallBarrier("ApplyReply", apply)}, g)
			if !ug {
				continue
			}
			for _, l := range Origins(Desc(in.(*ssa.Return).Results[0]), nil) {
				l = strip(l)
				if IsNilConst(l) {
					continue
				}
				if l.K != EExtract || l.Idx != 0 || strip(l.X).K != ECall || strip(l.X).SFn == nil || len(strip(l.X).SFn.Blocks) == 0 || depth >= 3 {
					return false, tr
				}
				if okp, tr2 := producerOK(strip(l.X).SFn, depth+1); !okp {
					return false, tr + " → " + fnKey(strip(l.X).SFn) + ": " + tr2
				}
			}
		}
		return n > 0, "no body return"
	}
	nSink := 0
	for _, fn := range c.P.RepoFuncs() {
		if !x5InPkgTree(fn, "middleware", "server") {
			continue
		}
		switch TopLevel(fn).Name() {
		case "WriteWire", "CommitWire":
			continue // writer layers forward the caller's body
		}
		for _, b := range fn.Blocks {
			for _, in := range b.Instrs {
				cc := callCommon(in)
				if cc == nil || !cc.IsInvoke() || (cc.Method.Name() != "CommitWire" && cc.Method.Name() != "WriteWire") {
					continue
				}
				nSink++
				key := fmt.Sprintf("%s|%s|%s body", R, fnKey(TopLevel(fn)), cc.Method.Name())
				if ug, _ := c.unguarded(in, []Barrier{CallBarrier("ApplyReply", apply)}, TopLevel(fn)); !ug {
					c.ok(R, key, instrPos(in), "body is stamped by wire.ApplyReply in this function before the commit")
					continue
				}
				leaves := Origins(Desc(cc.Args[0]), nil)
				good := len(leaves) > 0
				var why string
				for _, l := range leaves {
					l = strip(l)
					call := l
					if l.K == EExtract && l.Idx == 0 {
						call = strip(l.X)
					}
					if call.K != ECall || call.SFn == nil || len(call.SFn.Blocks) == 0 {
						good, why = false, "body origin "+trunc(l.String(), 100)+" is not a producer call"
						break
					}
					okp, seen := applyOK[call.SFn]
					if !seen {
						var tr string
						okp, tr = producerOK(call.SFn, 0)
						applyOK[call.SFn] = okp
						if !okp {
							why = fnKey(call.SFn) + " returns a body without wire.ApplyReply; path " + tr
						}
					}
					if !okp {
						good = false
						if why == "" {
							why = fnKey(call.SFn) + " returns a body without wire.ApplyReply"
						}
						break
					}
				}
				c.x5Decide(R, key, instrPos(in), good, "body comes from producer(s) whose every body return crosses wire.ApplyReply", "committed body is not stamped with the request header: "+why)
			}
		}
	}
	if nSink < 5 {
		c.unresolved(R, "wire commit sites", fmt.Sprintf("expected ≥5 CommitWire/WriteWire producer sites, found %d", nSink))
	}
	// ApplyReply arguments: id and opcode of the request
	for _, s := range c.CallSites(apply) {
		if s.Kind != "call" {
			continue
		}
		id, op := Desc(callArg(s.Instr, 1)), Desc(callArg(s.Instr, 2))
		good := AnyOf(FieldIs(d.fId), MethodNamed("ID"))(id) && AnyOf(FieldIs(d.fOpcode), MethodNamed("Opcode"))(op)
		c.x5Decide(R, fmt.Sprintf("%s|%s|ApplyReply args", R, fnKey(TopLevel(s.Fn))), instrPos(s.Instr), good,
			"ApplyReply(body, request id, request opcode, …)", "ApplyReply is not fed the request's id/opcode: "+id.String()+", "+op.String())
	}
	// DoQ: Id = 0 before packing
	if fn := c.fn(R, "server/doq.(*ResponseWriter).WriteMsg"); fn != nil {
		c.MustCross(R, fn, "Pack", isCallNamed("Pack", "PackBuffer"), StoreBarrier("m.Id=0", d.fId, IsConstInt(0)))
	}
	c.Floor(R, 35)
}

// ---------------------------------------------------------------------------
// R5 header-level accept

// x5CanonExpr renders a header predicate position-free and representation-free:
// field bases and conversions are dropped, the two header structs' field names
// are unified, and single-block accessor methods are expanded in place.
func x5CanonExpr(e *Expr, depth int) string {
	e = strip(e)
	if e == nil || depth > 12 {
		return "?"
	}
	switch e.K {
	case EConst:
		if e.Val == nil {
			return "nil"
		}
		if e.Val.Kind() == constant.Int {
			return e.Val.ExactString()
		}
		return e.Val.String()
	case EField:
		n := strings.ToLower(e.Name)
		if n == "flags" {
			n = "bits"
		}
		return n
	case EBin:
		return "(" + x5CanonExpr(e.X, depth+1) + " " + e.Op.String() + " " + x5CanonExpr(e.Y, depth+1) + ")"
	case EUn:
		return e.Op.String() + x5CanonExpr(e.X, depth+1)
	case ECall:
		if x5IsBuiltinCall(e, "len") && len(e.Args) == 1 {
			return "len(" + x5CanonExpr(e.Args[0], depth+1) + ")"
		}
		if e.SFn != nil && len(e.SFn.Blocks) == 1 {
			if ret, ok := e.SFn.Blocks[0].Instrs[len(e.SFn.Blocks[0].Instrs)-1].(*ssa.Return); ok && len(ret.Results) == 1 {
				return x5CanonExpr(Desc(ret.Results[0]), depth+1)
			}
		}
	}
	return "?" + e.String()
}

func c06R5(c *Ctx) {
	const R = "C06-R5"
	c.Doc(R, "server.acceptHeader and miekg/dns defaultMsgAcceptFunc are the same decision table over the header predicates (QR, opcode, the four counts) under the verdict mapping OK↔Accept, Ignore↔Ignore, NotImplemented↔RejectNotImplemented, FormatError↔Reject; every caller of acceptHeader compares the verdict with every acceptVerdict constant, reaches ServeRaw* on no non-OK edge, writes nothing on Ignore, and rejects in place on the other two; rejectInPlace echoes ID/opcode/RD with QR set and rcode ∈ {FORMERR, NOTIMP}; serveMsgBy answers QDCOUNT != 1 with FORMERR before the chain (or with nothing on the deny edge of the source gate, C17-R7); the BADVERS and foreign-opcode arms of edns.ServeDNS never continue the chain; the wire branch is entered only for opcode 0 and EDNS version 0")
	ah := c.fn(R, "server.acceptHeader")
	lib := c.fn(R, x5DnsPkg+".defaultMsgAcceptFunc")
	verdictMap := map[string]string{"acceptOK": "MsgAccept", "acceptIgnore": "MsgIgnore", "acceptNotImplemented": "MsgRejectNotImplemented", "acceptFormatError": "MsgReject"}
	toLib := map[string]string{}
	verdictVal := map[string]int64{}
	for s, l := range verdictMap {
		sv, ok1 := x5ConstInt64(c, R, "server."+s)
		lv, ok2 := x5ConstInt64(c, R, x5DnsPkg+"."+l)
		if ok1 && ok2 {
			toLib[fmt.Sprint(sv)] = fmt.Sprint(lv)
			verdictVal[s] = sv
		}
	}
	if ah != nil && lib != nil && len(toLib) == 4 {
		a1, e1, ok1 := x5DecisionTable(ah)
		a2, e2, ok2 := x5DecisionTable(lib)
		key := "C06-R5|acceptHeader ≡ defaultMsgAcceptFunc"
		if !ok1 || !ok2 {
			c.undecided(R, key, ah.Pos(), fmt.Sprintf("a branch condition is not a header predicate this rule can canonicalise (sdns ok=%v, library ok=%v)", ok1, ok2))
		} else {
			union := map[string]bool{}
			for _, a := range a1 {
				union[a] = true
			}
			for _, a := range a2 {
				union[a] = true
			}
			var all []string
			for a := range union {
				all = append(all, a)
			}
			sort.Strings(all)
			diff := ""
			if len(all) > 16 {
				diff = "too many atoms"
			}
			for row := 0; diff == "" && row < 1<<len(all); row++ {
				as := map[string]bool{}
				for i, a := range all {
					as[a] = row&(1<<i) != 0
				}
				v1, k1 := e1(as)
				v2, k2 := e2(as)
				if !k1 || !k2 {
					diff = "a return value is not a constant verdict"
					break
				}
				if toLib[v1] != v2 {
					var on []string
					for _, a := range all {
						on = append(on, fmt.Sprintf("%s=%v", a, as[a]))
					}
					diff = fmt.Sprintf("at %s: sdns verdict %s, library action %s", strings.Join(on, ","), v1, v2)
				}
			}
			if diff == "" {
				c.ok(R, key, ah.Pos(), fmt.Sprintf("identical decision tables over %d predicates: %s", len(all), strings.Join(all, " ; ")))
			} else if strings.HasPrefix(diff, "at ") {
				c.violation(R, key, ah.Pos(), "header accept differs from the library: "+diff)
			} else {
				c.undecided(R, key, ah.Pos(), diff)
			}
		}
	}
	// callers switch over every verdict
	aho := c.fobj(R, "server.acceptHeader")
	vt := c.P.TypeName("server.acceptVerdict")
	if aho == nil || vt == nil {
		c.unresolved(R, "server.acceptVerdict", "type not found")
		return
	}
	allVerdicts := map[string]int64{}
	sc := vt.Pkg().Scope()
	for _, n := range sc.Names() {
		if k, ok := sc.Lookup(n).(*types.Const); ok && types.Identical(k.Type(), vt.Type()) {
			if v, ok := constant.Int64Val(constant.ToInt(k.Val())); ok {
				allVerdicts[n] = v
			}
		}
	}
	var vnames []string
	for n := range allVerdicts {
		vnames = append(vnames, n)
	}
	sort.Strings(vnames)
	isReject := isCallNamed("rejectInPlace")
	verdictPat := CallTo(aho)
	nCallers := 0
	for _, s := range c.CallSites(aho) {
		if s.Kind != "call" {
			continue
		}
		nCallers++
		fn := TopLevel(s.Fn)
		// what the entry point does for each verdict the type can hold, decided on
		// the CFG with the verdict fixed (switch, if chain, != OK … all the same)
		for _, vn := range vnames {
			sig := x5VerdictBehaviour(fn, isPlainCallTo(aho), verdictPat, allVerdicts[vn])
			key := "C06-R5|" + fnKey(fn) + "|verdict " + vn
			switch {
			case sig.bad != "":
				c.undecided(R, key, instrPos(s.Instr), "cannot interpret the entry point: "+sig.bad)
			case !sig.reached:
				c.unresolved(R, key, "no path computes the verdict")
			case vn == "acceptOK":
				c.x5Decide(R, key, instrPos(s.Instr), sig.serve, "accepted packets reach the handler", "an accepted packet never reaches ServeRaw*")
			case vn == "acceptIgnore":
				c.x5Decide(R, key, instrPos(s.Instr), !sig.serve && !sig.write, "ignored packets are neither served nor answered",
					fmt.Sprintf("a packet that is itself a response is served=%v / answered=%v", sig.serve, sig.write))
			default:
				c.x5Decide(R, key, instrPos(s.Instr), !sig.serve && sig.rejectEvery, "rejected in place on every path, never served",
					fmt.Sprintf("verdict %s: reaches the handler=%v, rejectInPlace on every path=%v — an unhandled verdict falls through to serving", vn, sig.serve, sig.rejectEvery))
			}
		}
		// the verdict handed to rejectInPlace on those edges is the verdict itself
		for _, in := range instrsWhere(fn, isReject) {
			args := callCommon(in).Args
			if len(args) < 2 {
				continue
			}
			e := Desc(args[1])
			c.x5Decide(R, "C06-R5|"+fnKey(fn)+"|rejectInPlace verdict", instrPos(in), verdictPat(e) || IsConstInt(verdictVal["acceptFormatError"])(e),
				"rejectInPlace(verdict | acceptFormatError)", "rejectInPlace is passed "+e.String())
		}
	}
	if nCallers < 1 { // anti-vacuity only: today three entry points; they may share one screening helper
		c.unresolved(R, "acceptHeader callers", fmt.Sprintf("expected at least one engine entry point, found %d", nCallers))
	}
	// a screening helper's verdict is honoured by its callers: behind its false result nothing is served
	for _, s := range c.CallSites(aho) {
		fn := TopLevel(s.Fn)
		fo := funcObjOf(fn)
		if s.Kind != "call" || fo == nil || fo.Exported() || len(instrsWhere(fn, isCallNamed("ServeRaw", "ServeRawInline", "ServeRawReplay"))) > 0 {
			continue
		}
		for _, cs := range c.CallSites(fo) {
			if cs.Kind != "call" {
				c.violation(R, "C06-R5|"+fnKey(fn)+"|screening helper used as a value", instrPos(cs.Instr), "the header screen is taken as a function value: its verdict cannot be followed")
				continue
			}
			c.AfterEdge(R, TopLevel(cs.Fn), "a packet the header screen "+fn.Name()+" turned away is served", OnFalse(fn.Name()+"()", CallTo(fo)), isCallNamed("ServeRaw", "ServeRawInline", "ServeRawReplay"))
		}
	}
	// rejectInPlace shapes
	rx := map[string]*types.Var{"server.(*udpJob).rejectInPlace": c.field(R, "server.udpJob.rx"), "server.(*tcpJob).rejectInPlace": c.field(R, "server.tcpJob.rx")}
	for path, rxF := range rx {
		fn := c.fn(R, path)
		if fn == nil || rxF == nil {
			continue
		}
		c06RejectShape(c, R, fn, rxF, verdictVal["acceptNotImplemented"])
	}
	// serveMsgBy: QDCOUNT != 1 → FORMERR before the chain
	qF := c.field(R, x5DnsPkg+".Msg.Question")
	next := c.fobj(R, "middleware.(*Chain).Next")
	setRcode := c.fobj(R, x5DnsPkg+".(*Msg).SetRcode")
	if fn := c.fn(R, "server.(*Server).serveMsgBy"); fn != nil && qF != nil && next != nil && setRcode != nil {
		one := func(holds bool) Barrier {
			return OnCmp("len(r.Question)!=1", x5LenOf(FieldIs(qF)), token.NEQ, IsConstInt(1), holds)
		}
		c.MustCross(R, fn, "ch.Next", isCallTo(next), one(false))
		// a source the access list excludes is dropped in silence instead (C17-R7): the
		// deny edge of the source gate is the one way past the guard without a FORMERR
		denied := OnFalse("AdmitsSource()", MethodNamed("AdmitsSource"))
		c.AfterEdge(R, fn, "QDCOUNT != 1 returns without FORMERR", one(true), isReturn, Barrier{Name: "SetRcode(r, FORMERR)", Instr: func(in ssa.Instruction) bool {
			return isPlainCallTo(setRcode)(in) && IsConstInt(1)(Desc(callArg(in, 2)))
		}}, denied)
		c.AfterEdge(R, fn, "QDCOUNT != 1 returns without a write", one(true), isReturn, Barrier{Name: "WriteMsg", Instr: func(in ssa.Instruction) bool { return x5MsgWriteArg(in) != nil }}, denied)
	}
	// edns.ServeDNS: BADVERS, foreign opcode, wire-branch admission
	version := c.fobj(R, x5DnsPkg+".(*OPT).Version")
	cancelRc := c.fobj(R, "middleware.(*Chain).CancelWithRcode")
	badvers, okbv := x5ConstInt64(c, R, x5DnsPkg+".RcodeBadVers")
	fOpcode := c.field(R, x5DnsPkg+".MsgHdr.Opcode")
	if fn := c.fn(R, "middleware/edns.(*EDNS).ServeDNS"); fn != nil && version != nil && cancelRc != nil && okbv && fOpcode != nil {
		bv := OnCmp("opt.Version()!=0", CallTo(version), token.NEQ, IsConstInt(0), true)
		c.AfterEdge(R, fn, "unsupported EDNS version continues the chain", bv, isCallTo(next))
		c.AfterEdge(R, fn, "unsupported EDNS version returns without BADVERS", bv, isReturn, Barrier{Name: "CancelWithRcode(BADVERS)", Instr: func(in ssa.Instruction) bool {
			return isPlainCallTo(cancelRc)(in) && IsConstInt(badvers)(Desc(callArg(in, 1)))
		}})
		op := OnCmp("req.Opcode>0", FieldIs(fOpcode), token.GTR, IsConstInt(0), true)
		c.AfterEdge(R, fn, "foreign opcode continues the chain", op, isCallTo(next))
		c.AfterEdge(R, fn, "foreign opcode returns without NOTIMP", op, isReturn, Barrier{Name: "NotSupported", Instr: isCallNamed("NotSupported")})
		sw := c.fobj(R, "middleware/edns.(*EDNS).serveWire")
		c.MustCross(R, fn, "wire branch (version)", isPlainCallTo(sw), OnFalse("HasOPT()", MethodNamed("HasOPT")), OnCmp("EDNSVersion()==0", MethodNamed("EDNSVersion"), token.EQL, IsConstInt(0), true))
		c.MustCross(R, fn, "wire branch (opcode)", isPlainCallTo(sw), OnCmp("Opcode()==0", MethodNamed("Opcode"), token.EQL, IsConstInt(0), true))
	}
	if ns := c.fn(R, "internal/dnsutil.NotSupported"); ns != nil {
		rcF := c.field(R, x5DnsPkg+".MsgHdr.Rcode")
		ni, _ := x5ConstInt64(c, R, x5DnsPkg+".RcodeNotImplemented")
		n := 0
		for _, b := range ns.Blocks {
			for _, in := range b.Instrs {
				if isFieldStore(in, rcF, IsConstInt(ni)) {
					n++
				}
			}
		}
		c.x5Decide(R, "C06-R5|dnsutil.NotSupported|rcode", ns.Pos(), n == 1, "NotSupported answers NOTIMP", "NotSupported does not set Rcode = NOTIMP")
	}
	c.Floor(R, 32)
}

// x5OrOperands flattens an |-tree.
func x5OrOperands(e *Expr, out *[]*Expr) {
	e = strip(e)
	if e != nil && e.K == EBin && e.Op == token.OR {
		x5OrOperands(e.X, out)
		x5OrOperands(e.Y, out)
		return
	}
	*out = append(*out, e)
}

func c06RejectShape(c *Ctx, R string, fn *ssa.Function, rxF *types.Var, notImpl int64) {
	kp := "C06-R5|" + fnKey(fn) + "|"
	rxByte := func(i int64) Pat {
		return func(e *Expr) bool {
			e = strip(e)
			return e != nil && e.K == EIndex && FieldIs(rxF)(e.X) && IsConstInt(i)(e.Y)
		}
	}
	// ID echo: copy(<reply>[0:2], rx[0:2])
	idEcho := false
	for _, in := range instrsWhere(fn, func(in ssa.Instruction) bool { return calleeName(in) == "builtin.copy" }) {
		args := callCommon(in).Args
		d, s := strip(Desc(args[0])), strip(Desc(args[1]))
		bound := func(e *Expr, lo, hi int64) bool {
			if e == nil || e.K != ESlice || len(e.Args) < 2 {
				return false
			}
			l := e.Args[0] == nil || IsConstInt(lo)(e.Args[0])
			return l && e.Args[1] != nil && IsConstInt(hi)(e.Args[1])
		}
		if bound(d, 0, 2) && bound(s, 0, 2) && FieldIs(rxF)(s.X) {
			idEcho = true
		}
	}
	c.x5Decide(R, kp+"ID echo", fn.Pos(), idEcho, "reply[0:2] ← rx[0:2]", "the rejection does not copy the request ID from rx[0:2]")
	// byte 2: QR | opcode<<3 | RD ; byte 3: rcode
	var b2, b3 *ssa.Store
	for _, in := range instrsWhere(fn, func(in ssa.Instruction) bool {
		st, ok := in.(*ssa.Store)
		if !ok {
			return false
		}
		_, ok = st.Addr.(*ssa.IndexAddr)
		return ok
	}) {
		st := in.(*ssa.Store)
		ia := st.Addr.(*ssa.IndexAddr)
		if IsConstInt(2)(Desc(ia.Index)) {
			b2 = st
		}
		if IsConstInt(3)(Desc(ia.Index)) {
			b3 = st
		}
	}
	if b2 == nil || b3 == nil {
		c.violation(R, kp+"header bytes", fn.Pos(), "the rejection does not store header bytes 2 and 3")
		return
	}
	var ops []*Expr
	x5OrOperands(Desc(b2.Val), &ops)
	hasQR, hasOp, hasRD, extra := false, false, false, false
	for _, o := range ops {
		switch {
		case IsConstInt(0x80)(o):
			hasQR = true
		case o.K == EBin && o.Op == token.SHL && IsConstInt(3)(o.Y) && Contains(rxByte(2))(o.X):
			// (rx[2] >> 3) & 0xF, shifted back
			x := strip(o.X)
			hasOp = x.K == EBin && x.Op == token.AND && IsConstInt(0xF)(x.Y) && strip(x.X).K == EBin && strip(x.X).Op == token.SHR && IsConstInt(3)(strip(x.X).Y) && rxByte(2)(strip(x.X).X)
		case o.K == EBin && o.Op == token.AND && rxByte(2)(o.X) && IsConstInt(1)(o.Y):
			hasRD = true
		default:
			extra = true
		}
	}
	c.x5Decide(R, kp+"flags byte", instrPos(b2), hasQR && hasOp && hasRD && !extra, "byte 2 = QR | (request opcode << 3) | request RD",
		"byte 2 of the rejection is not QR | opcode echo | RD echo: "+trunc(Desc(b2.Val).String(), 200))
	leaves := Origins(Desc(b3.Val), nil)
	got := map[string]bool{}
	for _, l := range leaves {
		if v, ok := constInt(l); ok {
			got[fmt.Sprint(v)] = true
		} else {
			got["?"+l.String()] = true
		}
	}
	fe, _ := x5ConstInt64(c, R, x5DnsPkg+".RcodeFormatError")
	ni, _ := x5ConstInt64(c, R, x5DnsPkg+".RcodeNotImplemented")
	c.x5Decide(R, kp+"rcode byte", instrPos(b3), sameSet(got, map[string]bool{fmt.Sprint(fe): true, fmt.Sprint(ni): true}), "byte 3 ∈ {FORMERR, NOTIMP}", "byte 3 of the rejection may be "+setString(got))
	// NOTIMP exactly for the NotImplemented verdict: interpret the function with the
	// verdict fixed and read the constant that reaches byte 3
	isVerdict := func(e *Expr) bool { e = strip(e); return e != nil && e.K == EParam && e.Name == "verdict" }
	rcodeFor := func(k int64) (string, bool) {
		it := &x5Interp{fn: fn, resolve: func(v ssa.Value, e *Expr) (bool, bool) { return x5ConcreteCmp(e, isVerdict, k) }, assign: map[string]bool{}}
		got, ok := "", false
		it.walk(Point{fn.Blocks[0], 0}, func(in ssa.Instruction) bool {
			if in == ssa.Instruction(b3) {
				if kv, isC := it.value(b3.Val).(*ssa.Const); isC && kv.Value != nil {
					got, ok = kv.Value.ExactString(), true
				}
				return true
			}
			return false
		})
		return got, ok && it.bad == ""
	}
	rNI, ok1 := rcodeFor(notImpl)
	rFE, ok2 := rcodeFor(notImpl + 1)
	if !ok1 || !ok2 {
		c.undecided(R, kp+"NOTIMP guard", fn.Pos(), "cannot resolve the rcode byte for a fixed verdict")
		return
	}
	c.x5Decide(R, kp+"NOTIMP guard", instrPos(b3), rNI == fmt.Sprint(ni) && rFE == fmt.Sprint(fe), "rcode = NOTIMP exactly for verdict acceptNotImplemented, FORMERR otherwise",
		fmt.Sprintf("rcode byte is %s for acceptNotImplemented and %s for acceptFormatError", rNI, rFE))
}
