package main

func init() {
	addMutants("C18", []Mutant{
		{ID: "f-c18-4-open-error-stops-walk", File: "middleware/blocklist/updater.go", Expect: "C18-R14|(*middleware/blocklist.BlockList).readBlocklists|list walk callback returns only nil",
			Old: "\t\t\t\tif firstErr == nil {\n\t\t\t\t\tfirstErr = fmt.Errorf(\"error opening file: %w\", err)\n\t\t\t\t}\n\t\t\t\treturn nil\n",
			New: "\t\t\t\treturn fmt.Errorf(\"error opening file: %w\", err)\n",
			Why: "re-introduces F-C18-4 (open route): an unreadable list file is returned to filepath.Walk, which stops before the files behind it — the persisted `local` is not reloaded and the next API save overwrites it"},
		{ID: "f-c18-4-parse-error-stops-walk", File: "middleware/blocklist/updater.go", Expect: "C18-R14|(*middleware/blocklist.BlockList).readBlocklists|list walk callback returns only nil",
			Old: "\t\t\t\tif firstErr == nil {\n\t\t\t\t\tfirstErr = fmt.Errorf(\"error parsing hostfile: %w\", err)\n\t\t\t\t}\n",
			New: "\t\t\t\t_ = file.Close()\n\t\t\t\treturn fmt.Errorf(\"error parsing hostfile: %w\", err)\n",
			Why: "re-introduces F-C18-4 (parse route): one downloaded list with a line over the scanner's 64 KiB limit ends the walk; the .tmp stays and every later start stops at it"},
	})
}
