package main

import (
	"fmt"
	"go/token"
	"go/types"
	"sort"
	"strings"

	"golang.org/x/tools/go/ssa"
)

func init() {
	register(&PropDef{
		ID:    "C10",
		Title: "Replies reach only their own client and carry only their own bytes",
		Run:   runC10,
		Explanation: "Decided (ownership and scrubbing of reused storage — structure only, not schedules): " +
			"R1 UDP job typestate: after the transition to Serving every exit of serve/serveInline runs a deferred block whose every path executes exactly one of release(Serving), burst.add, or the handoff transition(Serving,Reading); every reader path after take crosses release(Reading), enqueue/enqueueCounted, the inline serve, or parks the job in the held window that a deferred releaseHeld drains; burst.release releases each job; TCP serveConn defers the slab release, put is behind the leased CAS and acquire arms it; " +
			"R2 scrub on release / re-arm: every udpJob field is reset in release, or stored on every reader path before enqueue, or exempt with a reason; every tcpJob field is stored before serveFrame or exempt; jobCarrier.reset zeroes every field and is crossed before every strict chain.Next; Request.ParseWire/SetMsg start with a whole-struct reset; setRemote rewrites every net.UDPAddr field; " +
			"R3 every UDP send site addresses the datagram from fields of the same job that owns the payload (raddr / pktinfo[:pktinfoLen] / tx[:txLen]; rawSA/rawSALen/pktinfo on the sendmmsg path, taken only across rawSALen != 0); " +
			"R4 every sync.Pool of the request path (discovered) has a table row; every field of its element is assigned in every function that Puts or in every function that Gets, or is exempt with a reason; pooled chains are Reset after every NewChain before Next; Chain.Reset/ResetWire, responseWriter.Reset cover their structs; dnsclient buffers are handed out length-sliced; " +
			"R5 every store of a wrapper into Chain.Writer is followed on every path by a deferred restore of the captured original (or returns the restore to a caller that defers it at once); " +
			"R6 BeginWire/TryPack hand out three-index slices with the capacity pinned (BeginWire behind cap(lease) >= need); " +
			"R7 in groupLookup the shared singleflight result is mutated (resp.Id) only after Copy() or on the non-shared edge, and the leader closure receives req.Copy() unless owned; " +
			"R8 no direct store of a Request.Raw()/WireName() view into a struct field, global or map outside Request; " +
			"R9 framed staging is whole: every write into tcpStream.drain at offset held (frame prefix, payload copy) is dominated on every path by integer guards implying held + bytes written <= len(drain) (held tracked through its stores; flush re-bases it to 0 only because each of its nil-error returns has held == 0), and flush writes exactly drain[:held].",
		NotDecided: []string{
			"interleavings: which release/reuse/send order the scheduler produces",
			"pipelining order of replies on a stream connection",
			"DoH/DoQ per-stream delivery (the HTTP exchange / QUIC stream objects are per request by construction of those libraries)",
			"per-byte provenance of reply payloads (that the bytes below the length bound were written for this request)",
			"index arithmetic of the batch reader's held-window compaction",
			"interprocedural retention of Request.Raw()/WireName() views (only direct stores in the calling function are decided)",
		},
	})
}

func runC10(c *Ctx) {
	c10R5(c)
	c10R4(c)
	c10R2(c)
	c10R7(c)
	c10R6(c)
	c10R1(c)
	c10R3(c)
	c10R8(c)
	c10R9(c)
}

// ---------------------------------------------------------------------------
// R5 wrappers are unwound

func c10R5(c *Ctx) {
	const rule = "C10-R5"
	c.Doc(rule, "every store of a wrapper into middleware.Chain.Writer (discovered) is followed on all paths by a deferred store of the captured original back into Chain.Writer; a helper that returns the restore closure must have every call deferred immediately; Chain's own methods may only point Writer at the chain's base writer")
	writerF := c.field(rule, "middleware.Chain.Writer")
	baseF := c.field(rule, "middleware.Chain.base")
	if writerF == nil || baseF == nil {
		return
	}
	allLeaves := func(e *Expr, p Pat) bool {
		ls := Origins(e, nil)
		if len(ls) == 0 {
			return false
		}
		for _, l := range ls {
			if !p(l) {
				return false
			}
		}
		return true
	}
	isOrigLoad := func(e *Expr) bool {
		e = strip(e)
		return e != nil && e.K == EField && e.Var == writerF && e.Op != token.AND
	}
	isOwnBase := func(e *Expr) bool {
		e = strip(e)
		return e != nil && e.K == EField && e.Var == baseF && e.Op == token.AND
	}
	isRestore := func(in ssa.Instruction) bool {
		return isFieldStore(in, writerF, func(e *Expr) bool { return allLeaves(e, isOrigLoad) })
	}
	closureRestores := func(f *ssa.Function) bool {
		if f == nil {
			return false
		}
		return len(instrsWhere(f, isRestore)) > 0
	}
	helpers := map[*ssa.Function]bool{}
	for _, s := range c.StoreSites(writerF) {
		val := Desc(s.Val)
		top := TopLevel(s.Fn)
		key := fmt.Sprintf("%s|%s|Chain.Writer store", rule, fnKey(top))
		switch {
		case allLeaves(val, isOwnBase):
			if methodOnPkg(funcObjOf(top), "/middleware", "Chain") {
				c.ok(rule, key, instrPos(s.Instr), "Chain method points Writer at the chain's own base writer")
			} else {
				c.violation(rule, key, instrPos(s.Instr), "store of a base writer address outside Chain's methods")
			}
			continue
		case allLeaves(val, isOrigLoad):
			// a restore; it is accounted for with its wrap site. A restore that is
			// neither in a closure nor after a wrap is harmless (idempotent).
			c.ok(rule, key+"|restore", instrPos(s.Instr), "restores the captured original writer")
			continue
		}
		// wrap site
		bars := []Barrier{deferBarrier("restore Chain.Writer", isRestore)}
		r := reach([]Point{pointAfter(s.Instr)}, bars, nil)
		var exit ssa.Instruction
		for _, t := range r.order {
			if isExit(t) {
				exit = t
				break
			}
		}
		if exit == nil {
			c.ok(rule, key, instrPos(s.Instr), "wrapper installed; every exit crosses a deferred restore of the original writer")
			continue
		}
		// helper form: every exit returns the restore closure
		retBar := Barrier{Name: "return restore closure", Instr: func(in ssa.Instruction) bool {
			rt, ok := in.(*ssa.Return)
			if !ok || len(rt.Results) != 1 {
				return false
			}
			e := strip(Desc(rt.Results[0]))
			return e != nil && e.K == EClosure && closureRestores(e.SFn)
		}}
		r2 := reach([]Point{pointAfter(s.Instr)}, append(bars, retBar), func(in ssa.Instruction) bool { return retBar.Instr(in) })
		bad := false
		for _, t := range r2.order {
			if isExit(t) && !retBar.Instr(t) {
				bad = true
				c.violation(rule, key, instrPos(s.Instr), fmt.Sprintf("wrapper stored into Chain.Writer at %s but exit at %s is reachable without a deferred restore (a pooled/job-owned chain would carry this request's wrapper to the next client); path %s", c.P.pos(instrPos(s.Instr)), c.P.pos(instrPos(t)), c.trail(r2, t)))
				break
			}
		}
		if !bad {
			if s.Fn.Parent() != nil {
				c.violation(rule, key, instrPos(s.Instr), "wrap helper is a closure; cannot check its callers")
				continue
			}
			helpers[s.Fn] = true
			c.ok(rule, key, instrPos(s.Instr), "wrapper installed by a helper that returns the restore closure on every path (callers checked)")
		}
	}
	var hs []*ssa.Function
	for h := range helpers {
		hs = append(hs, h)
	}
	sort.Slice(hs, func(i, j int) bool { return fnKey(hs[i]) < fnKey(hs[j]) })
	for _, h := range hs {
		fo := funcObjOf(h)
		sites := c.CallSites(fo)
		if len(sites) == 0 {
			c.ok(rule, fmt.Sprintf("%s|%s|callers", rule, fnKey(h)), h.Pos(), "wrap helper has no caller")
		}
		for _, s := range sites {
			key := fmt.Sprintf("%s|%s|caller of %s", rule, fnKey(TopLevel(s.Fn)), h.Name())
			call, ok := s.Instr.(*ssa.Call)
			if !ok || s.Kind != "call" {
				c.violation(rule, key, instrPos(s.Instr), "wrap helper is referenced other than by a plain call whose result is deferred")
				continue
			}
			bar := Barrier{Name: "defer <restore>()", Instr: func(in ssa.Instruction) bool {
				d, ok := in.(*ssa.Defer)
				return ok && d.Call.Value == ssa.Value(call)
			}}
			// nothing but the defer may follow: no call and no exit before it
			r := reach([]Point{pointAfter(call)}, []Barrier{bar}, nil)
			var off ssa.Instruction
			for _, t := range r.order {
				if _, isCall := t.(*ssa.Call); isCall || isExit(t) {
					off = t
					break
				}
			}
			if off != nil {
				c.violation(rule, key, instrPos(s.Instr), fmt.Sprintf("restore returned by %s is not deferred immediately: %s reachable first", h.Name(), c.P.pos(instrPos(off))))
			} else {
				c.ok(rule, key, instrPos(s.Instr), "restore closure returned by "+h.Name()+" is deferred at once")
			}
		}
	}
	c.Floor(rule, 11)
}

// ---------------------------------------------------------------------------
// R4 pooled-object hygiene

type c10PoolRow struct {
	Exempt map[string]string
	// Arm: the pooled value is (re)initialised by these methods rather than at
	// the Get/Put site; Getter is the function wrapping Get whose call sites
	// must cross an Arm call before `Use`.
	Arm    []string
	Getter string
	Use    string
	// Bytes: the element is a raw byte array; AcquireFn must hand it out as a
	// slice bounded by its size parameter.
	Bytes string
}

var c10PoolTable = map[string]c10PoolRow{
	"server.tcpEngine.streams": {Exempt: map[string]string{
		"fill":  "payload bytes: read only through fill[start:end], and start/end are reset",
		"drain": "payload bytes: written by stage before flush reads drain[:held], and held is reset",
		"wait":  "reusable *time.Timer built once per stream and stopped by every reset; holds no request data",
	}},
	"server/doq.msgPool": {Exempt: map[string]string{
		"Compress": "packing hint, not client data: Unpack never sets it and the DoQ request is never packed towards a client; a stale true could at most compress the upstream copy of this same question (DESIGN §2.5 triage: benign)",
	}},
	"middleware/dns64.DNS64.pool":        {},
	"middleware/cache.Cache.writerPool":  {},
	"middleware/cache.messagePool":       {},
	"middleware/edns.responseWriterPool": {},
	"middleware.bufferWriterPool": {Exempt: map[string]string{
		"local":  "immutable after construction: the shared package-level loopback address set by the pool's New",
		"remote": "immutable after construction: the shared internal sentinel address set by the pool's New",
	}},
	"middleware.Pipeline.chainPool": {Arm: []string{"middleware.(*Chain).Reset"}, Getter: "middleware.(*Pipeline).NewChain", Use: "middleware.(*Chain).Next"},
	"middleware/resolver.reqPool":   {},
	"middleware/resolver.connPool": {Exempt: map[string]string{
		"cancelInterrupt": "per-exchange interrupt registration with its own Begin/Stop protocol (Stop is deferred in ExchangeContext and returns it to idle before the Conn can be released); holds no request bytes (DESIGN §2.5 triage: benign)",
	}},
	"middleware/resolver.dialerPool": {},
	"internal/dnsclient.bufferPools": {Bytes: "internal/dnsclient.AcquireBuf"},
	"internal/wire.packStatePool": {Exempt: map[string]string{
		"buf": "payload bytes: packInto writes buf[:off] before TryPack hands out buf[:off:off] (R6)",
	}},
}

// chain / writer coverage shared by R4 (pooled chains) and R2 (job-owned chains)
var c10ChainExempt = map[string]string{
	"handlers":        "immutable after Bind: the pipeline's handler list",
	"workPolicy":      "immutable after Bind",
	"Meta.cutMu":      "mutex",
	"Meta.workPolicy": "immutable after Bind",
}

func c10R4(c *Ctx) {
	const rule = "C10-R4"
	c.Doc(rule, "for every sync.Pool declared in middleware/..., server/..., internal/wire, internal/dnsclient (discovered): a table row exists; every field of the pooled struct is assigned in every function that Puts it, or in every function that Gets it, or is exempt with a reason; raw byte payload fields are exempt only with the index field that bounds their reads")
	pools := c10DiscoverPools(c)
	seen := map[string]bool{}
	for _, p := range pools {
		seen[p.Key] = true
		row, ok := c10PoolTable[p.Key]
		key := fmt.Sprintf("%s|pool %s", rule, p.Key)
		if !ok {
			c.violation(rule, key, p.Var.Pos(), "sync.Pool in the request path has no hygiene row: its element's reset discipline is unchecked")
			continue
		}
		gets, puts := c10PoolSites(c, p)
		if len(gets) == 0 {
			c.unresolved(rule, "pool "+p.Key, "no Get site found")
			continue
		}
		// element type from the type assertion on Get's result
		var elem types.Type
		for _, g := range gets {
			v, _ := g.(ssa.Value)
			if v == nil || v.Referrers() == nil {
				continue
			}
			for _, r := range *v.Referrers() {
				if ta, ok := r.(*ssa.TypeAssert); ok {
					if pt, ok := ta.AssertedType.Underlying().(*types.Pointer); ok {
						elem = pt.Elem()
					}
				}
			}
		}
		if elem == nil {
			c.unresolved(rule, "pool "+p.Key, "element type could not be derived from the Get sites")
			continue
		}
		what := "pool " + p.Key
		if row.Bytes != "" {
			c10BytesPool(c, rule, what, row, elem, gets)
			continue
		}
		if len(row.Arm) > 0 {
			var arms []*types.Func
			for _, a := range row.Arm {
				fn := c.fn(rule, a)
				if fn == nil {
					continue
				}
				arms = append(arms, funcObjOf(fn))
				ex := map[string]string{}
				for k, v := range c10ChainExempt {
					ex[k] = v
				}
				ex["Writer"] = "re-pointed at the chain's own base by rebindWriter whenever it is not the base writer; wrappers are unwound by R5"
				c.c10Coverage(rule, what+" via "+fn.Name(), elem, [][]c10Group{{{Name: fnKey(fn), Fns: []*ssa.Function{fn}}}}, ex)
			}
			getter := c.fobj(rule, row.Getter)
			use := c.fobj(rule, row.Use)
			if getter == nil || use == nil {
				continue
			}
			for _, s := range c.CallSites(getter) {
				k2 := fmt.Sprintf("%s|%s|%s then %s", rule, fnKey(TopLevel(s.Fn)), getter.Name(), use.Name())
				if s.Kind != "call" {
					c.violation(rule, k2, instrPos(s.Instr), "pooled getter referenced other than by a plain call")
					continue
				}
				r := reach([]Point{pointAfter(s.Instr)}, []Barrier{CallBarrier("arm", arms...)}, nil)
				var bad ssa.Instruction
				for _, t := range r.order {
					if isPlainCallTo(use)(t) {
						bad = t
						break
					}
				}
				if bad != nil {
					c.violation(rule, k2, instrPos(bad), fmt.Sprintf("pooled chain taken at %s reaches %s without being re-armed (%s): the previous request's writer/request/meta would be served", c.P.pos(instrPos(s.Instr)), use.Name(), strings.Join(row.Arm, ", ")))
				} else {
					c.ok(rule, k2, instrPos(s.Instr), "pooled value is re-armed before use")
				}
			}
			continue
		}
		var putG, getG []c10Group
		for _, f := range c10TopFns(puts) {
			putG = append(putG, c10Group{Name: "Put in " + fnKey(f), Fns: []*ssa.Function{f}})
		}
		for _, f := range c10TopFns(gets) {
			getG = append(getG, c10Group{Name: "Get in " + fnKey(f), Fns: []*ssa.Function{f}})
		}
		c.c10Coverage(rule, what, elem, [][]c10Group{putG, getG}, row.Exempt)
	}
	var rows []string
	for k := range c10PoolTable {
		rows = append(rows, k)
	}
	sort.Strings(rows)
	for _, k := range rows {
		if !seen[k] {
			c.unresolved(rule, "pool "+k, "table row names a pool that no longer exists (stale row)")
		}
	}
	// the base writer every chain (pooled or job-owned) rebinds per request
	if fn := c.fn(rule, "middleware.(*responseWriter).Reset"); fn != nil {
		if tn := c.P.TypeName("middleware.responseWriter"); tn != nil {
			c.c10Coverage(rule, "responseWriter.Reset", tn.Type(), [][]c10Group{{{Name: fnKey(fn), Fns: []*ssa.Function{fn}}}}, nil)
		}
	}
	c.Floor(rule, 95)
}

// c10BytesPool: a pool of raw byte arrays is handed out only as a slice whose
// length is the caller's requested size (reads are length-bounded).
func c10BytesPool(c *Ctx, rule, what string, row c10PoolRow, elem types.Type, gets []ssa.Instruction) {
	fn := c.fn(rule, row.Bytes)
	if fn == nil {
		return
	}
	if a, ok := elem.Underlying().(*types.Array); !ok || !types.Identical(a.Elem(), types.Typ[types.Byte]) {
		c.violation(rule, fmt.Sprintf("%s|%s|element", rule, what), fn.Pos(), "row declares a raw byte pool but the element is "+elem.String())
		return
	}
	for _, g := range gets {
		key := fmt.Sprintf("%s|%s|%s", rule, what, fnKey(TopLevel(g.Parent())))
		if TopLevel(g.Parent()) != fn {
			c.violation(rule, key, instrPos(g), "raw byte pool is drawn from outside "+fn.Name())
		}
	}
	n := 0
	for _, in := range returnsWhere(fn, 0, nil) {
		n++
		e := strip(Desc(in.(*ssa.Return).Results[0]))
		key := fmt.Sprintf("%s|%s|%s return", rule, what, fn.Name())
		okShape := e != nil && e.K == ESlice && len(e.Args) == 3 && e.Args[1] != nil && strip(e.Args[1]).K == EParam
		if okShape {
			c.ok(rule, key, instrPos(in), "pooled byte array is handed out as buf[:size] (length = the caller's size; consumers read p[:n])")
		} else {
			c.violation(rule, key, instrPos(in), "pooled byte array is handed out without a length bound taken from the size parameter: "+trunc(e.String(), 120))
		}
	}
	if n == 0 {
		c.unresolved(rule, what, "no return in "+fn.Name())
	}
}

// ---------------------------------------------------------------------------
// R2 scrub on release / re-arm

func c10R2(c *Ctx) {
	const rule = "C10-R2"
	c.Doc(rule, "udpJob: every field is reset in release()/transition(), or stored on every reader path before enqueue/enqueueCounted/serveInline, or exempt with a reason; tcpJob: every field stored in serveConn before serveFrame or exempt; jobCarrier.reset assigns every field and is crossed before every strict chain.Next/serveWire; Request.ParseWire and SetMsg begin with a whole-struct reset; Chain.ResetWire covers the job-owned chain; setRemote rewrites every net.UDPAddr field")
	const pkg = "server"
	release := c.fn(rule, pkg+".(*udpJob).release")
	transition := c.fn(rule, pkg+".(*udpJob).transition")
	enqueue := c.fobj(rule, pkg+".(*udpEngine).enqueue")
	enqueueCounted := c.fobj(rule, pkg+".(*udpEngine).enqueueCounted")
	setRemote := c.fobj(rule, pkg+".(*udpJob).setRemote")
	tn := c.P.TypeName(pkg + ".udpJob")
	if release == nil || transition == nil || enqueue == nil || enqueueCounted == nil || setRemote == nil || tn == nil {
		return
	}
	handoffs := []*types.Func{enqueue, enqueueCounted}
	if f := c.P.FuncObj(pkg + ".(*udpEngine).serveInline"); f != nil {
		handoffs = append(handoffs, f)
	}
	setRemoteRaw := c.P.FuncObj(pkg + ".(*udpJob).setRemoteRaw")
	// arming functions: the reader paths
	var arming []*ssa.Function
	if f := c.fn(rule, pkg+".(*udpEngine).reader"); f != nil {
		arming = append(arming, f)
	}
	if f := c.P.Func(pkg + ".(*udpBatchReader).finishRecv"); f != nil {
		arming = append(arming, f)
	} else {
		c.c10Absent(rule, "udpBatchReader.finishRecv")
	}
	exempt := map[string]string{
		"engine":     "immutable after construction (set once in take's allocation)",
		"slabShard":  "assigned by take on every lease",
		"rx":         "payload: read only as rx[:rxLen]; rxLen is reset in release and written per packet",
		"tx":         "payload: sent only as tx[:txLen]; txLen is reset in release and written by Write",
		"pktinfo":    "payload: read only as pktinfo[:pktinfoLen]; pktinfoLen is reset",
		"ipScratch":  "payload behind remote.IP, which setRemote re-slices to the new address length",
		"rawSA":      "payload: read only with rawSALen, which every reader path rewrites",
		"remote":     "rewritten field-by-field by setRemote on every reader path (checked below)",
		"req":        "strict-path storage: Request.ParseWire starts with *r = Request{} (checked below)",
		"chain":      "strict-path storage: BindChain + ResetWire before Next (checked below)",
		"carrier":    "strict-path storage: carrier.reset before Next (checked below)",
		"ednsWriter": "strict-path storage: the edns wire branch zeroes its slot on the way out (R4 edns pool row covers both Put functions)",
		"burst":      "set by serve/serveInline on entry and cleared in their deferred terminal block",
	}
	st := tn.Type().Underlying().(*types.Struct)
	relStores, _ := fieldsStoredIn([]*ssa.Function{release, transition}, tn)
	names := map[string]bool{}
	for i := 0; i < st.NumFields(); i++ {
		f := st.Field(i)
		names[f.Name()] = true
		key := fmt.Sprintf("%s|udpJob.%s", rule, f.Name())
		switch {
		case relStores[f.Name()]:
			c.ok(rule, key, f.Pos(), "scrubbed in release()/transition()")
		case exempt[f.Name()] != "":
			c.ok(rule, key, f.Pos(), "exempt: "+exempt[f.Name()])
		default:
			// must be armed on every reader path before the job is handed on
			bar := StoreBarrier("udpJob."+f.Name(), f, nil)
			if f.Name() == "raddr" {
				fs := []*types.Func{setRemote}
				if setRemoteRaw != nil {
					fs = append(fs, setRemoteRaw)
				}
				bar = CallBarrier("setRemote", fs...)
			}
			for _, af := range arming {
				c.MustCross(rule, af, "hand-on with udpJob."+f.Name()+" re-armed", isCallTo(handoffs...), bar)
			}
		}
	}
	for k := range exempt {
		if !names[k] {
			c.unresolved(rule, "udpJob."+k, "exempted field no longer exists (stale table row)")
		}
	}
	// setRemote rewrites raddr and every field of the cached net.UDPAddr
	if fn := c.fn(rule, pkg+".(*udpJob).setRemote"); fn != nil {
		raddr := c.field(rule, pkg+".udpJob.raddr")
		if raddr != nil {
			c.MustCross(rule, fn, "return", isReturn, StoreBarrier("raddr", raddr, nil))
		}
		if ua := c.P.TypeName("net.UDPAddr"); ua != nil {
			k := &c10cov{c: c, paths: map[string]bool{}, visited: map[string]bool{}}
			k.collect(fn, tn.Type(), "", 0)
			ust := ua.Type().Underlying().(*types.Struct)
			for i := 0; i < ust.NumFields(); i++ {
				key := fmt.Sprintf("%s|setRemote|remote.%s", rule, ust.Field(i).Name())
				if k.paths["remote."+ust.Field(i).Name()] || k.paths["remote"] {
					c.ok(rule, key, fn.Pos(), "setRemote rewrites remote."+ust.Field(i).Name())
				} else {
					c.violation(rule, key, fn.Pos(), "setRemote leaves remote."+ust.Field(i).Name()+" of the previous client in the cached view")
				}
			}
		} else {
			c.unresolved(rule, "net.UDPAddr", "type not found")
		}
	}
	if setRemoteRaw != nil {
		if fn := c.P.Func(pkg + ".(*udpJob).setRemoteRaw"); fn != nil {
			c.MustCross(rule, fn, "return true", isReturnWith(0, IsConstBool(true)), CallBarrier("setRemote", setRemote))
		}
		if fn := c.P.Func(pkg + ".(*udpBatchReader).finishRecv"); fn != nil {
			c.MustCross(rule, fn, "hand-on only with a parsed peer address", isCallTo(handoffs...), OnTrue("setRemoteRaw", CallTo(setRemoteRaw)))
		}
	}

	// tcpJob
	ttn := c.P.TypeName(pkg + ".tcpJob")
	serveConn := c.fn(rule, pkg+".(*tcpEngine).serveConn")
	serveFrame := c.fobj(rule, pkg+".(*tcpEngine).serveFrame")
	acquire := c.fn(rule, pkg+".(*tcpEngine).acquire")
	if ttn != nil && serveConn != nil && serveFrame != nil && acquire != nil {
		texempt := map[string]string{
			"engine":     "immutable after construction (newTCPJob)",
			"large":      "immutable after construction: the slab's class",
			"rx":         "payload: read only as rx[:length] after stream.body filled exactly that range",
			"tx":         "payload: staged only as the slice the writer just produced",
			"leased":     "ownership flag: armed in acquire, CAS-cleared in put (R1)",
			"req":        "strict-path storage: Request.ParseWire starts with *r = Request{} (checked below)",
			"chain":      "strict-path storage: BindChain + ResetWire before Next (checked below)",
			"carrier":    "strict-path storage: carrier.reset before Next (checked below)",
			"ednsWriter": "strict-path storage: the edns wire branch zeroes its slot on the way out",
		}
		tst := ttn.Type().Underlying().(*types.Struct)
		acqStores, _ := fieldsStoredIn([]*ssa.Function{acquire}, ttn)
		tnames := map[string]bool{}
		for i := 0; i < tst.NumFields(); i++ {
			f := tst.Field(i)
			tnames[f.Name()] = true
			key := fmt.Sprintf("%s|tcpJob.%s", rule, f.Name())
			switch {
			case texempt[f.Name()] != "":
				c.ok(rule, key, f.Pos(), "exempt: "+texempt[f.Name()])
			case acqStores[f.Name()]:
				c.ok(rule, key, f.Pos(), "assigned by acquire on every lease")
			default:
				c.MustCross(rule, serveConn, "serveFrame with tcpJob."+f.Name()+" re-armed", isCallTo(serveFrame), StoreBarrier("tcpJob."+f.Name(), f, nil))
			}
		}
		for k := range texempt {
			if !tnames[k] {
				c.unresolved(rule, "tcpJob."+k, "exempted field no longer exists (stale table row)")
			}
		}
	}

	// jobCarrier
	if reset := c.fn(rule, pkg+".(*jobCarrier).reset"); reset != nil {
		c.FieldCoverage(rule, pkg+".jobCarrier", []*ssa.Function{reset}, map[string]string{"mu": "mutex"}, "jobCarrier.reset")
		resetObj := funcObjOf(reset)
		next := c.fobj(rule, "middleware.(*Chain).Next")
		serveWire := c.fobj(rule, pkg+".(*Server).serveWire")
		parseWire := c.fobj(rule, "middleware.(*Request).ParseWire")
		resetWire := c.fobj(rule, "middleware.(*Chain).ResetWire")
		bind := c.fobj(rule, "middleware.(*Pipeline).BindChain")
		for _, name := range []string{"ServeRaw", "ServeRawInline", "ServeRawReplay"} {
			fn := c.fn(rule, pkg+".(*Server)."+name)
			if fn == nil || next == nil || serveWire == nil || parseWire == nil {
				continue
			}
			strict := func(in ssa.Instruction) bool {
				if isPlainCallTo(serveWire)(in) {
					return true
				}
				return isPlainCallTo(next)(in)
			}
			c.MustCross(rule, fn, "strict chain entry after carrier.reset", strict, CallBarrier("carrier.reset", resetObj))
			c.MustCross(rule, fn, "strict chain entry only with a freshly parsed request", strict, OnTrue("ParseWire", CallTo(parseWire)))
		}
		// every Next on a job-owned chain is preceded by BindChain and ResetWire
		for _, name := range []string{"serveWire", "ServeRawInline", "ServeRawReplay"} {
			fn := c.fn(rule, pkg+".(*Server)."+name)
			if fn == nil || next == nil || resetWire == nil || bind == nil {
				continue
			}
			c.MustCrossAll(rule, fn, "chain.Next on the job-owned chain", isPlainCallTo(next), CallBarrier("BindChain", bind), CallBarrier("ResetWire", resetWire))
		}
	}
	// Request re-initialisation
	if rtn := c.P.TypeName("middleware.Request"); rtn != nil {
		whole := func(in ssa.Instruction) bool {
			s, ok := in.(*ssa.Store)
			if !ok {
				return false
			}
			if _, isFA := s.Addr.(*ssa.FieldAddr); isFA {
				return false
			}
			if _, isAlloc := s.Addr.(*ssa.Alloc); isAlloc {
				return false
			}
			pt, ok := s.Addr.Type().Underlying().(*types.Pointer)
			if !ok {
				return false
			}
			n, ok := pt.Elem().(*types.Named)
			return ok && n.Obj() == rtn
		}
		for _, name := range []string{"ParseWire", "SetMsg"} {
			if fn := c.fn(rule, "middleware.(*Request)."+name); fn != nil {
				c.MustCross(rule, fn, "return", isReturn, c10InstrBarrier("*r = Request{…}", whole))
			}
		}
	}
	// job-owned chain: ResetWire coverage
	if fn := c.fn(rule, "middleware.(*Chain).ResetWire"); fn != nil {
		if ctn := c.P.TypeName("middleware.Chain"); ctn != nil {
			ex := map[string]string{}
			for k, v := range c10ChainExempt {
				ex[k] = v
			}
			ex["Writer"] = "re-pointed at the chain's own base by rebindWriter whenever it is not the base writer; wrappers are unwound by R5"
			ex["reqStorage"] = "unread on the wire path: Request points at transport job storage; a message-born use goes through Reset, which re-initialises it"
			c.c10Coverage(rule, "Chain.ResetWire", ctn.Type(), [][]c10Group{{{Name: fnKey(fn), Fns: []*ssa.Function{fn}}}}, ex)
		}
	}
	c.Floor(rule, 70)
}

// ---------------------------------------------------------------------------
// R7 shared upstream results are copied per caller

func c10R7(c *Ctx) {
	const rule = "C10-R7"
	c.Doc(rule, "Resolver.groupLookup: a field of the singleflight result is written only after resp.Copy() or on the shared=false edge; the leader closure is created only after req.Copy() or on the owned=true edge")
	fn := c.fn(rule, "middleware/resolver.(*Resolver).groupLookup")
	tdc := c.fobj(rule, "middleware/resolver.(*SingleflightWrapper).TimedDoChanWithRole")
	msgCopy := c.fobj(rule, "github.com/miekg/dns.(*Msg).Copy")
	msgTN := c.P.TypeName("github.com/miekg/dns.Msg")
	hdrTN := c.P.TypeName("github.com/miekg/dns.MsgHdr")
	if fn == nil || tdc == nil || msgCopy == nil || msgTN == nil || hdrTN == nil {
		if msgTN == nil || hdrTN == nil {
			c.unresolved(rule, "github.com/miekg/dns.Msg", "type not found")
		}
		return
	}
	// stores into a dns.Msg whose base derives from the singleflight result
	fromResult := Contains(CallTo(tdc))
	isMsgFieldStore := func(in ssa.Instruction) bool {
		s, ok := in.(*ssa.Store)
		if !ok {
			return false
		}
		base, rel := c10AddrPath(s.Addr)
		if rel == "" || base == nil {
			return false
		}
		pt, ok := base.Type().Underlying().(*types.Pointer)
		if !ok {
			return false
		}
		n, ok := pt.Elem().(*types.Named)
		if !ok || (n.Obj() != msgTN && n.Obj() != hdrTN) {
			return false
		}
		return fromResult(Desc(base))
	}
	// only in the top-level body (the closure works on its own lookup result)
	n := 0
	for _, b := range fn.Blocks {
		for _, in := range b.Instrs {
			if !isMsgFieldStore(in) {
				continue
			}
			n++
			key := fmt.Sprintf("%s|groupLookup|write to the singleflight result", rule)
			ug, tr := c.unguarded(in, []Barrier{CallBarrier("resp.Copy", msgCopy), OnFalse("shared", ResultOf(1, tdc))}, fn)
			if ug {
				c.violation(rule, key, instrPos(in), "the message returned by the shared lookup is written without Copy() on a path where shared may be true: another waiter of the same singleflight call reads (and is answered with) this caller's ID; path "+tr)
			} else {
				c.ok(rule, key, instrPos(in), "write happens on a private copy (after Copy()) or on the non-shared edge")
			}
		}
	}
	if n == 0 {
		c.unresolved(rule, "groupLookup|resp write", "no write to the singleflight result found (rule would pass vacuously)")
	}
	// leaderReq
	isLeaderClosure := func(in ssa.Instruction) bool {
		mc, ok := in.(*ssa.MakeClosure)
		if !ok || mc.Referrers() == nil {
			return false
		}
		for _, r := range *mc.Referrers() {
			if cl, ok := r.(*ssa.Call); ok && callIs(&cl.Call, tdc) {
				return true
			}
		}
		return false
	}
	c.MustCross(rule, fn, "leader closure creation", isLeaderClosure, CallBarrier("req.Copy", msgCopy), OnTrue("owned", func(e *Expr) bool { return e.K == EParam && e.Name == "owned" }))
	// and the closure really uses that private value, not the caller's req
	lookup := c.fobj(rule, "middleware/resolver.(*Resolver).lookup")
	if lookup != nil {
		// the wire lookup may sit in the closure or in an unexported helper the closure
		// hands its captured request to (scopeFuncs); a helper's own parameter is then
		// resolved to what every one of its call sites passes.  The only parameter
		// accepted as an origin is groupLookup's own req.
		callerReq := func(e *Expr) bool {
			p, ok := e.V.(*ssa.Parameter)
			return ok && e.K == EParam && e.Name == "req" && p.Parent() == fn
		}
		for _, g := range scopeFuncs(fn) {
			for _, b := range g.Blocks {
				for _, in := range b.Instrs {
					if !isCallTo(lookup)(in) {
						continue
					}
					c.OriginCheckThroughCallers(rule, rule+"|groupLookup|lookup request argument", in, "r.lookup request", callArg(in, 3), nil,
						CallTo(msgCopy), callerReq)
				}
			}
		}
	}
	c.Floor(rule, 3)
}

// ---------------------------------------------------------------------------
// R6 handed-out buffers expose nothing else

func c10R6(c *Ctx) {
	const rule = "C10-R6"
	c.Doc(rule, "responseWriter.BeginWire returns nil, a fresh make, or a three-index slice lease[:0:need] behind cap(lease) >= need; wire.TryPack hands its consumer buf[:off:off] (LeaseWire's own capacity refusal is redundant with BeginWire's cap check and is deliberately not required)")
	if fn := c.fn(rule, "middleware.(*responseWriter).BeginWire"); fn != nil {
		for _, in := range returnsWhere(fn, 0, nil) {
			key := rule + "|BeginWire|return"
			bad := ""
			for _, l := range Origins(Desc(in.(*ssa.Return).Results[0]), nil) {
				l = strip(l)
				switch {
				case IsNilConst(l):
				case l.K == EMake:
				case l.K == ESlice && len(l.Args) == 3 && l.Args[2] != nil && l.Args[1] != nil && IsConstInt(0)(l.Args[1]):
					// cap pinned; additionally it must be behind the capacity check
					ug, tr := c.unguarded(in, []Barrier{OnCmp("cap(lease) < need", func(e *Expr) bool {
						return e.K == ECall && e.Method == "builtin.cap"
					}, token.LSS, Any, false)}, fn)
					if ug {
						bad = "three-index lease returned without the cap(lease) >= need check; path " + tr
					}
				default:
					bad = "hands out " + trunc(l.String(), 120) + " — not a fresh buffer and not a capacity-pinned three-index slice: the wrapper could read or append into the previous response's tail"
				}
			}
			if bad != "" {
				c.violation(rule, key, instrPos(in), bad)
			} else {
				c.ok(rule, key, instrPos(in), "returns nil / fresh make / lease[:0:need]")
			}
		}
	}
	if fn := c.fn(rule, "internal/wire.TryPack"); fn != nil {
		n := 0
		for _, in := range instrsWhere(fn, func(in ssa.Instruction) bool {
			cl, ok := in.(*ssa.Call)
			if !ok || cl.Call.IsInvoke() || cl.Call.StaticCallee() != nil {
				return false
			}
			e := Desc(cl.Call.Value)
			return e.K == EParam && e.Name == "consume"
		}) {
			n++
			key := rule + "|TryPack|consume argument"
			e := strip(Desc(in.(*ssa.Call).Call.Args[0]))
			if e.K == ESlice && len(e.Args) == 3 && e.Args[1] != nil && e.Args[2] != nil && e.Args[1].String() == e.Args[2].String() && e.Args[1].V == e.Args[2].V {
				c.ok(rule, key, instrPos(in), "consumer receives buf[:off:off]")
			} else {
				c.violation(rule, key, instrPos(in), "consumer receives the pooled pack buffer without its capacity pinned to the packed length: a callback reslicing to cap reads the previous message's tail")
			}
		}
		if n == 0 {
			c.unresolved(rule, "TryPack|consume", "no consume(...) call found")
		}
	}
	c.Floor(rule, 5)
}

// ---------------------------------------------------------------------------
// R1 job typestate

func c10R1(c *Ctx) {
	const rule = "C10-R1"
	c10UDPTypestate(c, rule)
	c10TCPTypestate(c, rule)
	c.Floor(rule, 18)
}

func c10UDPTypestate(c *Ctx, rule string) {
	c.Doc(rule, "udpEngine.serve/serveInline: the transition to Serving is followed on every exit by the deferred terminal block, every path of which executes exactly one of release(Serving) | burst.add | transition(Serving,Reading); reader paths after take cross release(Reading) | enqueue | enqueueCounted | serveInline | arm (held window, drained by the deferred releaseHeld); udpTXBurst.release releases every job; tcp: serveConn defers the slab release before acquiring, put is behind the leased CAS, acquire arms leased before returning a job")
	const pkg = "server"
	transition := c.fobj(rule, pkg+".(*udpJob).transition")
	release := c.fobj(rule, pkg+".(*udpJob).release")
	burstAdd := c.fobj(rule, pkg+".(*udpTXBurst).add")
	enqueue := c.fobj(rule, pkg+".(*udpEngine).enqueue")
	enqueueCounted := c.fobj(rule, pkg+".(*udpEngine).enqueueCounted")
	take := c.fobj(rule, pkg+".(*udpEngine).take")
	serving, ok1 := c.c10ConstInt(rule, pkg+".udpJobServing")
	reading, ok2 := c.c10ConstInt(rule, pkg+".udpJobReading")
	if transition == nil || release == nil || burstAdd == nil || enqueue == nil || enqueueCounted == nil || take == nil || !ok1 || !ok2 {
		return
	}
	toServing := c10CallConstArg(transition, 2, serving)
	relServing := c10CallConstArg(release, 1, serving)
	relReading := c10CallConstArg(release, 1, reading)
	handoff := func(in ssa.Instruction) bool {
		return c10CallConstArg(transition, 1, serving)(in) && c10CallConstArg(transition, 2, reading)(in)
	}
	terminal := c10Or(relServing, isCallTo(burstAdd), handoff)

	serveFns := []*ssa.Function{c.fn(rule, pkg+".(*udpEngine).serve")}
	if f := c.P.Func(pkg + ".(*udpEngine).serveInline"); f != nil {
		serveFns = append(serveFns, f)
	}
	for _, fn := range serveFns {
		if fn == nil {
			continue
		}
		c.Paired(rule, fn, "Serving → terminal", toServing, terminal)
		// the deferred terminal block itself
		nd := 0
		for _, in := range instrsWhere(fn, func(in ssa.Instruction) bool { _, ok := in.(*ssa.Defer); return ok }) {
			body := c10CalleeFn(in)
			if body == nil || len(instrsWhere(body, terminal)) == 0 {
				continue
			}
			nd++
			c.MustCross(rule, body, "exit of the deferred terminal block", isReturn, c10InstrBarrier("release(Serving)|burst.add|handoff", terminal))
			c.c10AfterEach(rule, body, "at most one terminal", terminal, terminal)
		}
		if nd == 0 {
			c.violation(rule, fmt.Sprintf("%s|%s|deferred terminal block", rule, fnKey(fn)), fn.Pos(), "no deferred block containing the job terminal")
		}
	}
	// portable reader
	jNil := OnFalse("take()==nil", CallTo(take))
	again := c10Or(isReturn, isPlainCallTo(take))
	if fn := c.fn(rule, pkg+".(*udpEngine).reader"); fn != nil {
		c.c10AfterEach(rule, fn, "reader path after take", isPlainCallTo(take), again,
			c10InstrBarrier("release(Reading)", relReading), CallBarrier("enqueue", enqueue, enqueueCounted), jNil)
	}
	// batch reader
	if run := c.P.Func(pkg + ".(*udpBatchReader).run"); run != nil {
		arm := c.fobj(rule, pkg+".(*udpBatchReader).arm")
		finish := c.fn(rule, pkg+".(*udpBatchReader).finishRecv")
		serveInline := c.fobj(rule, pkg+".(*udpEngine).serveInline")
		if arm != nil && finish != nil && serveInline != nil {
			c.c10AfterEach(rule, run, "batch reader path after take", isPlainCallTo(take), again, CallBarrier("arm (held window)", arm), jNil)
			// the held window is drained on every exit
			drains := func(in ssa.Instruction) bool {
				cc := callCommon(in)
				if cc == nil || cc.IsInvoke() {
					return false
				}
				e := strip(Desc(cc.Value))
				if e == nil || e.K != EClosure || e.SFn == nil {
					return false
				}
				return len(instrsWhere(e.SFn, relReading)) > 0
			}
			c.MustCross(rule, run, "exit of the batch reader", func(in ssa.Instruction) bool { return in.Parent() == run && isReturn(in) }, deferBarrier("releaseHeld", drains))
			c.MustCross(rule, finish, "exit of finishRecv", isReturn,
				c10InstrBarrier("release(Reading)", relReading), CallBarrier("enqueue", enqueue, enqueueCounted), OnTrue("serveInline reached a terminal", CallTo(serveInline)))
		}
	} else {
		c.c10Absent(rule, "udpBatchReader.run/finishRecv")
	}
	// burst.release releases each job it holds
	if fn := c.fn(rule, pkg+".(*udpTXBurst).release"); fn != nil {
		if n := len(instrsWhere(fn, relServing)); n == 1 {
			c.ok(rule, rule+"|udpTXBurst.release|release(Serving)", fn.Pos(), "the burst releases its jobs from Serving")
		} else {
			c.violation(rule, rule+"|udpTXBurst.release|release(Serving)", fn.Pos(), fmt.Sprintf("expected one release(Serving) in the burst's release loop, found %d", n))
		}
	}
	// every flushTX variant releases the burst
	if fn := c.fn(rule, pkg+".(*udpEngine).flushTX"); fn != nil {
		if br := c.fobj(rule, pkg+".(*udpTXBurst).release"); br != nil {
			nField := c.field(rule, pkg+".udpTXBurst.n")
			bars := []Barrier{CallBarrier("burst.release", br)}
			if nField != nil {
				bars = append(bars, OnCmp("burst.n == 0", FieldIs(nField), token.EQL, IsConstInt(0), true))
			}
			c.MustCross(rule, fn, "exit of flushTX", isReturn, bars...)
		}
	}
}

func c10TCPTypestate(c *Ctx, rule string) {
	const pkg = "server"
	serveConn := c.fn(rule, pkg+".(*tcpEngine).serveConn")
	acquire := c.fobj(rule, pkg+".(*tcpEngine).acquire")
	put := c.fobj(rule, pkg+".(*tcpEngine).put")
	if serveConn == nil || acquire == nil || put == nil {
		return
	}
	c.Paired(rule, serveConn, "tcp slab acquire → put", isPlainCallTo(acquire), isCallTo(put))
	cas := c.fobj(rule, "sync/atomic.(*Bool).CompareAndSwap")
	store := c.fobj(rule, "sync/atomic.(*Bool).Store")
	leased := c.field(rule, pkg+".tcpJob.leased")
	if putFn := c.fn(rule, pkg+".(*tcpEngine).put"); putFn != nil && cas != nil && leased != nil {
		isSend := func(in ssa.Instruction) bool { _, ok := in.(*ssa.Send); return ok }
		c.MustCross(rule, putFn, "token returned", isSend, OnTrue("leased.CompareAndSwap(true,false)", func(e *Expr) bool {
			return CallTo(cas)(e) && len(e.Args) > 0 && FieldIs(leased)(e.Args[0])
		}))
	}
	if acqFn := c.fn(rule, pkg+".(*tcpEngine).acquire"); acqFn != nil && store != nil {
		c.MustCross(rule, acqFn, "job handed to the connection", isReturnWith(0, NotNilConst), CallBarrier("leased.Store(true)", store))
	}
}

// ---------------------------------------------------------------------------
// R3 the reply is addressed from the job

func c10R3(c *Ctx) {
	const rule = "C10-R3"
	c.Doc(rule, "every WriteMsgUDPAddrPort in package server is j.pc.WriteMsgUDPAddrPort(payload, nil | j.pktinfo[:j.pktinfoLen], j.raddr) with one and the same j (payload = j.tx[:j.txLen] in sendDirect); on the sendmmsg path Name/Namelen/Control/iovec all come from fields of one job and the batched arm is entered only across rawSALen != 0")
	const pkg = "server"
	wm := c.fobj(rule, "net.(*UDPConn).WriteMsgUDPAddrPort")
	pcF := c.field(rule, pkg+".udpJob.pc")
	raddrF := c.field(rule, pkg+".udpJob.raddr")
	pktF := c.field(rule, pkg+".udpJob.pktinfo")
	pktLenF := c.field(rule, pkg+".udpJob.pktinfoLen")
	txF := c.field(rule, pkg+".udpJob.tx")
	txLenF := c.field(rule, pkg+".udpJob.txLen")
	rawSAF := c.field(rule, pkg+".udpJob.rawSA")
	rawLenF := c.field(rule, pkg+".udpJob.rawSALen")
	if wm == nil || pcF == nil || raddrF == nil || pktF == nil || pktLenF == nil || txF == nil || txLenF == nil || rawSAF == nil || rawLenF == nil {
		return
	}
	baseOf := func(e *Expr, f *types.Var) (string, bool) {
		e = strip(e)
		if e == nil || e.K != EField || e.Var != f || e.X == nil {
			return "", false
		}
		return e.X.String(), true
	}
	sliceOf := func(e *Expr, arr, ln *types.Var) (string, bool) {
		e = strip(e)
		if e == nil || e.K != ESlice || len(e.Args) != 3 || e.Args[1] == nil {
			return "", false
		}
		b1, ok1 := baseOf(e.X, arr)
		b2, ok2 := baseOf(e.Args[1], ln)
		if !ok1 || !ok2 || b1 != b2 {
			return "", false
		}
		return b1, true
	}
	for _, fn := range c.P.FuncsInPkg(pkg) {
		for _, in := range instrsWhere(fn, func(in ssa.Instruction) bool { return in.Parent() == fn && isCallTo(wm)(in) }) {
			key := fmt.Sprintf("%s|%s|WriteMsgUDPAddrPort", rule, fnKey(fn))
			// every leaf producer of each operand (through locals, phis, merged
			// branches and small helpers) must be a field of one and the same job
			job := ""
			var probs []string
			same := func(b string) bool {
				if job == "" {
					job = b
				}
				return b == job
			}
			eachLeaf := func(v ssa.Value, what string, okLeaf func(l c10Leaf) bool) {
				ls := c10ValueLeaves(Desc(v), 0)
				if len(ls) == 0 {
					probs = append(probs, what+": origin could not be determined")
				}
				for _, l := range ls {
					if !okLeaf(l) {
						probs = append(probs, what+" may be "+trunc(l.E.String(), 80))
					}
				}
			}
			eachLeaf(callArg(in, 0), "send socket is not the job's own pc:", func(l c10Leaf) bool {
				b, ok := baseOf(l.E, pcF)
				return ok && same(l.Base(b))
			})
			eachLeaf(callArg(in, 3), "destination is not the raddr of the job that owns the socket:", func(l c10Leaf) bool {
				b, ok := baseOf(l.E, raddrF)
				return ok && same(l.Base(b))
			})
			eachLeaf(callArg(in, 2), "control data is neither nil nor pktinfo[:pktinfoLen] of the same job:", func(l c10Leaf) bool {
				if IsNilConst(l.E) {
					return true
				}
				b, ok := sliceOf(l.E, pktF, pktLenF)
				return ok && same(l.Base(b))
			})
			eachLeaf(callArg(in, 1), "payload is neither the Write argument nor tx[:txLen] of the same job:", func(l c10Leaf) bool {
				if l.E.K == EParam && in.Parent().Signature.Recv() != nil && methodOn(funcObjOf(in.Parent()), "udpJob") {
					return true // the transport's own Write(b): the caller's bytes for this job
				}
				b, ok := sliceOf(l.E, txF, txLenF)
				return ok && same(l.Base(b))
			})
			if len(probs) > 0 {
				c.violation(rule, key, instrPos(in), strings.Join(probs, "; ")+" — a reply could leave for another client's address or with another reply's bytes")
			} else {
				c.ok(rule, key, instrPos(in), "socket, destination, control data and payload all come from "+job)
			}
		}
	}
	// sendmmsg path
	if sg := c.P.Func(pkg + ".(*udpEngine).sendGroup"); sg != nil {
		isUnixField := func(in ssa.Instruction, typ, field string) (*ssa.Store, bool) {
			s, ok := in.(*ssa.Store)
			if !ok {
				return nil, false
			}
			fa, ok := s.Addr.(*ssa.FieldAddr)
			if !ok {
				return nil, false
			}
			n, ok := deref(fa.X.Type()).(*types.Named)
			if !ok || n.Obj().Name() != typ || n.Obj().Pkg() == nil || !strings.HasSuffix(n.Obj().Pkg().Path(), "golang.org/x/sys/unix") {
				return nil, false
			}
			if n.Underlying().(*types.Struct).Field(fa.Field).Name() != field {
				return nil, false
			}
			return s, true
		}
		jobs := map[string]bool{}
		nameStores := 0
		want := map[string]*types.Var{"Msghdr.Name": rawSAF, "Msghdr.Namelen": rawLenF, "Msghdr.Control": pktF, "Iovec.Base": txF, "Iovec.Len": txLenF}
		var keys []string
		for k := range want {
			keys = append(keys, k)
		}
		sort.Strings(keys)
		found := map[string]int{}
		for _, in := range instrsWhere(sg, func(in ssa.Instruction) bool { _, ok := in.(*ssa.Store); return ok }) {
			for _, k := range keys {
				parts := strings.SplitN(k, ".", 2)
				s, ok := isUnixField(in, parts[0], parts[1])
				if !ok {
					continue
				}
				e := Desc(s.Val)
				if IsAnyConst(e) {
					continue
				}
				key := fmt.Sprintf("%s|sendGroup|%s", rule, k)
				var hit *Expr
				var walk func(e *Expr, d int)
				walk = func(e *Expr, d int) {
					if e == nil || hit != nil || d > 12 {
						return
					}
					if e.K == EField && e.Var == want[k] {
						hit = e
						return
					}
					walk(e.X, d+1)
					for _, a := range e.Args {
						walk(a, d+1)
					}
				}
				walk(e, 0)
				if hit == nil || hit.X == nil {
					if k == "Msghdr.Name" || k == "Msghdr.Namelen" || k == "Iovec.Base" || k == "Iovec.Len" || k == "Msghdr.Control" {
						// stores of other shapes (e.g. &s.iovs[k] into Iov) are not these fields
						c.violation(rule, key, instrPos(in), k+" is not taken from the job's "+want[k].Name()+": "+trunc(e.String(), 120))
					}
					continue
				}
				found[k]++
				jobs[hit.X.String()] = true
				if k == "Msghdr.Name" {
					nameStores++
				}
				c.ok(rule, key, instrPos(in), k+" ← "+hit.X.String()+"."+want[k].Name())
			}
		}
		for _, k := range keys {
			if found[k] == 0 {
				c.unresolved(rule, "sendGroup|"+k, "no store found (rule would pass vacuously)")
			}
		}
		if len(jobs) == 1 {
			c.ok(rule, rule+"|sendGroup|one job per message", sg.Pos(), "address, control data and payload of a message all come from the same job value")
		} else if len(jobs) > 1 {
			var js []string
			for j := range jobs {
				js = append(js, j)
			}
			sort.Strings(js)
			c.violation(rule, rule+"|sendGroup|one job per message", sg.Pos(), "sendmmsg descriptor mixes fields of different jobs: "+strings.Join(js, " , "))
		}
		c.MustCross(rule, sg, "batched arm", func(in ssa.Instruction) bool { _, ok := isUnixField(in, "Msghdr", "Name"); return ok },
			OnCmp("rawSALen == 0", FieldIs(rawLenF), token.EQL, IsConstInt(0), false),
			OnCmp("rawSALen == 0", FieldIs(rawLenF), token.GTR, IsConstInt(0), true),
			OnCmp("rawSALen == 0", FieldIs(rawLenF), token.GEQ, IsConstInt(1), true))
	} else {
		c.c10Absent(rule, "udpEngine.sendGroup (sendmmsg path)")
	}
	c.Floor(rule, 5)
}

// ---------------------------------------------------------------------------
// R8 Raw is never retained (direct stores only)

func c10R8(c *Ctx) {
	const rule = "C10-R8"
	c.Doc(rule, "no function stores a view of the request's wire bytes (Request.raw, Raw(), WireName(), ClientCookie(), CookieEcho() or a sub-slice of one) directly into a struct field, package variable or map outside Request itself — the bytes are transport job storage rewritten by the next packet")
	rawF := c.field(rule, "middleware.Request.raw")
	reqTN := c.P.TypeName("middleware.Request")
	views := c.fobjs(rule, "middleware.(*Request).Raw", "middleware.(*Request).WireName", "middleware.(*Request).ClientCookie", "middleware.(*Request).CookieEcho")
	if rawF == nil || reqTN == nil || len(views) == 0 {
		return
	}
	// a view: (sub-slices of) the field or an accessor result; copies (append/copy/string conversion) are not views
	var isView func(e *Expr, d int) bool
	isView = func(e *Expr, d int) bool {
		if e == nil || d > 10 {
			return false
		}
		switch e.K {
		case ESlice:
			return isView(e.X, d+1)
		case EPhi, EAlloc:
			for _, a := range e.Args {
				if isView(a, d+1) {
					return true
				}
			}
			return false
		case EFree:
			return isView(e.X, d+1)
		case EField:
			return e.Var == rawF && e.Op != token.AND
		case ECall, EExtract:
			return CallTo(views...)(e)
		}
		return false
	}
	nView := 0
	nBad := 0
	for _, fn := range c.P.RepoFuncs() {
		for _, b := range fn.Blocks {
			for _, in := range b.Instrs {
				var val ssa.Value
				var dst string
				switch x := in.(type) {
				case *ssa.Store:
					if _, isSlice := x.Val.Type().Underlying().(*types.Slice); !isSlice {
						continue
					}
					switch a := x.Addr.(type) {
					case *ssa.FieldAddr:
						base, _ := c10AddrPath(a)
						if _, local := base.(*ssa.Alloc); local && !base.(*ssa.Alloc).Heap {
							continue
						}
						if n, ok := deref(a.X.Type()).(*types.Named); ok && n.Obj() == reqTN {
							continue // Request's own field
						}
						dst = "field " + deref(a.X.Type()).String() + "." + deref(a.X.Type()).Underlying().(*types.Struct).Field(a.Field).Name()
					case *ssa.Global:
						dst = "package variable " + a.Name()
					default:
						continue
					}
					val = x.Val
				case *ssa.MapUpdate:
					if _, isSlice := x.Value.Type().Underlying().(*types.Slice); !isSlice {
						continue
					}
					val, dst = x.Value, "map element"
				default:
					continue
				}
				if !isView(Desc(val), 0) {
					continue
				}
				nView++
				nBad++
				c.violation(rule, fmt.Sprintf("%s|%s|retains wire view", rule, fnKey(TopLevel(fn))), instrPos(in), "a view of the request's wire bytes is stored into "+dst+": the slab is rewritten by the next packet, so the holder later reads another client's query")
			}
		}
	}
	// inventory: every accessor call is at least looked at
	for _, v := range views {
		for _, s := range c.CallSites(v) {
			nView++
			_ = s
		}
	}
	if nBad == 0 {
		c.ok(rule, rule+"|no direct retention", token.NoPos, fmt.Sprintf("no direct store of a wire view into a field, global or map (%d accessor uses inventoried)", nView))
	}
	c.Floor(rule, 1)
}
