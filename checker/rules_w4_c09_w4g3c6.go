package main

// W4 / C09-w4g3c6 — C09-R15: the start-up trust set applies the revocation
// record on every route by which a key can enter it.
//
// C09-R14 decides that whoever makes a key set live has READ the tombstone
// store.  It does not decide that what was read is applied to every key.  The
// function that assembles the set a restarted resolver validates with
// (startupTrustAnchors: the configured keys plus the state file's Valid /
// Missing anchors) has more than one route into the result; AutoTA persists a
// revocation as tombstone first, state file second, so after a crash between
// the two writes the state file still lists the revoked key as Valid and only
// the tombstone knows better.  A route that skips the record re-publishes the
// key ("never published as a trust anchor again — not after restarts, a crash
// at any point between the state-file writes, configuration that still lists
// it").
//
// For every function whose result is stored into Resolver.rootKeys (found
// through the field; today NewResolver ← startupTrustAnchors), every builtin
// append that grows a slice of the result's type inside it:
//
//   each appended element K that is, or may be, a DNSKEY lies behind
//     - the MISS edge of a lookup keyed by dnskeyMaterialFP(K) in a revocation
//       set — the map returned by readTombstones, or a local map that receives
//       the keys ranged out of it (markers may add to it) — directly, inside a
//       closure of the function or inside an unexported helper (summaries), or
//     - for an element of interface type: the failed-assertion edge of
//       K.(*dns.DNSKEY) (not a key: nothing to revoke).
//
// Path structure only.  The REVOKE-flag test and the duplicate filter are not
// this rule's business.

import (
	"go/types"
	"sort"

	"golang.org/x/tools/go/ssa"
)

func init() {
	wrap := func(id string, extra func(c *Ctx), explain string) {
		pd := props[id]
		if pd == nil {
			return
		}
		orig := pd.Run
		pd.Run = func(c *Ctx) { orig(c); extra(c) }
		pd.Explanation += " " + explain
	}
	wrap("C09", c09R15, "R15 (added): in the function that builds the start-up trust set every key appended to the result — whichever source it comes from: configuration or state file — is behind a miss of its key-material fingerprint in the revocation record read from the tombstone store; a crash between the tombstone write and the state write leaves the revoked key Valid in the state file, and only this check keeps it out.")
}

func c09R15(c *Ctx) {
	const R = "C09-R15"
	const pkg = "middleware/resolver"
	c.Doc(R, "a bound applied on every route: in each function whose result becomes Resolver.rootKeys (startupTrustAnchors), every append to a slice of the result's type has each DNSKEY element K behind the miss edge of <revocation set>[dnskeyMaterialFP(K)] — the set being readTombstones' map or a local map filled from its keys — or, for an interface-typed element, behind the failed K.(*dns.DNSKEY) assertion; the state-file route is filtered like the configured route, because tombstone and state file are written one after the other and may disagree after a crash")
	rootKeysF := c.field(R, pkg+".Resolver.rootKeys")
	readTomb := c.fobj(R, pkg+".readTombstones")
	fp := c.fobj(R, pkg+".dnskeyMaterialFP")
	dnskeyTN := c.P.TypeName("github.com/miekg/dns.DNSKEY")
	if rootKeysF == nil || readTomb == nil || fp == nil || dnskeyTN == nil {
		if dnskeyTN == nil {
			c.unresolved(R, "dns.DNSKEY", "type not found")
		}
		return
	}
	isKeyPtr := func(t types.Type) bool {
		p, ok := t.(*types.Pointer)
		if !ok {
			return false
		}
		n, ok := p.Elem().(*types.Named)
		return ok && n.Obj() == dnskeyTN
	}

	// builders: same-module functions whose result is stored into rootKeys
	builders := map[*ssa.Function]bool{}
	for _, s := range c.StoreSites(rootKeysF) {
		st, ok := s.Instr.(*ssa.Store)
		if !ok {
			continue
		}
		v := st.Val
		if ex, ok := v.(*ssa.Extract); ok {
			v = ex.Tuple
		}
		cl, ok := v.(*ssa.Call)
		if !ok || cl.Call.IsInvoke() {
			continue
		}
		h := cl.Call.StaticCallee()
		if h == nil || len(h.Blocks) == 0 || fnPkg(h) == nil || !c.P.inModule(fnPkg(h).Path()) {
			continue
		}
		// the builder is the function that consults the record (C09-R14 decides that one
		// does); a helper that merely parses the configuration into a provisional value is not
		consults := false
		for _, g := range scopeFuncs(h) {
			if len(instrsWhere(g, isCallTo(readTomb))) > 0 {
				consults = true
			}
		}
		if consults {
			builders[h] = true
		}
	}
	if len(builders) == 0 {
		c.unresolved(R, "builder of the start-up trust set", "no store to Resolver.rootKeys takes the result of a module function that reads the tombstone store (rule would pass vacuously)")
		return
	}
	var bl []*ssa.Function
	for f := range builders {
		bl = append(bl, f)
	}
	sort.Slice(bl, func(i, j int) bool { return fnKey(bl[i]) < fnKey(bl[j]) })

	total := 0
	for _, F := range bl {
		if F.Signature.Results().Len() == 0 {
			continue
		}
		resT := F.Signature.Results().At(0).Type()
		scope := WithAnons(F)

		// roots of a map-valued expression: the values that identify "this map variable"
		var rootsOf func(e *Expr, d int) []ssa.Value
		rootsOf = func(e *Expr, d int) []ssa.Value {
			e = strip(e)
			if e == nil || d > 4 {
				return nil
			}
			var out []ssa.Value
			if e.V != nil {
				out = append(out, e.V)
				if ld, ok := e.V.(*ssa.UnOp); ok {
					out = append(out, ld.X)
				}
			}
			switch e.K {
			case EFree:
				out = append(out, rootsOf(e.X, d+1)...)
			case EAlloc, EPhi:
				for _, a := range e.Args {
					out = append(out, rootsOf(a, d+1)...)
				}
			}
			return out
		}
		revSet := map[ssa.Value]bool{}
		for _, g := range scope {
			for _, in := range instrsWhere(g, isPlainCallTo(readTomb)) {
				if in.Parent() != g {
					continue
				}
				cl := in.(*ssa.Call)
				if refs := cl.Referrers(); refs != nil {
					for _, r := range *refs {
						if ex, ok := r.(*ssa.Extract); ok && ex.Index == 0 {
							revSet[ex] = true
						}
					}
				}
			}
		}
		isRev := func(e *Expr) bool {
			for _, v := range rootsOf(e, 0) {
				if revSet[v] {
					return true
				}
			}
			return false
		}
		// local maps that receive the keys ranged out of a revocation set (two rounds: set of a set)
		for round := 0; round < 2; round++ {
			for _, g := range scope {
				for _, b := range g.Blocks {
					for _, in := range b.Instrs {
						mu, ok := in.(*ssa.MapUpdate)
						if !ok {
							continue
						}
						src, rg := c09RangeOf(mu.Key)
						if rg == nil || !isRev(Desc(src)) {
							continue
						}
						for _, v := range rootsOf(Desc(mu.Map), 0) {
							revSet[v] = true
						}
					}
				}
			}
		}

		for _, g := range scope {
			for _, b := range g.Blocks {
				for _, in := range b.Instrs {
					cl, ok := in.(*ssa.Call)
					if !ok {
						continue
					}
					bi, ok := cl.Call.Value.(*ssa.Builtin)
					if !ok || bi.Name() != "append" || len(cl.Call.Args) != 2 || !types.Identical(cl.Type(), resT) {
						continue
					}
					pack := strip(Desc(cl.Call.Args[1]))
					if pack == nil || pack.K != EMake || len(pack.Args) == 0 {
						if pack != nil && IsNilConst(pack) {
							continue
						}
						total++
						c.undecided(R, R+"|"+fnKey(F)+"|append of a whole slice to the trust set", instrPos(in), "the appended elements cannot be enumerated ("+trunc(Desc(cl.Call.Args[1]).String(), 100)+"): every key must pass the revocation record individually")
						continue
					}
					for _, el := range pack.Args {
						el = strip(el)
						if el == nil || el.V == nil {
							continue
						}
						t := el.V.Type()
						_, isIface := t.Underlying().(*types.Interface)
						if !isKeyPtr(t) && !isIface {
							continue
						}
						total++
						elStr := el.String()
						// position-free name of the route: the element's type, and for a field its owner
						route := "key"
						if isIface {
							route = "record (" + types.TypeString(t, func(p *types.Package) string { return p.Name() }) + ")"
						}
						if el.K == EField && el.X != nil && strip(el.X) != nil && strip(el.X).V != nil {
							if n, ok := deref(strip(el.X).V.Type()).(*types.Named); ok {
								route += " " + n.Obj().Name() + "." + el.Name
							}
						}
						key := R + "|" + fnKey(F) + "|" + route + " enters the trust set only past the revocation record"
						mentionsK := Contains(func(x *Expr) bool {
							x = strip(x)
							return x != nil && x.String() == elStr
						})
						hit := func(e *Expr) bool {
							e = strip(e)
							if e == nil {
								return false
							}
							l := e
							if e.K == EExtract && e.Idx == 1 && e.X != nil && e.X.K == ELookup && e.X.CommaOk {
								l = e.X
							} else if e.K != ELookup || e.CommaOk {
								return false
							}
							if !isRev(l.X) {
								return false
							}
							k := strip(l.Y)
							if k == nil || k.K != ECall || !sameFunc(k.Fn, fp) || len(k.Args) != 1 {
								return false
							}
							return mentionsK(k.Args[0])
						}
						isKeyAssert := func(e *Expr) bool {
							e = strip(e)
							if e == nil || e.K != EExtract || e.Idx != 1 || e.X == nil {
								return false
							}
							ta := e.X
							if ta.K != ETypeAssert || !ta.CommaOk || ta.V == nil {
								return false
							}
							tas, ok := ta.V.(*ssa.TypeAssert)
							return ok && isKeyPtr(tas.AssertedType) && mentionsK(ta.X)
						}
						inner := []Barrier{OnFalse("revoked[fp(K)]", hit)}
						if isIface {
							inner = append(inner, OnFalse("K.(*dns.DNSKEY)", isKeyAssert))
						}
						// the same test behind a closure of F: `if notTrusted(k, fp) { continue }`
						viaClosure := Barrier{Name: "closure verdict ⇒ revoked[fp(K)] miss", Edge: func(cond *Expr) (bool, int) {
							a, pol := Truthy(cond)
							a = strip(a)
							if a == nil || a.K != ECall || a.SFn == nil || a.SFn.Parent() == nil || TopLevel(a.SFn) != F {
								return false, 0
							}
							for _, want := range []bool{false, true} {
								hc := &helperCtx{always: map[helperKey]int{}, implies: map[helperKey]int{}, act: map[*ssa.Function][]*Expr{}}
								// a closure's parameters are substituted under its top-level function's
								// activation (inHelper keys on TopLevel)
								hc.act[F] = a.Args
								if hc.resultImplies(a.SFn, 0, want, inner, a.Args) {
									// the edge on which the call's result has truthiness `want`
									if want == pol {
										return true, 0
									}
									return true, 1
								}
							}
							return false, 0
						}}
						bars := append(append([]Barrier{}, inner...), viaClosure)
						if ug, tr := c.unguarded(in, bars, F); ug {
							c.violation(R, key, instrPos(in), "a key is appended to the start-up trust set on a path that never looked its key material up in the revocation record (tombstones / a set filled from them): the configuration may go on listing a revoked key, and AutoTA writes the tombstone before the state file, so after a crash between the two writes the state file still holds the revoked key as Valid — a route that skips the record publishes the key again for the priming query and every client query until a later AutoTA run reaches the root; path "+tr)
						} else {
							c.ok(R, key, instrPos(in), "behind the miss edge of the revocation set for this key's material"+map[bool]string{true: " (or not a DNSKEY)", false: ""}[isIface])
						}
					}
				}
			}
		}
	}
	if total == 0 {
		c.unresolved(R, "appends to the start-up trust set", "no append of a key found in the builder function(s)")
	}
}
