package main

// E8 guard truth tables: a boolean source expression is evaluated symbolically
// over named atoms (resolved by the rule through type information).  An
// expression containing anything but atoms, constants and &&, ||, ! is
// undecided.

import (
	"fmt"
	"go/ast"
	"go/token"
	"go/types"
	"sort"
	"strings"

	"golang.org/x/tools/go/packages"
)

// AtomFn maps a sub-expression to an atom name ("" = not an atom).
type AtomFn func(e ast.Expr, info *types.Info) string

// truthTable returns the sorted atom list and the table (bit i of the row
// index = value of atoms[i]); ok=false when the expression is not a pure
// boolean combination of atoms.
func truthTable(e ast.Expr, info *types.Info, atom AtomFn) (atoms []string, table []bool, ok bool) {
	set := map[string]bool{}
	var collect func(e ast.Expr) bool
	collect = func(e ast.Expr) bool {
		e = ast.Unparen(e)
		if a := atom(e, info); a != "" {
			set[strings.TrimPrefix(a, "!")] = true
			return true
		}
		switch x := e.(type) {
		case *ast.BinaryExpr:
			if x.Op == token.LAND || x.Op == token.LOR {
				return collect(x.X) && collect(x.Y)
			}
		case *ast.UnaryExpr:
			if x.Op == token.NOT {
				return collect(x.X)
			}
		case *ast.Ident:
			if x.Name == "true" || x.Name == "false" {
				return true
			}
		}
		return false
	}
	if !collect(e) {
		return nil, nil, false
	}
	for a := range set {
		atoms = append(atoms, a)
	}
	sort.Strings(atoms)
	idx := map[string]int{}
	for i, a := range atoms {
		idx[a] = i
	}
	var eval func(e ast.Expr, row int) bool
	eval = func(e ast.Expr, row int) bool {
		e = ast.Unparen(e)
		if a := atom(e, info); a != "" {
			neg := strings.HasPrefix(a, "!")
			v := row&(1<<idx[strings.TrimPrefix(a, "!")]) != 0
			return v != neg
		}
		switch x := e.(type) {
		case *ast.BinaryExpr:
			if x.Op == token.LAND {
				return eval(x.X, row) && eval(x.Y, row)
			}
			return eval(x.X, row) || eval(x.Y, row)
		case *ast.UnaryExpr:
			return !eval(x.X, row)
		case *ast.Ident:
			return x.Name == "true"
		}
		return false
	}
	n := 1 << len(atoms)
	table = make([]bool, n)
	for r := 0; r < n; r++ {
		table[r] = eval(e, r)
	}
	return atoms, table, true
}

// refTable evaluates a reference formula over the same atoms.
func refTable(atoms []string, f func(v map[string]bool) bool) []bool {
	n := 1 << len(atoms)
	out := make([]bool, n)
	for r := 0; r < n; r++ {
		v := map[string]bool{}
		for i, a := range atoms {
			v[a] = r&(1<<i) != 0
		}
		out[r] = f(v)
	}
	return out
}

func sameTable(a, b []bool) bool {
	if len(a) != len(b) {
		return false
	}
	for i := range a {
		if a[i] != b[i] {
			return false
		}
	}
	return true
}

// assignRHS finds the right-hand side of the (single) assignment/definition of
// a local variable named name inside fd.
func assignRHS(fd *ast.FuncDecl, name string) []ast.Expr {
	var out []ast.Expr
	if fd == nil || fd.Body == nil {
		return nil
	}
	ast.Inspect(fd.Body, func(n ast.Node) bool {
		switch x := n.(type) {
		case *ast.AssignStmt:
			for i, l := range x.Lhs {
				if id, ok := l.(*ast.Ident); ok && id.Name == name && len(x.Lhs) == len(x.Rhs) {
					out = append(out, x.Rhs[i])
				}
			}
		case *ast.ValueSpec:
			for i, id := range x.Names {
				if id.Name == name && i < len(x.Values) {
					out = append(out, x.Values[i])
				}
			}
		}
		return true
	})
	return out
}

// TruthTableCheck (E8): the expression's table over its atoms must equal ref.
func (c *Ctx) TruthTableCheck(rule, key string, e ast.Expr, pk *packages.Package, atom AtomFn, wantAtoms []string, ref func(v map[string]bool) bool, refText string) {
	if e == nil {
		c.unresolved(rule, key, "expression not found")
		return
	}
	atoms, tab, ok := truthTable(e, pk.TypesInfo, atom)
	if !ok {
		c.undecided(rule, key, e.Pos(), "guard is not a pure boolean combination of the declared atoms: "+types.ExprString(e))
		return
	}
	want := append([]string{}, wantAtoms...)
	sort.Strings(want)
	// evaluate over the union so a missing or extra atom shows up as a table difference
	union := map[string]bool{}
	for _, a := range atoms {
		union[a] = true
	}
	for _, a := range want {
		union[a] = true
	}
	var all []string
	for a := range union {
		all = append(all, a)
	}
	sort.Strings(all)
	// re-evaluate expression over 'all'
	pos := map[string]int{}
	for i, a := range atoms {
		pos[a] = i
	}
	n := 1 << len(all)
	got := make([]bool, n)
	for r := 0; r < n; r++ {
		sub := 0
		for i, a := range all {
			if r&(1<<i) != 0 {
				if j, ok := pos[a]; ok {
					sub |= 1 << j
				}
			}
		}
		got[r] = tab[sub]
	}
	rt := refTable(all, ref)
	if sameTable(got, rt) {
		c.ok(rule, key, e.Pos(), fmt.Sprintf("guard %s ≡ %s over atoms %v", types.ExprString(e), refText, all))
		return
	}
	// find a differing row
	for r := 0; r < n; r++ {
		if got[r] != rt[r] {
			var as []string
			for i, a := range all {
				as = append(as, fmt.Sprintf("%s=%v", a, r&(1<<i) != 0))
			}
			c.violation(rule, key, e.Pos(), fmt.Sprintf("guard %s differs from %s at %s: code=%v reference=%v", types.ExprString(e), refText, strings.Join(as, ","), got[r], rt[r]))
			return
		}
	}
}
