package main

// Regression mutants for finding F-C03-2 (the iterative resolver discards the authority's ECS
// SCOPE and re-attaches the request's own SCOPE-0 option).  Old = the fixed tree.
func init() {
	addMutants("C03", []Mutant{
		{ID: "f-c03-2-request-opt-reattached-alone", File: "middleware/resolver/resolver.go", Expect: "C03-R10|(*middleware/resolver.Resolver).clearAdditional",
			Old: "\t\t\tif scope != nil {\n\t\t\t\topt = optWithClientSubnet(opt, scope)\n\t\t\t}\n", New: "\t\t\t_ = scope\n",
			Why: "F-C03-2: the reply leaves the resolver with the request's SCOPE-0 option; the cache files a /24-tailored answer under the shared key"},
		{ID: "f-c03-2-scope-read-after-clear", File: "middleware/resolver/resolver.go", Expect: "C03-R10|(*middleware/resolver.Resolver).clearAdditional",
			Old: "\t\tscope := upstreamClientSubnet(req, resp)\n\n\t\tresp.Extra = []dns.RR{}\n", New: "\t\tresp.Extra = []dns.RR{}\n\t\tscope := upstreamClientSubnet(req, resp)\n",
			Why: "F-C03-2: the authority's option is looked for in a section that was just emptied"},
		{ID: "f-c03-2-scope-read-from-request", File: "middleware/resolver/resolver.go", Expect: "C03-R10|(*middleware/resolver.Resolver).clearAdditional",
			Old: "\treturn find(resp)\n}", New: "\t_ = resp\n\treturn find(req)\n}",
			Why: "F-C03-2: the option carried over is the request's own (SCOPE 0), not the authority's"},
	})
}
