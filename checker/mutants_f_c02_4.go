package main

// Regression mutants for F-C02-4 (an answer section holding only an RRset of another type is
// classified as the positive answer: relayed with AD and cached, never reaching the NODATA validator).
func init() {
	addMutants("C02", []Mutant{
		{ID: "c02-answerchain-type-filter-narrowed-away", File: "middleware/resolver/utils.go", Expect: "C02-R14|(*middleware/resolver.Resolver).resolve|Resolver.answer",
			Old: "if !anyType && covered != qtype && covered != dns.TypeCNAME {", New: "if !anyType && covered == dns.TypeDNAME {",
			Why: "F-C02-4: answerChain no longer compares a record's type with the question's type (only the owner's DNAME is dropped) — the A RRset of the asked name is again kept when AAAA was asked, the reply is classified as a positive answer, validated, marked AD and cached as the outcome of the AAAA question without any NSEC/NSEC3"},
		{ID: "c02-answerchain-called-with-any-type", File: "middleware/resolver/resolver.go", Expect: "C02-R14|(*middleware/resolver.Resolver).resolve|Resolver.answer",
			Old: "answerChain(resp.Answer, minReq.Question[0].Name, minReq.Question[0].Qtype)", New: "answerChain(resp.Answer, minReq.Question[0].Name, dns.TypeANY)",
			Why: "F-C02-4: resolve hands answerChain a constant type (ANY keeps everything) instead of the question's Qtype — the type filter is switched off and a wrong-type RRset reaches Resolver.answer again"},
	})
}
