package main

// Regression mutants for finding F-C03-3 (a prefetch triggered by an ECS client refreshes the
// shared entry with that client's subnet-tailored answer).  Old = the fixed tree.
func init() {
	addMutants("C03", []Mutant{
		{ID: "f-c03-3-refresh-keeps-client-subnet", File: "middleware/cache/prefetch_queue.go", Expect: "C03-R11|(*middleware/cache.PrefetchQueue).processPrefetch",
			Old: "\t\tif req.Entry == nil || !req.Entry.scoped() {\n\t\t\topt.Option = withoutClientSubnet(opt.Option)\n\t\t}\n", New: "",
			Why: "F-C03-3: the refresh of a shared entry goes upstream with the triggering client's ECS option; the /24 answer replaces the shared entry"},
		{ID: "f-c03-3-filter-keeps-only-subnet", File: "middleware/cache/prefetch_queue.go", Expect: "C03-R11|(*middleware/cache.PrefetchQueue).processPrefetch",
			Old: "if _, isECS := o.(*dns.EDNS0_SUBNET); !isECS {", New: "if _, isECS := o.(*dns.EDNS0_SUBNET); isECS {",
			Why: "F-C03-3: the filter's test is inverted — the subnet option is the one thing that survives"},
		{ID: "f-c03-3-strip-only-for-scoped", File: "middleware/cache/prefetch_queue.go", Expect: "C03-R11|(*middleware/cache.PrefetchQueue).processPrefetch",
			Old: "\t\tif req.Entry == nil || !req.Entry.scoped() {", New: "\t\tif req.Entry != nil && req.Entry.scoped() {",
			Why: "F-C03-3: the option is removed exactly when it would have been right to keep it, and kept for every shared entry"},
	})
}
