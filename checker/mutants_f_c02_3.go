package main

// Regression mutants for F-C02-3 (a denial proven for the minimised name returned as the answer to the full question).
func init() {
	const res = "middleware/resolver/resolver.go"
	addMutants("C02", []Mutant{
		{ID: "c02-minimised-nonreferral-validated-as-final", File: res, Expect: "C02-R13|(*middleware/resolver.Resolver).processAuthoritySection|authority verdict",
			Old: "if minimized && (len(nsInfo.hosts) == 0 || nsInfo.hasSOA) {", New: "if minimized && nsInfo.hasSOA {",
			Why: "F-C02-3: a reply to a minimised question that is neither a referral nor SOA-bearing (a NODATA whose SOA was stripped) is validated against the minimised request and returned as the final result"},
		{ID: "c02-minimised-walk-only-on-nxdomain", File: res, Expect: "C02-R13|(*middleware/resolver.Resolver).processAuthoritySection|authority verdict",
			Old: "if minimized && (len(nsInfo.hosts) == 0 || nsInfo.hasSOA) {", New: "if minimized && resp.Rcode == dns.RcodeNameError && (len(nsInfo.hosts) == 0 || nsInfo.hasSOA) {",
			Why: "F-C02-3: the walk continues only for NXDOMAIN; an authenticated NODATA about the intermediate name is again the answer to the client's longer name"},
	})
}
