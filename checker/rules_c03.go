package main

import (
	"fmt"
	"go/ast"
	"go/token"
	"go/types"
	"sort"
	"strings"

	"golang.org/x/tools/go/ssa"
)

func init() {
	register(&PropDef{
		ID:    "C03",
		Title: "A cached response only answers the exact question and audience it was stored for",
		Run:   runC03,
		Explanation: "Decided (structure only): R1 the hash-keyed tables of middleware/cache are exactly {PositiveCache.cache, NegativeCache.cache, FailureCache.entries, nxDomainCutCache.byHash, denialProofCache.zoneWireIndex}; every raw keyed lookup on them is inventoried and decided by R2 (no per-caller allow-table: a caller either verifies or is a listed raw returner); " +
			"R2 verify-before-use typestate: every value obtained from a raw keyed lookup is passed on, returned, stored, captured, copied or has a field value flow anywhere but a branch only at points unreachable from the lookup without crossing, for every key dimension of the value's type (CacheEntry: question.Name/Qtype/Qclass, cd, scope; failureEntry: kind=question + question.{Name,Qtype,Qclass,CD,Scope} or kind=zone + zone.{Zone,Qclass}; nxDomainCutEntry: deniedName, qclass), a branch edge that establishes that dimension for that same value (field == probe, leaf name comparator, !scope.IsValid(), or a bool function whose computed summary establishes it); a callee that receives the value unverified must itself verify its parameter before any use (verifying consumer), a function returning it unverified must be a listed raw lookup and its callers are checked in turn; " +
			"R3 the named verifiers establish every dimension (computed from their return edges, not declared), and the key constructors still take exactly (name,type,class,cd[,prefix]); " +
			"R4 every store to CacheEntry.cd/scope/question (helper parameters followed to their call sites) originates from the constructor message, setFromResponseWithKey's key CD, normalizeKeyScope(constructor prefix) or the replaced entry in ReplaceIfCurrent; the failure table files an entry under the hash of the normalised key it stores; a cut's hash is nxDomainCutHash of its own identity; " +
			"R5 the scope a scoped hit is verified against is the probe scope: scopedLookup hashes and returns the same prefix of the client's own address, ServeDNS passes handleCacheHit the scope of the same scopedLookup call (zero for the shared key), WriteMsg stores under the scope it hashed; " +
			"R6 isPresentationSpecial's byte set equals miekg/dns isDomainNameLabelSpecial's; every folding routine folds exactly 'A'..'Z' by +32; every key builder feeds the hash class-hi, class-lo, type-hi, type-lo, cd(1|0) then the name (and for scoped keys family 4|6, bits, address bytes) in that order; the wire-name walkers use the printable bounds 0x20..0x7E and the /100, /10%10, %10 digits; " +
			"R7 Store.Purge removes the shared key for both CD values from both sub-caches and sweeps scoped entries; " +
			"R8 the subtree-cut and denial-proof indices (no CD dimension, CD=0 validated state) are consulted only behind a CD=false edge — in the lookup, at its call site, or at every caller of a pass-through.",
		NotDecided: []string{
			"bit-identity of KeyWire* and Key* outputs for all byte strings (escape arithmetic is value-level; R6 pins only its tables, fold range and component order)",
			"behaviour under real xxhash collisions beyond \"every hit is behind a full-preimage verifier\"",
			"interleavings of store/refresh/purge",
			"that the CD-unkeyed cut / denial-proof indices are consulted only for requests without an ECS audience (R8 decides the CD dimension only)",
			"that the probe values a verifier compares against are the current request's own (R2 proves a full comparison of the stored identity happened, R5 pins only the scope argument)",
		},
	})
}

const c03Pkg = "middleware/cache"

// c03Dims: key dimensions per looked-up value type (field paths; "=K" = compared with that constant).
func c03Dims(c *Ctx) map[*types.TypeName][][]string {
	out := map[*types.TypeName][][]string{}
	kq, kz := "?", "?"
	if v := c.P.ConstVal(c03Pkg + ".FailureKindQuestion"); v != nil {
		kq = v.ExactString()
	} else {
		c.unresolved("C03-R2", c03Pkg+".FailureKindQuestion", "constant not found")
	}
	if v := c.P.ConstVal(c03Pkg + ".FailureKindZone"); v != nil {
		kz = v.ExactString()
	} else {
		c.unresolved("C03-R2", c03Pkg+".FailureKindZone", "constant not found")
	}
	table := []struct {
		typ  string
		alts [][]string
	}{
		{"CacheEntry", [][]string{{"question.Name", "question.Qtype", "question.Qclass", "cd", "scope"}}},
		{"failureEntry", [][]string{
			{"kind=" + kq, "question.Question.Name", "question.Question.Qtype", "question.Question.Qclass", "question.CD", "question.Scope"},
			{"kind=" + kz, "zone.Zone", "zone.Qclass"}}},
		{"nxDomainCutEntry", [][]string{{"deniedName", "qclass"}}},
		// identity-only: a snapshot found through the wire index may be compared, never read
		{"denialProofZoneSnapshot", [][]string{{"<identity-only: no key fields>"}}},
	}
	for _, row := range table {
		tn := c.P.TypeName(c03Pkg + "." + row.typ)
		if tn == nil {
			c.unresolved("C03-R2", c03Pkg+"."+row.typ, "type not found")
			continue
		}
		// every path must name existing fields
		for _, alt := range row.alts {
			for _, d := range alt {
				if strings.HasPrefix(d, "<") {
					continue
				}
				p := d
				if i := strings.Index(p, "="); i >= 0 {
					p = p[:i]
				}
				t := tn.Type()
				for _, name := range strings.Split(p, ".") {
					st, ok := deref(t).Underlying().(*types.Struct)
					found := false
					if ok {
						for i := 0; i < st.NumFields(); i++ {
							if st.Field(i).Name() == name {
								t = st.Field(i).Type()
								found = true
							}
						}
					}
					if !found {
						c.unresolved("C03-R2", row.typ+"."+d, "key dimension names a field that does not exist")
						break
					}
				}
			}
		}
		out[tn] = row.alts
	}
	return out
}

func c03Spec0(c *Ctx, rule string) *c03Spec {
	dims := c03Dims(c)
	spec := &c03Spec{
		Rule: rule,
		Alts: func(t types.Type) [][]string {
			n, ok := deref(t).(*types.Named)
			if !ok {
				return nil
			}
			return dims[n.Obj()]
		},
		Comparators: map[*types.Func][]int{},
		FalseMeans:  map[*types.Func]string{},
		Inspectors: map[string]string{
			"(*middleware/cache.CacheEntry).IsExpired in (*middleware/cache.PositiveCache).Get": "expiry pruning of the slot's own occupant inside the raw table getter; decides nothing about what is served",
			"(*middleware/cache.CacheEntry).IsExpired in (*middleware/cache.NegativeCache).Get": "expiry pruning of the slot's own occupant inside the raw table getter",
		},
		RawReturners: map[string]string{
			"(*middleware/cache.PositiveCache).Get":      "raw table getter",
			"(*middleware/cache.NegativeCache).Get":      "raw table getter",
			"(*middleware/cache.Store).LookupByKey":      "documented raw lookup: callers MUST verify",
			"(*middleware/cache.Cache).checkCache":       "raw probe of the answer caches for the hit chokepoints",
			"(*middleware/cache.Cache).scopedLookup":     "raw longest-prefix probe; the hit chokepoint verifies with the returned scope",
			"(*middleware/cache.FailureCache).loadEntry": "raw failure-table getter",
		},
	}
	if f := c.fobj(rule, c03Pkg+".equalNameASCIIFold"); f != nil {
		spec.Comparators[f] = []int{0, 1}
	}
	if f := c.fobj(rule, "internal/cache.WireNameEqualsPresentation"); f != nil {
		spec.Comparators[f] = []int{1}
	}
	if f := c.fobj(rule, "net/netip.Prefix.IsValid"); f != nil {
		spec.FalseMeans[f] = "stored scopes are normalised, so !IsValid() means the shared audience"
	}
	return spec
}

func runC03(c *Ctx) {
	c03R1R2(c)
	c03R3(c)
	c03R4(c)
	c03R5(c)
	c03R6(c)
	c03R7(c)
	c03R8(c)
}

// ---------------------------------------------------------------------------
// R1 + R2

func c03R1R2(c *Ctx) {
	c.Doc("C03-R1", "hash-keyed tables of middleware/cache are exactly the five known ones (a new uint64-keyed map / internal cache.Cache field is reported), and every raw keyed lookup on them — internal/cache.(*Cache).Get in this package, byHash / zoneWireIndex index, and each call of a function that hands the value on unverified — is inventoried as a source decided by R2")
	c.Doc("C03-R2", "verify-before-use typestate: a value from a raw keyed lookup is served/escaped only behind branch edges that establish every key dimension for that same value (see Explanation)")

	getF := c.fobj("C03-R1", "internal/cache.(*Cache).Get")
	byHash := c.field("C03-R1", c03Pkg+".nxDomainCutCache.byHash")
	zoneWire := c.field("C03-R1", c03Pkg+".denialProofCache.zoneWireIndex")
	if getF == nil || byHash == nil || zoneWire == nil {
		return
	}

	// R1a: the set of hash-keyed tables
	known := map[string]string{
		"PositiveCache.cache":            "answer table (xxhash of class|type|cd|name[|scope])",
		"NegativeCache.cache":            "legacy negative answer table, same key",
		"FailureCache.entries":           "RFC 9520 failure table (salted key)",
		"nxDomainCutCache.byHash":        "wire accelerator of the cut index (salted key)",
		"denialProofCache.zoneWireIndex": "wire accelerator of the denial zone index (salted key)",
	}
	seenTab := map[string]bool{}
	if pk := c.P.ByPath[c.P.expand(c03Pkg)]; pk != nil {
		scope := pk.Types.Scope()
		for _, name := range scope.Names() {
			tn, ok := scope.Lookup(name).(*types.TypeName)
			if !ok {
				continue
			}
			st, ok := tn.Type().Underlying().(*types.Struct)
			if !ok {
				continue
			}
			for i := 0; i < st.NumFields(); i++ {
				f := st.Field(i)
				if !c03IsHashTable(f.Type()) {
					continue
				}
				k := tn.Name() + "." + f.Name()
				key := "C03-R1|hash table|" + k
				if reason, ok := known[k]; ok {
					seenTab[k] = true
					c.ok("C03-R1", key, f.Pos(), "hash-keyed table "+k+": "+reason+"; its lookups are typestate sources")
				} else {
					c.violation("C03-R1", key, f.Pos(), "new hash-keyed table "+k+" (uint64-keyed map or internal/cache.Cache) whose lookups are not covered by the verify-before-use rule")
				}
			}
		}
	} else {
		c.unresolved("C03-R1", c03Pkg, "package not loaded")
	}
	for k := range known {
		if !seenTab[k] {
			c.unresolved("C03-R1", "hash table "+k, "table row stale")
		}
	}

	// primary sources
	var primary []c03Source
	var getSites, byHashSites, zoneSites []Site
	for _, fn := range c.P.FuncsInPkg(c03Pkg) {
		for _, b := range fn.Blocks {
			for _, in := range b.Instrs {
				switch x := in.(type) {
				case *ssa.Call:
					if callIs(&x.Call, getF) {
						getSites = append(getSites, Site{Fn: fn, Instr: in, Kind: "call"})
						primary = append(primary, c03Source{Fn: fn, At: in, Vals: c03ResultVals(in, 0), Desc: "internal/cache.(*Cache).Get()"})
					}
				case *ssa.Lookup:
					e := Desc(x.X)
					var which string
					switch {
					case FieldIs(byHash)(e):
						which = "byHash"
						byHashSites = append(byHashSites, Site{Fn: fn, Instr: in, Kind: "index"})
					case FieldIs(zoneWire)(e):
						which = "zoneWireIndex"
						zoneSites = append(zoneSites, Site{Fn: fn, Instr: in, Kind: "index"})
					default:
						continue
					}
					vals := []ssa.Value{x}
					if x.CommaOk {
						vals = nil
						if refs := x.Referrers(); refs != nil {
							for _, r := range *refs {
								if ex, ok := r.(*ssa.Extract); ok && ex.Index == 0 {
									vals = append(vals, ex)
								}
							}
						}
					}
					primary = append(primary, c03Source{Fn: fn, At: in, Vals: vals, Desc: which + "[hash]"})
				}
			}
		}
	}

	// R1b inventory.  (Round 2: the per-function allow-tables of raw-lookup callers were dropped — extracting a
	// verified-lookup helper is behaviour-preserving and R2 already decides every caller: it must verify before
	// use or be a listed raw returner.  What remains here is the non-vacuity inventory of the sites R2 decided.)
	_, _, _ = getSites, byHashSites, zoneSites
	eng := newC03Engine(c, c03Spec0(c, "C03-R2"))
	eng.Run(primary)
	eng.Finish()
	for _, src := range eng.Analysed {
		c.ok("C03-R1", fmt.Sprintf("C03-R1|raw lookup site|%s|%s", src.Desc, fnKey(TopLevel(src.Fn))), instrPos(src.At),
			fmt.Sprintf("raw keyed lookup %s in %s: every use decided by C03-R2", src.Desc, fnKey(src.Fn)))
	}
	c.Floor("C03-R1", 5+15)
	if eng.Sources < 15 {
		c.unresolved("C03-R2", "sources", fmt.Sprintf("only %d raw-lookup source sites analysed (25 on the tree this rule was written against)", eng.Sources))
	}
	c.Floor("C03-R2", 15)
}

// c03FnPath turns "(*middleware/cache.Store).LookupByKey" into the anchor syntax "middleware/cache.(*Store).LookupByKey".
func c03FnPath(k string) string {
	if !strings.HasPrefix(k, "(*") {
		return k
	}
	rest := k[2:]
	i := strings.LastIndex(rest[:strings.Index(rest, ")")], ".")
	return rest[:i] + ".(*" + rest[i+1:]
}

func c03Short(k string) string {
	if i := strings.LastIndex(k, "."); i >= 0 {
		j := strings.LastIndex(k[:i], ".")
		return strings.TrimSuffix(k[j+1:i], ")") + "." + k[i+1:]
	}
	return k
}

func c03IsHashTable(t types.Type) bool {
	if m, ok := t.Underlying().(*types.Map); ok {
		if b, ok := m.Key().Underlying().(*types.Basic); ok && b.Kind() == types.Uint64 {
			_, isPtr := m.Elem().Underlying().(*types.Pointer)
			return isPtr
		}
		return false
	}
	if n, ok := deref(t).(*types.Named); ok && n.Obj().Pkg() != nil {
		return n.Obj().Name() == "Cache" && strings.HasSuffix(n.Obj().Pkg().Path(), "/internal/cache")
	}
	return false
}

// ---------------------------------------------------------------------------
// R3 verifier coverage

func c03R3(c *Ctx) {
	c.Doc("C03-R3", "each named verifier, on every return edge that can carry true, establishes every listed key dimension of its argument (computed from the SSA return edges: path condition or returned atom); the key constructors still take exactly name/type/class/cd(/prefix) and dns.Question has exactly Name, Qtype, Qclass")
	eng := newC03Engine(c, c03Spec0(c, "C03-R3"))
	type want struct {
		fn    string
		param int
		dims  []string
		full  bool
	}
	ce := []string{"question.Name", "question.Qtype", "question.Qclass", "cd", "scope"}
	fq := []string{"Question.Name", "Question.Qtype", "Question.Qclass", "CD", "Scope"}
	for _, w := range []want{
		{c03Pkg + ".entryMatchesPreimage", 0, ce[1:], false},
		{c03Pkg + ".entryMatchesKey", 0, ce, true},
		{c03Pkg + ".entryMatchesWireQuestion", 0, ce, true},
		{c03Pkg + ".entryMatchesWire", 0, ce, true},
		{c03Pkg + ".failureQuestionKeysEqual", 0, fq, false},
		{c03Pkg + ".failureQuestionKeysEqual", 1, fq, false},
		{c03Pkg + ".failureZoneKeysEqual", 0, []string{"Zone", "Qclass"}, false},
		{c03Pkg + ".failureZoneKeysEqual", 1, []string{"Zone", "Qclass"}, false},
		{c03Pkg + ".failureEntriesSameKey", 0, nil, true},
	} {
		fn := c.fn("C03-R3", w.fn)
		if fn == nil {
			continue
		}
		s := eng.summary(fn, w.param)
		short := fn.Name()
		for _, d := range w.dims {
			key := fmt.Sprintf("C03-R3|%s|param%d|%s", short, w.param, d)
			if s.paths[d] {
				c.ok("C03-R3", key, fn.Pos(), fmt.Sprintf("%s returns true only when %s of parameter %s was compared equal", short, d, fn.Params[w.param].Name()))
			} else {
				c.violation("C03-R3", key, fn.Pos(), fmt.Sprintf("%s can return true without comparing %s of parameter %s: a colliding entry that differs only in that dimension is accepted", short, d, fn.Params[w.param].Name()))
			}
		}
		if w.full {
			key := fmt.Sprintf("C03-R3|%s|param%d|full", short, w.param)
			if s.full {
				c.ok("C03-R3", key, fn.Pos(), short+" is a full-preimage verifier: every true return establishes all dimensions of one alternative")
			} else {
				c.violation("C03-R3", key, fn.Pos(), short+" is not a full-preimage verifier: some true return leaves a key dimension uncompared")
			}
		}
	}

	// the dimension list itself: key constructors' parameter lists
	for _, k := range []struct {
		fn   string
		want string
	}{
		{"internal/cache.Key", "Question,[]bool"},
		{"internal/cache.KeyString", "string,uint16,uint16,bool"},
		{"internal/cache.KeyWithPrefix", "Question,bool,Prefix"},
		{"internal/cache.KeyWire", "[]byte,uint16,uint16,bool"},
		{"internal/cache.KeyWireWithPrefix", "[]byte,uint16,uint16,bool,Prefix"},
	} {
		fo := c.fobj("C03-R3", k.fn)
		if fo == nil {
			continue
		}
		sig := fo.Type().(*types.Signature)
		var ps []string
		for i := 0; i < sig.Params().Len(); i++ {
			ps = append(ps, c03TypeShort(sig.Params().At(i).Type()))
		}
		got := strings.Join(ps, ",")
		key := "C03-R3|key dimensions|" + fo.Name()
		if got == k.want {
			c.ok("C03-R3", key, fo.Pos(), fo.Name()+"("+got+"): the key dimensions are name, type, class, cd"+map[bool]string{true: ", scope", false: ""}[strings.Contains(got, "Prefix")])
		} else {
			c.violation("C03-R3", key, fo.Pos(), fmt.Sprintf("%s now takes (%s), expected (%s): a key dimension was added or removed — the verifier dimension table (c03Dims) must follow", fo.Name(), got, k.want))
		}
	}
	if tn, _ := c.P.Object("github.com/miekg/dns.Question").(*types.TypeName); tn != nil {
		st, _ := tn.Type().Underlying().(*types.Struct)
		var fs []string
		for i := 0; st != nil && i < st.NumFields(); i++ {
			fs = append(fs, st.Field(i).Name())
		}
		key := "C03-R3|key dimensions|dns.Question"
		if strings.Join(fs, ",") == "Name,Qtype,Qclass" {
			c.ok("C03-R3", key, tn.Pos(), "dns.Question has exactly Name, Qtype, Qclass")
		} else {
			c.violation("C03-R3", key, tn.Pos(), "dns.Question fields are "+strings.Join(fs, ",")+": dimension table out of date")
		}
	} else {
		c.unresolved("C03-R3", "github.com/miekg/dns.Question", "type not found")
	}
	c.Floor("C03-R3", 4+6+6+6+10+4+1+5+1)
}

func c03TypeShort(t types.Type) string {
	switch x := t.(type) {
	case *types.Named:
		return x.Obj().Name()
	case *types.Slice:
		return "[]" + c03TypeShort(x.Elem())
	case *types.Alias:
		return c03TypeShort(types.Unalias(x))
	}
	return t.String()
}

// ---------------------------------------------------------------------------
// R4 identity writers

// c03IP: origins of a value followed out of unexported-helper parameters to the
// arguments of every call site (so a rule about "what is stored" does not
// depend on whether the store sits in the anchored function or in a helper).
type c03IP struct {
	c     *Ctx
	roots map[*ssa.Function]bool // parameters of these functions are leaves
}

func (x *c03IP) leaves(e *Expr, depth int) []*Expr {
	var out []*Expr
	for _, l := range Origins(e, nil) {
		ls := strip(l)
		if ls != nil && ls.K == EParam && depth < 4 {
			if p, ok := ls.V.(*ssa.Parameter); ok {
				f := p.Parent()
				if fo := funcObjOf(f); !x.roots[f] && f.Parent() == nil && fo != nil && !fo.Exported() {
					idx := -1
					for i, q := range f.Params {
						if q == p {
							idx = i
						}
					}
					var sub []*Expr
					complete := idx >= 0
					n := 0
					for _, s := range x.c.CallSites(fo) {
						cc := callCommon(s.Instr)
						if cc == nil || cc.IsInvoke() || s.Kind == "ref" || idx >= len(cc.Args) {
							complete = false
							break
						}
						n++
						sub = append(sub, x.leaves(Desc(cc.Args[idx]), depth+1)...)
					}
					if complete && n > 0 {
						out = append(out, sub...)
						continue
					}
				}
			}
		}
		out = append(out, l)
	}
	return out
}

// baseIs: the field/index chain of l ends in (a value that originates only from) parameter want.
func (x *c03IP) baseIs(l *Expr, want *ssa.Parameter) bool {
	b := strip(l)
	for b != nil && (b.K == EField || b.K == EIndex) {
		b = strip(b.X)
	}
	if b == nil || want == nil {
		return false
	}
	ls := x.leaves(b, 0)
	if len(ls) == 0 {
		return false
	}
	for _, q := range ls {
		q = strip(q)
		if q == nil || q.K != EParam || q.V != ssa.Value(want) {
			return false
		}
	}
	return true
}

// c03ParamOfType: the unique parameter of fn whose type satisfies pred.
func c03ParamOfType(fn *ssa.Function, pred func(types.Type) bool) *ssa.Parameter {
	var out *ssa.Parameter
	for _, p := range fn.Params {
		if pred(p.Type()) {
			if out != nil {
				return nil
			}
			out = p
		}
	}
	return out
}

func c03R4(c *Ctx) {
	c.Doc("C03-R4", "the identity an entry is verified against is the identity it was filed under: every store to CacheEntry.cd (wherever it sits — helper parameters are followed to their call sites) takes the constructor message's CheckingDisabled, setFromResponseWithKey's key-CD parameter, or the replaced entry's cd in ReplaceIfCurrent; every store to .scope takes normalizeKeyScope(NewScopedCacheEntry's prefix) or the replaced entry's scope; .question takes the constructor message's Question[0]; the failure table files an entry under the hash of the very normalised key it stores; a cut's hash is nxDomainCutHash(its own deniedName, qclass)")
	cd := c.field("C03-R4", c03Pkg+".CacheEntry.cd")
	scope := c.field("C03-R4", c03Pkg+".CacheEntry.scope")
	question := c.field("C03-R4", c03Pkg+".CacheEntry.question")
	norm := c.fobj("C03-R4", c03Pkg+".normalizeKeyScope")
	msgHdrCD := c.field("C03-R4", "github.com/miekg/dns.MsgHdr.CheckingDisabled")
	msgQuestion := c.field("C03-R4", "github.com/miekg/dns.Msg.Question")
	ctor := c.fn("C03-R4", c03Pkg+".NewCacheEntryWithKey")
	sctor := c.fn("C03-R4", c03Pkg+".NewScopedCacheEntry")
	sfrwk := c.fn("C03-R4", c03Pkg+".(*Store).setFromResponseWithKey")
	ric := c.fn("C03-R4", c03Pkg+".(*Store).ReplaceIfCurrent")
	entryT := c.P.TypeName(c03Pkg + ".CacheEntry")
	if cd == nil || scope == nil || question == nil || norm == nil || msgHdrCD == nil || msgQuestion == nil || ctor == nil || sctor == nil || sfrwk == nil || ric == nil || entryT == nil {
		return
	}
	named := func(pkgSuffix, name string) func(types.Type) bool {
		return func(t types.Type) bool {
			n, ok := deref(t).(*types.Named)
			return ok && n.Obj().Name() == name && n.Obj().Pkg() != nil && strings.HasSuffix(n.Obj().Pkg().Path(), pkgSuffix)
		}
	}
	isBool := func(t types.Type) bool {
		b, ok := t.Underlying().(*types.Basic)
		return ok && b.Kind() == types.Bool
	}
	ctorMsg := c03ParamOfType(ctor, named("miekg/dns", "Msg"))
	sctorPrefix := c03ParamOfType(sctor, named("net/netip", "Prefix"))
	keyCD := c03ParamOfType(sfrwk, isBool)
	expected := c03ParamOfType(ric, func(t types.Type) bool { n, ok := deref(t).(*types.Named); return ok && n.Obj() == entryT })
	for what, p := range map[string]*ssa.Parameter{"NewCacheEntryWithKey *dns.Msg parameter": ctorMsg, "NewScopedCacheEntry netip.Prefix parameter": sctorPrefix, "setFromResponseWithKey bool (key CD) parameter": keyCD, "ReplaceIfCurrent *CacheEntry parameter": expected} {
		if p == nil {
			c.unresolved("C03-R4", what, "no unique parameter of that type (anchor shape changed)")
		}
	}
	if ctorMsg == nil || sctorPrefix == nil || keyCD == nil || expected == nil {
		return
	}
	ip := &c03IP{c: c, roots: map[*ssa.Function]bool{ctor: true, sctor: true, sfrwk: true, ric: true}}
	isParam := func(l *Expr, p *ssa.Parameter) bool {
		l = strip(l)
		return l != nil && l.K == EParam && l.V == ssa.Value(p)
	}
	rows := []struct {
		field *types.Var
		name  string
		allow func(l *Expr) string // "" = not allowed, else which origin
	}{
		{cd, "CacheEntry.cd", func(l *Expr) string {
			switch {
			case FieldIs(msgHdrCD)(l) && ip.baseIs(l, ctorMsg):
				return "the constructor message's CD"
			case isParam(l, keyCD):
				return "setFromResponseWithKey's key CD"
			case FieldIs(cd)(l) && ip.baseIs(l, expected):
				return "the replaced entry's cd"
			}
			return ""
		}},
		{scope, "CacheEntry.scope", func(l *Expr) string {
			ls := strip(l)
			switch {
			case CallTo(norm)(l) && ls.K == ECall && len(ls.Args) == 1:
				for _, a := range ip.leaves(ls.Args[0], 0) {
					if !isParam(a, sctorPrefix) {
						return ""
					}
				}
				return "normalizeKeyScope(the constructor's prefix)"
			case FieldIs(scope)(l) && ip.baseIs(l, expected):
				return "the replaced entry's scope"
			}
			return ""
		}},
		{question, "CacheEntry.question", func(l *Expr) string {
			ls := strip(l)
			if ls != nil && ls.K == EIndex && FieldIs(msgQuestion)(ls.X) && IsConstInt(0)(ls.Y) && ip.baseIs(ls.X, ctorMsg) {
				return "the constructor message's Question[0]"
			}
			return ""
		}},
	}
	for _, r := range rows {
		sites := c.StoreSites(r.field)
		if len(sites) == 0 {
			c.unresolved("C03-R4", r.name, "no store site found (rule would pass vacuously)")
		}
		for _, s := range sites {
			key := fmt.Sprintf("C03-R4|%s|%s origin", fnKey(TopLevel(s.Fn)), r.name)
			leaves := ip.leaves(Desc(s.Val), 0)
			var good, bad []string
			for _, l := range leaves {
				if w := r.allow(l); w != "" {
					good = append(good, w)
				} else {
					bad = append(bad, trunc(l.String(), 120))
				}
			}
			switch {
			case len(leaves) == 0:
				c.undecided("C03-R4", key, instrPos(s.Instr), r.name+": no origin could be determined")
			case len(bad) > 0:
				c.violation("C03-R4", key, instrPos(s.Instr), fmt.Sprintf("%s is written from %s in %s: the entry would carry an identity other than the key it is filed under (or the message it was built from)", r.name, strings.Join(bad, " ; "), fnKey(s.Fn)))
			default:
				c.ok("C03-R4", key, instrPos(s.Instr), fmt.Sprintf("%s ← %s", r.name, strings.Join(good, " ; ")))
			}
		}
	}

	// failure table: filed under the hash of the very normalised key it stores
	record := c.fobj("C03-R4", c03Pkg+".(*FailureCache).record")
	for _, fr := range []struct{ field, hashFn, normFn, what string }{
		{"failureEntry.question", c03Pkg + ".failureQuestionHash", c03Pkg + ".normalizeFailureQuestionKey", "question"},
		{"failureEntry.zone", c03Pkg + ".failureZoneHash", c03Pkg + ".normalizeFailureZoneKey", "zone"},
	} {
		fv := c.field("C03-R4", c03Pkg+"."+fr.field)
		hf := c.fobj("C03-R4", fr.hashFn)
		nf := c.fobj("C03-R4", fr.normFn)
		if fv == nil || hf == nil || nf == nil || record == nil {
			continue
		}
		ipf := &c03IP{c: c, roots: map[*ssa.Function]bool{}}
		sites := c.StoreSites(fv)
		if len(sites) == 0 {
			c.unresolved("C03-R4", fr.field, "no store site found")
		}
		storedIn := map[*ssa.Function][]string{}
		for _, s := range sites {
			key := fmt.Sprintf("C03-R4|%s|%s is the normalised key", fnKey(TopLevel(s.Fn)), fr.field)
			okAll := true
			var ls []string
			for _, l := range ipf.leaves(Desc(s.Val), 0) {
				ls = append(ls, trunc(l.String(), 100))
				if !CallTo(nf)(l) {
					okAll = false
				}
			}
			storedIn[TopLevel(s.Fn)] = append(storedIn[TopLevel(s.Fn)], Desc(s.Val).String())
			if okAll && len(ls) > 0 {
				c.ok("C03-R4", key, instrPos(s.Instr), fr.field+" ← "+strings.Join(ls, " ; "))
			} else {
				c.violation("C03-R4", key, instrPos(s.Instr), fmt.Sprintf("%s is stored from %v, not from %s(…): lookups normalise their probe, so the entry is compared against an identity in another form", fr.field, ls, nf.Name()))
			}
		}
		// every hash computed for this kind is the hash of a normalised key, and — where the store is in the same function — of the stored one
		n := 0
		for _, s := range c.CallSites(hf) {
			if s.Kind != "call" {
				continue
			}
			top := TopLevel(s.Fn)
			// only the hashes that reach record() (file an entry) matter here
			feeds := false
			for _, in := range instrsWhere(top, isPlainCallTo(record)) {
				if Contains(func(e *Expr) bool { return e.V == s.Instr.(ssa.Value) })(Desc(callArg(in, 1))) {
					feeds = true
				}
			}
			if !feeds {
				continue
			}
			n++
			key := fmt.Sprintf("C03-R4|%s|stored key == hashed key", top.Name())
			arg := Desc(callArg(s.Instr, 0))
			okN := true
			for _, l := range ipf.leaves(arg, 0) {
				if !CallTo(nf)(l) {
					okN = false
				}
			}
			same := true
			for _, st := range storedIn[top] {
				if st != arg.String() {
					same = false
				}
			}
			if okN && same {
				c.ok("C03-R4", key, instrPos(s.Instr), top.Name()+" files the entry under the hash of the very (normalised) key it stores: "+trunc(arg.String(), 120))
			} else {
				c.violation("C03-R4", key, instrPos(s.Instr), fmt.Sprintf("%s: hashed key %s and stored identity %v are not the same normalised key — the entry would be verified against an identity it was not filed under", top.Name(), trunc(arg.String(), 120), storedIn[top]))
			}
		}
		if n == 0 {
			c.unresolved("C03-R4", fr.hashFn, "no hash feeding FailureCache.record found")
		}
	}
	// cut hash is the hash of the entry's own identity, wherever it is stored
	{
		hv := c.field("C03-R4", c03Pkg+".nxDomainCutEntry.hash")
		dn := c.field("C03-R4", c03Pkg+".nxDomainCutEntry.deniedName")
		qc := c.field("C03-R4", c03Pkg+".nxDomainCutEntry.qclass")
		hf := c.fobj("C03-R4", c03Pkg+".nxDomainCutHash")
		if hv != nil && dn != nil && qc != nil && hf != nil {
			sites := c.StoreSites(hv)
			if len(sites) == 0 {
				c.unresolved("C03-R4", "nxDomainCutEntry.hash", "no store site found")
			}
			for _, s := range sites {
				base := ""
				if st, ok := s.Instr.(*ssa.Store); ok {
					if fa, ok := st.Addr.(*ssa.FieldAddr); ok {
						base = Desc(fa.X).String()
					}
				}
				c.OriginCheck("C03-R4", "C03-R4|"+fnKey(TopLevel(s.Fn))+"|hash origin", s.Instr, "nxDomainCutEntry.hash", s.Val, nil, func(e *Expr) bool {
					e = strip(e)
					if !(CallTo(hf)(e) && len(e.Args) == 2 && FieldIs(dn)(e.Args[0]) && FieldIs(qc)(e.Args[1])) {
						return false
					}
					// of this very entry
					return strip(e.Args[0]).X.String() == base && strip(e.Args[1]).X.String() == base
				})
			}
		}
	}
	c.Floor("C03-R4", 3+2+1+2+2+1)
}

// ---------------------------------------------------------------------------
// R5 the verified scope is the probed scope

// c03KeyLitField finds, for a call CacheKey.Hash(load of local literal), the value stored into the literal's field.
func c03KeyLitField(hashCall *ssa.Call, field string) ssa.Value {
	if len(hashCall.Call.Args) == 0 {
		return nil
	}
	ld, ok := hashCall.Call.Args[0].(*ssa.UnOp)
	if !ok {
		return nil
	}
	al, ok := ld.X.(*ssa.Alloc)
	if !ok || al.Referrers() == nil {
		return nil
	}
	var out ssa.Value
	for _, r := range *al.Referrers() {
		fa, ok := r.(*ssa.FieldAddr)
		if !ok {
			continue
		}
		st := deref(fa.X.Type()).Underlying().(*types.Struct)
		if st.Field(fa.Field).Name() != field || fa.Referrers() == nil {
			continue
		}
		for _, q := range *fa.Referrers() {
			if s, ok := q.(*ssa.Store); ok && s.Addr == fa {
				if out != nil {
					return nil
				}
				out = s.Val
			}
		}
	}
	return out
}

// c03Resolve looks through a load of a single-assignment local cell (a variable captured by a closure).
func c03Resolve(v ssa.Value) ssa.Value {
	for i := 0; i < 4; i++ {
		ld, ok := v.(*ssa.UnOp)
		if !ok || ld.Op != token.MUL {
			return v
		}
		al, ok := ld.X.(*ssa.Alloc)
		if !ok {
			return v
		}
		st := c03SingleStore(al)
		if st == nil {
			return v
		}
		v = st
	}
	return v
}

func c03R5(c *Ctx) { c03R5as(c, "C03-R5") }

// c03R5as runs the rule under the given rule id (the clause "a scoped answer is served only
// inside its scope" is claimed by C03 and by C19).
func c03R5as(c *Ctx, R string) {
	c.Doc(R, "a scoped entry is verified against the scope that was probed, and that scope contains the client: scopedLookup hashes CacheKey{Scope: s} and returns that same s = clientPrefix.Addr().Prefix(bits); ServeDNS hands handleCacheHit the entry and the scope of the same scopedLookup call (the zero prefix with checkCache); WriteMsg files a scoped answer under the hash of the scope it passes to SetFromResponseScoped, and reaches the shared-key store only when the request had no usable ECS scope or the response carried no SCOPE")
	hash := c.fobj(R, c03Pkg+".CacheKey.Hash")
	scopedLookup := c.fobj(R, c03Pkg+".(*Cache).scopedLookup")
	checkCache := c.fobj(R, c03Pkg+".(*Cache).checkCache")
	hch := c.fobj(R, c03Pkg+".(*Cache).handleCacheHit")
	lbk := c.fobj(R, c03Pkg+".(*Store).LookupByKey")
	addrPrefix := c.fobj(R, "net/netip.Addr.Prefix")
	prefAddr := c.fobj(R, "net/netip.Prefix.Addr")
	setScoped := c.fobj(R, c03Pkg+".(*Store).SetFromResponseScoped")
	if hash == nil || scopedLookup == nil || checkCache == nil || hch == nil || lbk == nil || addrPrefix == nil || prefAddr == nil || setScoped == nil {
		return
	}
	// (a) scopedLookup
	if fn := c.fn(R, c03Pkg+".(*Cache).scopedLookup"); fn != nil {
		isProbe := func(e *Expr) bool {
			e = strip(e)
			if e == nil || !ResultOf(0, addrPrefix)(e) {
				return false
			}
			call := e
			if call.K == EExtract {
				call = strip(call.X)
			}
			if len(call.Args) < 1 || !CallTo(prefAddr)(call.Args[0]) {
				return false
			}
			a0 := strip(call.Args[0])
			return len(a0.Args) == 1 && strip(a0.Args[0]).K == EParam && strip(a0.Args[0]).Name == "clientPrefix"
		}
		n := 0
		for _, in := range instrsWhere(fn, isPlainCallTo(lbk)) {
			n++
			key := R + "|scopedLookup|probe"
			hc, _ := callArg(in, 1).(*ssa.Call)
			if hc == nil || !callIs(&hc.Call, hash) {
				c.violation(R, key, instrPos(in), "LookupByKey key is not CacheKey{…}.Hash()")
				continue
			}
			sv := c03KeyLitField(hc, "Scope")
			if sv == nil || !isProbe(Desc(sv)) {
				c.violation(R, key, instrPos(in), "the probed key's Scope is not clientPrefix.Addr().Prefix(bits): a scope that does not contain the client could be probed")
				continue
			}
			// every non-zero returned scope is that same value
			bad := false
			for _, ret := range returnsWhere(fn, 2, nil) {
				rv := ret.(*ssa.Return).Results[2]
				if rv == sv {
					continue
				}
				if k, isC := rv.(*ssa.Const); isC && k.Value == nil {
					// zero prefix, must go with a nil entry
					if e0 := ret.(*ssa.Return).Results[0]; IsNilConst(Desc(e0)) {
						continue
					}
				}
				if al, isLoad := rv.(*ssa.UnOp); isLoad {
					if a, ok := al.X.(*ssa.Alloc); ok && len(cellStores(a)) == 0 && IsNilConst(Desc(ret.(*ssa.Return).Results[0])) {
						continue // zero-valued composite literal
					}
				}
				bad = true
				c.violation(R, key, instrPos(ret), "scopedLookup returns a scope other than the one it hashed: the hit would be verified against a scope that was not probed")
			}
			if !bad {
				c.ok(R, key, instrPos(in), "probe scope = clientPrefix.Addr().Prefix(bits); hashed and returned scope are the same value")
			}
		}
		if n == 0 {
			c.unresolved(R, "scopedLookup", "no LookupByKey call found")
		}
	}
	// (b) ServeDNS → handleCacheHit pairing
	if fn := c.fn(R, c03Pkg+".(*Cache).ServeDNS"); fn != nil {
		for _, in := range instrsWhere(fn, isPlainCallTo(hch)) {
			ent := c03Resolve(callArg(in, 3))
			sc := c03Resolve(callArg(in, 5))
			ky := c03Resolve(callArg(in, 4))
			key := R + "|ServeDNS|handleCacheHit(entry, key, scope)"
			if ex, ok := ent.(*ssa.Extract); ok {
				if cl, ok := ex.Tuple.(*ssa.Call); ok && callIs(&cl.Call, scopedLookup) && ex.Index == 0 {
					sx, ok1 := sc.(*ssa.Extract)
					kx, ok2 := ky.(*ssa.Extract)
					if ok1 && ok2 && sx.Tuple == cl && sx.Index == 2 && kx.Tuple == cl && kx.Index == 1 {
						c.ok(R, key, instrPos(in), "scoped hit: entry, key and scope come from the same scopedLookup call")
					} else {
						c.violation(R, key, instrPos(in), "scoped hit is verified against a scope/key that is not the one scopedLookup probed")
					}
					continue
				}
			}
			if cl, ok := ent.(*ssa.Call); ok && callIs(&cl.Call, checkCache) {
				zero := false
				if k, isC := sc.(*ssa.Const); isC && k.Value == nil {
					zero = true
				}
				if ld, isLoad := sc.(*ssa.UnOp); isLoad {
					if a, ok := ld.X.(*ssa.Alloc); ok {
						if st := cellStores(a); st != nil && len(st) == 0 {
							zero = true
						}
					}
				}
				if zero && Desc(ky).String() == Desc(cl.Call.Args[1]).String() {
					c.ok(R, key, instrPos(in), "shared hit: verified against the zero scope and the probed key")
				} else {
					c.violation(R, key, instrPos(in), "shared-key hit is not verified against the zero (shared) scope: "+Desc(sc).String())
				}
				continue
			}
			c.violation(R, key, instrPos(in), "handleCacheHit entry does not come from scopedLookup/checkCache: "+trunc(Desc(ent).String(), 120))
		}
	}
	// (c) WriteMsg: scope stored == scope hashed
	if fn := c.fn(R, c03Pkg+".(*ResponseWriter).WriteMsg"); fn != nil {
		n := 0
		// the scoped insert may have been extracted into an unexported helper of WriteMsg
		var inserts []ssa.Instruction
		for _, g := range scopeFuncs(fn) {
			for _, in := range instrsWhere(g, isPlainCallTo(setScoped)) {
				if in.Parent() == g {
					inserts = append(inserts, in)
				}
			}
		}
		for _, in := range inserts {
			n++
			key := R + "|WriteMsg|SetFromResponseScoped(key, scope)"
			hc, _ := callArg(in, 1).(*ssa.Call)
			if hc == nil || !callIs(&hc.Call, hash) {
				c.violation(R, key, instrPos(in), "scoped key is not CacheKey{…}.Hash()")
				continue
			}
			if sv := c03KeyLitField(hc, "Scope"); sv != nil && sv == callArg(in, 3) {
				c.ok(R, key, instrPos(in), "the entry is filed under the hash of the very scope it will carry")
			} else {
				c.violation(R, key, instrPos(in), "the scope handed to SetFromResponseScoped is not the scope the key was hashed from: the entry is reachable by one audience and verified as another")
			}
		}
		if n == 0 {
			c.unresolved(R, "WriteMsg", "no SetFromResponseScoped call found")
		}
	}
	// (d) an answer the authority scoped is never filed under the shared key
	readScope := c.fobj(R, "internal/ecs.ReadResponseScope")
	setShared := c.fobj(R, c03Pkg+".(*Store).SetFromResponseWithKey")
	clientScopeF := c.field(R, c03Pkg+".ResponseWriter.clientScope")
	isValid := c.fobj(R, "net/netip.Prefix.IsValid")
	if fn := c.fn(R, c03Pkg+".(*ResponseWriter).WriteMsg"); fn != nil && readScope != nil && setShared != nil && clientScopeF != nil && isValid != nil {
		c.MustCross(R, fn, "shared-key store", isPlainCallTo(setShared),
			OnFalse("clientScope.IsValid()", func(e *Expr) bool {
				e = strip(e)
				return CallTo(isValid)(e) && len(e.Args) == 1 && FieldIs(clientScopeF)(e.Args[0])
			}),
			OnFalse("ReadResponseScope ok", ResultOf(1, readScope)))
	}
	// one probe, four hit verifications, one scoped insert and at least ONE shared-key store (today's tree has
	// two textually identical shared arms; merging them into a fall-through tail is a refactoring)
	c.Floor(R, 1+4+1+1)
}

// ---------------------------------------------------------------------------
// R6 tables

type c03Cmp struct {
	op token.Token
	k  int64
}

// c03FoldFacts collects, over fn and its closures, the comparisons of a byte
// value with constants in ['A'-1 .. 'z'+1] (normalised to bounds) and the
// constant byte additions.
func c03FoldFacts(fn *ssa.Function) (lower, upper map[int64]bool, adds map[int64]bool) {
	lower, upper, adds = map[int64]bool{}, map[int64]bool{}, map[int64]bool{}
	isByte := func(t types.Type) bool {
		b, ok := t.Underlying().(*types.Basic)
		return ok && (b.Kind() == types.Uint8)
	}
	for _, f := range c03WithCallees(fn) {
		for _, b := range f.Blocks {
			for _, in := range b.Instrs {
				bo, ok := in.(*ssa.BinOp)
				if !ok {
					continue
				}
				x, y := bo.X, bo.Y
				op := bo.Op
				kc, isK := y.(*ssa.Const)
				if !isK {
					if kc2, ok := x.(*ssa.Const); ok {
						kc, isK = kc2, true
						x = y
						if so, ok := swapOp[op]; ok {
							op = so
						}
					}
				}
				if !isK || !isByte(x.Type()) {
					continue
				}
				k, ok := constInt(Desc(kc))
				if !ok {
					continue
				}
				switch op {
				case token.GEQ:
					if k >= 64 && k <= 123 {
						lower[k] = true
					}
				case token.GTR:
					if k >= 63 && k <= 122 {
						lower[k+1] = true
					}
				case token.LEQ:
					if k >= 64 && k <= 123 {
						upper[k] = true
					}
				case token.LSS:
					if k >= 65 && k <= 124 {
						upper[k-1] = true
					}
				case token.ADD:
					if k >= 1 && k != 48 {
						adds[k] = true
					}
				case token.SUB:
					adds[-k] = true
				case token.OR, token.XOR, token.AND_NOT:
					adds[1000+k] = true // bit tricks are a different folding
				}
			}
		}
	}
	return
}

func c03R6(c *Ctx) {
	c.Doc("C03-R6", "isPresentationSpecial's case set equals miekg/dns isDomainNameLabelSpecial's; each folding routine (Key, KeyString, KeyWithPrefix, KeySimple, writeWireName, WireNameEqualsPresentation, equalNameASCIIFold, foldWireNamesEqual) tests exactly 'A' <= c <= 'Z' and adds exactly 32; each key builder emits class-hi, class-lo, type-hi, type-lo, cd(1|0) before the name, and the scoped builders family(4|6), bits, address after it; the two wire-name walkers escape exactly the bytes outside 0x20..0x7E with the digits b/100, b/10%10, b%10")
	// (a) special set
	mine, pk1 := c.P.FuncDecl("internal/cache.isPresentationSpecial")
	lib, pk2 := c.P.FuncDecl("github.com/miekg/dns.isDomainNameLabelSpecial")
	if mine == nil || pk1 == nil {
		c.unresolved("C03-R6", "internal/cache.isPresentationSpecial", "declaration not found")
	} else if lib == nil || pk2 == nil {
		c.unresolved("C03-R6", "github.com/miekg/dns.isDomainNameLabelSpecial", "library declaration not found (dependency source not loaded)")
	} else {
		a, n1 := caseConsts(mine, pk1.TypesInfo, nil)
		b, n2 := caseConsts(lib, pk2.TypesInfo, nil)
		key := "C03-R6|isPresentationSpecial vs dns.isDomainNameLabelSpecial"
		switch {
		case n1 != 1 || n2 != 1:
			c.undecided("C03-R6", key, mine.Pos(), fmt.Sprintf("expected one switch in each function, found %d and %d", n1, n2))
		case !c03OnlyReturnsTrueInCases(mine) || !c03OnlyReturnsTrueInCases(lib):
			c.undecided("C03-R6", key, mine.Pos(), "a function is not of the shape switch{case …: return true}; return false")
		case sameSet(a, b):
			c.ok("C03-R6", key, mine.Pos(), "same escaped byte set "+setString(a))
		default:
			c.violation("C03-R6", key, mine.Pos(), fmt.Sprintf("escaped byte sets differ: sdns %s, library %s — a wire name containing a byte in the difference hashes differently from its presentation form", setString(a), setString(b)))
		}
	}
	// (b) fold range
	for _, path := range []string{
		"internal/cache.Key", "internal/cache.KeyString", "internal/cache.KeyWithPrefix", "internal/cache.KeySimple",
		"internal/cache.(*wireKeyHasher).writeWireName", "internal/cache.WireNameEqualsPresentation",
		c03Pkg + ".equalNameASCIIFold", c03Pkg + ".foldWireNamesEqual",
	} {
		fn := c.fn("C03-R6", path)
		if fn == nil {
			continue
		}
		lo, up, adds := c03FoldFacts(fn)
		key := "C03-R6|fold range|" + fn.Name()
		delete(up, 126) // '~' printable bound in the escape mapping (not a fold test)
		okLo := len(lo) == 1 && lo[65]
		okUp := len(up) == 1 && up[90]
		okAdd := (len(adds) == 1 && adds[32]) || (len(adds) == 2 && adds[97] && adds[-65])
		if okLo && okUp && okAdd {
			c.ok("C03-R6", key, fn.Pos(), fn.Name()+" folds exactly 'A'..'Z' by +32")
		} else {
			c.violation("C03-R6", key, fn.Pos(), fmt.Sprintf("%s does not fold exactly 'A'..'Z' → +32 (lower bounds %v, upper bounds %v, byte offsets %v): names the key hash treats as distinct compare equal, or vice versa", fn.Name(), c03Keys(lo), c03Keys(up), c03Keys(adds)))
		}
	}
	// (c) preimage component order
	c03Layout(c)
	// (d) escape mapping bounds and digits in the two wire-name walkers
	for _, path := range []string{"internal/cache.(*wireKeyHasher).writeWireName", "internal/cache.WireNameEqualsPresentation"} {
		fn := c.fn("C03-R6", path)
		if fn == nil {
			continue
		}
		facts := map[string]bool{}
		for _, f := range c03WithCallees(fn) {
			for _, b := range f.Blocks {
				for _, in := range b.Instrs {
					bo, ok := in.(*ssa.BinOp)
					if !ok {
						continue
					}
					bt, isB := bo.X.Type().Underlying().(*types.Basic)
					kc, isK := bo.Y.(*ssa.Const)
					if !isB || bt.Kind() != types.Uint8 || !isK {
						continue
					}
					k, ok := constInt(Desc(kc))
					if !ok {
						continue
					}
					switch bo.Op {
					case token.LSS:
						if k < 64 {
							facts[fmt.Sprintf("low<%d", k)] = true
						}
					case token.LEQ:
						if k < 64 {
							facts[fmt.Sprintf("low<%d", k+1)] = true
						}
					case token.GTR:
						if k > 123 {
							facts[fmt.Sprintf("high>%d", k)] = true
						}
					case token.GEQ:
						if k > 123 {
							facts[fmt.Sprintf("high>%d", k-1)] = true
						}
					case token.QUO:
						facts[fmt.Sprintf("/%d", k)] = true
					case token.REM:
						facts[fmt.Sprintf("%%%d", k)] = true
					}
				}
			}
		}
		want := map[string]bool{"low<32": true, "high>126": true, "/100": true, "/10": true, "%10": true}
		key := "C03-R6|escape arms|" + fn.Name()
		if sameSet(facts, want) {
			c.ok("C03-R6", key, fn.Pos(), fn.Name()+" escapes exactly the bytes outside 0x20..0x7E as \\DDD with digits b/100, b/10%10, b%10 (UnpackDomainName's mapping)")
		} else {
			c.violation("C03-R6", key, fn.Pos(), fmt.Sprintf("%s: escape mapping facts %s differ from %s — a label byte at the boundary is spelled differently from the presentation form the Msg path hashes", fn.Name(), setString(facts), setString(want)))
		}
	}
	c.Floor("C03-R6", 1+8+6+2)
}

func c03Keys(m map[int64]bool) []int64 {
	var ks []int64
	for k := range m {
		ks = append(ks, k)
	}
	sort.Slice(ks, func(i, j int) bool { return ks[i] < ks[j] })
	return ks
}

func c03OnlyReturnsTrueInCases(fd *ast.FuncDecl) bool {
	if fd.Body == nil || len(fd.Body.List) != 2 {
		return false
	}
	sw, ok := fd.Body.List[0].(*ast.SwitchStmt)
	if !ok {
		return false
	}
	for _, st := range sw.Body.List {
		cc := st.(*ast.CaseClause)
		if cc.List == nil || len(cc.Body) != 1 {
			return false
		}
		r, ok := cc.Body[0].(*ast.ReturnStmt)
		if !ok || len(r.Results) != 1 {
			return false
		}
		if id, ok := r.Results[0].(*ast.Ident); !ok || id.Name != "true" {
			return false
		}
	}
	r, ok := fd.Body.List[1].(*ast.ReturnStmt)
	if !ok || len(r.Results) != 1 {
		return false
	}
	id, ok := r.Results[0].(*ast.Ident)
	return ok && id.Name == "false"
}

// c03WithCallees: fn, its closures and — transitively — every statically
// called function of the same package (with closures).  Where a loop or a
// comparison lives (inline, or in an unexported helper shared by several
// builders) must not matter to a rule about what the builder computes.
func c03WithCallees(fn *ssa.Function) []*ssa.Function {
	seen := map[*ssa.Function]bool{}
	var out []*ssa.Function
	var walk func(f *ssa.Function, depth int)
	walk = func(f *ssa.Function, depth int) {
		if f == nil || seen[f] || len(f.Blocks) == 0 || depth > 4 {
			return
		}
		for _, g := range WithAnons(f) {
			if seen[g] {
				continue
			}
			seen[g] = true
			out = append(out, g)
			for _, b := range g.Blocks {
				for _, in := range b.Instrs {
					cc := callCommon(in)
					if cc == nil || cc.IsInvoke() {
						continue
					}
					if sf := cc.StaticCallee(); sf != nil && sf.Pkg != nil && sf.Pkg == fn.Pkg {
						walk(sf, depth+1)
					}
				}
			}
		}
	}
	walk(fn, 0)
	return out
}

// c03Which names the quantity a byte is taken from; parameters of an inlined
// helper are renamed to what the caller passed (subst).
func c03Which(x *Expr, subst map[string]string) string {
	x = strip(x)
	for x != nil && x.K == EConvert {
		x = strip(x.X)
	}
	if x == nil {
		return "?"
	}
	switch x.K {
	case EField:
		return strings.ToLower(x.Name)
	case EParam:
		if s, ok := subst[x.Name]; ok {
			return s
		}
		return strings.ToLower(x.Name)
	case ECall:
		return strings.ToLower(x.Method)
	}
	return "?"
}

// c03Component names one byte fed to the hash, in canonical form.
func c03Component(e *Expr, subst map[string]string) string {
	e = strip(e)
	for e != nil && e.K == EConvert {
		e = strip(e.X)
	}
	if e == nil {
		return "?"
	}
	switch e.K {
	case EConst:
		if v, ok := constInt(e); ok {
			return fmt.Sprintf("%d", v)
		}
	case EBin:
		if k, ok := constInt(e.Y); ok {
			switch {
			case e.Op == token.SHR && k == 8:
				return c03Which(e.X, subst) + ".hi"
			case e.Op == token.AND && k == 255:
				return c03Which(e.X, subst) + ".lo"
			}
		}
	case ECall, EParam, EField:
		return c03Which(e, subst)
	case EPhi, EAlloc:
		// a flag byte chosen by a branch: the set of constants it can be
		set := map[string]bool{}
		for _, l := range Origins(e, nil) {
			l = strip(l)
			for l != nil && l.K == EConvert {
				l = strip(l.X)
			}
			v, ok := constInt(l)
			if !ok {
				return "?"
			}
			set[fmt.Sprintf("%d", v)] = true
		}
		var ks []string
		for k := range set {
			ks = append(ks, k)
		}
		sort.Strings(ks)
		if len(ks) > 0 {
			return strings.Join(ks, "|")
		}
	}
	return "?"
}

type c03Ev struct {
	block *ssa.BasicBlock
	comps []string
	loop  bool
}

func c03InLoop(b *ssa.BasicBlock) bool {
	seen := map[*ssa.BasicBlock]bool{}
	st := append([]*ssa.BasicBlock{}, b.Succs...)
	for len(st) > 0 {
		x := st[len(st)-1]
		st = st[:len(st)-1]
		if x == b {
			return true
		}
		if seen[x] {
			continue
		}
		seen[x] = true
		st = append(st, x.Succs...)
	}
	return false
}

// c03Threads: does the callee thread the hash input through — a []byte buffer
// in and out, or a *wireKeyHasher parameter/receiver?  Only such helpers are
// inlined into the caller's emission sequence (a builder that delegates the
// whole key to another builder and returns its hash is not).
func c03Threads(sf *ssa.Function, hasher *types.TypeName) bool {
	sig := sf.Signature
	isBytes := func(t types.Type) bool {
		sl, ok := t.Underlying().(*types.Slice)
		return ok && types.Identical(sl.Elem(), types.Typ[types.Uint8])
	}
	for _, p := range sf.Params {
		if n, ok := deref(p.Type()).(*types.Named); ok && hasher != nil && n.Obj() == hasher {
			return true
		}
	}
	if sig.Results().Len() == 1 && isBytes(sig.Results().At(0).Type()) {
		for _, p := range sf.Params {
			if isBytes(p.Type()) {
				return true
			}
		}
	}
	return false
}

// c03Layout: ordered component list of each key builder.  Emission order is
// the reverse-postorder block walk; helpers that thread the buffer / hasher
// are inlined at their call (parameters renamed to the caller's arguments), so
// the sequence does not depend on where a piece of the builder lives.  The two
// arms of an if that each emit one constant are merged as "a|b"; a byte loop
// and a bulk append are both "<bytes>".
func c03Layout(c *Ctx) {
	writeByte := c.fobj("C03-R6", "internal/cache.(*wireKeyHasher).writeByte")
	writeWireName := c.fobj("C03-R6", "internal/cache.(*wireKeyHasher).writeWireName")
	hasher := c.P.TypeName("internal/cache.wireKeyHasher")
	if writeByte == nil || writeWireName == nil {
		return
	}
	if hasher == nil {
		c.unresolved("C03-R6", "internal/cache.wireKeyHasher", "type not found")
		return
	}
	var events func(fn *ssa.Function, subst map[string]string, forceLoop bool, depth int) []c03Ev
	events = func(fn *ssa.Function, subst map[string]string, forceLoop bool, depth int) []c03Ev {
		var out []c03Ev
		for _, b := range c03RPO(fn) {
			loop := forceLoop || c03InLoop(b)
			for _, in := range b.Instrs {
				cl, ok := in.(*ssa.Call)
				if !ok {
					continue
				}
				if bi, ok := cl.Call.Value.(*ssa.Builtin); ok {
					if bi.Name() != "append" || len(cl.Call.Args) != 2 {
						continue
					}
					if sl, ok := cl.Type().Underlying().(*types.Slice); !ok || !types.Identical(sl.Elem(), types.Typ[types.Uint8]) {
						continue
					}
					e := Desc(cl.Call.Args[1])
					var comps []string
					if e.K == EMake {
						for _, a := range e.Args {
							comps = append(comps, c03Component(a, subst))
						}
					} else {
						comps = []string{"<bytes>"}
					}
					out = append(out, c03Ev{b, comps, loop})
					continue
				}
				if cl.Call.IsInvoke() {
					continue
				}
				switch {
				case callIs(&cl.Call, writeByte):
					out = append(out, c03Ev{b, []string{c03Component(Desc(cl.Call.Args[1]), subst)}, loop})
					continue
				case callIs(&cl.Call, writeWireName):
					// the name walker is one unit here; its fold range and escape arms are separate clauses
					out = append(out, c03Ev{b, []string{"<name>"}, false})
					continue
				}
				sf := cl.Call.StaticCallee()
				if sf == nil || sf.Pkg == nil || sf.Pkg != fn.Pkg || len(sf.Blocks) == 0 || depth >= 4 || !c03Threads(sf, hasher) {
					continue
				}
				inner := map[string]string{}
				for i, p := range sf.Params {
					if i < len(cl.Call.Args) {
						if w := c03Which(Desc(cl.Call.Args[i]), subst); w != "?" {
							inner[p.Name()] = w
						}
					}
				}
				for _, e := range events(sf, inner, loop, depth+1) {
					// blocks of an inlined helper all stand at the call's position
					out = append(out, c03Ev{e.block, e.comps, e.loop})
				}
			}
		}
		return out
	}
	seq := func(fn *ssa.Function) []string {
		evs := events(fn, nil, false, 0)
		var out []string
		for i := 0; i < len(evs); i++ {
			e := evs[i]
			if e.loop || (len(e.comps) == 1 && e.comps[0] == "<bytes>") {
				if len(e.comps) == 1 && !c03IsNum(e.comps[0]) {
					if len(out) == 0 || out[len(out)-1] != "<bytes>" {
						out = append(out, "<bytes>")
					}
				} else {
					out = append(out, "<loop:"+strings.Join(e.comps, ",")+">")
				}
				continue
			}
			if len(e.comps) == 1 && i+1 < len(evs) && !evs[i+1].loop && len(evs[i+1].comps) == 1 &&
				evs[i+1].block != e.block && evs[i+1].block.Parent() == e.block.Parent() &&
				!evs[i+1].block.Dominates(e.block) && !e.block.Dominates(evs[i+1].block) &&
				c03IsNum(e.comps[0]) && c03IsNum(evs[i+1].comps[0]) {
				a, b := e.comps[0], evs[i+1].comps[0]
				if a > b {
					a, b = b, a
				}
				out = append(out, a+"|"+b)
				i++
				continue
			}
			out = append(out, e.comps...)
		}
		return out
	}
	header := []string{"qclass.hi", "qclass.lo", "qtype.hi", "qtype.lo", "0|1"}
	cat := func(xs ...[]string) []string {
		var out []string
		for _, x := range xs {
			out = append(out, x...)
		}
		return out
	}
	want := map[string][]string{
		"internal/cache.Key":               cat(header, []string{"<bytes>"}),
		"internal/cache.KeyString":         cat(header, []string{"<bytes>"}),
		"internal/cache.KeySimple":         cat(header, []string{"<bytes>"}),
		"internal/cache.KeyWithPrefix":     cat(header, []string{"<bytes>", "4|6", "bits", "<bytes>"}),
		"internal/cache.KeyWire":           cat(header, []string{"<name>"}),
		"internal/cache.KeyWireWithPrefix": cat(header, []string{"<name>", "4|6", "bits", "<bytes>"}),
	}
	var names []string
	for k := range want {
		names = append(names, k)
	}
	sort.Strings(names)
	for _, path := range names {
		fn := c.fn("C03-R6", path)
		if fn == nil {
			continue
		}
		got := seq(fn)
		key := "C03-R6|preimage layout|" + fn.Name()
		if strings.Join(got, " ") == strings.Join(want[path], " ") {
			c.ok("C03-R6", key, fn.Pos(), fn.Name()+" feeds the hash: "+strings.Join(got, " "))
		} else {
			c.violation("C03-R6", key, fn.Pos(), fmt.Sprintf("%s feeds the hash %v, the canonical preimage order is %v: wire-born and message-born requests (or scoped and unscoped writers) no longer agree on the key", fn.Name(), got, want[path]))
		}
	}
}

func c03IsNum(s string) bool {
	if s == "" {
		return false
	}
	for _, r := range s {
		if r < '0' || r > '9' {
			return false
		}
	}
	return true
}

// c03RPO: reverse postorder of the CFG with successor 0 listed first (both arms
// of an if precede the join; a loop body precedes the loop exit).
func c03RPO(fn *ssa.Function) []*ssa.BasicBlock {
	if len(fn.Blocks) == 0 {
		return nil
	}
	seen := map[*ssa.BasicBlock]bool{}
	var post []*ssa.BasicBlock
	var dfs func(b *ssa.BasicBlock)
	dfs = func(b *ssa.BasicBlock) {
		seen[b] = true
		for i := len(b.Succs) - 1; i >= 0; i-- {
			if !seen[b.Succs[i]] {
				dfs(b.Succs[i])
			}
		}
		post = append(post, b)
	}
	dfs(fn.Blocks[0])
	for i, j := 0, len(post)-1; i < j; i, j = i+1, j-1 {
		post[i], post[j] = post[j], post[i]
	}
	return post
}

// ---------------------------------------------------------------------------
// R7 purge

func c03R7(c *Ctx) {
	c.Doc("C03-R7", "Store.Purge removes CacheKey{Question: q, CD: cd}.Hash() from the positive and the negative cache for cd ranging over the literal {false, true}, then sweeps scoped entries through ForEach and removes the collected keys from both sub-caches")
	fn := c.fn("C03-R7", c03Pkg+".(*Store).Purge")
	hash := c.fobj("C03-R7", c03Pkg+".CacheKey.Hash")
	posRemove := c.fobj("C03-R7", c03Pkg+".(*PositiveCache).Remove")
	negRemove := c.fobj("C03-R7", c03Pkg+".(*NegativeCache).Remove")
	forEach := c.fobj("C03-R7", c03Pkg+".(*Store).ForEach")
	scoped := c.fobj("C03-R7", c03Pkg+".(*CacheEntry).scoped")
	if fn == nil || hash == nil || posRemove == nil || negRemove == nil || forEach == nil || scoped == nil {
		return
	}
	for _, rm := range []struct {
		f    *types.Func
		name string
	}{{posRemove, "positive"}, {negRemove, "negative"}} {
		keyed, swept := false, false
		for _, in := range instrsWhere(fn, isPlainCallTo(rm.f)) {
			if in.Parent() != fn {
				continue
			}
			hc, _ := callArg(in, 1).(*ssa.Call)
			if hc != nil && callIs(&hc.Call, hash) {
				cdv := c03KeyLitField(hc, "CD")
				qv := c03KeyLitField(hc, "Question")
				sv := c03KeyLitField(hc, "Scope")
				okCD := false
				if cdv != nil {
					e := strip(Desc(cdv))
					if e.K == EIndex && e.X != nil && strip(e.X).K == EMake {
						set := map[string]bool{}
						for _, a := range strip(e.X).Args {
							set[a.String()] = true
						}
						okCD = len(strip(e.X).Args) == 2 && set["true"] && set["false"]
					}
				}
				okQ := false
				if qv != nil {
					v := qv
					if ld, ok := v.(*ssa.UnOp); ok && ld.Op == token.MUL {
						if al, ok := ld.X.(*ssa.Alloc); ok {
							v = c03SingleStore(al)
						}
					}
					if p, ok := v.(*ssa.Parameter); ok && p.Name() == "q" {
						okQ = true
					}
				}
				key := "C03-R7|Purge|" + rm.name + ".Remove(shared key)"
				switch {
				case !okCD:
					c.violation("C03-R7", key, instrPos(in), "the purged key's CD does not range over the literal {false, true}: one CD partition survives the purge")
				case !okQ:
					c.violation("C03-R7", key, instrPos(in), "the purged key's Question is not the purged question")
				case sv != nil:
					c.violation("C03-R7", key, instrPos(in), "the shared-key purge sets a Scope")
				default:
					keyed = true
					c.ok("C03-R7", key, instrPos(in), rm.name+".Remove(CacheKey{q, cd}.Hash()) for cd ∈ {false, true}")
				}
				continue
			}
			// a Remove of a collected key, after the ForEach sweep
			r := reach(entryPoint(fn), []Barrier{CallBarrier("ForEach", forEach)}, nil)
			if !r.visited[in] {
				swept = true
			}
		}
		if !keyed {
			c.violation("C03-R7", "C03-R7|Purge|"+rm.name+".Remove(shared key) present", fn.Pos(), "Purge does not remove the shared key from the "+rm.name+" cache")
		}
		key := "C03-R7|Purge|" + rm.name + ".Remove(swept scoped key)"
		if swept {
			c.ok("C03-R7", key, fn.Pos(), "scoped entries found by the ForEach sweep are removed from the "+rm.name+" cache")
		} else {
			c.violation("C03-R7", key, fn.Pos(), "no "+rm.name+".Remove of a swept key after ForEach: ECS-scoped entries for the purged question survive")
		}
	}
	// the sweep selects scoped entries by question: the closure handed to ForEach compares qtype, qclass and name
	n := 0
	for _, in := range instrsWhere(fn, isPlainCallTo(forEach)) {
		if in.Parent() != fn {
			continue
		}
		n++
		mc, _ := callArg(in, 1).(*ssa.MakeClosure)
		key := "C03-R7|Purge|sweep predicate"
		if mc == nil {
			c.undecided("C03-R7", key, instrPos(in), "ForEach callback is not a function literal")
			continue
		}
		body := mc.Fn.(*ssa.Function)
		eng := newC03Engine(c, c03Spec0(c, "C03-R7"))
		if f := c.P.FuncObj("strings.EqualFold"); f != nil {
			eng.spec.Comparators[f] = []int{0, 1}
		}
		if len(body.Params) != 3 {
			c.undecided("C03-R7", key, instrPos(in), "unexpected callback signature")
			continue
		}
		a := c03Closure(body.Params[2])
		// every append into the hit list must be behind name, qtype, qclass comparisons of the entry and a scoped() test
		var missing []string
		for _, d := range []string{"question.Name", "question.Qtype", "question.Qclass"} {
			r := reach(entryPoint(body), []Barrier{eng.barrier(a, d)}, nil)
			for _, x := range r.order {
				if cl, ok := x.(*ssa.Call); ok {
					if bi, ok := cl.Call.Value.(*ssa.Builtin); ok && bi.Name() == "append" {
						missing = append(missing, d)
						break
					}
				}
			}
		}
		if len(missing) == 0 {
			c.ok("C03-R7", key, instrPos(in), "a scoped entry is collected only behind name, qtype and qclass equality with the purged question")
		} else {
			c.violation("C03-R7", key, instrPos(in), "the scoped sweep collects entries without comparing "+strings.Join(missing, ", ")+": it purges other questions' entries or misses this one")
		}
	}
	if n == 0 {
		c.violation("C03-R7", "C03-R7|Purge|sweep predicate", fn.Pos(), "Purge no longer sweeps scoped entries (no ForEach)")
	}
	c.Floor("C03-R7", 5)
}

// ---------------------------------------------------------------------------
// R8 tables that are not keyed by CD are consulted only for CD=0 requests

// c03Gate decides "every execution of `at` happens for a request whose CD bit
// is clear": `at` is unreachable in its function without crossing a CD=false
// edge, or — when the function has no such gate of its own ("gating is the
// caller's") — every in-module call site of the function is gated in turn.
type c03Gate struct {
	c    *Ctx
	bars []Barrier
	memo map[*ssa.Function]string // "" = gated, else why not
	busy map[*ssa.Function]bool
}

func (g *c03Gate) site(at ssa.Instruction, depth int) string {
	top := TopLevel(at.Parent())
	ug, tr := g.c.unguarded(at, g.bars, top)
	if !ug {
		return ""
	}
	if why := g.callers(top, depth+1); why != "" {
		return fmt.Sprintf("%s reaches it without a CD=false edge (path %s) and %s", fnKey(top), tr, why)
	}
	return ""
}

func (g *c03Gate) callers(fn *ssa.Function, depth int) string {
	if w, ok := g.memo[fn]; ok {
		return w
	}
	if g.busy[fn] || depth > 3 {
		return "the caller chain of " + fnKey(fn) + " is recursive or too deep to decide"
	}
	g.busy[fn] = true
	defer delete(g.busy, fn)
	fo := funcObjOf(fn)
	why := ""
	if fo == nil {
		why = fnKey(fn) + " has no resolvable callers"
	} else {
		sites := g.c.CallSites(fo)
		if len(sites) == 0 {
			why = fnKey(fn) + " is an ungated entry point (no in-module caller gates it)"
		}
		for _, s := range sites {
			if s.Kind == "ref" {
				why = fnKey(fn) + " is taken as a function value in " + fnKey(s.Fn)
				break
			}
			if w := g.site(s.Instr, depth); w != "" {
				why = w
				break
			}
		}
	}
	g.memo[fn] = why
	return why
}

func c03R8(c *Ctx) {
	c.Doc("C03-R8", "the subtree-cut index and the denial-proof index hold state validated under CD=0 and have no CD dimension in their key: every call of their lookups (nxDomainCutCache.lookup, nxDomainCutCache.lookupWire, denialProofCache.lookupWithMeta) hands out state only behind a CD=false edge (MsgHdr.CheckingDisabled false / Request.CD() false) — inside the lookup itself, at the call site, or, for a pass-through whose gating is the caller's, at every call site of that pass-through, transitively")
	cdField := c.field("C03-R8", "github.com/miekg/dns.MsgHdr.CheckingDisabled")
	cdMeth := c.fobj("C03-R8", "middleware.(*Request).CD")
	if cdField == nil || cdMeth == nil {
		return
	}
	g := &c03Gate{c: c, memo: map[*ssa.Function]string{}, busy: map[*ssa.Function]bool{},
		bars: []Barrier{OnFalse("CheckingDisabled", FieldIs(cdField)), OnFalse("Request.CD()", CallTo(cdMeth))}}
	for _, path := range []string{c03Pkg + ".(*nxDomainCutCache).lookup", c03Pkg + ".(*nxDomainCutCache).lookupWire", c03Pkg + ".(*denialProofCache).lookupWithMeta"} {
		fn := c.fn("C03-R8", path)
		if fn == nil {
			continue
		}
		short := c03Short(fnKey(fn))
		// (a) does the lookup gate itself?  every return that can hand out state is behind CD=false
		self := true
		nret := 0
		for _, b := range fn.Blocks {
			for _, in := range b.Instrs {
				r, ok := in.(*ssa.Return)
				if !ok || len(r.Results) == 0 {
					continue
				}
				if IsConstBool(false)(Desc(r.Results[len(r.Results)-1])) {
					continue // the miss return
				}
				nret++
				if ug, _ := c.unguarded(in, g.bars, fn); ug {
					self = false
				}
			}
		}
		if self && nret > 0 {
			c.ok("C03-R8", "C03-R8|"+short+"|self-gated", fn.Pos(), short+" hands out state only behind its own CD=false test")
			continue
		}
		// (b) otherwise every call site
		sites := c.CallSites(funcObjOf(fn))
		if len(sites) == 0 {
			c.unresolved("C03-R8", short, "lookup has no call site (rule would pass vacuously)")
		}
		for _, s := range sites {
			key := fmt.Sprintf("C03-R8|%s|called from %s", short, fnKey(TopLevel(s.Fn)))
			if s.Kind == "ref" {
				c.violation("C03-R8", key, instrPos(s.Instr), short+" is taken as a function value: its callers cannot be shown to be CD=0 only")
				continue
			}
			if why := g.site(s.Instr, 0); why != "" {
				c.violation("C03-R8", key, instrPos(s.Instr), fmt.Sprintf("%s (not keyed by CD, built from CD=0 validated state) can be consulted for a checking-disabled request: %s — a CD=1 client is answered from the CD=0 partition", short, trunc(why, 420)))
			} else {
				c.ok("C03-R8", key, instrPos(s.Instr), short+" is consulted only behind a CD=false edge (here or at every caller of the pass-through)")
			}
		}
	}
	c.Floor("C03-R8", 3)
}
