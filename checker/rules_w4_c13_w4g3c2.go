package main

// C13-R11, clause (b) refined (wave 4, change C13-w4g3c2).
//
// C13-R11 accepts a failed NS-address lookup whose error is "carried in a
// variable that reaches a return": lookupV4Nss keeps a request-local verdict
// (shed lookup, attempt limit, probe-election limit) in a local while it tries
// the delegation's other hosts and returns it when the delegation ends up
// without any server.  A variable that lives ACROSS lookups can be overwritten
// by the next host's failure.  If that failure is an ordinary one (no address,
// SERVFAIL), the request-local verdict is gone: the function reports nil, the
// caller files errNoReachableAuth for the child zone in the shared RFC 9520
// failure cache although one of the zone's servers was never contacted.
//
// Decided here, for the same lookup sites as R11 (discovered through the callee):
//
//   if the variable that carries the lookup's error to a return is live across
//   lookups (its phi web contains a phi from which the lookup call is reached
//   again), then on the failure path of one lookup — from the err != nil edge
//   to the next lookup — the variable is assigned
//     - the lookup's error only behind the TRUE edge of a class test of that
//       error (IsRequestLocalResolutionError(err), errors.Is(err, S) for a
//       sentinel S of the class), and
//     - nothing else (no reset to nil, no other value).
//   Re-assigning on the success path, keeping the first instead of the last
//   verdict, inverting the test or spelling it as a switch are all accepted.
//
// Nothing is executed; no error value is looked at.

import (
	"fmt"
	"sort"

	"golang.org/x/tools/go/ssa"
)

func w4C13CarriedAcrossLookups(c *Ctx, rule string, k *fC131Class, top *ssa.Function, cl *ssa.Call, errVal ssa.Value, start []Point, isErr func(*Expr) bool, reachesReturn func(*ssa.Phi) bool) int {
	// the carrier: phis that receive the error on some edge and reach a return,
	// closed under phi-to-phi flow
	web := map[*ssa.Phi]bool{}
	var grow func(p *ssa.Phi)
	grow = func(p *ssa.Phi) {
		if web[p] {
			return
		}
		web[p] = true
		for _, e := range p.Edges {
			if q, ok := e.(*ssa.Phi); ok {
				grow(q)
			}
		}
		if refs := p.Referrers(); refs != nil {
			for _, r := range *refs {
				if q, ok := r.(*ssa.Phi); ok {
					grow(q)
				}
			}
		}
	}
	for _, b := range top.Blocks {
		for _, in := range b.Instrs {
			ph, ok := in.(*ssa.Phi)
			if !ok {
				break
			}
			for _, e := range ph.Edges {
				if e == errVal && reachesReturn(ph) {
					grow(ph)
				}
			}
		}
	}
	if len(web) == 0 {
		return 0
	}
	// blocks from which the lookup call is reached (again)
	again := map[*ssa.BasicBlock]bool{}
	work := []*ssa.BasicBlock{cl.Block()}
	for len(work) > 0 {
		b := work[len(work)-1]
		work = work[:len(work)-1]
		for _, p := range b.Preds {
			if !again[p] {
				again[p] = true
				work = append(work, p)
			}
		}
	}
	isCl := func(in ssa.Instruction) bool { return in == ssa.Instruction(cl) }
	after := reach([]Point{pointAfter(cl)}, nil, isCl)
	live := false
	for p := range web {
		if again[p.Block()] && after.visited[w4FirstNonPhi(p.Block())] {
			live = true
		}
	}
	if !live {
		return 0 // carried straight to a return: nothing can overwrite it
	}
	bars := []Barrier{OnTrue("IsRequestLocalResolutionError(err)", func(e *Expr) bool {
		e = strip(e)
		return e != nil && e.K == ECall && sameFunc(e.Fn, k.isLocal) && len(e.Args) == 1 && isErr(e.Args[0])
	})}
	for _, S := range k.sorted() {
		bars = append(bars, OnTrue("errors.Is(err, "+S.Name()+")", c13ErrorsIs(k.errorsIs, S, isErr)))
	}
	failPath := reach(start, nil, isCl)      // this lookup failed, up to the next lookup
	unclassified := reach(start, bars, isCl) // … and nothing has established the class yet
	var phis []*ssa.Phi
	for p := range web {
		phis = append(phis, p)
	}
	sort.Slice(phis, func(i, j int) bool {
		if phis[i].Block().Index != phis[j].Block().Index {
			return phis[i].Block().Index < phis[j].Block().Index
		}
		return phis[i].Pos() < phis[j].Pos()
	})
	callee := cl.Call.StaticCallee()
	key := fmt.Sprintf("%s|%s|%s verdict carried across hosts is replaced only by request-local verdicts", rule, fnKey(top), callee.Name())
	for _, p := range phis {
		if !again[p.Block()] {
			continue // a merge on the way out: the next lookup is not reached from here
		}
		for i, v := range p.Edges {
			if q, ok := v.(*ssa.Phi); ok && web[q] {
				continue // unchanged
			}
			pred := p.Block().Preds[i]
			term := pred.Instrs[len(pred.Instrs)-1]
			if !failPath.visited[term] {
				continue // initialisation, or the success path of a lookup
			}
			name := p.Comment
			if name == "" {
				name = "the carrying variable"
			}
			if v == errVal {
				if unclassified.visited[term] {
					c.violation(rule, key, instrPos(term), fmt.Sprintf("%s, which carries a failed %s's error across the delegation's hosts to the function's return, is assigned the error on a path that never established that it is request-local (path %s): a later host's ordinary failure overwrites an earlier host's shed / limited lookup, the function then reports nil with an empty server list, and the caller files errNoReachableAuth for the zone in the shared failure cache although one of its servers was never contacted", name, callee.Name(), c.trail(unclassified, term)))
					return 1
				}
				continue
			}
			c.violation(rule, key, instrPos(term), fmt.Sprintf("%s, which carries a failed %s's request-local verdict across the delegation's hosts, is overwritten with %s on the failure path of a later lookup (path %s): the earlier host's shed / limited lookup is forgotten and an empty delegation is reported as 'no reachable authority'", name, callee.Name(), trunc(Desc(v).String(), 80), c.trail(failPath, term)))
			return 1
		}
	}
	c.ok(rule, key, instrPos(cl), "assigned only behind the true edge of the class test on the failure path; never reset there")
	return 1
}

func w4FirstNonPhi(b *ssa.BasicBlock) ssa.Instruction {
	for _, in := range b.Instrs {
		if _, ok := in.(*ssa.Phi); !ok {
			if _, dbg := in.(*ssa.DebugRef); !dbg {
				return in
			}
		}
	}
	return b.Instrs[len(b.Instrs)-1]
}
