package main

// Regression mutants for F-C20-2 (the AAAA-filtered copy keeps AD=1 when nothing survives the filter and synthesis yields no replacement).
func init() {
	addMutants("C20", []Mutant{
		{ID: "c20-filtered-fallback-keeps-ad", File: "middleware/dns64/dns64.go", Expect: fC20_2Rule + "|(*middleware/dns64.responseWriter).WriteMsg",
			Old: "\t\t\tm.AuthenticatedData = false\n",
			New: "",
			Why: "F-C20-2: on the synth==nil fallback the filtered copy (Msg.Copy carries the header) is written with the validator's AD=1 although its only AAAA was removed"},
		{ID: "c20-filtered-fallback-clears-only-with-opt", File: "middleware/dns64/dns64.go", Expect: fC20_2Rule + "|(*middleware/dns64.responseWriter).WriteMsg",
			Old: "\t\tif strippedAny {\n",
			New: "\t\tif strippedAny && m.IsEdns0() != nil {\n",
			Why: "F-C20-2 (path-sensitive variant): AD is cleared only when an EDE can be attached; a reply without OPT (AD-bit-only client) still carries AD=1 over an edited RRset"},
	})
}
