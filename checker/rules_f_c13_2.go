package main

// Finding F-C13-2: a zone-wide failure suppressed (and a DS answer reset) the
// PARENT-side DS question for the failed zone's apex.  `<zone> DS` is asked of
// the parent's servers (RFC 4035 3.1.4.1; Resolver.searchCache moves a DS
// question one label up before it selects servers), but every ancestor-zone
// walk over the failure cache started at the question name whatever the type.
//
//   C13-R12  the origin of a zone-failure ancestor walk depends on the question
//       type.  For every call of walkFailureZones / walkWireSuffixes made by a
//       *FailureCache method (or whose visitor calls one), the name handed to
//       the walk is not the raw question name: among the producers of that
//       argument (through phis, cells, conversions, dns.CanonicalName and the
//       results of unexported same-package helpers) there is a shortening of
//       the name (a slice expression) that executes only behind the edge — in
//       its own function, or in a caller on the way (the shortening sits in a
//       deeper helper that is called only for DS) — on
//       which the question type (dns.Question.Qtype, or a uint16 type parameter
//       bound to a non-constant argument) equals dns.TypeDS.  Sites are found
//       through the callee; the type constant is read from the dns package.

import (
	"fmt"
	"go/constant"
	"go/token"
	"go/types"
	"sort"

	"golang.org/x/tools/go/ssa"
)

func init() {
	w := func(id string, extra func(c *Ctx), explain string) {
		pd := props[id]
		if pd == nil {
			return
		}
		orig := pd.Run
		pd.Run = func(c *Ctx) { orig(c); extra(c) }
		pd.Explanation += " " + explain
	}
	w("C13", func(c *Ctx) { fC132WalkOrigin(c, "C13-R12") },
		"R12 (added, F-C13-2): every ancestor-zone walk over the failure cache (Lookup, LookupWire, RetryKey, ResetMatching and any later one) starts from a name that is shortened by one label behind a Qtype == dns.TypeDS test — a DS question belongs to the parent side of the cut, so a failure of the zone at the DS owner name neither suppresses it nor is reset by its answer.")
}

// a helper is judged once per (helper, "the call itself sits behind the DS edge")
type fC132Key struct {
	h     *ssa.Function
	gated bool
}

type fC132 struct {
	c       *Ctx
	qtypeF  *types.Var
	ds      int64
	canon   *types.Func
	verdict map[fC132Key]int // helpers: 1 DS-aware, 2 not, 3 busy
}

// qtype atom inside g: the Qtype field of a dns.Question, or a uint16 parameter of g.
func (k *fC132) qtypePat(g *ssa.Function) Pat {
	return func(e *Expr) bool {
		e = strip(e)
		if e == nil {
			return false
		}
		if e.K == EField && e.Var != nil && k.qtypeF != nil && e.Var.Origin() == k.qtypeF.Origin() {
			return true
		}
		if e.K == EParam && e.V != nil {
			if b, ok := e.V.Type().Underlying().(*types.Basic); ok && b.Kind() == types.Uint16 {
				return true
			}
		}
		return false
	}
}

// dsGated: instruction s of g executes only behind the Qtype == TypeDS edge, and that edge exists.
func (k *fC132) dsGated(g *ssa.Function, s ssa.Instruction) bool {
	fn := s.Parent()
	bar := OnCmp("qtype == dns.TypeDS", k.qtypePat(fn), token.EQL, IsConstInt(k.ds), true)
	var pts []Point
	for _, p := range edgePoints(fn, bar) {
		if p.B.Parent() == fn {
			pts = append(pts, p)
		}
	}
	if len(pts) == 0 {
		return false
	}
	if r := reach(pts, nil, nil); !r.visited[s] {
		return false
	}
	if r := reach(entryPoint(fn), []Barrier{bar}, nil); r.visited[s] {
		return false
	}
	return true
}

// aware: 1 = some producer of v is a DS-gated shortening, 0 = only raw names, -1 = unrecognised shape.
func (k *fC132) aware(g *ssa.Function, v ssa.Value, depth int, gated bool) (int, string) {
	transparent := func(e *Expr) []int {
		if e != nil && e.K == ECall && sameFunc(e.Fn, k.canon) {
			return []int{0}
		}
		return nil
	}
	res, why := 0, ""
	for _, l := range Origins(Desc(v), transparent) {
		l = strip(l)
		if l == nil {
			continue
		}
		if l.K == EExtract {
			l = strip(l.X)
		}
		switch l.K {
		case EParam, EField, EConst, EGlobal:
			continue // the raw name (or "."): no evidence
		case ESlice:
			in, ok := l.V.(ssa.Instruction)
			if ok && (gated || k.dsGated(g, in)) {
				return 1, ""
			}
			if res == 0 {
				res, why = -1, "the name is shortened by a slice expression that is not confined to the Qtype == dns.TypeDS edge"
			}
		case ECall:
			cl, _ := l.V.(*ssa.Call)
			var h *ssa.Function
			if cl != nil {
				h = localHelper(g, &cl.Call)
			}
			if h == nil || depth >= 3 {
				if res == 0 {
					res, why = -1, "the origin is produced by "+l.String()+", which is not an unexported same-package helper"
				}
				continue
			}
			if k.helperAware(h, cl, depth, gated || k.dsGated(g, cl)) {
				return 1, ""
			}
		default:
			if res == 0 {
				res, why = -1, "unrecognised producer "+l.String()
			}
		}
	}
	return res, why
}

// helperAware: some value h returns is a DS-gated shortening, and the type h tests is the caller's (no constant bound to a uint16 parameter).
func (k *fC132) helperAware(h *ssa.Function, site *ssa.Call, depth int, gated bool) bool {
	for i, p := range h.Params {
		if b, ok := p.Type().Underlying().(*types.Basic); ok && b.Kind() == types.Uint16 && i < len(site.Call.Args) {
			if a := strip(Desc(site.Call.Args[i])); a != nil && a.K == EConst {
				return false
			}
		}
	}
	vk := fC132Key{h, gated}
	switch k.verdict[vk] {
	case 1:
		return true
	case 2, 3:
		return false
	}
	k.verdict[vk] = 3
	ok := false
	for _, b := range h.Blocks {
		for _, in := range b.Instrs {
			ret, isRet := in.(*ssa.Return)
			if !isRet {
				continue
			}
			for _, r := range ret.Results {
				if a, _ := k.aware(h, r, depth+1, gated); a == 1 {
					ok = true
				}
			}
		}
	}
	if ok {
		k.verdict[vk] = 1
	} else {
		k.verdict[vk] = 2
	}
	return ok
}

func fC132RecvIs(fn *ssa.Function, tn types.Object) bool {
	if fn == nil || fn.Signature == nil || fn.Signature.Recv() == nil || tn == nil {
		return false
	}
	n, ok := deref(fn.Signature.Recv().Type()).(*types.Named)
	return ok && n.Obj() == tn
}

func fC132WalkOrigin(c *Ctx, rule string) {
	const cp = "middleware/cache"
	c.Doc(rule, "a zone failure covers only questions the failed zone's servers would be asked: every ancestor-zone walk a *FailureCache method runs over walkFailureZones / walkWireSuffixes (consulting, probing or resetting zone entries) starts from a name that some producer shortens by one label behind the edge Qtype == dns.TypeDS (inline or in an unexported helper, which must be handed the question's own type) — `<zone> DS` is served by the parent side of the cut, exactly as Resolver.searchCache routes it; a walk that starts at the raw question name for every type lets the failure of zone Z answer `Z DS` with SERVFAIL/EDE 13 without asking Z's healthy parent, and lets the parent's DS answer erase Z's backoff history")
	walkS := c.fobj(rule, cp+".walkFailureZones")
	walkW := c.fobj(rule, cp+".walkWireSuffixes")
	fcT := c.P.TypeName(cp + ".FailureCache")
	k := &fC132{c: c, verdict: map[fC132Key]int{}}
	k.qtypeF = c.field(rule, "github.com/miekg/dns.Question.Qtype")
	k.canon = c.fobj(rule, "github.com/miekg/dns.CanonicalName")
	dsv := c.P.ConstVal("github.com/miekg/dns.TypeDS")
	if walkS == nil || walkW == nil || fcT == nil || k.qtypeF == nil || k.canon == nil {
		return
	}
	if dsv == nil {
		c.unresolved(rule, "dns.TypeDS", "constant not found")
		return
	}
	if v, ok := constant.Int64Val(constant.ToInt(dsv)); ok {
		k.ds = v
	} else {
		c.unresolved(rule, "dns.TypeDS", "constant is not an integer")
		return
	}
	type site struct {
		top  *ssa.Function
		in   ssa.Instruction
		walk string
	}
	var sites []site
	for _, wf := range []*types.Func{walkS, walkW} {
		for _, s := range c.CallSites(wf) {
			cc := callCommon(s.Instr)
			if cc == nil || cc.StaticCallee() == nil || len(cc.Args) < 2 {
				continue
			}
			top := TopLevel(s.Fn)
			inScope := fC132RecvIs(top, fcT)
			if !inScope {
				// a walk whose visitor works on the failure cache
				for _, g := range WithAnons(top) {
					for _, b := range g.Blocks {
						for _, in := range b.Instrs {
							if c2 := callCommon(in); c2 != nil && c2.StaticCallee() != nil && fC132RecvIs(c2.StaticCallee(), fcT) {
								inScope = true
							}
						}
					}
				}
			}
			if inScope {
				sites = append(sites, site{top, s.Instr, wf.Name()})
			}
		}
	}
	sort.SliceStable(sites, func(i, j int) bool { return fnKey(sites[i].top) < fnKey(sites[j].top) })
	n := 0
	for _, s := range sites {
		key := fmt.Sprintf("%s|%s|%s origin moves a DS question to the parent side", rule, fnKey(s.top), s.walk)
		a, why := k.aware(s.in.Parent(), callCommon(s.in).Args[0], 0, false)
		n++
		switch a {
		case 1:
			c.ok(rule, key, instrPos(s.in), "the walk's origin is shortened by one label behind Qtype == dns.TypeDS")
		case 0:
			c.violation(rule, key, instrPos(s.in), "the ancestor-zone walk starts at the raw question name whatever the type: a failure of zone Z covers (and a DS answer resets) the question `Z DS`, which is asked of Z's parent (Resolver.searchCache moves it one label up)")
		default:
			c.undecided(rule, key, instrPos(s.in), "cannot tell whether the walk's origin is type-aware: "+why)
		}
	}
	if n == 0 {
		c.unresolved(rule, "zone walks", "no ancestor-zone walk over the failure cache found (rule would pass vacuously)")
	}
	c.Floor(rule, 4)
}
