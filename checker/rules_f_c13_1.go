package main

// Finding F-C13-1 (= F-C11-1): a lookup shed at the resolver's own in-flight
// ceilings was classified as an upstream failure and became shared RFC 9520
// failure state (question entry through the cache writer, zone entry through
// the "delegation without servers" verdict).
//
//   C13-R10 / C11-R8  classification at the source.  Wherever the acquisition of
//       an in-flight lookup slot is refused (the not-taken edge of a
//       non-blocking send on Resolver.resolutionSlots, the ok=false edge of
//       zoneInflightLimiter.acquire, or the false verdict of an unexported
//       helper that wraps one of them), every error value the function mints
//       on the way out belongs to the request-local class: it is one of the
//       sentinels IsRequestLocalResolutionError tests, or a package-level error
//       whose static Unwrap chain (the field its Unwrap method returns, a %w
//       operand; through a constructor function when the initialiser calls one:
//       every value it returns, its parameters bound to the call's arguments)
//       reaches one.  The class is read from the body of
//       IsRequestLocalResolutionError, the chain from the initialisers; nothing
//       is executed.
//   C13-R11  no request-local verdict of an NS-address lookup is dropped on the
//       required path.  In every resolver function that runs lookupNSAddrV4/V6
//       and reports an error to its caller, a failed address lookup goes on to
//       the next host (or to a nil return) only across the false edge of the
//       class test for EACH class member; otherwise the error is returned or
//       carried in a variable that reaches a return.  And the caller mints its
//       "no reachable authority" verdict only across the nil edge of that
//       function's error.

import (
	"fmt"
	"go/ast"
	"go/constant"
	"go/token"
	"go/types"
	"sort"
	"strings"

	"golang.org/x/tools/go/ssa"
)

func init() {
	w := func(id string, extra func(c *Ctx), explain string) {
		pd := props[id]
		if pd == nil {
			return
		}
		orig := pd.Run
		pd.Run = func(c *Ctx) { orig(c); extra(c) }
		pd.Explanation += " " + explain
	}
	w("C13", func(c *Ctx) { fC131ShedClass(c, "C13-R10"); fC131NSAddrVerdicts(c, "C13-R11") },
		"R10 (added, F-C13-1): an error minted where an in-flight lookup slot is refused (resolutionSlots not taken, zoneInflightLimiter.acquire=false) is of the request-local class read from IsRequestLocalResolutionError (sentinel itself or static Unwrap chain), so the cache writer, the singleflight followers and the sub-query layer all treat shed load as local. "+
			"R11 (added, F-C13-1): a function that runs NS-address lookups and reports an error drops a failed lookup only across the false edge of the class test for every class member, and its caller reaches the 'no reachable authority' zone failure only across that function's nil error.")
	w("C11", func(c *Ctx) { fC131ShedClass(c, "C11-R8") },
		"R8 (added, F-C11-1): same classification rule as C13-R10, claimed here because groupLookup lets a follower re-enter under its own context only for request-local leader errors (C11-R5) — a capacity refusal outside the class is inherited by every waiter.")
}

// ---------------------------------------------------------------------------
// the request-local class

type fC131Class struct {
	c         *Ctx
	rule      string
	isLocal   *types.Func
	errorsIs  *types.Func
	sentinels map[types.Object]bool
	memo      map[types.Object]int // 1 in class, 2 not, 3 in progress
}

func fC131NewClass(c *Ctx, rule string) *fC131Class {
	k := &fC131Class{c: c, rule: rule, sentinels: map[types.Object]bool{}, memo: map[types.Object]int{}}
	k.isLocal = c.fobj(rule, "middleware.IsRequestLocalResolutionError")
	k.errorsIs = c.fobj(rule, "errors.Is")
	fn := c.fn(rule, "middleware.IsRequestLocalResolutionError")
	if k.isLocal == nil || k.errorsIs == nil || fn == nil {
		return nil
	}
	// errors.Is(<param>, <package-level sentinel>) anywhere in the predicate and in the
	// unexported same-package helpers it hands its parameter to
	seen := map[*ssa.Function]bool{}
	var walk func(f *ssa.Function, d int)
	walk = func(f *ssa.Function, d int) {
		if f == nil || seen[f] || d > 2 {
			return
		}
		seen[f] = true
		for _, g := range WithAnons(f) {
			for _, b := range g.Blocks {
				for _, in := range b.Instrs {
					cl, ok := in.(*ssa.Call)
					if !ok {
						continue
					}
					if callIs(&cl.Call, k.errorsIs) && len(cl.Call.Args) == 2 {
						if a0 := strip(Desc(cl.Call.Args[0])); a0 != nil && a0.K == EParam {
							if a1 := strip(Desc(cl.Call.Args[1])); a1 != nil && a1.K == EGlobal && a1.Obj != nil {
								k.sentinels[a1.Obj] = true
							}
						}
						continue
					}
					if h := localHelper(g, &cl.Call); h != nil {
						walk(h, d+1)
					}
				}
			}
		}
	}
	walk(fn, 0)
	if len(k.sentinels) == 0 {
		c.unresolved(rule, "IsRequestLocalResolutionError|class", "no errors.Is(err, <sentinel>) test found in the class predicate")
		return nil
	}
	return k
}

func (k *fC131Class) names() string {
	var out []string
	for o := range k.sentinels {
		out = append(out, o.Name())
	}
	sort.Strings(out)
	return strings.Join(out, ", ")
}

func (k *fC131Class) sorted() []types.Object {
	var out []types.Object
	for o := range k.sentinels {
		out = append(out, o)
	}
	sort.Slice(out, func(i, j int) bool { return out[i].Name() < out[j].Name() })
	return out
}

// unwrapField: the struct field the (pointer) method Unwrap of t returns, if any.
func (k *fC131Class) unwrapField(t types.Type) *types.Var {
	t = deref(t)
	n, ok := t.(*types.Named)
	if !ok {
		return nil
	}
	ms := types.NewMethodSet(types.NewPointer(n))
	for i := 0; i < ms.Len(); i++ {
		m, ok := ms.At(i).Obj().(*types.Func)
		if !ok || m.Name() != "Unwrap" {
			continue
		}
		fn := k.c.P.SSA.FuncValue(m.Origin())
		if fn == nil {
			return nil
		}
		var fv *types.Var
		for _, b := range fn.Blocks {
			for _, in := range b.Instrs {
				r, ok := in.(*ssa.Return)
				if !ok || len(r.Results) != 1 {
					continue
				}
				e := strip(Desc(r.Results[0]))
				if e == nil || e.K != EField || e.Var == nil {
					return nil
				}
				if fv != nil && fv != e.Var {
					return nil
				}
				fv = e.Var
			}
		}
		return fv
	}
	return nil
}

// globalInClass: obj is a class sentinel or a package-level error whose
// initialiser statically wraps one.
func (k *fC131Class) globalInClass(obj types.Object) bool {
	if obj == nil {
		return false
	}
	if k.sentinels[obj] {
		return true
	}
	switch k.memo[obj] {
	case 1:
		return true
	case 2, 3:
		return false
	}
	k.memo[obj] = 3
	res := false
	if obj.Pkg() != nil {
		if init, pk := k.c.P.pkgVarValue(obj.Pkg().Path(), obj.Name()); init != nil && pk != nil {
			res = k.astInClass(init, pk.TypesInfo)
		}
	}
	if res {
		k.memo[obj] = 1
	} else {
		k.memo[obj] = 2
	}
	return res
}

// fC131Bind: what a constructor's parameter stands for at one call of it — the
// argument expression, read in the caller's scope.
type fC131Bind struct {
	e    ast.Expr
	info *types.Info
	env  map[types.Object]fC131Bind
}

func (k *fC131Class) astInClass(e ast.Expr, info *types.Info) bool {
	return k.astInClassEnv(e, info, nil, 0)
}

// constructorInClass: the initialiser calls a plain function of the module (the
// literal was moved into a constructor): every value that function can return
// must be in the class, with its parameters standing for this call's arguments.
func (k *fC131Class) constructorInClass(call *ast.CallExpr, f *types.Func, info *types.Info, env map[types.Object]fC131Bind, d int) bool {
	if f == nil || d >= 3 {
		return false
	}
	fd := k.c.P.astFuncs[f.Origin()]
	if fd == nil || fd.Body == nil || fd.Recv != nil {
		return false
	}
	pk := k.c.P.astPkgOf[fd]
	sig, _ := f.Type().(*types.Signature)
	if pk == nil || pk.TypesInfo == nil || sig == nil || sig.Results().Len() != 1 || sig.Variadic() || len(call.Args) != sig.Params().Len() {
		return false
	}
	inner := map[types.Object]fC131Bind{}
	i := 0
	if fd.Type.Params != nil {
		for _, fl := range fd.Type.Params.List {
			if len(fl.Names) == 0 {
				i++
				continue
			}
			for _, nm := range fl.Names {
				if o := pk.TypesInfo.Defs[nm]; o != nil && i < len(call.Args) {
					inner[o] = fC131Bind{call.Args[i], info, env}
				}
				i++
			}
		}
	}
	n, all := 0, true
	ast.Inspect(fd.Body, func(nd ast.Node) bool {
		switch r := nd.(type) {
		case *ast.FuncLit:
			return false
		case *ast.ReturnStmt:
			n++
			if len(r.Results) != 1 || !k.astInClassEnv(r.Results[0], pk.TypesInfo, inner, d+1) {
				all = false
			}
		}
		return true
	})
	return n > 0 && all
}

func (k *fC131Class) astInClassEnv(e ast.Expr, info *types.Info, env map[types.Object]fC131Bind, d int) bool {
	e = ast.Unparen(e)
	if d > 8 {
		return false
	}
	if id, ok := e.(*ast.Ident); ok && env != nil {
		if b, ok := env[info.ObjectOf(id)]; ok {
			return k.astInClassEnv(b.e, b.info, b.env, d+1)
		}
	}
	switch x := e.(type) {
	case *ast.UnaryExpr:
		if x.Op == token.AND {
			return k.astInClassEnv(x.X, info, env, d)
		}
	case *ast.CompositeLit:
		tv, ok := info.Types[x]
		if !ok {
			return false
		}
		fv := k.unwrapField(tv.Type)
		if fv == nil {
			return false
		}
		for _, el := range x.Elts {
			kv, ok := el.(*ast.KeyValueExpr)
			if !ok {
				continue
			}
			id, ok := kv.Key.(*ast.Ident)
			if !ok {
				continue
			}
			if o, _ := info.ObjectOf(id).(*types.Var); o != nil && o.Origin() == fv.Origin() {
				return k.astInClassEnv(kv.Value, info, env, d)
			}
		}
	case *ast.Ident:
		if v, ok := info.ObjectOf(x).(*types.Var); ok && !v.IsField() && v.Parent() == v.Pkg().Scope() {
			return k.globalInClass(v)
		}
	case *ast.SelectorExpr:
		if v, ok := info.ObjectOf(x.Sel).(*types.Var); ok && !v.IsField() && v.Pkg() != nil && v.Parent() == v.Pkg().Scope() {
			return k.globalInClass(v)
		}
	case *ast.CallExpr:
		// fmt.Errorf("… %w …", …, <class member>, …)
		if f, ok := calleeOfAST(x, info); ok && f.Pkg() != nil && f.Pkg().Path() == "fmt" && f.Name() == "Errorf" && len(x.Args) >= 2 {
			if tv, ok := info.Types[x.Args[0]]; ok && tv.Value != nil && tv.Value.Kind() == constant.String && strings.Contains(constant.StringVal(tv.Value), "%w") {
				for _, a := range x.Args[1:] {
					if k.astInClassEnv(a, info, env, d) {
						return true
					}
				}
			}
			return false
		}
		if f, ok := calleeOfAST(x, info); ok {
			return k.constructorInClass(x, f, info, env, d)
		}
	}
	return false
}

func calleeOfAST(call *ast.CallExpr, info *types.Info) (*types.Func, bool) {
	switch f := ast.Unparen(call.Fun).(type) {
	case *ast.Ident:
		fn, ok := info.ObjectOf(f).(*types.Func)
		return fn, ok
	case *ast.SelectorExpr:
		fn, ok := info.ObjectOf(f.Sel).(*types.Func)
		return fn, ok
	}
	return nil, false
}

// minted: classify what a returned error value can be.  Leaves that are
// produced elsewhere (call results, parameters, fields) are somebody else's
// verdict and are not judged here.
//
//	verdict: "" nothing minted here, "ok", or a description of the offending leaf
func (k *fC131Class) minted(v ssa.Value) (okN int, bad []string) {
	for _, l := range Origins(Desc(v), nil) {
		l = strip(l)
		if l == nil {
			continue
		}
		switch l.K {
		case EConst:
			continue
		case EGlobal:
			if k.globalInClass(l.Obj) {
				okN++
			} else {
				bad = append(bad, "package-level error "+l.Obj.Name())
			}
		case ECall:
			if l.Fn != nil && l.Fn.Pkg() != nil && (l.Fn.Pkg().Path() == "errors" && l.Fn.Name() == "New") {
				bad = append(bad, "errors.New(…) minted on the spot")
				continue
			}
			if l.Fn != nil && l.Fn.Pkg() != nil && l.Fn.Pkg().Path() == "fmt" && l.Fn.Name() == "Errorf" {
				in := false
				if len(l.Args) >= 2 {
					if f := strip(l.Args[0]); f != nil && f.K == EConst && f.Val != nil && f.Val.Kind() == constant.String && strings.Contains(constant.StringVal(f.Val), "%w") {
						for _, a := range l.Args[1:] {
							var leaves []*Expr
							if a != nil && a.K == EMake {
								leaves = a.Args
							} else {
								leaves = []*Expr{a}
							}
							for _, x := range leaves {
								for _, o := range Origins(x, nil) {
									o = strip(o)
									if o != nil && o.K == EGlobal && k.globalInClass(o.Obj) {
										in = true
									}
								}
							}
						}
					}
				}
				if in {
					okN++
				} else {
					bad = append(bad, "fmt.Errorf(…) that wraps no class member")
				}
			}
		}
	}
	return okN, bad
}

// ---------------------------------------------------------------------------
// R10 / C11-R8

type fC131Edge struct {
	top  *ssa.Function
	bar  Barrier
	what string
}

func fC131ShedClass(c *Ctx, rule string) {
	const rp = "middleware/resolver"
	c.Doc(rule, "capacity refusals are request-local at the source: after the not-taken edge of a non-blocking send on Resolver.resolutionSlots, after the ok=false edge of zoneInflightLimiter.acquire, and after the false verdict of an unexported helper wrapping either, every error the function mints before returning is a member of the class tested by middleware.IsRequestLocalResolutionError (a sentinel of that predicate, or a package-level error whose Unwrap field / %w operand statically reaches one — written as a literal or returned by the constructor function its initialiser calls, parameters standing for that call's arguments) — otherwise the SERVFAIL is filed in the RFC 9520 failure cache, followers of the shed singleflight leader inherit the refusal, and a shed NS-address sub-query is reported as an authority failure")
	k := fC131NewClass(c, rule)
	slots := c.field(rule, rp+".Resolver.resolutionSlots")
	acquire := c.fobj(rule, rp+".(*zoneInflightLimiter).acquire")
	if k == nil || slots == nil || acquire == nil {
		return
	}
	var edges []fC131Edge
	tops := map[*ssa.Function]bool{}
	for _, fn := range c.P.FuncsInPkg(rp) {
		tops[TopLevel(fn)] = true
	}
	var topList []*ssa.Function
	for t := range tops {
		topList = append(topList, t)
	}
	sort.Slice(topList, func(i, j int) bool { return fnKey(topList[i]) < fnKey(topList[j]) })
	for _, top := range topList {
		hasSel, hasAcq := false, false
		for _, g := range WithAnons(top) {
			for _, b := range g.Blocks {
				for _, in := range b.Instrs {
					if sel, ok := in.(*ssa.Select); ok && !sel.Blocking {
						for _, st := range sel.States {
							if st.Dir == types.SendOnly && c11ChanIs(st.Chan, slots) != nil {
								hasSel = true
							}
						}
					}
					if isPlainCallTo(acquire)(in) {
						hasAcq = true
					}
				}
			}
		}
		if hasSel {
			edges = append(edges, fC131Edge{top, c11SelectEdge("resolutionSlots not taken", func(s *ssa.Select) (int, bool) {
				if s.Blocking {
					return 0, false
				}
				for i, st := range s.States {
					if st.Dir == types.SendOnly && c11ChanIs(st.Chan, slots) != nil {
						return i, true
					}
				}
				return 0, false
			}, false), "shed at resolutionSlots"})
		}
		if hasAcq && funcObjOf(top) != acquire {
			edges = append(edges, fC131Edge{top, OnFalse("zoneInflightLimiter.acquire ok", ResultOf(1, acquire)), "shed at zoneInflightLimiter.acquire"})
		}
	}
	n := 0
	done := map[string]bool{}
	for depth := 0; depth < 3 && len(edges) > 0; depth++ {
		var next []fC131Edge
		for _, e := range edges {
			id := fnKey(e.top) + "|" + e.what
			if done[id] {
				continue
			}
			done[id] = true
			pts := edgePoints(e.top, e.bar)
			if len(pts) == 0 {
				continue
			}
			r := reach(pts, nil, nil)
			key := fmt.Sprintf("%s|%s|%s mints a request-local error", rule, fnKey(e.top), e.what)
			okN := 0
			var bad []string
			var badPos token.Pos
			falseIdx := map[int]bool{}
			for _, t := range r.order {
				ret, ok := t.(*ssa.Return)
				if !ok {
					continue
				}
				for i, res := range ret.Results {
					if types.Identical(res.Type(), types.Universe.Lookup("error").Type()) {
						o, b := k.minted(res)
						okN += o
						if len(b) > 0 && len(bad) == 0 {
							badPos = instrPos(ret)
						}
						bad = append(bad, b...)
					} else if bt, isB := res.Type().Underlying().(*types.Basic); isB && bt.Kind() == types.Bool && IsConstBool(false)(Desc(res)) && ret.Parent() == e.top {
						falseIdx[i] = true
					}
				}
			}
			switch {
			case len(bad) > 0:
				n++
				c.violation(rule, key, badPos, fmt.Sprintf("%s: the error returned after the refusal is %s — not a member of the request-local class {%s}; path %s", e.what, strings.Join(bad, "; "), k.names(), c.P.pos(badPos)))
			case okN > 0:
				n++
				c.ok(rule, key, instrPos(pts[0].B.Instrs[0]), fmt.Sprintf("%s: every error minted after the refusal is in the request-local class (%d value(s))", e.what, okN))
			}
			// an unexported wrapper that answers false on refusal hands the edge to its callers
			if fo := funcObjOf(e.top); fo != nil && !fo.Exported() && len(falseIdx) > 0 && okN == 0 && len(bad) == 0 {
				for i := range falseIdx {
					idx := i
					for _, s := range c.CallSites(fo) {
						if cc := callCommon(s.Instr); cc == nil || cc.StaticCallee() == nil {
							continue
						}
						next = append(next, fC131Edge{TopLevel(s.Fn), OnFalse(fo.Name()+" verdict", ResultOf(idx, fo)), e.what + " (through " + fo.Name() + ")"})
					}
				}
			}
		}
		edges = next
	}
	if n == 0 {
		c.unresolved(rule, "capacity refusal", "no error-returning exit found behind a refused in-flight slot (rule would pass vacuously)")
	}
	c.Floor(rule, 2)
}

// ---------------------------------------------------------------------------
// R11

func fC131NSAddrVerdicts(c *Ctx, rule string) {
	const rp = "middleware/resolver"
	c.Doc(rule, "on the required delegation path a request-local verdict of an NS-address lookup is never turned into 'this delegation has no server': in every resolver function that calls lookupNSAddrV4/lookupNSAddrV6 and has an error result, from the err!=nil edge of that lookup the next lookup / a return is reached only (a) by returning the error, (b) after carrying it in a variable that reaches a return — a variable that lives across lookups is assigned, on a lookup's failure path, only the error and only behind the TRUE edge of the class test, never anything else — or (c) across the false edge of IsRequestLocalResolutionError(err) or of errors.Is(err, S) — for every sentinel S of the class; and the function's callers reach Resolver.recordResolutionZoneFailure only across the nil edge of its error")
	k := fC131NewClass(c, rule)
	v4 := c.fobj(rule, rp+".(*Resolver).lookupNSAddrV4")
	v6 := c.fobj(rule, rp+".(*Resolver).lookupNSAddrV6")
	rzf := c.fobj(rule, rp+".(*Resolver).recordResolutionZoneFailure")
	if k == nil || v4 == nil || v6 == nil || rzf == nil {
		return
	}
	errT := types.Universe.Lookup("error").Type()
	n := 0
	seenTop := map[*ssa.Function]bool{}
	for _, s := range append(c.CallSites(v4), c.CallSites(v6)...) {
		top := TopLevel(s.Fn)
		cl, ok := s.Instr.(*ssa.Call)
		if !ok || s.Fn != top {
			continue // go/defer or inside a detached closure: best-effort enrichment, nothing is reported
		}
		sig := top.Signature
		hasErr := false
		for i := 0; i < sig.Results().Len(); i++ {
			if types.Identical(sig.Results().At(i).Type(), errT) {
				hasErr = true
			}
		}
		if !hasErr {
			continue
		}
		// the error result of this lookup
		var errVal ssa.Value
		for _, ref := range *cl.Referrers() {
			if ex, ok := ref.(*ssa.Extract); ok && ex.Index == 1 {
				errVal = ex
			}
		}
		if errVal == nil {
			c.violation(rule, fmt.Sprintf("%s|%s|NS address lookup error is looked at", rule, fnKey(top)), instrPos(cl), "the error result of the NS-address lookup is discarded outright")
			n++
			continue
		}
		derives := func(v ssa.Value) bool {
			if v == errVal {
				return true
			}
			for _, l := range Origins(Desc(v), nil) {
				if l != nil && l.V == errVal {
					return true
				}
			}
			return false
		}
		isErr := func(e *Expr) bool {
			for _, l := range Origins(e, nil) {
				if l != nil && l.V == errVal {
					return true
				}
			}
			return false
		}
		// phi webs fed by the error that reach a return of the function
		reachesReturn := func(ph *ssa.Phi) bool {
			seen := map[ssa.Value]bool{}
			var walk func(v ssa.Value, d int) bool
			walk = func(v ssa.Value, d int) bool {
				if seen[v] || d > 12 {
					return false
				}
				seen[v] = true
				refs := v.Referrers()
				if refs == nil {
					return false
				}
				for _, r := range *refs {
					switch x := r.(type) {
					case *ssa.Return:
						return true
					case *ssa.Phi:
						if walk(x, d+1) {
							return true
						}
					case *ssa.MakeInterface:
						if walk(x, d+1) {
							return true
						}
					case *ssa.ChangeInterface:
						if walk(x, d+1) {
							return true
						}
					}
				}
				return false
			}
			return walk(ph, 0)
		}
		kept := Barrier{Name: "error returned or carried to a return", Instr: func(in ssa.Instruction) bool {
			switch x := in.(type) {
			case *ssa.Return:
				for _, r := range x.Results {
					if derives(r) {
						return true
					}
				}
			case *ssa.Jump:
				b := x.Block()
				succ := b.Succs[0]
				pi := -1
				for i, p := range succ.Preds {
					if p == b {
						pi = i
					}
				}
				for _, si := range succ.Instrs {
					ph, ok := si.(*ssa.Phi)
					if !ok {
						break
					}
					if pi >= 0 && pi < len(ph.Edges) && ph.Edges[pi] == errVal && reachesReturn(ph) {
						return true
					}
				}
			case *ssa.Store:
				if derives(x.Val) {
					if a, ok := x.Addr.(*ssa.Alloc); ok {
						for _, ld := range *a.Referrers() {
							if u, ok := ld.(*ssa.UnOp); ok && u.Op == token.MUL {
								if refs := u.Referrers(); refs != nil {
									for _, r := range *refs {
										if _, ok := r.(*ssa.Return); ok {
											return true
										}
									}
								}
							}
						}
					}
				}
			}
			return false
		}}
		start := edgePoints(top, OnTrue("lookup err", func(e *Expr) bool { e = strip(e); return e != nil && e.V == errVal }))
		if len(start) == 0 {
			c.unresolved(rule, fnKey(top)+"|err != nil edge", "the lookup's error is never tested")
			continue
		}
		target := func(in ssa.Instruction) bool {
			if in == ssa.Instruction(cl) {
				return true // next host
			}
			_, isRet := in.(*ssa.Return)
			return isRet
		}
		callee := cl.Call.StaticCallee()
		for _, S := range k.sorted() {
			key := fmt.Sprintf("%s|%s|%s error of class %s is not dropped", rule, fnKey(top), callee.Name(), S.Name())
			bars := []Barrier{
				kept,
				OnFalse("IsRequestLocalResolutionError(err)", func(e *Expr) bool {
					e = strip(e)
					return e != nil && e.K == ECall && sameFunc(e.Fn, k.isLocal) && len(e.Args) == 1 && isErr(e.Args[0])
				}),
				OnFalse("errors.Is(err, "+S.Name()+")", c13ErrorsIs(k.errorsIs, S, isErr)),
			}
			r := reach(start, bars, nil)
			var hit ssa.Instruction
			for _, t := range r.order {
				if target(t) && !kept.Instr(t) {
					hit = t
					break
				}
			}
			n++
			if hit != nil {
				c.violation(rule, key, instrPos(hit), fmt.Sprintf("a failed %s whose error is %s can go on to %s with the error neither returned, carried to a return, nor excluded by the class test — an empty delegation is then reported as 'no reachable authority' and filed as a zone failure; path %s", callee.Name(), S.Name(), c.P.pos(instrPos(hit)), c.trail(r, hit)))
			} else {
				c.ok(rule, key, instrPos(cl), "returned, carried, or excluded by the class test on every path")
			}
		}
		// (b) refined: a verdict carried ACROSS lookups is replaced by request-local verdicts only (rules_w4_c13_w4g3c2.go)
		n += w4C13CarriedAcrossLookups(c, rule, k, top, cl, errVal, start, isErr, reachesReturn)
		// callers: the zone-failure verdict only across this function's nil error
		if !seenTop[top] {
			seenTop[top] = true
			fo := funcObjOf(top)
			if fo == nil {
				continue
			}
			ridx := -1
			for i := 0; i < sig.Results().Len(); i++ {
				if types.Identical(sig.Results().At(i).Type(), errT) {
					ridx = i
				}
			}
			for _, cs := range c.CallSites(fo) {
				if _, ok := cs.Instr.(*ssa.Call); !ok {
					continue
				}
				ctop := TopLevel(cs.Fn)
				at := cs.Instr
				c.MustCrossFrom(rule, ctop, "zone failure after "+fo.Name(), func(in ssa.Instruction) bool { return in == at }, isCallTo(rzf), OnFalse(fo.Name()+" err", ResultOf(ridx, fo)))
				n++
			}
		}
	}
	if n == 0 {
		c.unresolved(rule, "NS address lookups", "no error-reporting caller of lookupNSAddrV4/V6 found (rule would pass vacuously)")
	}
	c.Floor(rule, 7)
}
