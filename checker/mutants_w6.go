package main

// Regression mutants for the rules added after red wave 6.

func init() {
	m := func(id, expect string) Mutant {
		return Mutant{ID: id, File: "internal/ecs/policy.go", Expect: expect,
			Old: "\t\tbits = source.Bits()\n",
			New: "\t\tscope, bits = source, source.Bits()\n",
			Why: "red wave 6 (C19-w6g1c1): when SCOPE exceeds SOURCE the whole SOURCE prefix survives — an answer the authority scoped to 198.51.100.77/32 is filed under the client's 203.0.113.0/24"}
	}
	addMutants("C03", []Mutant{m("c03-w6-clamp-keeps-source-address", "C03-R12")})
	addMutants("C19", []Mutant{m("c19-w6-clamp-keeps-source-address", "C19-R16")})
	addMutants("C18", []Mutant{{ID: "c18-w6-persist-temp-tested-on-path", File: "middleware/blocklist/updater.go", Expect: "C18-R15",
		Old: "strings.HasPrefix(f.Name(), persistTempPrefix)",
		New: "strings.HasPrefix(path, persistTempPrefix)",
		Why: "red wave 6 (C18-w6g3c2): the walked path includes the directory, the skip never matches, and a refresh beside an in-flight persist reads the temp file back as a list"}})
	addMutants("C20", []Mutant{{ID: "c20-w6-soa-of-another-zone-ignored", File: "middleware/dns64/dns64.go", Expect: "C20-R14",
		Old: "\t\tif soa, ok := rr.(*dns.SOA); ok {\n\t\t\tttl := soa.Hdr.Ttl\n",
		New: "\t\tif soa, ok := rr.(*dns.SOA); ok {\n\t\t\tif len(m.Question) > 0 && !dns.IsSubDomain(soa.Hdr.Name, m.Question[0].Name) {\n\t\t\t\tcontinue\n\t\t\t}\n\t\t\tttl := soa.Hdr.Ttl\n",
		Why: "red wave 6 (C20-w6g4c1): an SOA whose owner does not enclose the question (the NODATA at the end of an alias chain) is reported as absent, and the synthesised AAAA gets the 600 s ceiling instead of the negative TTL"}})
}
