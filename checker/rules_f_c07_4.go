package main

// F-C07-4 / C07-R11 — the nameserver-address filter refuses every spelling of
// "this host".
//
// usableAddr is the one gate every address passes before it becomes an
// upstream endpoint or a glue-cache entry (C07-R2 decides that checkGlueRR and
// searchAddrs admit nothing else).  It exists to keep a referral from pointing
// the resolver at the machine it runs on.  That machine is reachable under
// three spellings: a loopback address, one of its interface addresses, and the
// unspecified address (0.0.0.0 / :: / ::ffff:0.0.0.0) — a datagram or
// connection to the unspecified address is delivered locally on Linux and the
// BSDs.  C07-R2 covers the first two; this rule covers the third:
//
//   every return of usableAddr that can answer valid=true lies behind
//     - the false edge of netip.Addr.IsUnspecified applied to the UNMAPPED
//       address derived from the parameter (netip's test compares with the two
//       canonical values only, so ::ffff:0.0.0.0 passes it before Unmap), or
//     - the false edge of net.IP.IsUnspecified applied to the parameter
//       (net.IP.Equal already folds the mapped form), or
//     - the true edge of IsGlobalUnicast (either package; both exclude the
//       unspecified address and unmap first).
//   The guard may sit in an unexported helper (helper summaries of the engine).
//
// Nothing is executed; the addresses themselves are never looked at.

import (
	"go/types"

	"golang.org/x/tools/go/ssa"
)

func init() {
	wrap := func(id string, extra func(c *Ctx), explain string) {
		pd := props[id]
		if pd == nil {
			return
		}
		orig := pd.Run
		pd.Run = func(c *Ctx) { orig(c); extra(c) }
		pd.Explanation += " " + explain
	}
	wrap("C07", c07R11, "R11 (added): usableAddr answers valid only behind a not-unspecified test of the (unmapped) address — 0.0.0.0 / :: / ::ffff:0.0.0.0 as a nameserver address is delivered to the local host exactly like loopback, which the filter exists to refuse.")
}

func c07R11(c *Ctx) {
	const R = "C07-R11"
	c.Doc(R, "usableAddr (the filter every NS/glue address passes, see C07-R2) returns valid=true only behind !netip.Addr.IsUnspecified on the unmapped address, !net.IP.IsUnspecified on the parameter, or IsGlobalUnicast: the unspecified address is a third spelling of the local host next to loopback and the interface addresses")
	uf := c.fn(R, c07res+".usableAddr")
	unspecA := c.fobj(R, "net/netip.Addr.IsUnspecified")
	unspecIP := c.fobj(R, "net.IP.IsUnspecified")
	guA := c.fobj(R, "net/netip.Addr.IsGlobalUnicast")
	guIP := c.fobj(R, "net.IP.IsGlobalUnicast")
	unmap := c.fobj(R, "net/netip.Addr.Unmap")
	from4 := c.fobj(R, "net/netip.AddrFrom4")
	if uf == nil || unspecA == nil || unspecIP == nil || guA == nil || guIP == nil || unmap == nil || from4 == nil {
		return
	}
	fromParam := Contains(c07ParamIdx(0))
	// a call of one of fs whose receiver matches recv
	callOn := func(recv Pat, fs ...*types.Func) Pat {
		return func(e *Expr) bool {
			e = strip(e)
			if e == nil || e.K != ECall || len(e.Args) == 0 || !CallTo(fs...)(e) {
				return false
			}
			return recv(e.Args[0])
		}
	}
	unmapped := c07And(fromParam, Contains(CallTo(unmap, from4)))
	bars := []Barrier{
		OnFalse("!Addr.IsUnspecified(unmapped)", callOn(unmapped, unspecA)),
		OnFalse("!IP.IsUnspecified(ip)", callOn(fromParam, unspecIP)),
		OnTrue("Addr.IsGlobalUnicast", callOn(fromParam, guA)),
		OnTrue("IP.IsGlobalUnicast", callOn(fromParam, guIP)),
	}
	key := R + "|usableAddr|valid=true only for a specified address"
	n := 0
	bad := ""
	var badAt ssa.Instruction
	for _, in := range instrsWhere(uf, isReturnWith(1, func(e *Expr) bool { return !IsConstBool(false)(e) })) {
		if in.Parent() != uf {
			continue
		}
		n++
		if ug, tr := c.unguarded(in, bars, uf); ug && badAt == nil {
			bad, badAt = tr, in
		}
	}
	if n == 0 {
		c.unresolved(R, "usableAddr|valid=true return", "no return that can answer valid=true (rule would pass vacuously)")
		return
	}
	if badAt == nil {
		c.ok(R, key, uf.Pos(), "every valid=true return is behind a not-unspecified test of the unmapped address")
		return
	}
	// diagnose the near miss: the netip test applied before Unmap
	hint := ""
	for _, in := range instrsWhere(uf, isPlainCallTo(unspecA)) {
		if a0 := Desc(callArg(in, 0)); !unmapped(a0) {
			hint = " (netip.Addr.IsUnspecified is applied to " + trunc(a0.String(), 120) + ", not to the unmapped address: ::ffff:0.0.0.0 is neither of the two values it compares with)"
		}
	}
	c.violation(R, key, instrPos(badAt), "usableAddr answers valid=true on a path that never established that the address is specified"+hint+": a referral with glue `ns1.child. A 0.0.0.0` (or AAAA :: / ::ffff:0.0.0.0) yields the upstream 0.0.0.0:53, which the operating system delivers to the local host — the loopback/local-interface filter is bypassed and the address is kept in the glue cache; path "+bad)
}
