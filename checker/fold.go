package main

// E11b — "which of two values survives a merge": a max-fold / min-fold of two
// computed quantities (label counts, TTLs, deadlines) is decided from the
// branch structure, never by evaluating the quantities.  The merge may be a
// builtin max/min, a compare-and-assign (phi), or an unexported helper taking
// both values.  For the compare-and-assign shape the CFG is walked once per
// truth value of the single comparison atom (B ? A) and the value that reaches
// the merge is read off the walked path.

import (
	"fmt"
	"go/token"

	"golang.org/x/tools/go/ssa"
)

// resolveOnPath follows phis of v backwards along the walked block path.
func resolveOnPath(v ssa.Value, path []*ssa.BasicBlock, depth int) ssa.Value {
	ph, ok := v.(*ssa.Phi)
	if !ok || depth > 8 {
		return v
	}
	for i := len(path) - 1; i >= 1; i-- {
		if path[i] != ph.Block() {
			continue
		}
		for k, pr := range ph.Block().Preds {
			if pr == path[i-1] && k < len(ph.Edges) {
				return resolveOnPath(ph.Edges[k], path[:i], depth+1)
			}
		}
	}
	return v
}

// walkUntil follows the CFG from start under one assignment of the atoms until
// stop returns a label.
func walkUntil(start Point, atoms []CmpAtom, row int, stop func(in ssa.Instruction, path []*ssa.BasicBlock) string) (string, string) {
	p := start
	path := []*ssa.BasicBlock{p.B}
	for steps := 0; steps < 10000; steps++ {
		if p.B == nil || p.I >= len(p.B.Instrs) {
			return "", "fell off a block"
		}
		in := p.B.Instrs[p.I]
		if lab := stop(in, path); lab != "" {
			return lab, ""
		}
		if p.I < len(p.B.Instrs)-1 {
			p.I++
			continue
		}
		switch t := in.(type) {
		case *ssa.Jump:
			p = Point{p.B.Succs[0], 0}
			path = append(path, p.B)
		case *ssa.If:
			val, why := evalBoolOnPath(t.Cond, path, atoms, row, 0)
			if why != "" {
				return "", why
			}
			if val {
				p = Point{p.B.Succs[0], 0}
			} else {
				p = Point{p.B.Succs[1], 0}
			}
			path = append(path, p.B)
		default:
			return "", "reached an exit before the merge"
		}
	}
	return "", "walk did not terminate"
}

// FoldOfTwo: in fn the values matched by isA and isB are merged; the merge must
// keep the larger (wantMax) or the smaller one.
func (c *Ctx) FoldOfTwo(rule, key string, fn *ssa.Function, isA, isB Pat, wantMax bool, what string) {
	if fn == nil {
		c.unresolved(rule, key, "function not found")
		return
	}
	want := "max"
	if !wantMax {
		want = "min"
	}
	pa := func(v ssa.Value) bool { return isA(Desc(v)) }
	pb := func(v ssa.Value) bool { return isB(Desc(v)) }
	found := 0
	verdict := func(pos token.Pos, got, how string) {
		found++
		if got == want {
			c.ok(rule, key, pos, fmt.Sprintf("%s: the %s of the two is kept (%s)", what, want, how))
		} else {
			c.violation(rule, key, pos, fmt.Sprintf("%s: the merge keeps the %s of the two, not the %s (%s)", what, got, want, how))
		}
	}
	// order of definition, to start the walk after both values exist
	order := map[ssa.Instruction]int{}
	n := 0
	for _, b := range fn.Blocks {
		for _, in := range b.Instrs {
			order[in] = n
			n++
		}
	}
	// classify a compare-and-assign merge by walking both truth values of (B ? A)
	classify := func(start Point, mergeAt func(in ssa.Instruction, path []*ssa.BasicBlock) string, lhs, rhs Pat) (string, string) {
		var lastWhy string
		for _, op := range []token.Token{token.GTR, token.GEQ} {
			atoms := []CmpAtom{{Name: "B?A", Lhs: lhs, Rhs: rhs, Op: op}}
			onFalse, why0 := walkUntil(start, atoms, 0, mergeAt)
			onTrue, why1 := walkUntil(start, atoms, 1, mergeAt)
			if why0 != "" || why1 != "" {
				lastWhy = why0 + why1
				continue
			}
			switch {
			case onTrue == "B" && onFalse == "A":
				return "max", ""
			case onTrue == "A" && onFalse == "B":
				return "min", ""
			case onTrue == onFalse:
				return "only " + onTrue, ""
			}
			return "", "merge yields " + onTrue + "/" + onFalse
		}
		return "", lastWhy
	}
	for _, b := range fn.Blocks {
		for _, in := range b.Instrs {
			switch x := in.(type) {
			case *ssa.Call:
				hasA, hasB := false, false
				ia, ib := -1, -1
				for i, a := range x.Call.Args {
					if pa(a) {
						hasA, ia = true, i
					} else if pb(a) {
						hasB, ib = true, i
					}
				}
				if !hasA || !hasB {
					continue
				}
				if bi, ok := x.Call.Value.(*ssa.Builtin); ok && (bi.Name() == "max" || bi.Name() == "min") {
					verdict(in.Pos(), bi.Name(), "builtin "+bi.Name())
					continue
				}
				if h := localHelper(fn, &x.Call); h != nil && len(h.Blocks) > 0 && h.Signature.Results().Len() == 1 {
					isP := func(idx int) Pat {
						return func(e *Expr) bool { e = strip(e); return e != nil && e.K == EParam && e.Idx == idx }
					}
					got, why := classify(Point{h.Blocks[0], 0}, func(hin ssa.Instruction, path []*ssa.BasicBlock) string {
						r, ok := hin.(*ssa.Return)
						if !ok || len(r.Results) != 1 {
							return ""
						}
						v := resolveOnPath(r.Results[0], path, 0)
						if cl, ok := v.(*ssa.Call); ok {
							if bi, ok := cl.Call.Value.(*ssa.Builtin); ok && (bi.Name() == "max" || bi.Name() == "min") {
								return bi.Name()
							}
						}
						if p, ok := v.(*ssa.Parameter); ok {
							for i, hp := range h.Params {
								if hp == p && i == ia {
									return "A"
								}
								if hp == p && i == ib {
									return "B"
								}
							}
						}
						return "other"
					}, isP(ib), isP(ia))
					if why != "" {
						if got == "" {
							c.undecided(rule, key, in.Pos(), what+": helper "+h.Name()+" merges the two values in a shape that is not decided: "+why)
							found++
							continue
						}
					}
					if got == "only max" || got == "only min" {
						got = got[5:]
					}
					verdict(in.Pos(), got, "helper "+h.Name())
				}
			case *ssa.Phi:
				var av, bv ssa.Value
				other := false
				for _, e := range x.Edges {
					switch {
					case pa(e):
						av = e
					case pb(e):
						bv = e
					default:
						other = true
					}
				}
				if av == nil || bv == nil || other {
					continue
				}
				var later ssa.Instruction
				for _, v := range []ssa.Value{av, bv} {
					if vi, ok := v.(ssa.Instruction); ok {
						if later == nil || order[vi] > order[later] {
							later = vi
						}
					}
				}
				if later == nil {
					continue
				}
				ph := x
				got, why := classify(pointAfter(later), func(min ssa.Instruction, path []*ssa.BasicBlock) string {
					if min != ssa.Instruction(ph) {
						return ""
					}
					v := resolveOnPath(ph, path, 0)
					switch {
					case v == av:
						return "A"
					case v == bv:
						return "B"
					}
					return "other"
				}, func(e *Expr) bool { return e != nil && strip(e) != nil && strip(e).V == bv }, func(e *Expr) bool { return e != nil && strip(e) != nil && strip(e).V == av })
				if got == "" {
					c.undecided(rule, key, in.Pos(), what+": the merge of the two values is not a decided shape: "+why)
					found++
					continue
				}
				verdict(in.Pos(), got, "compare-and-assign")
			}
		}
	}
	if found == 0 {
		c.unresolved(rule, key, what+": no merge of the two values found (builtin max/min, compare-and-assign, or helper)")
	}
}
