package main

// Regression mutants for W5 C09-w5g4c2 / C09-R16(d): a revocation read back
// from the Resolver is not put back into the run's tombstone set.
func init() {
	const key = "C09-R16|(*middleware/resolver.Resolver).AutoTA|every retained revocation is put back into the run's tombstone set before writeTombstones"
	addMutants("C09", []Mutant{
		{ID: "c09-w5g4c2-merge-only-flips-state", File: "middleware/resolver/auto_trust_anchor.go", Expect: key,
			Old: "\t\tif _, exists := tombstones[fp]; !exists {\n\t\t\ttombstones[fp] = tb\n\t\t}\n",
			New: "",
			Why: "seeded change: the merge only flips a matching state entry to StateRevoked and leaves the tombstone to the migration loop — a retained key without a state entry (state file missing/unreadable after the fail-closed clear) gets no tombstone, the configured-anchor merge re-adds it as Valid and it is published and persisted"},
		{ID: "c09-w5g4c2-tombstone-only-with-state-entry", File: "middleware/resolver/auto_trust_anchor.go", Expect: key,
			Old: "\t\tif _, exists := tombstones[fp]; !exists {\n\t\t\ttombstones[fp] = tb\n\t\t}\n\t\tfor _, ta := range kskCurrent {\n\t\t\tif ta.State != StateRevoked && ta.State != StateRemoved && dnskeyMaterialFP(ta.DNSKey) == fp {\n\t\t\t\tta.State = StateRevoked\n",
			New: "\t\tfor _, ta := range kskCurrent {\n\t\t\tif ta.State != StateRevoked && ta.State != StateRemoved && dnskeyMaterialFP(ta.DNSKey) == fp {\n\t\t\t\ttombstones[fp] = tb\n\t\t\t\tta.State = StateRevoked\n",
			Why: "variant: the tombstone insertion moved into the branch that found the key in the state map — same loss for a retained key that has no state entry"},
		{ID: "c09-w5g4c2-merge-into-scratch-set", File: "middleware/resolver/auto_trust_anchor.go", Expect: key,
			Old: "\tfor fp, tb := range unpersisted {\n\t\tif _, exists := tombstones[fp]; !exists {\n\t\t\ttombstones[fp] = tb\n\t\t}\n",
			New: "\tremembered := make(Tombstones, len(unpersisted))\n\tfor fp, tb := range unpersisted {\n\t\tif _, exists := remembered[fp]; !exists {\n\t\t\tremembered[fp] = tb\n\t\t}\n",
			Why: "variant: the retained entries are collected into a map that is not the one the precedence checks consult and writeTombstones writes"},
	})
}
