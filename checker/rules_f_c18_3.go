package main

// C18-R12 (finding F-C18-3) — label boundaries come from the DNS library's
// escape-aware label iterator, never from a raw search for the byte '.'.
//
// The names the blocklist tables are asked about are in PRESENTATION form
// (dns.Msg.Unpack, dns.CanonicalName): a dot that is content of a label is
// spelled "\." there, so "is there a '.' at position i" is not "does a label
// end at position i".  Cutting a name at the result of strings.IndexByte(…,'.')
// (or Index/Split/Cut/LastIndex with ".", or a hand-written `s[i] == '.'` scan)
// tests suffixes that are not parents of the name: "foo\.example.com." is then
// blocked by the entry example.com., and a whitelist entry exempts names it
// does not cover.  The construct is wrong by construction wherever a name is
// cut into lookup candidates, so the rule is a ban plus an origin check:
//
//   in every function of package blocklist that reads or writes a name table
//   (a map of the type of BlockList.m), and in the unexported helpers those call,
//     (a) no raw separator search with the constant '.' / "." occurs, and
//     (b) every non-constant bound of a string slice originates (through phis,
//         locals and unexported helpers) from dns.NextLabel / dns.PrevLabel
//         (result 0) or from an element of dns.Split's offsets, with no
//         arithmetic on top.
//
// Whether a hand-written scanner counts its backslashes correctly is a
// value-level question this engine cannot decide; the rule therefore demands
// delegation to the library, whose contract is exactly "unescaped dots only".

import (
	"fmt"
	"go/constant"
	"go/token"
	"go/types"
	"sort"
	"strings"

	"golang.org/x/tools/go/ssa"
)

func init() {
	wrap := func(id string, extra func(c *Ctx), explain string) {
		pd := props[id]
		if pd == nil {
			return
		}
		orig := pd.Run
		pd.Run = func(c *Ctx) { orig(c); extra(c) }
		pd.Explanation += " " + explain
	}
	wrap("C18", c18R12, "R12 (added, F-C18-3): wherever a name is cut into lookup candidates the cut positions come from the library's escape-aware label iterator (dns.NextLabel / PrevLabel / Split) — no raw search for the byte '.' and no arithmetic on offsets — so an escaped dot inside a label (\"foo\\.example.com.\") is never taken for a label boundary.")
}

func c18R12(c *Ctx) {
	const R = "C18-R12"
	const pkg = "middleware/blocklist"
	c.Doc(R, "package blocklist, every function that reads/writes a name table (map of BlockList.m's type) and its unexported helpers: (a) no strings.Index*/LastIndex*/Split*/Cut with the constant '.' and no comparison of a byte/rune with '.', (b) every non-constant bound of a string slice originates from dns.NextLabel/dns.PrevLabel result 0 or an element of dns.Split's result, without arithmetic — names are in presentation form, where \"\\.\" is label content and only the library's iterator tells an unescaped dot from an escaped one")
	mF := c.field(R, pkg+".BlockList.m")
	nextLabel := c.fobj(R, "github.com/miekg/dns.NextLabel")
	prevLabel := c.fobj(R, "github.com/miekg/dns.PrevLabel")
	split := c.fobj(R, "github.com/miekg/dns.Split")
	if mF == nil || nextLabel == nil || prevLabel == nil || split == nil {
		return
	}
	tableT := mF.Type()
	isTable := func(t types.Type) bool { return types.Identical(t.Underlying(), tableT.Underlying()) }

	// --- scope: functions that touch a name table, plus their unexported helpers
	touches := func(f *ssa.Function) bool {
		for _, b := range f.Blocks {
			for _, in := range b.Instrs {
				switch x := in.(type) {
				case *ssa.Lookup:
					if isTable(x.X.Type()) {
						return true
					}
				case *ssa.MapUpdate:
					if isTable(x.Map.Type()) {
						return true
					}
				case *ssa.Call:
					if bi, ok := x.Call.Value.(*ssa.Builtin); ok && bi.Name() == "delete" && len(x.Call.Args) == 2 && isTable(x.Call.Args[0].Type()) {
						return true
					}
				}
			}
		}
		return false
	}
	inScope := map[*ssa.Function]bool{}
	var scope []*ssa.Function
	for _, f := range c.P.FuncsInPkg(pkg) {
		if !touches(f) {
			continue
		}
		for _, g := range scopeFuncs(TopLevel(f)) {
			if pk := fnPkg(g); pk == nil || pk.Path() != c.P.expand(pkg) {
				continue
			}
			if !inScope[g] {
				inScope[g] = true
				scope = append(scope, g)
			}
		}
	}
	sort.Slice(scope, func(i, j int) bool { return fnKey(scope[i]) < fnKey(scope[j]) })

	isDotConst := func(v ssa.Value) bool {
		k, ok := v.(*ssa.Const)
		if !ok || k.Value == nil {
			return false
		}
		switch k.Value.Kind() {
		case constant.Int:
			n, ok := constant.Int64Val(k.Value)
			return ok && n == '.'
		case constant.String:
			return strings.Contains(constant.StringVal(k.Value), ".")
		}
		return false
	}
	rawSearch := map[string]bool{"Index": true, "IndexByte": true, "IndexRune": true, "IndexAny": true, "LastIndex": true, "LastIndexByte": true, "LastIndexAny": true,
		"Split": true, "SplitN": true, "SplitAfter": true, "SplitAfterN": true, "Cut": true, "SplitSeq": true, "SplitAfterSeq": true}

	// bound origin: constants, label-iterator results, phis/locals of those,
	// results of unexported package helpers that return only such values
	var okBound func(e *Expr, d int, seen map[*Expr]bool) (bool, string)
	okBound = func(e *Expr, d int, seen map[*Expr]bool) (bool, string) {
		e = strip(e)
		if e == nil {
			return true, ""
		}
		if d > 30 || seen[e] {
			return true, ""
		}
		seen[e] = true
		switch e.K {
		case EConst:
			return true, ""
		case EUnknown:
			if e.Name == "phi-cycle" || e.Name == "cell-cycle" {
				return true, ""
			}
		case EPhi, EAlloc:
			if len(e.Args) == 0 {
				return false, "a value of unknown origin: " + trunc(e.String(), 100)
			}
			for _, a := range e.Args {
				if ok, why := okBound(a, d+1, seen); !ok {
					return false, why
				}
			}
			return true, ""
		case EIndex, ERange:
			if Contains(CallTo(split))(e) {
				return true, ""
			}
		case ECall, EExtract:
			if ResultOf(0, nextLabel, prevLabel)(e) {
				return true, ""
			}
			call := e
			if e.K == EExtract {
				call = strip(e.X)
			}
			if call != nil && call.K == ECall && call.SFn != nil && call.SFn.Parent() == nil && len(call.SFn.Blocks) > 0 {
				if fo := funcObjOf(call.SFn); fo != nil && !fo.Exported() && inScope[call.SFn] {
					idx := 0
					if e.K == EExtract {
						idx = e.Idx
					}
					for _, b := range call.SFn.Blocks {
						for _, in := range b.Instrs {
							r, ok := in.(*ssa.Return)
							if !ok || idx >= len(r.Results) {
								continue
							}
							if ok2, why := okBound(Desc(r.Results[idx]), d+1, seen); !ok2 {
								return false, "through " + call.SFn.Name() + ": " + why
							}
						}
					}
					return true, ""
				}
			}
		case EBin:
			return false, "arithmetic on an offset: " + trunc(e.String(), 140)
		}
		return false, "not a label-iterator result: " + trunc(e.String(), 140)
	}

	n := 0
	for _, f := range scope {
		var bad []string
		var badPos token.Pos
		relevant := false
		note := func(in ssa.Instruction, msg string) {
			bad = append(bad, msg)
			if badPos == token.NoPos {
				badPos = instrPos(in)
			}
		}
		for _, b := range f.Blocks {
			for _, in := range b.Instrs {
				// (a) raw separator search
				if cc := callCommon(in); cc != nil {
					if fo, _, _ := calleeObj(cc); fo != nil && fo.Pkg() != nil && (fo.Pkg().Path() == "strings" || fo.Pkg().Path() == "bytes") && rawSearch[fo.Name()] {
						for _, a := range cc.Args {
							if isDotConst(a) {
								relevant = true
								note(in, fmt.Sprintf("%s.%s(…, '.') finds escaped dots too", fo.Pkg().Name(), fo.Name()))
							}
						}
					}
				}
				if bo, ok := in.(*ssa.BinOp); ok && (bo.Op == token.EQL || bo.Op == token.NEQ) {
					isCh := func(v ssa.Value) bool {
						bt, ok := v.Type().Underlying().(*types.Basic)
						return ok && (bt.Kind() == types.Uint8 || bt.Kind() == types.Int32)
					}
					if (isDotConst(bo.X) && isCh(bo.Y)) || (isDotConst(bo.Y) && isCh(bo.X)) {
						relevant = true
						note(in, "a byte of the name is compared with '.' (hand-written label scan)")
					}
				}
				// (b) string slice bounds
				sl, ok := in.(*ssa.Slice)
				if !ok {
					continue
				}
				if bt, ok := sl.X.Type().Underlying().(*types.Basic); !ok || bt.Info()&types.IsString == 0 {
					continue
				}
				relevant = true
				for _, bv := range []ssa.Value{sl.Low, sl.High} {
					if bv == nil {
						continue
					}
					if ok, why := okBound(Desc(bv), 0, map[*Expr]bool{}); !ok {
						note(in, "name cut at "+why)
					}
				}
			}
		}
		if !relevant {
			continue
		}
		n++
		key := fmt.Sprintf("%s|%s|label boundaries from the escape-aware iterator", R, fnKey(f))
		if len(bad) > 0 {
			c.violation(R, key, badPos, "a name in presentation form is cut at positions that are not label boundaries when a label contains an escaped dot (\"foo\\.example.com.\" has the single parent \"com.\"): "+strings.Join(c18DedupStringsR12(bad), "; "))
		} else {
			c.ok(R, key, f.Pos(), "every cut position is a constant or comes from dns.NextLabel/PrevLabel/Split")
		}
	}
	if n == 0 {
		c.unresolved(R, "name cuts", "no function that cuts a name into candidates found (rule would pass vacuously)")
	}
}

func c18DedupStringsR12(in []string) []string {
	seen := map[string]bool{}
	var out []string
	for _, s := range in {
		if !seen[s] {
			seen[s] = true
			out = append(out, s)
		}
	}
	return out
}
