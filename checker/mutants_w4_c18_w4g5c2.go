package main

// Regression mutants for C18-R13 (wave 4, change C18-w4g5c2: the directory
// walk, which the refresh pass runs beside a live API, removes persist's temp
// files).
func init() {
	addMutants("C18", []Mutant{
		{ID: "c18-w4-walk-removes-persist-temp", File: "middleware/blocklist/updater.go", Expect: "C18-R13|(*middleware/blocklist.BlockList).readBlocklists",
			Old: "\t\t\tif strings.HasPrefix(f.Name(), persistTempPrefix) {\n\t\t\t\treturn nil\n\t\t\t}\n",
			New: "\t\t\tif strings.HasPrefix(f.Name(), persistTempPrefix) {\n\t\t\t\t_ = os.Remove(path)\n\t\t\t\treturn nil\n\t\t\t}\n",
			Why: "seeded C18-w4g5c2 (the half that breaks; the deleted start-up sweep is the harmless half): readBlocklists is also the refresh pass's walk, so a persist between CreateTemp and Rename loses its temp file, the rename fails, and an acknowledged Set/Remove never reaches `local`"},
		{ID: "c18-w4-refresh-pass-sweeps-persist-temps", File: "middleware/blocklist/updater.go", Expect: "C18-R13|(*middleware/blocklist.BlockList).refreshRemote",
			Old: "\tb.fetchBlocklist()\n\n\tif err := b.readBlocklists(); err != nil {\n",
			New: "\tb.fetchBlocklist()\n\n\tif entries, err := os.ReadDir(b.cfg.BlockListDir); err == nil {\n\t\tfor _, e := range entries {\n\t\t\tif e.Type().IsRegular() && strings.HasPrefix(e.Name(), persistTempPrefix) {\n\t\t\t\t_ = os.Remove(filepath.Join(b.cfg.BlockListDir, e.Name()))\n\t\t\t}\n\t\t}\n\t}\n\tif err := b.readBlocklists(); err != nil {\n",
			Why: "variant: the sweep for abandoned temp files is (also) run by the refresh goroutine after the downloads — seconds after New returned, beside a live API — and deletes an in-flight persist's temp file"},
	})
}
