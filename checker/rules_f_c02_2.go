package main

// F-C02-2 / C02-R12 — an ancestor-delegation NSEC/NSEC3 denies nothing at or
// below its zone cut (RFC 6840 §4.1).
//
// The parent's record at a zone cut (bitmap: NS, no SOA) is a genuine, signed
// record whose canonical interval "covers" every name of the child zone and
// whose bitmap lacks every type of the child's apex.  A verifier that judges
// only order and "qtype not in bitmap" therefore turns it into an
// authenticated NXDOMAIN / NODATA for names and types that live in the child.
// Two structural necessary conditions, decided on the SSA CFG (nothing is
// executed, no source text or line is matched):
//
//  (A) exact-owner NODATA — NSEC (after the owner == qname edge of
//      VerifyNODATANSEC) and NSEC3 (after the nil-error edge of the exact
//      findMatchingWithWork lookup of VerifyNODATAForZoneWithWork): every
//      accept return is behind  qtype == DS  ∨  bitmap lacks NS  ∨  bitmap has
//      SOA.  The bitmap tests are read by what their edges establish
//      (typesSet lists, split/merged calls, named booleans, an extracted
//      predicate such as nsecDelegationBitmap / aggressiveDelegationBitmap are
//      all the same test).
//
//  (B) interval denials — who may read an NSEC interval as a denial
//      (callers of nsecCovers, discovered through the callee) is a table; in
//      every listed verdict function each accept return that is reachable
//      after a use of nsecCovers (direct or through an extracted helper such
//      as firstCoveringNSEC) lies behind the passing edge of an ANCESTOR-CUT
//      SCAN bound to the very name whose cover is looked up.  A scan is
//      recognised by structure, not by name: a same-package function (or the
//      verdict function itself) that tests "name is a strict descendant of
//      <record>.Header().Name" (nsecNextBelow / dns.IsSubDomain) and in which,
//      after the true edge of that test, the passing exit is reachable only
//      across  bitmap lacks NS ∨ bitmap has SOA  (delegation leg) and across
//      bitmap lacks DNAME  (redirect leg, RFC 6672 §5.3.2 — the same pair
//      validateNSEC3ClosestEncloser applies on the NSEC3 side, C02-R8).
//
// Not decided: that the scan visits every record of the set (loop bounds), and
// the ancestor relation itself (nsecNextBelow's label arithmetic) — values.

import (
	"fmt"
	"go/token"
	"go/types"
	"sort"
	"strings"

	"golang.org/x/tools/go/ssa"
)

func init() {
	wrap := func(id string, extra func(c *Ctx), explain string) {
		pd := props[id]
		if pd == nil {
			return
		}
		orig := pd.Run
		pd.Run = func(c *Ctx) { orig(c); extra(c) }
		pd.Explanation += " " + explain
	}
	wrap("C02", c02R12, "R12 (added): a parent-side delegation record (NS, no SOA) denies nothing at or below its cut — every exact-owner NODATA accept (NSEC and NSEC3) is behind qtype=DS ∨ ¬NS ∨ SOA, and every accept that rests on an NSEC interval (nsecCovers; who may use it is a table) is behind an ancestor-cut scan over the denied name whose passing exit requires, for each record owned by a proper ancestor, ¬(NS ∧ ¬SOA) and ¬DNAME.")
}

func c02R12(c *Ctx) {
	const (
		R    = "C02-R12"
		dpkg = "middleware/resolver/dnssec"
		lib  = "github.com/miekg/dns"
	)
	OnTrue := func(name string, p Pat) Barrier { return c02Deep(OnTrue(name, p)) }
	OnFalse := func(name string, p Pat) Barrier { return c02Deep(OnFalse(name, p)) }
	OnCmp := func(name string, lhs Pat, op token.Token, rhs Pat, holds bool) Barrier {
		return c02Deep(OnCmp(name, lhs, op, rhs, holds))
	}
	c.Doc(R, "RFC 6840 §4.1: an ancestor-delegation NSEC/NSEC3 (NS, no SOA) is never a denial at or below its cut — exact-owner NODATA accepts are behind qtype=DS ∨ ¬NS ∨ SOA; accepts resting on an NSEC interval (nsecCovers) are behind an ancestor-cut scan (¬(NS∧¬SOA) and ¬DNAME for every record owned by a proper ancestor of the denied name)")

	typesSet := c.fobj(R, dpkg+".typesSet")
	qtype := c.field(R, lib+".Question.Qtype")
	covers := c.fobj(R, dpkg+".nsecCovers")
	nextBelow := c.fobj(R, dpkg+".nsecNextBelow")
	isSub := c.fobj(R, lib+".IsSubDomain")
	canon := c.fobj(R, lib+".CanonicalName")
	matching := c.fobj(R, dpkg+".findMatchingWithWork")
	if typesSet == nil || qtype == nil || covers == nil || nextBelow == nil || isSub == nil || canon == nil || matching == nil {
		return
	}

	// ---- bitmap atoms (same reading as C02-R8) --------------------------------
	tsList := func(e *Expr) (consts []int64, others []*Expr, ok bool) {
		if !CallTo(typesSet)(e) {
			return nil, nil, false
		}
		e = strip(e)
		if len(e.Args) != 2 {
			return nil, nil, false
		}
		consts, others = c02PackMembersExpr(e.Args[1])
		return consts, others, true
	}
	has := func(t int64) Pat {
		return func(e *Expr) bool {
			cs, _, ok := tsList(e)
			if !ok {
				return false
			}
			for _, x := range cs {
				if x == t {
					return true
				}
			}
			return false
		}
	}
	only := func(t int64) Pat {
		return func(e *Expr) bool {
			cs, oth, ok := tsList(e)
			if !ok || len(oth) > 0 || len(cs) == 0 {
				return false
			}
			for _, x := range cs {
				if x != t {
					return false
				}
			}
			return true
		}
	}
	const tNS, tSOA, tDNAME, tDS = 2, 6, 39, 43
	lacksNS := OnFalse("bitmap lacks NS", has(tNS))
	hasSOA := OnTrue("bitmap has SOA", only(tSOA))
	lacksDNAME := OnFalse("bitmap lacks DNAME", has(tDNAME))
	isQ := FieldIs(qtype)
	isDS := OnCmp("q.Qtype == DS", isQ, token.EQL, IsConstInt(tDS), true)
	hdr := MethodNamed("Header")

	acceptRet := func(fn *ssa.Function) func(ssa.Instruction) bool {
		n := fn.Signature.Results().Len()
		return func(in ssa.Instruction) bool {
			r, ok := in.(*ssa.Return)
			return ok && r.Parent() == fn && n > 0 && len(r.Results) == n && IsNilConst(Desc(r.Results[n-1]))
		}
	}

	// ------------------------------------------------------------------ (A)
	const whatA = "exact-owner NODATA accepted from a parent-side delegation record"
	if fn := c.fn(R, dpkg+".VerifyNODATANSEC"); fn != nil {
		ownerEq := OnCmp("owner == qname", func(e *Expr) bool { return CallTo(canon)(e) && Contains(hdr)(e) }, token.EQL, CallTo(canon), true)
		c.AfterEdge(R, fn, whatA, ownerEq, acceptRet(fn), isDS, lacksNS, hasSOA)
	}
	if fn := c.fn(R, dpkg+".VerifyNODATAForZoneWithWork"); fn != nil {
		wild := func(e *Expr) bool {
			e = strip(e)
			return e != nil && e.K == EConst && e.Val != nil && strings.HasPrefix(e.Val.ExactString(), `"*`)
		}
		exactLookupErr := func(e *Expr) bool { return ResultOf(1, matching)(e) && !Contains(wild)(e) }
		c.AfterEdge(R, fn, whatA, OnFalse("exact findMatchingWithWork err", exactLookupErr), acceptRet(fn), isDS, lacksNS, hasSOA)
	}

	// ------------------------------------------------------------------ (B)
	subject := map[string]string{
		dpkg + ".VerifyNameErrorNSEC": "NXDOMAIN verdict: qname and the wildcard at its closest encloser are denied by interval — subject to the ancestor-cut scan",
		dpkg + ".VerifyNODATANSEC":    "wildcard NODATA verdict: qname is denied by interval — subject to the ancestor-cut scan",
	}
	allow := map[string]string{
		dpkg + ".nextCloserDeniedWithWork": "wildcard-answer check: the name looked up is the next closer name, one label below the encloser fixed by RRSIG.Labels; any cut between encloser and qname is that name or lies below it, so it is an NSEC owner or an empty non-terminal and nsecCovers is false for it",
	}
	for k, v := range subject {
		allow[k] = v
	}
	c.WhoMay(R, "nsecCovers (an NSEC interval read as a denial)", c.CallSites(covers), allow)

	type ancAtom struct {
		f           *types.Func
		name, owner int
	}
	atoms := []ancAtom{{nextBelow, 0, 1}, {isSub, 1, 0}}
	// ancCall: in tests "name is below the owner of a record"
	ancCall := func(in ssa.Instruction) (name, owner ssa.Value, ok bool) {
		cl, isCall := in.(*ssa.Call)
		if !isCall {
			return nil, nil, false
		}
		f, _, _ := calleeObj(&cl.Call)
		for _, a := range atoms {
			if f != nil && sameFunc(f, a.f) {
				nv, ov := callArg(in, a.name), callArg(in, a.owner)
				if nv != nil && ov != nil && Contains(hdr)(Desc(ov)) {
					return nv, ov, true
				}
			}
		}
		return nil, nil, false
	}
	ancTrue := OnTrue("name below record owner", func(e *Expr) bool {
		return CallTo(nextBelow, isSub)(e) && Contains(hdr)(e)
	})
	ancCallsIn := func(f *ssa.Function) []ssa.Instruction {
		var out []ssa.Instruction
		for _, g := range WithAnons(f) {
			for _, b := range g.Blocks {
				for _, in := range b.Instrs {
					if _, _, ok := ancCall(in); ok {
						out = append(out, in)
					}
				}
			}
		}
		return out
	}

	// cover uses: nsecCovers itself or a local helper that (transitively) calls it;
	// coverName = the name looked up, in the caller's terms
	var usesCover func(f *ssa.Function, depth int) bool
	usesCover = func(f *ssa.Function, depth int) bool {
		if f == nil || depth > 3 {
			return false
		}
		for _, g := range WithAnons(f) {
			for _, b := range g.Blocks {
				for _, in := range b.Instrs {
					cc := callCommon(in)
					if cc == nil {
						continue
					}
					if callIs(cc, covers) {
						return true
					}
					if h := localHelper(g, cc); h != nil && usesCover(h, depth+1) {
						return true
					}
				}
			}
		}
		return false
	}
	var coverNamesAt func(in ssa.Instruction, depth int) []string
	coverNamesAt = func(in ssa.Instruction, depth int) []string {
		cc := callCommon(in)
		if cc == nil || depth > 3 {
			return nil
		}
		if callIs(cc, covers) {
			if v := callArg(in, 2); v != nil {
				return []string{Desc(v).String()}
			}
			return nil
		}
		h := localHelper(in.Parent(), cc)
		if h == nil {
			return nil
		}
		var out []string
		for _, g := range WithAnons(h) {
			for _, b := range g.Blocks {
				for _, x := range b.Instrs {
					for range coverNamesAt(x, depth+1) {
						// the helper's name must be one of its parameters: bind it to this call's argument
						var nv ssa.Value
						if xc := callCommon(x); xc != nil && callIs(xc, covers) {
							nv = callArg(x, 2)
						}
						if p, ok := nv.(*ssa.Parameter); ok {
							for i, hp := range h.Params {
								if hp == p && i < len(cc.Args) {
									out = append(out, Desc(cc.Args[i]).String())
								}
							}
						}
					}
				}
			}
		}
		return out
	}

	// silent AfterEdge: first target reachable after the edge without crossing bars
	afterEdgeHit := func(f *ssa.Function, edge Barrier, target func(ssa.Instruction) bool, bars ...Barrier) (ssa.Instruction, string, int) {
		pts := edgePoints(f, edge)
		if len(pts) == 0 {
			return nil, "", 0
		}
		r := reach(pts, bars, nil)
		for _, t := range r.order {
			if target(t) {
				return t, c.trail(r, t), len(pts)
			}
		}
		return nil, "", len(pts)
	}
	// mayBe: a returned value may have truthiness v (true / non-nil)
	mayBe := func(val ssa.Value, v bool) bool {
		for _, l := range Origins(Desc(val), nil) {
			s := strip(l)
			switch {
			case s == nil:
				return true
			case s.K == EConst && s.IsNil:
				if !v {
					return true
				}
			case s.K == EConst && IsConstBool(true)(s):
				if v {
					return true
				}
			case s.K == EConst && IsConstBool(false)(s):
				if !v {
					return true
				}
			case s.K == EGlobal: // an error sentinel
				if v {
					return true
				}
			default:
				return true
			}
		}
		return false
	}
	type scanner struct {
		fn      *ssa.Function
		pass    bool // result value that means "no cut above the name"
		nameIdx int  // parameter carrying the name
	}
	legs := []struct {
		name string
		bars []Barrier
	}{
		{"delegation leg (¬NS ∨ SOA)", []Barrier{lacksNS, hasSOA}},
		{"DNAME leg (¬DNAME)", []Barrier{lacksDNAME}},
	}
	// judgeScanner: P (≠ the verdict function) is an ancestor-cut scan with passing value v
	judgeScanner := func(p *ssa.Function) (*scanner, string) {
		calls := ancCallsIn(p)
		if len(calls) == 0 {
			return nil, ""
		}
		nameIdx := -1
		for _, in := range calls {
			nv, _, _ := ancCall(in)
			if prm, ok := nv.(*ssa.Parameter); ok {
				for i, hp := range p.Params {
					if hp == prm {
						nameIdx = i
					}
				}
			}
		}
		if nameIdx < 0 || p.Signature.Results().Len() == 0 {
			return nil, "the tested name is not a parameter of " + fnKey(p)
		}
		var why string
		for _, v := range []bool{false, true} {
			passRet := func(in ssa.Instruction) bool {
				r, ok := in.(*ssa.Return)
				return ok && r.Parent() == p && len(r.Results) > 0 && mayBe(r.Results[0], v)
			}
			good := true
			for _, lg := range legs {
				hit, tr, n := afterEdgeHit(p, ancTrue, passRet, lg.bars...)
				if n == 0 {
					good = false
					why = "no branch on the ancestor test in " + fnKey(p)
					break
				}
				if hit != nil {
					good = false
					if !v {
						why = fmt.Sprintf("%s: in %s a record owned by a proper ancestor of the name reaches the passing return (%s) without that test; path %s", lg.name, fnKey(p), c.lineOf(hit), tr)
					}
					break
				}
			}
			if good {
				return &scanner{fn: p, pass: v, nameIdx: nameIdx}, ""
			}
		}
		return nil, why
	}

	names := make([]string, 0, len(subject))
	for k := range subject {
		names = append(names, k)
	}
	sort.Strings(names)
	for _, path := range names {
		fn := c.fn(R, path)
		if fn == nil {
			continue
		}
		key := fmt.Sprintf("%s|%s|interval denial behind an ancestor-cut scan", R, fnKey(fn))
		// cover uses in fn and the accept returns reachable after them
		var uses []ssa.Instruction
		nameSet := map[string]bool{}
		for _, g := range WithAnons(fn) {
			for _, b := range g.Blocks {
				for _, in := range b.Instrs {
					cc := callCommon(in)
					if cc == nil {
						continue
					}
					h := localHelper(g, cc)
					if callIs(cc, covers) || (h != nil && usesCover(h, 1)) {
						uses = append(uses, in)
						for _, s := range coverNamesAt(in, 0) {
							nameSet[s] = true
						}
					}
				}
			}
		}
		if len(uses) == 0 {
			c.unresolved(R, fnKey(fn)+"|interval denial", "no use of nsecCovers found in a listed verdict function (table row stale)")
			continue
		}
		var starts []Point
		for _, u := range uses {
			if u.Parent() == fn {
				starts = append(starts, pointAfter(u))
			}
		}
		after := reach(starts, nil, nil)
		isAccept := acceptRet(fn)
		var targets []ssa.Instruction
		for _, in := range after.order {
			if isAccept(in) {
				targets = append(targets, in)
			}
		}
		if len(targets) == 0 {
			c.unresolved(R, fnKey(fn)+"|interval denial", "no accept return after the interval lookup (rule would pass vacuously)")
			continue
		}
		isTarget := func(in ssa.Instruction) bool {
			for _, t := range targets {
				if t == in {
					return true
				}
			}
			return false
		}

		// candidate scans: local helpers called from fn, and fn itself (inline scan)
		var scans []*scanner
		var whyNot []string
		seen := map[*ssa.Function]bool{}
		for _, g := range scopeFuncs(fn) {
			p := TopLevel(g)
			if p == fn || seen[p] {
				continue
			}
			seen[p] = true
			if s, why := judgeScanner(p); s != nil {
				scans = append(scans, s)
			} else if why != "" {
				whyNot = append(whyNot, why)
			}
		}
		inline := ancCallsIn(fn)

		if len(scans) == 0 && len(inline) == 0 {
			msg := "an NSEC interval is accepted as a denial (" + c.lineOf(targets[0]) + ") and nothing on the way tests whether a record of the set is owned by a proper ancestor of the denied name with a delegation (NS, no SOA) or DNAME bitmap: the parent's record at a zone cut covers, in canonical order, every name of the child zone, so it is taken as proof that names existing in the child do not exist (RFC 6840 §4.1)"
			if len(whyNot) > 0 {
				msg += "; " + strings.Join(whyNot, "; ")
			}
			c.violation(R, key, instrPos(targets[0]), msg)
			continue
		}

		bad := false
		// (1) helper scans: every target behind the passing edge of a scan bound to the covered name
		if len(scans) > 0 {
			var bars []Barrier
			for _, s := range scans {
				fo := funcObjOf(s.fn)
				if fo == nil {
					continue
				}
				s := s
				bound := func(e *Expr) bool {
					if !CallTo(fo)(e) {
						return false
					}
					call := strip(e)
					if call != nil && call.K == EExtract {
						call = strip(call.X)
					}
					if call == nil || call.K != ECall || s.nameIdx >= len(call.Args) {
						return false
					}
					return nameSet[call.Args[s.nameIdx].String()]
				}
				if s.pass {
					bars = append(bars, OnTrue("ancestor-cut scan passes", bound))
				} else {
					bars = append(bars, OnFalse("ancestor-cut scan passes", bound))
				}
			}
			for _, t := range targets {
				if ug, tr := c.unguarded(t, bars, fn); ug {
					bad = true
					c.violation(R, key, instrPos(t), fmt.Sprintf("accept on an NSEC interval (%s) is reachable without the passing edge of an ancestor-cut scan over the name whose cover is looked up; path %s", c.lineOf(t), tr))
					break
				}
			}
		} else {
			// (2) inline scan: the loop that holds the ancestor test is passed on the way to every
			// target, is bound to the covered name, and lets a record pass only across both legs
			for _, in := range inline {
				nv, _, _ := ancCall(in)
				if !nameSet[Desc(nv).String()] {
					bad = true
					c.violation(R, key, instrPos(in), "the ancestor test is not about the name whose cover is looked up: "+trunc(Desc(nv).String(), 120))
					break
				}
				hd := loopHeaderOf(in.Block())
				for _, t := range targets {
					if hd == nil || !hd.Dominates(t.Block()) {
						bad = true
						c.violation(R, key, instrPos(t), fmt.Sprintf("accept on an NSEC interval (%s) does not pass the scan loop around the ancestor test at %s", c.lineOf(t), c.lineOf(in)))
						break
					}
				}
				if bad {
					break
				}
			}
			if !bad {
				for _, lg := range legs {
					if hit, tr, n := afterEdgeHit(fn, ancTrue, isTarget, lg.bars...); n == 0 || hit != nil {
						bad = true
						if n == 0 {
							c.violation(R, key, fn.Pos(), "the ancestor test is never branched on")
						} else {
							c.violation(R, key, instrPos(hit), fmt.Sprintf("%s: a record owned by a proper ancestor of the denied name reaches the accept (%s) without that test; path %s", lg.name, c.lineOf(hit), tr))
						}
						break
					}
				}
			}
		}
		if !bad {
			c.ok(R, key, fn.Pos(), fmt.Sprintf("all %d accept returns that follow an interval lookup are behind an ancestor-cut scan (¬(NS∧¬SOA), ¬DNAME) over the covered name", len(targets)))
		}
	}
	// a scanner that exists but lets a cut through is reported even if (1) found another one
	for _, path := range names {
		fn := c.fn(R, path)
		if fn == nil {
			continue
		}
		seen := map[*ssa.Function]bool{}
		for _, g := range scopeFuncs(fn) {
			p := TopLevel(g)
			if p == fn || seen[p] || len(ancCallsIn(p)) == 0 {
				continue
			}
			seen[p] = true
			key := fmt.Sprintf("%s|%s|ancestor-cut scan lets no cut pass", R, fnKey(fn))
			if s, why := judgeScanner(p); s == nil {
				c.violation(R, key, p.Pos(), "ancestor-cut scan "+fnKey(p)+" is incomplete: "+why)
			} else {
				c.ok(R, key, p.Pos(), fmt.Sprintf("%s: after the ancestor test a record passes only across ¬(NS∧¬SOA) and ¬DNAME (passing value %v)", fnKey(p), s.pass))
			}
		}
	}
	c.Floor(R, 7)
}

// loopHeaderOf: the innermost loop header whose loop contains b — the nearest
// dominator of b (b included) that has a predecessor it dominates (a back
// edge) from which b is reachable inside the loop.
func loopHeaderOf(b *ssa.BasicBlock) *ssa.BasicBlock {
	for h := b; h != nil; h = h.Idom() {
		for _, p := range h.Preds {
			if h.Dominates(p) && blockReaches(b, p, h) {
				return h
			}
		}
	}
	return nil
}

// blockReaches: to is reachable from from without passing through stop
// (from == to counts).
func blockReaches(from, to, stop *ssa.BasicBlock) bool {
	seen := map[*ssa.BasicBlock]bool{}
	var walk func(x *ssa.BasicBlock) bool
	walk = func(x *ssa.BasicBlock) bool {
		if x == to {
			return true
		}
		if seen[x] {
			return false
		}
		seen[x] = true
		for _, s := range x.Succs {
			if s == stop {
				continue
			}
			if walk(s) {
				return true
			}
		}
		return false
	}
	return walk(from)
}
