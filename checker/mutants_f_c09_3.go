package main

// Regression mutants for finding F-C09-3 (rule C09-R13): each lets a record
// that merely shares the tracked key's 16-bit tag answer "is this key still in
// the zone" again.  (Since F-C09-6 the fetched keys are a slice, not a tag-indexed
// map: "some fetched record has this tag" is spelled as a scan.)

func init() {
	addMutants("C09", []Mutant{
		{ID: "f-c09-3-presence-by-tag", File: "middleware/resolver/auto_trust_anchor.go",
			Old:    "if _, present := fetchedRecords[dnskeyRecordFP(ta.DNSKey)]; !present {",
			New:    "if func() bool {\n\t\t\t\tfor _, f := range fetchedKSKs {\n\t\t\t\t\tif dnssec.KeyTag(f.DNSKey) == tag {\n\t\t\t\t\t\treturn false\n\t\t\t\t\t}\n\t\t\t\t}\n\t\t\t\treturn true\n\t\t\t}() {",
			Expect: "C09-R13|(*middleware/resolver.Resolver).AutoTA|State=Valid on a tracked anchor",
			Why:    "the KeyRem/KeyPres decision is taken from the tag-indexed fetched map again: a pending key seen in one forged response is kept alive and promoted after 30 days by any published record with the same tag (e.g. the revoked form of a retired KSK)"},
		{ID: "f-c09-3-absent-only-if-tag-gone", File: "middleware/resolver/auto_trust_anchor.go",
			Old:    "if _, present := fetchedRecords[dnskeyRecordFP(ta.DNSKey)]; !present {",
			New:    "if _, present := fetchedRecords[dnskeyRecordFP(ta.DNSKey)]; !present && func() bool {\n\t\t\t\tfor _, f := range fetchedKSKs {\n\t\t\t\t\tif dnssec.KeyTag(f.DNSKey) == tag {\n\t\t\t\t\t\treturn false\n\t\t\t\t\t}\n\t\t\t\t}\n\t\t\t\treturn true\n\t\t\t}() {",
			Expect: "C09-R13|(*middleware/resolver.Resolver).AutoTA|State=Valid on a tracked anchor",
			Why:    "the record test is there but a colliding tag overrides it: the key counts as absent only when its tag is gone too, so the hold-down still completes on a record that is not the key"},
	})
}
