package main

// Regression mutants for finding F-C12-1: the alias-chase hop budget multiplies across nesting levels.
func init() {
	addMutants("C12", []Mutant{
		{ID: "f-c12-1-one-hop-per-subquery", File: "middleware/cache/cache.go", Expect: "C12-R9",
			Old: "\t\tcnameDepth -= max(1, chasedAliasHops(respCname))\n", New: "\t\tcnameDepth--\n",
			Why: "F-C12-1: a sub-query whose reply carries a whole nested chain costs one hop; 10^10 resolutions for an endless chain"},
		{ID: "f-c12-1-debit-ignores-reply", File: "middleware/cache/cache.go", Expect: "C12-R9",
			Old: "\t\tcnameDepth -= max(1, chasedAliasHops(respCname))\n", New: "\t\tcnameDepth -= max(1, chasedAliasHops(nil))\n",
			Why: "F-C12-1: the helper is still called but not on the sub-query's reply"},
	})
}
