package main

// F-C01-7 / C01-R16 — inside the asked zone, the answer section is reduced to the
// owners the question leads to before it is validated, relayed or mined for
// nameserver addresses.
//
// C07-R9 decides that a positive reply passes FilterRRsToZone(resp.Answer, asked
// zone) before Resolver.answer.  Inside that zone nothing looked at owners: one
// RRSIG at the query name selects the signer, VerifyRRSIG requires every in-zone
// RRset to be signed (a foreign RRset of the same zone is), answer() returns the
// section as it came, the cache's alias chase stops at the first record of the
// question's TYPE, searchAddrs takes every A/AAAA.  A reply `www CNAME real` +
// `evil A 6.6.6.6` (both genuinely signed by the zone) is served with AD=1.
//
//   Resolver.resolve: from the groupLookup call every path to Resolver.answer
//     - stores into <reply>.Answer the result of an OWNER FILTER KEYED ON THE
//       QUESTION: a call (function or method of the module) that is handed an
//       Answer section and a value derived from a message's Question (…
//       .Question[i].Name, the Question itself), and whose body — closures and
//       unexported helpers included — relates a record's owner
//       (dns.RR_Header.Name) to a value derived from that parameter by == / != or
//       by a predicate call taking both (EqualFold, NameInZone, IsSubDomain …), or
//     - has an empty answer section (len(<reply>.Answer) == 0);
//   alternatively Resolver.answer itself performs such a store before every
//   return of a message (the same two placements C07-R9 accepts).
//
// The rule does not decide that the filter follows CNAME/DNAME targets correctly
// (value level: too strict a filter loses the in-zone chain and costs a second
// lookup, it cannot add a foreign record).  Nothing is executed.

import (
	"go/token"
	"go/types"

	"golang.org/x/tools/go/ssa"
)

func init() {
	wrap := func(id string, extra func(c *Ctx), explain string) {
		pd := props[id]
		if pd == nil {
			return
		}
		orig := pd.Run
		pd.Run = func(c *Ctx) { orig(c); extra(c) }
		pd.Explanation += " " + explain
	}
	wrap("C01", c01R16, "R16 (added): between the upstream exchange and Resolver.answer the reply's answer section is replaced by the result of an owner filter keyed on the question's name (records of the query name and of the alias chain it starts) — a genuinely signed RRset of an unrelated owner in the same zone is not relayed as the answer under AD=1.")
}

func c01R16(c *Ctx) {
	const R = "C01-R16"
	const res = "middleware/resolver"
	c.Doc(R, "Resolver.resolve: from groupLookup every path to Resolver.answer stores into the reply's Answer the result of an owner filter keyed on the question (a call given an Answer section and a Question-derived value, whose body relates dns.RR_Header.Name to that parameter), or has an empty answer section; alternatively answer() does so before every return of a message. Zone membership alone (C07-R9) leaves every other owner of the zone free to be appended to the answer")
	fn := c.fn(R, res+".(*Resolver).resolve")
	ans := c.fn(R, res+".(*Resolver).answer")
	gl := c.fobj(R, res+".(*Resolver).groupLookup")
	answerF := c.field(R, "github.com/miekg/dns.Msg.Answer")
	questionF := c.field(R, "github.com/miekg/dns.Msg.Question")
	qnameF := c.field(R, "github.com/miekg/dns.Question.Name")
	ownerF := c.field(R, "github.com/miekg/dns.RR_Header.Name")
	questionT := c.P.TypeName("github.com/miekg/dns.Question")
	if fn == nil || ans == nil || gl == nil || answerF == nil || questionF == nil || qnameF == nil || ownerF == nil || questionT == nil {
		if questionT == nil {
			c.unresolved(R, "dns.Question", "type not found")
		}
		return
	}
	ansObj := funcObjOf(ans)

	questionDerived := func(e *Expr) bool {
		if Contains(FieldIs(questionF, qnameF))(e) {
			return true
		}
		return Contains(func(x *Expr) bool {
			if x == nil || x.V == nil {
				return false
			}
			t := x.V.Type()
			if p, ok := t.(*types.Pointer); ok {
				t = p.Elem()
			}
			n, ok := t.(*types.Named)
			return ok && n.Obj() == questionT
		})(e)
	}

	// relatesOwnerTo: somewhere in h (closures and unexported same-package helpers it calls
	// included, parameters followed by position) a record owner is compared with a value
	// derived from parameter pi.
	var relatesOwnerTo func(h *ssa.Function, pi int, depth int, seen map[*ssa.Function]bool) bool
	relatesOwnerTo = func(h *ssa.Function, pi int, depth int, seen map[*ssa.Function]bool) bool {
		if h == nil || len(h.Blocks) == 0 || pi < 0 || pi >= len(h.Params) || seen[h] || depth > 3 {
			return false
		}
		seen[h] = true
		p := h.Params[pi]
		fromParam := Contains(func(x *Expr) bool {
			if x == nil {
				return false
			}
			if x.V == ssa.Value(p) {
				return true
			}
			// a captured copy of the parameter inside a closure
			if x.K == EFree && x.X != nil && x.X.V == ssa.Value(p) {
				return true
			}
			// a struct parameter spilled into a local cell (q.Name of `q dns.Question`)
			if a, ok := x.V.(*ssa.Alloc); ok && a.Referrers() != nil {
				for _, r := range *a.Referrers() {
					if st, ok := r.(*ssa.Store); ok && st.Addr == ssa.Value(a) && st.Val == ssa.Value(p) {
						return true
					}
				}
			}
			return false
		})
		owner := Contains(FieldIs(ownerF))
		for _, g := range WithAnons(h) {
			for _, b := range g.Blocks {
				for _, in := range b.Instrs {
					switch t := in.(type) {
					case *ssa.BinOp:
						if t.Op != token.EQL && t.Op != token.NEQ {
							continue
						}
						x, y := Desc(t.X), Desc(t.Y)
						if (owner(x) && fromParam(y)) || (owner(y) && fromParam(x)) {
							return true
						}
					case *ssa.Call:
						hasOwner, hasParam := false, false
						var passes []int
						for i, a := range t.Call.Args {
							e := Desc(a)
							o, q := owner(e), fromParam(e)
							if o && !q {
								hasOwner = true
							}
							if q && !o {
								hasParam = true
								passes = append(passes, i)
							}
						}
						if b, ok := t.Type().Underlying().(*types.Basic); ok && b.Kind() == types.Bool && hasOwner && hasParam {
							return true
						}
						// the parameter is handed on to an unexported helper
						if hh := localHelper(g, &t.Call); hh != nil {
							for _, i := range passes {
								if relatesOwnerTo(hh, i, depth+1, seen) {
									return true
								}
							}
						}
					}
				}
			}
		}
		return false
	}

	// ownerFilterCall: v is the result of a call given an Answer section and a
	// Question-derived value, and the callee relates owners to the latter.
	ownerFilterCall := func(e *Expr) bool {
		e = strip(e)
		if e != nil && e.K == EExtract {
			e = strip(e.X)
		}
		if e == nil || e.K != ECall || e.SFn == nil {
			return false
		}
		if fp := fnPkg(e.SFn); fp == nil || !c.P.inModule(fp.Path()) {
			return false
		}
		callee := e.SFn
		if o := callee.Origin(); o != nil {
			callee = o
		}
		hasAnswer := false
		for _, a := range e.Args {
			if Contains(FieldIs(answerF))(a) {
				hasAnswer = true
			}
		}
		if !hasAnswer {
			return false
		}
		for i, a := range e.Args {
			if Contains(FieldIs(answerF))(a) || !questionDerived(a) {
				continue
			}
			if relatesOwnerTo(callee, i, 0, map[*ssa.Function]bool{}) {
				return true
			}
		}
		return false
	}

	scrub := StoreBarrier("resp.Answer = <owner filter>(resp.Answer, question)", answerF, ownerFilterCall)
	noAnswer := OnCmp("len(resp.Answer) > 0 fails", c07Len(FieldIs(answerF)), token.GTR, IsConstInt(0), false)
	noAnswer2 := OnCmp("len(resp.Answer) == 0", c07Len(FieldIs(answerF)), token.EQL, IsConstInt(0), true)
	key := R + "|resolve|answer section reduced to the question's owners before relay"
	bad := ""
	nfrom := 0
	for _, in := range instrsWhere(fn, isPlainCallTo(gl)) {
		if in.Parent() != fn {
			continue
		}
		nfrom++
		r := reach([]Point{pointAfter(in)}, []Barrier{scrub, noAnswer, noAnswer2}, nil)
		for _, t := range r.order {
			if isPlainCallTo(ansObj)(t) {
				bad = c.trail(r, t)
				break
			}
		}
	}
	if nfrom == 0 {
		c.unresolved(R, "resolve|groupLookup", "no call found")
		return
	}
	if bad == "" {
		c.ok(R, key, fn.Pos(), "every positive reply passes an owner filter keyed on the question before answer()")
		return
	}
	inAnswer := true
	nret := 0
	for _, t := range instrsWhere(ans, func(x ssa.Instruction) bool {
		r, ok := x.(*ssa.Return)
		return ok && x.Parent() == ans && len(r.Results) == 2 && !IsNilConst(Desc(r.Results[0]))
	}) {
		nret++
		if ug, _ := c.unguarded(t, []Barrier{scrub, noAnswer, noAnswer2}, ans); ug {
			inAnswer = false
		}
	}
	if inAnswer && nret > 0 {
		c.ok(R, key, ans.Pos(), "answer() reduces the answer section to the question's owners before every return of a message")
		return
	}
	c.violation(R, key, fn.Pos(), "a reply's answer section reaches Resolver.answer filtered by zone at most: `www.zone. CNAME real.zone.` followed by the genuinely signed `other.zone. A 6.6.6.6` validates (every in-zone RRset is signed), is relayed with AD=1, ends the cache's alias chase (first record of the question's type) and is collected as a nameserver address; path "+bad)
}
