package main

// Regression mutants for F-C19-6 (another OPT record of a relayed reply reaches the client with its ECS option and the upstream hop's options).
func init() {
	addMutants("C19", []Mutant{
		{ID: "c19-reply-surplus-opt-kept", File: "middleware/edns/edns.go", Expect: fC19_6Rule + "|(*middleware/edns.ResponseWriter).WriteMsg",
			Old: "\t\tm.Extra = dropOtherOPTs(m.Extra, opt)\n",
			New: "",
			Why: "F-C19-6: WriteMsg sanitises only the record IsEdns0 returns (the last OPT); another OPT of a relayed upstream reply keeps its client-subnet option and that hop's cookie and is packed to the client"},
		{ID: "c19-reply-surplus-opt-dropped-only-beside-request-opt", File: "middleware/edns/edns.go", Expect: fC19_6Rule + "|(*middleware/edns.ResponseWriter).WriteMsg",
			Old: "\t\tm.Extra = dropOtherOPTs(m.Extra, opt)\n",
			New: "\t\tif opt == w.opt {\n\t\t\tm.Extra = dropOtherOPTs(m.Extra, opt)\n\t\t}\n",
			Why: "F-C19-6 (path-sensitive variant): the additional section is reduced to one OPT only when the chosen record is the request's own; the demonstrated reply (both OPT records the upstream's) still leaks"},
	})
}
