package main

// C05-R12 — strict admission is never more permissive than the library about
// an option's payload LENGTH.  For every option code Request.parseWireOPT
// admits, the set of lengths its arm may accept is compared with the set the
// library's unpack for that code (found through makeDataOpt) can accept.
// Both sets are read from the syntax: the guard expressions are evaluated
// over the single integer "payload length" (every other sub-expression is an
// unknown that may go either way); no sdns or library code is executed.

import (
	"fmt"
	"go/ast"
	"go/constant"
	"go/token"
	"go/types"
	"sort"
	"strings"
)

type lenTri int

const (
	triFalse lenTri = iota
	triTrue
	triUnknown
)

type lenEval struct {
	info  *types.Info
	isLen func(e ast.Expr) bool // the expression denoting the payload length
	n     int64
	// outcome classification of a return statement: +1 accept, -1 reject, 0 unknown
	ret func(r *ast.ReturnStmt) int
}

func (ev *lenEval) num(e ast.Expr) (int64, bool) {
	e = ast.Unparen(e)
	if ev.isLen(e) {
		return ev.n, true
	}
	// int(len(b)), uint16(optLen) …
	if call, ok := e.(*ast.CallExpr); ok && len(call.Args) == 1 {
		if tv, ok := ev.info.Types[call.Fun]; ok && tv.IsType() {
			return ev.num(call.Args[0])
		}
	}
	if tv, ok := ev.info.Types[e]; ok && tv.Value != nil {
		if v, ok := constant.Int64Val(constant.ToInt(tv.Value)); ok {
			return v, true
		}
	}
	return 0, false
}

func (ev *lenEval) cond(e ast.Expr) lenTri {
	e = ast.Unparen(e)
	switch x := e.(type) {
	case *ast.UnaryExpr:
		if x.Op == token.NOT {
			switch ev.cond(x.X) {
			case triTrue:
				return triFalse
			case triFalse:
				return triTrue
			}
			return triUnknown
		}
	case *ast.BinaryExpr:
		switch x.Op {
		case token.LAND:
			a, b := ev.cond(x.X), ev.cond(x.Y)
			if a == triFalse || b == triFalse {
				return triFalse
			}
			if a == triTrue && b == triTrue {
				return triTrue
			}
			return triUnknown
		case token.LOR:
			a, b := ev.cond(x.X), ev.cond(x.Y)
			if a == triTrue || b == triTrue {
				return triTrue
			}
			if a == triFalse && b == triFalse {
				return triFalse
			}
			return triUnknown
		case token.EQL, token.NEQ, token.LSS, token.LEQ, token.GTR, token.GEQ:
			a, oka := ev.num(x.X)
			b, okb := ev.num(x.Y)
			if !oka || !okb {
				return triUnknown
			}
			var r bool
			switch x.Op {
			case token.EQL:
				r = a == b
			case token.NEQ:
				r = a != b
			case token.LSS:
				r = a < b
			case token.LEQ:
				r = a <= b
			case token.GTR:
				r = a > b
			case token.GEQ:
				r = a >= b
			}
			if r {
				return triTrue
			}
			return triFalse
		}
	}
	if tv, ok := ev.info.Types[e]; ok && tv.Value != nil && tv.Value.Kind() == constant.Bool {
		if constant.BoolVal(tv.Value) {
			return triTrue
		}
		return triFalse
	}
	return triUnknown
}

// outcomes of executing stmts: may accept / may reject by a return inside, and
// whether control may fall out of the end.
type lenOut struct{ accept, reject, falls, brk bool }

func (ev *lenEval) block(stmts []ast.Stmt) lenOut {
	out := lenOut{falls: true}
	for _, s := range stmts {
		if !out.falls {
			break
		}
		o := ev.stmt(s)
		out.accept = out.accept || o.accept
		out.reject = out.reject || o.reject
		out.brk = out.brk || o.brk
		out.falls = o.falls
	}
	return out
}

func (ev *lenEval) stmt(s ast.Stmt) lenOut {
	switch x := s.(type) {
	case *ast.ReturnStmt:
		switch ev.ret(x) {
		case 1:
			return lenOut{accept: true}
		case -1:
			return lenOut{reject: true}
		}
		return lenOut{accept: true, reject: true}
	case *ast.BlockStmt:
		return ev.block(x.List)
	case *ast.IfStmt:
		c := ev.cond(x.Cond)
		var th, el lenOut
		th = ev.block(x.Body.List)
		if x.Else != nil {
			el = ev.stmt(x.Else)
		} else {
			el = lenOut{falls: true}
		}
		switch c {
		case triTrue:
			return th
		case triFalse:
			return el
		}
		return lenOut{accept: th.accept || el.accept, reject: th.reject || el.reject, falls: th.falls || el.falls, brk: th.brk || el.brk}
	case *ast.SwitchStmt:
		var res lenOut
		taken := false // a case is known to be taken
		var def *ast.CaseClause
		tagIsLen := x.Tag != nil && func() bool { _, ok := ev.num(x.Tag); return ok }()
		merge := func(o lenOut) {
			res.accept = res.accept || o.accept
			res.reject = res.reject || o.reject
			res.falls = res.falls || o.falls || o.brk
		}
		for _, cs := range x.Body.List {
			cc := cs.(*ast.CaseClause)
			if cc.List == nil {
				def = cc
				continue
			}
			if taken {
				continue
			}
			m := triFalse
			for _, e := range cc.List {
				var t lenTri
				switch {
				case x.Tag == nil:
					t = ev.cond(e)
				case tagIsLen:
					tv, _ := ev.num(x.Tag)
					cv, ok := ev.num(e)
					switch {
					case !ok:
						t = triUnknown
					case cv == tv:
						t = triTrue
					default:
						t = triFalse
					}
				default:
					t = triUnknown
				}
				if t == triTrue {
					m = triTrue
					break
				}
				if t == triUnknown {
					m = triUnknown
				}
			}
			if m == triFalse {
				continue
			}
			merge(ev.block(cc.Body))
			if m == triTrue {
				taken = true
			}
		}
		if !taken {
			if def != nil {
				merge(ev.block(def.Body))
			} else {
				res.falls = true
			}
		}
		return res
	case *ast.ForStmt:
		o := ev.block(x.Body.List)
		return lenOut{accept: o.accept, reject: o.reject, falls: true}
	case *ast.RangeStmt:
		o := ev.block(x.Body.List)
		return lenOut{accept: o.accept, reject: o.reject, falls: true}
	case *ast.BranchStmt:
		if x.Tok == token.BREAK {
			return lenOut{brk: true}
		}
		return lenOut{falls: true}
	}
	return lenOut{falls: true}
}

// lenDomain: the lengths tried — every small length and a few large ones.
func lenDomain() []int64 {
	var d []int64
	for i := int64(0); i <= 72; i++ {
		d = append(d, i)
	}
	return append(d, 128, 255, 256, 1000, 4096, 65535)
}

func lenSetString(s map[int64]bool) string {
	var ks []int64
	for k := range s {
		ks = append(ks, k)
	}
	sort.Slice(ks, func(i, j int) bool { return ks[i] < ks[j] })
	var parts []string
	for i := 0; i < len(ks); {
		j := i
		for j+1 < len(ks) && ks[j+1] == ks[j]+1 {
			j++
		}
		if j > i {
			parts = append(parts, fmt.Sprintf("%d-%d", ks[i], ks[j]))
		} else {
			parts = append(parts, fmt.Sprint(ks[i]))
		}
		i = j + 1
	}
	return "{" + strings.Join(parts, ",") + "}"
}

func c05R12(c *Ctx) {
	const R = "C05-R12"
	c.Doc(R, "strict admission is never more permissive than the library about an option's payload length: for every option code Request.parseWireOPT admits, each length its arm may accept is a length the library's unpack for that code (via makeDataOpt) can accept — both sets read from the guards' syntax over the one integer 'payload length' (RFC 7828 keepalive 0 or 2, ECS ≥ 4, …); a length the library refuses owes the client a FORMERR the strict path would never send")
	sfd, spk := c.P.FuncDecl("middleware.(*Request).parseWireOPT")
	mfd, mpk := c.P.FuncDecl("github.com/miekg/dns.makeDataOpt")
	if sfd == nil || mfd == nil || spk == nil || mpk == nil {
		c.unresolved(R, "anchors", "parseWireOPT or the library's makeDataOpt not found")
		return
	}
	// library: option code constant -> type name
	codeType := map[string]string{}
	ast.Inspect(mfd.Body, func(n ast.Node) bool {
		cc, ok := n.(*ast.CaseClause)
		if !ok || len(cc.List) == 0 {
			return true
		}
		var tn string
		for _, s := range cc.Body {
			if r, ok := s.(*ast.ReturnStmt); ok && len(r.Results) == 1 {
				if call, ok := r.Results[0].(*ast.CallExpr); ok && len(call.Args) == 1 {
					if id, ok := call.Args[0].(*ast.Ident); ok {
						tn = id.Name
					}
				}
			}
		}
		for _, e := range cc.List {
			if tv, ok := mpk.TypesInfo.Types[e]; ok && tv.Value != nil && tn != "" {
				codeType[tv.Value.ExactString()] = tn
			}
		}
		return true
	})
	if len(codeType) < 8 {
		c.unresolved(R, "makeDataOpt", fmt.Sprintf("expected the library's code→type table, read %d rows", len(codeType)))
		return
	}
	// strict: the switch over the option code, and the name of the length variable
	var sw *ast.SwitchStmt
	ast.Inspect(sfd.Body, func(n ast.Node) bool {
		s, ok := n.(*ast.SwitchStmt)
		if !ok || s.Tag == nil || sw != nil {
			return true
		}
		hits := 0
		for _, cs := range s.Body.List {
			for _, e := range cs.(*ast.CaseClause).List {
				if tv, ok := spk.TypesInfo.Types[e]; ok && tv.Value != nil {
					if _, ok := codeType[tv.Value.ExactString()]; ok {
						hits++
					}
				}
			}
		}
		if hits >= 3 {
			sw = s
		}
		return true
	})
	if sw == nil {
		c.unresolved(R, "parseWireOPT", "the switch over option codes was not found")
		return
	}
	// the strict length variable: the local that is added to the cursor after the switch and
	// compared with the OPT's end before it — found as the identifier appearing in `off + X > end`
	// or `off += X`; resolved through types.Object identity
	var lenObj types.Object
	ast.Inspect(sfd.Body, func(n ast.Node) bool {
		as, ok := n.(*ast.AssignStmt)
		if !ok || as.Tok != token.ADD_ASSIGN || len(as.Rhs) != 1 {
			return true
		}
		if id, ok := as.Rhs[0].(*ast.Ident); ok && as.Pos() > sw.End() {
			if o := spk.TypesInfo.Uses[id]; o != nil {
				lenObj = o
			}
		}
		return true
	})
	if lenObj == nil {
		c.unresolved(R, "parseWireOPT", "the payload-length variable (cursor advance after the option switch) was not found")
		return
	}
	strictIsLen := func(e ast.Expr) bool {
		id, ok := ast.Unparen(e).(*ast.Ident)
		return ok && spk.TypesInfo.Uses[id] == lenObj
	}
	strictRet := func(r *ast.ReturnStmt) int {
		if len(r.Results) == 1 {
			if tv, ok := spk.TypesInfo.Types[r.Results[0]]; ok && tv.Value != nil && tv.Value.Kind() == constant.Bool {
				if constant.BoolVal(tv.Value) {
					return 1
				}
				return -1
			}
		}
		return 0
	}
	nArms := 0
	for _, cs := range sw.Body.List {
		cc := cs.(*ast.CaseClause)
		for _, e := range cc.List {
			tv, ok := spk.TypesInfo.Types[e]
			if !ok || tv.Value == nil {
				continue
			}
			code := tv.Value.ExactString()
			tn, ok := codeType[code]
			name := types.ExprString(e)
			key := R + "|parseWireOPT|option " + name
			if !ok {
				c.undecided(R, key, e.Pos(), "option code "+code+" has no row in the library's makeDataOpt")
				continue
			}
			lfd, lpk := c.P.FuncDecl("github.com/miekg/dns.(*" + tn + ").unpack")
			if lfd == nil || lpk == nil || lfd.Type.Params == nil || len(lfd.Type.Params.List) != 1 || len(lfd.Type.Params.List[0].Names) != 1 {
				c.undecided(R, key, e.Pos(), "library unpack of "+tn+" not found")
				continue
			}
			bObj := lpk.TypesInfo.Defs[lfd.Type.Params.List[0].Names[0]]
			libIsLen := func(x ast.Expr) bool {
				call, ok := ast.Unparen(x).(*ast.CallExpr)
				if !ok || len(call.Args) != 1 {
					return false
				}
				f, ok := call.Fun.(*ast.Ident)
				if !ok || f.Name != "len" {
					return false
				}
				a, ok := ast.Unparen(call.Args[0]).(*ast.Ident)
				return ok && lpk.TypesInfo.Uses[a] == bObj
			}
			libRet := func(r *ast.ReturnStmt) int {
				if len(r.Results) == 1 {
					if id, ok := ast.Unparen(r.Results[0]).(*ast.Ident); ok && id.Name == "nil" {
						return 1
					}
					return -1 // any error value the library constructs is a refusal
				}
				return 0
			}
			nArms++
			strictMay, libMay := map[int64]bool{}, map[int64]bool{}
			var extra []int64
			for _, n := range lenDomain() {
				so := (&lenEval{info: spk.TypesInfo, isLen: strictIsLen, n: n, ret: strictRet}).block(cc.Body)
				if so.accept || so.falls || so.brk {
					strictMay[n] = true
				}
				lo := (&lenEval{info: lpk.TypesInfo, isLen: libIsLen, n: n, ret: libRet}).block(lfd.Body.List)
				if lo.accept || lo.falls {
					libMay[n] = true
				}
				if strictMay[n] && !libMay[n] {
					extra = append(extra, n)
				}
			}
			if len(extra) > 0 {
				ex := map[int64]bool{}
				for _, n := range extra {
					ex[n] = true
				}
				c.violation(R, key, cc.Pos(), fmt.Sprintf("strict admission accepts %s payload lengths %s that (*dns.%s).unpack refuses (library accepts %s): the decoded path answers FORMERR where the wire path answers from cache", name, lenSetString(ex), tn, lenSetString(libMay)))
			} else {
				c.ok(R, key, cc.Pos(), fmt.Sprintf("lengths admitted for %s %s ⊆ lengths (*dns.%s).unpack accepts %s", name, lenSetString(strictMay), tn, lenSetString(libMay)))
			}
		}
	}
	c.Floor(R, 4)
	_ = nArms
}
