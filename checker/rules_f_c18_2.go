package main

// C18-R11 (finding F-C18-2) — a persist temp file is never read as a list.
//
// persist replaces <BlockListDir>/local atomically, but it creates its temp
// file INSIDE the directory the loader walks.  The rename protects the file
// `local`; the persisted STATE is what a restart loads, and that is every file
// the walk hands to parseHostFile.  A temp file that outlives its process (the
// save was interrupted before the rename), or that belongs to a persist running
// beside the refresh pass, must therefore be excluded by name:
//
//   T1  the name pattern persist hands to os.CreateTemp (a constant), created in
//       a directory derived from Config.BlockListDir, and
//   T2  the guard in front of every parseHostFile call
//
// must agree: every path to "read this walked file as a list" crosses the edge
// on which a name test that covers ALL names T1 can generate is false
// (strings.HasPrefix with a non-empty prefix of T1's fixed prefix,
// strings.HasSuffix with a non-empty suffix of T1's fixed suffix, or
// filepath.Match / path.Match with T1's pattern itself).  The same guard must
// not swallow the destination's own name (the Rename target), or nothing is
// ever reloaded.  If the temp file is created outside BlockListDir the rule has
// nothing to ask.  Constants are read from type information, sites are found
// through callee identity; nothing is executed.

import (
	"fmt"
	"go/constant"
	"strings"

	"golang.org/x/tools/go/ssa"
)

func init() {
	wrap := func(id string, extra func(c *Ctx), explain string) {
		pd := props[id]
		if pd == nil {
			return
		}
		orig := pd.Run
		pd.Run = func(c *Ctx) { orig(c); extra(c) }
		pd.Explanation += " " + explain
	}
	wrap("C18", c18R11, "R11 (added, F-C18-2): the name pattern of the temp files persist creates inside BlockListDir and the loader's file filter agree — every parseHostFile call is behind a name test that excludes all names that pattern can produce (and does not exclude the destination `local`), so an interrupted or in-flight save is never reloaded as a list.")
}

func c18ConstString(e *Expr) (string, bool) {
	e = strip(e)
	if e == nil || e.K != EConst || e.Val == nil || e.Val.Kind() != constant.String {
		return "", false
	}
	return constant.StringVal(e.Val), true
}

func c18R11(c *Ctx) {
	const R = "C18-R11"
	const pkg = "middleware/blocklist"
	c.Doc(R, "package blocklist: for every os.CreateTemp whose directory derives from Config.BlockListDir (the directory the loader walks) the pattern is a constant, and every call of parseHostFile is reachable only across the false edge of a file-name test covering every name that pattern can generate (HasPrefix with a non-empty prefix of the pattern's fixed prefix / HasSuffix with a non-empty suffix of its fixed suffix / filepath.Match with the pattern) or across the is-a-directory edge; that test does not match the base name of the Rename destination")
	createTemp := c.fobj(R, "os.CreateTemp")
	rename := c.fobj(R, "os.Rename")
	parse := c.fobj(R, pkg+".(*BlockList).parseHostFile")
	dirF := c.field(R, "config.Config.BlockListDir")
	hasPrefix := c.fobj(R, "strings.HasPrefix")
	hasSuffix := c.fobj(R, "strings.HasSuffix")
	fpMatch := c.fobj(R, "path/filepath.Match")
	if createTemp == nil || rename == nil || parse == nil || dirF == nil || hasPrefix == nil || hasSuffix == nil || fpMatch == nil {
		return
	}
	pMatch := c.P.FuncObj("path.Match") // optional

	// --- T1: temp files created inside the walked directory
	type tempPat struct{ pattern, prefix, suffix string }
	var pats []tempPat
	var destNames []string
	inPkg := func(f *ssa.Function) bool {
		pk := fnPkg(f)
		return pk != nil && pk.Path() == c.P.expand(pkg)
	}
	for _, s := range c.CallSites(createTemp) {
		if !inPkg(s.Fn) || callCommon(s.Instr) == nil {
			continue
		}
		key := fmt.Sprintf("%s|%s|temp file name pattern", R, fnKey(TopLevel(s.Fn)))
		dir := Desc(callArg(s.Instr, 0))
		if !Contains(FieldIs(dirF))(dir) {
			c.ok(R, key, instrPos(s.Instr), "temp file is not created under BlockListDir; the loader cannot meet it")
			continue
		}
		leaves := Origins(Desc(callArg(s.Instr, 1)), nil)
		good := len(leaves) > 0
		for _, l := range leaves {
			p, ok := c18ConstString(l)
			if !ok {
				good = false
				break
			}
			tp := tempPat{pattern: p, prefix: p}
			if i := strings.LastIndex(p, "*"); i >= 0 {
				tp.prefix, tp.suffix = p[:i], p[i+1:]
			}
			pats = append(pats, tp)
		}
		if !good {
			c.undecided(R, key, instrPos(s.Instr), "the pattern of a temp file created under BlockListDir is not a constant: "+trunc(Desc(callArg(s.Instr, 1)).String(), 120))
			return
		}
		c.ok(R, key, instrPos(s.Instr), fmt.Sprintf("temp files under BlockListDir are named by constant pattern(s) %q", func() []string {
			var o []string
			for _, p := range pats {
				o = append(o, p.pattern)
			}
			return o
		}()))
		// the destination the temp file is renamed to (same function scope)
		for _, f := range scopeFuncs(TopLevel(s.Fn)) {
			for _, in := range instrsWhere(f, isCallTo(rename)) {
				if in.Parent() != f {
					continue
				}
				for _, l := range Origins(Desc(callArg(in, 1)), nil) {
					l = strip(l)
					if l != nil && l.K == ECall && len(l.Args) > 0 { // filepath.Join(dir, "local")
						last := l.Args[len(l.Args)-1]
						if last != nil && last.K == EMake && len(last.Args) > 0 {
							last = last.Args[len(last.Args)-1]
						}
						if n, ok := c18ConstString(last); ok {
							destNames = append(destNames, n)
						}
					}
				}
			}
		}
	}
	if len(pats) == 0 {
		return // no temp file lives in the walked directory
	}

	// --- T2: the loader's name filter
	var seenGuards []string // rendered, for the message
	destHit := ""
	coversAll := func(test func(tempPat) bool) bool {
		for _, p := range pats {
			if !test(p) {
				return false
			}
		}
		return true
	}
	guard := func(e *Expr) bool {
		x := strip(e)
		if x != nil && x.K == EExtract {
			x = strip(x.X)
		}
		if x == nil || x.K != ECall || len(x.Args) != 2 {
			return false
		}
		switch {
		case CallTo(hasPrefix)(x):
			k, ok := c18ConstString(x.Args[1])
			if !ok || k == "" || !coversAll(func(p tempPat) bool { return strings.HasPrefix(p.prefix, k) }) {
				return false
			}
			seenGuards = append(seenGuards, fmt.Sprintf("HasPrefix(name, %q)", k))
			for _, d := range destNames {
				if strings.HasPrefix(d, k) {
					destHit = fmt.Sprintf("HasPrefix(name, %q) also matches the destination %q", k, d)
				}
			}
			return true
		case CallTo(hasSuffix)(x):
			k, ok := c18ConstString(x.Args[1])
			if !ok || k == "" || !coversAll(func(p tempPat) bool { return strings.HasSuffix(p.suffix, k) }) {
				return false
			}
			seenGuards = append(seenGuards, fmt.Sprintf("HasSuffix(name, %q)", k))
			for _, d := range destNames {
				if strings.HasSuffix(d, k) {
					destHit = fmt.Sprintf("HasSuffix(name, %q) also matches the destination %q", k, d)
				}
			}
			return true
		case CallTo(fpMatch)(x) || (pMatch != nil && CallTo(pMatch)(x)):
			if e.K == EExtract && e.Idx != 0 {
				return false
			}
			k, ok := c18ConstString(x.Args[0])
			if !ok || !coversAll(func(p tempPat) bool { return p.pattern == k }) {
				return false
			}
			seenGuards = append(seenGuards, fmt.Sprintf("Match(%q, name)", k))
			return true
		}
		return false
	}
	bars := []Barrier{
		OnFalse("name matches the persist temp pattern", guard),
		OnTrue("is a directory", MethodNamed("IsDir")),
	}
	var guardedSite func(in ssa.Instruction, depth int) bool
	guardedSite = func(in ssa.Instruction, depth int) bool {
		top := TopLevel(in.Parent())
		if ug, _ := c.unguarded(in, bars, top); !ug {
			return true
		}
		if depth == 0 {
			return false
		}
		// an unexported function that is only ever called: its callers may hold the guard
		fo := funcObjOf(top)
		if fo == nil || fo.Exported() {
			return false
		}
		sites := c.CallSites(fo)
		if len(sites) == 0 {
			return false
		}
		for _, s := range sites {
			if s.Kind != "call" || !guardedSite(s.Instr, depth-1) {
				return false
			}
		}
		return true
	}
	n := 0
	for _, s := range c.CallSites(parse) {
		if !inPkg(s.Fn) {
			continue
		}
		n++
		key := fmt.Sprintf("%s|%s|parseHostFile behind the persist-temp name filter", R, fnKey(TopLevel(s.Fn)))
		if s.Kind != "call" {
			c.undecided(R, key, instrPos(s.Instr), "parseHostFile is used as a value / go / defer: the path to it cannot be followed")
			continue
		}
		if guardedSite(s.Instr, 2) {
			c.ok(R, key, instrPos(s.Instr), "every path to reading a walked file as a list excludes persist's temp names: "+strings.Join(c18DedupStrings(seenGuards), ", "))
		} else {
			var ps []string
			for _, p := range pats {
				ps = append(ps, p.pattern)
			}
			c.violation(R, key, instrPos(s.Instr), fmt.Sprintf("persist creates temp files named %q inside BlockListDir and the loader reads every regular file there: a save interrupted before the rename (or one in flight beside the refresh pass) is reloaded as a list — no name test covering that pattern guards this parseHostFile call", ps))
		}
	}
	if n == 0 {
		c.unresolved(R, "parseHostFile", "no call site found (rule would pass vacuously)")
		return
	}
	key := fmt.Sprintf("%s|loader|name filter keeps the destination file", R)
	if destHit != "" {
		c.violation(R, key, parse.Pos(), "the filter that excludes persist's temp files also excludes the persisted file itself: "+destHit)
	} else if len(seenGuards) > 0 {
		c.ok(R, key, parse.Pos(), fmt.Sprintf("destination name(s) %q are not matched by the temp-file filter", destNames))
	}
}

func c18DedupStrings(in []string) []string {
	seen := map[string]bool{}
	var out []string
	for _, s := range in {
		if !seen[s] {
			seen[s] = true
			out = append(out, s)
		}
	}
	return out
}
