package main

// Regression mutants for F-C07-3 (glue bailiwick depth counted per referral on the cached-delegation branch).
func init() {
	addMutants("C07", []Mutant{
		{ID: "c07-cached-descent-counts-referrals", File: "middleware/resolver/resolver.go", Expect: "C07-R10|(*middleware/resolver.Resolver).resolveWithCachedNameservers",
			Old: "\trs.level = dns.CountLabel(q.Name)\n\trs.servers = cached.Servers\n", New: "\trs.level++\n\trs.servers = cached.Servers\n",
			Why: "F-C07-3: the cached-delegation branch moves the bailiwick depth one label per referral; after a referral over an empty non-terminal the new zone's servers plant glue for sibling zones"},
		{ID: "c07-uncached-descent-counts-referrals", File: "middleware/resolver/resolver.go", Expect: "C07-R10|(*middleware/resolver.Resolver).processDelegation",
			Old: "\trs.servers = authservers\n\trs.level = nlevel\n", New: "\trs.servers = authservers\n\trs.level++\n",
			Why: "F-C07-3 (sibling site): the same per-referral count on the branch that builds the server set from the referral"},
	})
}
