package main

// C20-R12 (seeded change C20-w4g4c1) — the A-TTL bound of a synthesised AAAA
// ranges over EVERY A record that is embedded.
//
// RFC 6147 §5.1.7: the TTL of a synthesised AAAA is no larger than the TTL of
// the A record it was made from (and the negative TTL of the AAAA answer).
// synthesise builds one AAAA per record of the list `addresses` and gives all
// of them one TTL, so that TTL has to be bounded by the Hdr.Ttl of each record
// of that list.  C20-R4 decides where the TTL may come from and that an A TTL
// only ever lowers it; it does not decide WHICH records are looked at — taking
// addresses[0].Hdr.Ttl alone ("an RRset has one TTL") passes it, although the
// records of an upstream answer need not agree and the shortest need not be
// first.
//
// Decided here, from the SSA of synthesise and the unexported helpers it
// calls (the fold may have been extracted; a helper's parameters are read as
// the call's arguments):
//   for every call of synthesizeAAAA, the RR_Header.Ttl loads among the origins
//   of its ttl argument (through phis, builtin min and helper results)
//     (a) exist,
//     (b) are each read from an ELEMENT S[i] whose index i is the induction
//         variable of a loop that starts at the first element, advances by one
//         and is left only across the bound test i < len(S) — never a constant
//         index, never a loop with another way out,
//     (c) over the very list S the embedded record (synthesizeAAAA's A-record
//         argument) is an element of — not a sub-slice or another list.
// Nothing is executed and no TTL value is looked at.

import (
	"fmt"
	"go/constant"
	"go/token"
	"go/types"

	"golang.org/x/tools/go/ssa"
)

func init() {
	wrap := func(id string, extra func(c *Ctx), explain string) {
		pd := props[id]
		if pd == nil {
			return
		}
		orig := pd.Run
		pd.Run = func(c *Ctx) { orig(c); extra(c) }
		pd.Explanation += " " + explain
	}
	wrap("C20", c20R12, "R12 (added): the A TTLs that bound the synthesised TTL are read from every record of the list the synthesised AAAAs are built from — each Hdr.Ttl origin of synthesizeAAAA's ttl argument is loaded from the element of a complete first-to-last traversal of that very list, never from a fixed index, a sub-slice or a loop with an early way out.")
}

// w4IntConst: v is the integer constant n.
func w4IntConst(v ssa.Value, n int64) bool {
	k, ok := v.(*ssa.Const)
	if !ok || k.Value == nil || k.Value.Kind() != constant.Int {
		return false
	}
	x, ok := constant.Int64Val(k.Value)
	return ok && x == n
}

// w4Induction recognises the index of a forward, step-one traversal that starts
// at element 0: go/ssa's range form  i' = phi(-1, i') + 1  and the three-clause
// form  i = phi(0, i + 1).  It returns the loop header (the phi's block) and the
// value that is compared with the bound on the way into the body.
func w4Induction(idx ssa.Value) (hdr *ssa.BasicBlock, ok bool) {
	// phiIs: ph has exactly one edge that is the constant start, every other edge satisfies next
	phiIs := func(ph *ssa.Phi, start int64, next func(ssa.Value) bool) bool {
		starts, others := 0, 0
		for _, e := range ph.Edges {
			switch {
			case w4IntConst(e, start):
				starts++
			case next(e):
				others++
			default:
				return false
			}
		}
		return starts == 1 && others >= 1
	}
	// range form: idx = phi + 1, phi = [-1, idx, idx…]
	if bo, isBin := idx.(*ssa.BinOp); isBin {
		if bo.Op != token.ADD || !w4IntConst(bo.Y, 1) {
			return nil, false
		}
		ph, isPhi := bo.X.(*ssa.Phi)
		if !isPhi || !phiIs(ph, -1, func(v ssa.Value) bool { return v == idx }) {
			return nil, false
		}
		return ph.Block(), true
	}
	// three-clause / range-over-int form: idx = phi [0, idx+1, …]
	if ph, isPhi := idx.(*ssa.Phi); isPhi {
		if phiIs(ph, 0, func(v ssa.Value) bool {
			bo, isBin := v.(*ssa.BinOp)
			return isBin && bo.Op == token.ADD && bo.X == idx && w4IntConst(bo.Y, 1)
		}) {
			return ph.Block(), true
		}
	}
	return nil, false
}

// w4NaturalLoop: the blocks of the natural loop(s) with header hdr.
func w4NaturalLoop(hdr *ssa.BasicBlock) map[*ssa.BasicBlock]bool {
	loop := map[*ssa.BasicBlock]bool{hdr: true}
	var work []*ssa.BasicBlock
	for _, p := range hdr.Preds {
		if hdr.Dominates(p) && !loop[p] {
			loop[p] = true
			work = append(work, p)
		}
	}
	for len(work) > 0 {
		b := work[len(work)-1]
		work = work[:len(work)-1]
		for _, p := range b.Preds {
			if !loop[p] {
				loop[p] = true
				work = append(work, p)
			}
		}
	}
	return loop
}

type w4TTLLeaf struct {
	e    *Expr
	args []*Expr // activation of the helper the leaf sits in (nil: synthesise itself)
}

func c20R12(c *Ctx) {
	const R = "C20-R12"
	const pkg = "middleware/dns64"
	c.Doc(R, "synthesise (and the unexported helpers it calls): every RR_Header.Ttl load among the origins of synthesizeAAAA's ttl argument is read from S[i] where i is the induction variable of a loop over S that starts at element 0, advances by one and is left only across i < len(S), and S is the list the embedded A record is an element of — the synthesised TTL is bounded by the TTL of every A record it is made from (RFC 6147 §5.1.7), not by one fixed record's")
	fn := c.fn(R, pkg+".(*responseWriter).synthesise")
	synA := c.fobj(R, pkg+".synthesizeAAAA")
	hdrTTL := c.field(R, "github.com/miekg/dns.RR_Header.Ttl")
	aType := c.P.TypeName("github.com/miekg/dns.A")
	if aType == nil {
		c.unresolved(R, "github.com/miekg/dns.A", "type not found")
	}
	if fn == nil || synA == nil || hdrTTL == nil || aType == nil {
		return
	}
	// the header of an A record (other records' TTLs — the SOA's — are C20-R4/R7's business)
	ofARecord := func(e *Expr) bool {
		if e == nil || e.X == nil || e.X.K != EField || e.X.X == nil || e.X.X.V == nil {
			return false
		}
		nt, ok := deref(e.X.X.V.Type()).(*types.Named)
		return ok && nt.Obj() == aType
	}
	transp := func(e *Expr) []int {
		call := e
		if e.K == EExtract {
			call = e.X
		}
		if call != nil && call.K == ECall && call.Method == "builtin.min" {
			out := make([]int, len(call.Args))
			for i := range out {
				out[i] = i
			}
			return out
		}
		return nil
	}
	// the Ttl loads among the origins of e, helper results expanded, each with the activation it sits in
	var collect func(e *Expr, args []*Expr, depth int, into *[]w4TTLLeaf)
	collect = func(e *Expr, args []*Expr, depth int, into *[]w4TTLLeaf) {
		if depth > 4 {
			return
		}
		for _, l := range Origins(e, transp) {
			sl := strip(l)
			if sl == nil {
				continue
			}
			if sl.K == EField && sl.Var == hdrTTL {
				if !ofARecord(sl) {
					continue
				}
				*into = append(*into, w4TTLLeaf{sl, args})
				continue
			}
			if sl.K == EParam && args != nil && sl.Idx >= 0 && sl.Idx < len(args) && args[sl.Idx] != nil {
				collect(args[sl.Idx], nil, depth+1, into)
				continue
			}
			call, idx := sl, 0
			if sl.K == EExtract {
				call, idx = strip(sl.X), sl.Idx
			}
			if call == nil || call.K != ECall {
				continue
			}
			cv, _ := call.V.(*ssa.Call)
			if cv == nil {
				continue
			}
			h := localHelper(cv.Parent(), &cv.Call)
			if h == nil {
				continue
			}
			hargs := make([]*Expr, len(cv.Call.Args))
			for i, a := range cv.Call.Args {
				hargs[i] = inActivation(Desc(a), args)
			}
			for _, b := range h.Blocks {
				for _, in := range b.Instrs {
					if r, isRet := in.(*ssa.Return); isRet && idx < len(r.Results) {
						collect(Desc(r.Results[idx]), hargs, depth+1, into)
					}
				}
			}
		}
	}
	// the IndexAddr an element expression was loaded through
	elemOf := func(e *Expr) *ssa.IndexAddr {
		for i := 0; e != nil && i < 6; i++ {
			switch e.K {
			case EIndex:
				switch v := e.V.(type) {
				case *ssa.UnOp:
					ia, _ := v.X.(*ssa.IndexAddr)
					return ia
				case *ssa.IndexAddr:
					return v
				}
				return nil
			case EField, EUn, EConvert:
				e = e.X
			default:
				return nil
			}
		}
		return nil
	}

	key := R + "|synthesise|A-TTL bound ranges over every embedded A record"
	nCalls := 0
	for _, f := range scopeFuncs(fn) {
		for _, in := range instrsWhere(f, isPlainCallTo(synA)) {
			if in.Parent() != f {
				continue
			}
			nCalls++
			if f != fn {
				c.undecided(R, key, instrPos(in), "synthesizeAAAA is called from "+fnKey(f)+": the list the embedded record comes from cannot be related to the fold from there")
				continue
			}
			// (c) the list the embedded record is an element of
			embIA := elemOf(Desc(callArg(in, 1)))
			if embIA == nil {
				c.undecided(R, key, instrPos(in), "the A record handed to synthesizeAAAA is not an element of a list: "+trunc(Desc(callArg(in, 1)).String(), 120))
				continue
			}
			embList := Desc(embIA.X).String()
			var leaves []w4TTLLeaf
			collect(Desc(callArg(in, 3)), nil, 0, &leaves)
			if len(leaves) == 0 {
				c.violation(R, key, instrPos(in), "no A record's Hdr.Ttl is among the origins of the synthesised TTL: the AAAA can outlive the A record it embeds")
				continue
			}
			var bad []string
			for _, lf := range leaves {
				ia := elemOf(lf.e.X)
				where := c.lineOf(lf.e.V.(ssa.Instruction))
				if ia == nil {
					bad = append(bad, where+": TTL read from something that is not a list element: "+trunc(lf.e.String(), 100))
					continue
				}
				if _, isConst := ia.Index.(*ssa.Const); isConst {
					bad = append(bad, where+": TTL of one fixed record ("+trunc(Desc(ia).String(), 80)+") — the other embedded records may carry a shorter one")
					continue
				}
				hdr, ok := w4Induction(ia.Index)
				if !ok {
					bad = append(bad, where+": the index is not the induction variable of a first-to-last traversal: "+trunc(Desc(ia.Index).String(), 100))
					continue
				}
				list := inActivation(Desc(ia.X), lf.args).String()
				if list != embList {
					bad = append(bad, fmt.Sprintf("%s: the TTLs are read from %s, the embedded records from %s", where, trunc(list, 80), trunc(embList, 80)))
					continue
				}
				// the loop is left only across the bound test on the traversed list
				loop := w4NaturalLoop(hdr)
				for b := range loop {
					for k, s := range b.Succs {
						if loop[s] {
							continue
						}
						okExit := false
						if iff, isIf := b.Instrs[len(b.Instrs)-1].(*ssa.If); isIf && k == 1 {
							if bo, isBin := iff.Cond.(*ssa.BinOp); isBin && bo.Op == token.LSS && bo.X == ia.Index {
								okExit = w4LenOf(bo.Y, ia.X)
							}
						}
						if !okExit {
							bad = append(bad, fmt.Sprintf("%s: the traversal has a way out other than i < len(list) (at %s): records after it are never looked at", where, c.lineOf(b.Instrs[len(b.Instrs)-1])))
						}
					}
				}
			}
			if len(bad) > 0 {
				c.violation(R, key, instrPos(in), "the A-TTL bound of the synthesised TTL does not cover every embedded A record — "+bad[0])
			} else {
				c.ok(R, key, instrPos(in), fmt.Sprintf("%d Hdr.Ttl origin(s), each read from list[i] over a complete traversal of the embedded list", len(leaves)))
			}
		}
	}
	if nCalls == 0 {
		c.unresolved(R, "synthesizeAAAA call", "no call found in synthesise or its helpers")
	}
	c.Floor(R, 1)
}

// w4LenOf: v is len(list) (the same SSA value, or an equally described one).
func w4LenOf(v, list ssa.Value) bool {
	cl, ok := v.(*ssa.Call)
	if !ok {
		return false
	}
	b, ok := cl.Call.Value.(*ssa.Builtin)
	if !ok || b.Name() != "len" || len(cl.Call.Args) != 1 {
		return false
	}
	if cl.Call.Args[0] == list {
		return true
	}
	if _, isSlice := list.Type().Underlying().(*types.Slice); !isSlice {
		return false
	}
	return Desc(cl.Call.Args[0]).String() == Desc(list).String()
}
