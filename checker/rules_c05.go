package main

import (
	"fmt"
	"go/ast"
	"go/constant"
	"go/token"
	"go/types"
	"sort"
	"strings"

	"golang.org/x/tools/go/ssa"
)

func init() {
	register(&PropDef{
		ID:    "C05",
		Title: "Wire fast path and decoded path are observationally equivalent",
		Run:   runC05,
		Explanation: "Decided (contract clauses both paths rely on, structure only): R1 in every lease consumer (caller of WireBodyLeaser.BeginWire that is not a writer layer) a granted lease is followed on every path by exactly one CommitWire/AbortWire, nothing follows a commit or abort, and after CommitWire 'not served' is returned only on the ErrWireFallback edge; writer layers only delegate (BeginWire/AbortWire forward, CommitWire = own WriteWire); " +
			"R2 in every WriteWire implementation a literal `return ErrWireFallback` is unreachable after the downstream write, and response observers (reflex sizes, dnstap frames) record only when the chain did not fall back; " +
			"R3 CommitWire of an entry serve is behind a successful chargeEntryLimiter, after a charge 'not served' is returned only through the listed commit-time backstops, the memo *spent is stored on success and compared in handleCacheHit, RateLimit reaches its limiter and Cache.ServeDNS its wire ladder only across Replay()=false; " +
			"R4 (order only) the lookups appear exact → cut → denial → failure in ServeDNS, exact → cut → failure in the wire ladder, and the wire failure rung is reached only across cd ∨ DenialMissHoldsWire; " +
			"R5 every case clause mentioning two of {RRSIG,NSEC,NSEC3} mentions all three and dnsutil.isDNSSEC names the same three; appendRecomposedRR never copies verbatim a type whose library pack compresses rdata names, and refuses what wireRecomposable refuses; the option codes ParseWire admits are exactly the option types the decoded path reads (+PADDING); the transports forced to MaxMsgSize are the same set in edns.ServeDNS and edns.serveWire; the three engine entry points handle every non-OK accept verdict alike (each interpreted with the verdict fixed); " +
			"R6 Request.msg is written only by SetMsg/materialize/release, parsed facts only by ParseWire/parseWireOPT, normalisation fields only by RecordEDNSNormalization, whole-Request stores only in SetMsg/ParseWire, and materialize applies SetEdns0(m, r.ecsPolicy, r.clientAddr) iff ednsRan before publishing msg; " +
			"R7 reflex scoring and the dnstap query frame are reached only across Replay()=false; " +
			"R8 edns.ServeDNS and edns.serveWire assign the same ResponseWriter client facts (opt+cookie ↔ cookieRaw+hasCookieRaw), and for every assignment of the guard atoms wireOPTLen reserves as many options as appendWireOPT appends (decided by interpreting both CFGs; EDE reserved by the producer); " +
			"R10 the UDP ceiling stored by edns.ServeDNS (through SetEdns0) and by edns.serveWire is the same value for every boundary advertised size, with and without OPT, over udp and tcp (both stores interpreted on concrete sizes); " +
			"R11 every client-subnet payload parseWireOPT admits is accepted by the library's EDNS0_SUBNET.unpack (both validators interpreted on boundary payloads).",
		NotDecided: []string{
			"the equivalence itself: header bits, TTLs, record content and OPT bytes of the two paths' replies for every (state, packet)",
			"the set of packets admitted by ParseWire versus the library's Unpack (value-level validation of names and option payloads)",
			"the cookie digest equality between serverCookie and GenerateServerCookie",
			"side effects visible to later queries beyond limiter tokens and reflex scores (cache admissions, prefetch claims)",
			"statistics counters of chaos/hostsfile/kubernetes/dns64 on the replay pass (not observable through replies)",
		},
	})
}

func runC05(c *Ctx) {
	c05R1(c)
	c05R2(c)
	c05R3(c)
	c05R4(c)
	c05R5(c)
	c05R6(c)
	c05R7(c)
	c05R8(c)
	c05R10static(c)
	c05R11static(c)
	c05R12(c)
}

func x5IsInvokeNamed(names ...string) func(ssa.Instruction) bool {
	return func(in ssa.Instruction) bool {
		cc := callCommon(in)
		if cc == nil || !cc.IsInvoke() {
			return false
		}
		for _, n := range names {
			if cc.Method.Name() == n {
				return true
			}
		}
		return false
	}
}

func c05IsFallbackTest(errFallback types.Object) Pat {
	return func(e *Expr) bool {
		e = strip(e)
		return e != nil && e.K == ECall && e.Fn != nil && e.Fn.Name() == "Is" && e.Fn.Pkg() != nil && e.Fn.Pkg().Path() == "errors" &&
			len(e.Args) == 2 && GlobalIs(errFallback)(e.Args[1])
	}
}

// x5LeaseConsumers: top-level functions that invoke BeginWire and are not writer layers.
func x5LeaseConsumers(c *Ctx) []*ssa.Function {
	seen := map[*ssa.Function]bool{}
	var out []*ssa.Function
	for _, fn := range c.P.RepoFuncs() {
		top := TopLevel(fn)
		if seen[top] {
			continue
		}
		switch top.Name() {
		case "BeginWire", "CommitWire", "AbortWire", "WriteWire":
			continue
		}
		if len(instrsWhere(top, x5IsInvokeNamed("BeginWire"))) > 0 {
			seen[top] = true
			out = append(out, top)
		}
	}
	sort.Slice(out, func(i, j int) bool { return fnKey(out[i]) < fnKey(out[j]) })
	return out
}

// ---------------------------------------------------------------------------

func c05R1(c *Ctx) {
	const R = "C05-R1"
	c.Doc(R, "every caller of WireBodyLeaser.BeginWire outside the writer layers: after a non-nil lease every path to a return crosses CommitWire or AbortWire; nothing (Begin/Commit/Abort) follows a CommitWire or AbortWire; after CommitWire `return false` is reachable only across errors.Is(err, ErrWireFallback), and that edge never reports served; writer layers: CommitWire returns the own WriteWire(body, info), BeginWire/AbortWire only forward to the inner leaser")
	errFallback := c.P.Object("middleware.ErrWireFallback")
	if errFallback == nil {
		c.unresolved(R, "middleware.ErrWireFallback", "variable not found")
		return
	}
	isFB := c05IsFallbackTest(errFallback)
	begin, commit, abort := x5IsInvokeNamed("BeginWire"), x5IsInvokeNamed("CommitWire"), x5IsInvokeNamed("AbortWire")
	leaseNil := OnFalse("lease", MethodNamed("BeginWire"))
	cons := x5LeaseConsumers(c)
	for _, fn := range cons {
		c.Paired(R, fn, "lease → CommitWire/AbortWire", begin, func(in ssa.Instruction) bool { return commit(in) || abort(in) }, leaseNil)
		any := func(in ssa.Instruction) bool { return begin(in) || commit(in) || abort(in) }
		c.MustCrossFrom(R, fn, "lease used after AbortWire", abort, any)
		c.MustCrossFrom(R, fn, "lease used after CommitWire", commit, any)
		c.MustCrossFrom(R, fn, "not-served after CommitWire", commit, isReturnWith(0, IsConstBool(false)), OnTrue("errors.Is(err,ErrWireFallback)", isFB))
		c.AfterEdge(R, fn, "fallback edge reports served", OnTrue("errors.Is(err,ErrWireFallback)", isFB), isReturnWith(0, IsConstBool(true)))
	}
	if len(cons) < 4 {
		c.unresolved(R, "lease consumers", fmt.Sprintf("expected ≥4 (serveHitFromWire, serveChaseHit, serveCutHitFromWire, serveFailureFromWire), found %d", len(cons)))
	}
	// writer layers
	nLayer := 0
	for _, fn := range c.P.RepoFuncs() {
		if fn.Parent() != nil || fn.Signature.Recv() == nil || len(fn.Blocks) == 0 {
			continue
		}
		switch fn.Name() {
		case "CommitWire":
			nLayer++
			rets := returnsWhere(fn, 0, nil)
			good := len(rets) > 0
			for _, in := range rets {
				e := strip(Desc(in.(*ssa.Return).Results[0]))
				good = good && e != nil && e.K == ECall && e.Fn != nil && e.Fn.Name() == "WriteWire" && len(e.Args) == 3 &&
					e.Args[0].K == EParam && e.Args[1].K == EParam && e.Args[2].K == EParam &&
					types.Identical(e.Fn.Type().(*types.Signature).Recv().Type(), fn.Signature.Recv().Type())
			}
			c.x5Decide(R, "C05-R1|"+fnKey(fn)+"|CommitWire = WriteWire", fn.Pos(), good, "CommitWire returns the layer's own WriteWire(body, info)", "CommitWire is not the layer's own WriteWire on the same arguments: the leased and unleased wire paths diverge")
		case "BeginWire":
			if len(instrsWhere(fn, begin)) == 0 {
				continue // the base writer: the real lease
			}
			nLayer++
			good := true
			for _, in := range returnsWhere(fn, 0, nil) {
				for _, l := range Origins(Desc(in.(*ssa.Return).Results[0]), nil) {
					if IsNilConst(l) {
						continue
					}
					l = strip(l)
					if !(l.K == ECall && l.Method == "BeginWire" && len(l.Args) == 3 && l.Args[1].K == EParam && l.Args[2].K == EParam) {
						good = false
					}
				}
			}
			c.x5Decide(R, "C05-R1|"+fnKey(fn)+"|BeginWire forwards", fn.Pos(), good, "BeginWire returns nil or the inner BeginWire(size, reserve)", "a writer layer alters the lease it forwards")
		case "AbortWire":
			if len(fn.Blocks) == 1 && len(fn.Blocks[0].Instrs) == 1 {
				continue // base writer: nothing to release
			}
			nLayer++
			c.x5Decide(R, "C05-R1|"+fnKey(fn)+"|AbortWire forwards", fn.Pos(), len(instrsWhere(fn, abort)) == 1, "AbortWire forwards to the inner leaser", "a writer layer's AbortWire does not release the inner lease")
		}
	}
	if nLayer < 10 {
		c.unresolved(R, "writer layers", fmt.Sprintf("expected 4 CommitWire + 3 BeginWire + 3 AbortWire forwarding methods, found %d", nLayer))
	}
	c.Floor(R, 34)
}

// ---------------------------------------------------------------------------

func c05R2(c *Ctx) {
	const R = "C05-R2"
	c.Doc(R, "every method named WriteWire in the module: after its downstream write (inner WriteWire / Transport.Write) no `return ErrWireFallback` is reachable; observers inside WriteWire (tracker.RecordResponse, dnstap enqueue) run only across errors.Is(err, ErrWireFallback)=false")
	errFallback := c.P.Object("middleware.ErrWireFallback")
	if errFallback == nil {
		c.unresolved(R, "middleware.ErrWireFallback", "variable not found")
		return
	}
	isFB := c05IsFallbackTest(errFallback)
	down := x5IsInvokeNamed("WriteWire", "Write")
	n := 0
	for _, fn := range c.P.RepoFuncs() {
		if fn.Parent() != nil || fn.Signature.Recv() == nil || fn.Name() != "WriteWire" || len(fn.Blocks) == 0 {
			continue
		}
		n++
		c.MustCrossFrom(R, fn, "ErrWireFallback after bytes were handed on", down, isReturnWith(0, GlobalIs(errFallback)))
		for _, in := range instrsWhere(fn, isCallNamed("RecordResponse", "enqueue")) {
			ug, tr := c.unguarded(in, []Barrier{OnFalse("errors.Is(err,ErrWireFallback)", isFB)}, fn)
			c.x5Decide(R, "C05-R2|"+fnKey(fn)+"|observer", instrPos(in), !ug, "observer records only when the chain did not fall back", "observer records a response the Msg path will record again after the fallback; path "+tr)
		}
	}
	if n < 4 {
		c.unresolved(R, "WriteWire implementations", fmt.Sprintf("expected 4 (base, edns, reflex, dnstap), found %d", n))
	}
	c.Floor(R, 7)
}

// ---------------------------------------------------------------------------

func c05R3(c *Ctx) {
	const R = "C05-R3"
	c.Doc(R, "callers of Cache.chargeEntryLimiter: CommitWire only behind a successful charge; after the charge `return false` only across the listed backstops; chargeEntryLimiter calls Allow only when *spent != limiter and stores *spent on success; handleCacheHit calls Allow only across limiter != spent; RateLimit.ServeDNS reaches getLimiter/Allow/serveWire and Cache.ServeDNS reaches serveWire only across Replay()=false")
	charge := c.fobj(R, "middleware/cache.(*Cache).chargeEntryLimiter")
	errFallback := c.P.Object("middleware.ErrWireFallback")
	swir := c.fobj(R, "middleware/cache.(*CacheEntry).serveWireIntoRequest")
	allowM := c.fobj(R, "golang.org/x/time/rate.(*Limiter).Allow")
	getRL := c.fobj(R, "middleware/cache.(*CacheEntry).GetRateLimiter")
	if charge == nil || errFallback == nil || swir == nil || allowM == nil || getRL == nil {
		return
	}
	isFB := c05IsFallbackTest(errFallback)
	fallback := OnTrue("errors.Is(err,ErrWireFallback)", isFB)
	// commit-time backstops past the charge, per function (the source's own reasons)
	backstops := map[string][]Barrier{
		"(*middleware/cache.Cache).serveHitFromWire": {
			OnFalse("lease refused (a lease the writer cannot grant)", MethodNamed("BeginWire")),
			OnFalse("body failed to build (entry expired between check and copy)", ResultOf(2, swir)),
		},
	}
	used := map[string]bool{}
	commit := x5IsInvokeNamed("CommitWire")
	nCallers := 0
	for _, s := range c.CallSites(charge) {
		if s.Kind != "call" {
			continue
		}
		nCallers++
		fn := TopLevel(s.Fn)
		c.MustCross(R, fn, "CommitWire (entry serve)", commit, OnTrue("chargeEntryLimiter", CallTo(charge)))
		bars := append([]Barrier{fallback}, backstops[fnKey(fn)]...)
		if _, ok := backstops[fnKey(fn)]; ok {
			used[fnKey(fn)] = true
		}
		c.MustCrossFrom(R, fn, "decline after the limiter was charged", isPlainCallTo(charge), isReturnWith(0, IsConstBool(false)), bars...)
		// refused token: the query is dropped as a hit (return true), never retried on the Msg path
		c.AfterEdge(R, fn, "refused token falls to the Msg path", OnFalse("chargeEntryLimiter", CallTo(charge)), isReturnWith(0, IsConstBool(false)))
	}
	for k := range backstops {
		if !used[k] {
			c.unresolved(R, "backstops|"+k, "table row names a function that no longer charges (stale)")
		}
	}
	if nCallers < 2 {
		c.unresolved(R, "chargeEntryLimiter callers", fmt.Sprintf("expected 2, found %d", nCallers))
	}
	if fn := c.fn(R, "middleware/cache.(*Cache).chargeEntryLimiter"); fn != nil {
		isSpent := func(e *Expr) bool {
			e = strip(e)
			return e != nil && e.K == EUn && e.Op == token.MUL && e.X != nil && e.X.K == EParam && e.X.Name == "spent"
		}
		c.MustCross(R, fn, "limiter.Allow", isPlainCallTo(allowM), OnCmp("*spent==limiter", isSpent, token.EQL, CallTo(getRL), false))
		c.AfterEdge(R, fn, "granted token not memoised", OnTrue("Allow()", CallTo(allowM)), isReturn, Barrier{Name: "*spent = limiter", Instr: func(in ssa.Instruction) bool {
			st, ok := in.(*ssa.Store)
			if !ok {
				return false
			}
			p, ok := st.Addr.(*ssa.Parameter)
			return ok && p.Name() == "spent" && CallTo(getRL)(Desc(st.Val))
		}})
	}
	if fn := c.fn(R, "middleware/cache.(*Cache).handleCacheHit"); fn != nil {
		c.MustCross(R, fn, "limiter.Allow", isPlainCallTo(allowM), OnCmp("limiter!=spent", CallTo(getRL), token.NEQ, func(e *Expr) bool { return e.K == EParam && e.Name == "spent" }, true))
	}
	// the memo is threaded from the wire ladder into the Msg body of the same call
	if fn := c.fn(R, "middleware/cache.(*Cache).ServeDNS"); fn != nil {
		hch := c.fobj(R, "middleware/cache.(*Cache).handleCacheHit")
		sw := c.fobj(R, "middleware/cache.(*Cache).serveWire")
		var cell ssa.Value
		for _, in := range instrsWhere(fn, isPlainCallTo(sw)) {
			cell = callArg(in, 3)
		}
		for _, in := range instrsWhere(fn, isPlainCallTo(hch)) {
			v := callArg(in, 6)
			good := false
			if ld, ok := v.(*ssa.UnOp); ok && ld.Op == token.MUL && ld.X == cell && cell != nil {
				good = true
			}
			c.x5Decide(R, "C05-R3|Cache.ServeDNS|spent threaded", instrPos(in), good, "handleCacheHit receives the memo the wire ladder filled", "handleCacheHit is not passed the wire ladder's spent memo: one question can cost two tokens")
		}
		c.MustCross(R, fn, "wire ladder", isPlainCallTo(sw), OnFalse("ch.Replay()", MethodNamed("Replay")))
		c.MustCross(R, fn, "wire ladder (undecoded)", isPlainCallTo(sw), OnTrue("Undecoded()", MethodNamed("Undecoded")))
	}
	if fn := c.fn(R, "middleware/ratelimit.(*RateLimit).ServeDNS"); fn != nil {
		c.MustCross(R, fn, "limiter entry effect", isCallNamed("Allow", "serveWire", "getLimiter", "Store"), OnFalse("ch.Replay()", MethodNamed("Replay")))
	}
	c.Floor(R, 20)
}

// ---------------------------------------------------------------------------

func c05R4(c *Ctx) {
	const R = "C05-R4"
	c.Doc(R, "lookup order only: Cache.ServeDNS consults checkCache → lookupNXDomainCut → lookupDenialProof → LookupFailure; Cache.serveWire consults checkCache before the composite ladder; serveCompositeFromWire consults the cut before the failure state unless cd, and serves the failure rung only across cd=true or DenialMissHoldsWire=true (the denial rung's record-time miss still holds)")
	const p = "middleware/cache"
	check := c.fobj(R, p+".(*Cache).checkCache")
	cut := c.fobj(R, p+".(*Cache).lookupNXDomainCut")
	denial := c.fobj(R, p+".(*Cache).lookupDenialProof")
	fail := c.fobj(R, p+".(*Store).LookupFailure")
	cutW := c.fobj(R, p+".(*Store).LookupNXDomainCutWire")
	failW := c.fobj(R, p+".(*Store).LookupFailureWire")
	holds := c.fobj(R, p+".(*Store).DenialMissHoldsWire")
	comp := c.fobj(R, p+".(*Cache).serveCompositeFromWire")
	sff := c.fobj(R, p+".(*Cache).serveFailureFromWire")
	if check == nil || cut == nil || denial == nil || fail == nil || cutW == nil || failW == nil || holds == nil || comp == nil || sff == nil {
		return
	}
	if fn := c.fn(R, p+".(*Cache).ServeDNS"); fn != nil {
		c.MustCross(R, fn, "cut lookup after exact lookup", isPlainCallTo(cut), CallBarrier("checkCache", check))
		c.MustCross(R, fn, "denial lookup after cut lookup", isPlainCallTo(denial), CallBarrier("lookupNXDomainCut", cut))
		c.MustCross(R, fn, "failure lookup after denial lookup", isPlainCallTo(fail), CallBarrier("lookupDenialProof", denial))
	}
	if fn := c.fn(R, p+".(*Cache).serveWire"); fn != nil {
		c.MustCross(R, fn, "composite ladder after exact lookup", isPlainCallTo(comp), CallBarrier("checkCache", check))
	}
	if fn := c.fn(R, p+".(*Cache).serveCompositeFromWire"); fn != nil {
		cd := OnTrue("req.CD()", MethodNamed("CD"))
		c.MustCross(R, fn, "failure lookup after cut lookup", isPlainCallTo(failW), CallBarrier("LookupNXDomainCutWire", cutW), cd)
		c.MustCross(R, fn, "failure rung", isPlainCallTo(sff), cd, OnTrue("DenialMissHoldsWire", CallTo(holds)))
	}
	c.Floor(R, 9)
}

// ---------------------------------------------------------------------------

func c05R5(c *Ctx) {
	const R = "C05-R5"
	c.Doc(R, "table agreement: (a) case clauses naming ≥2 of dns.TypeRRSIG/TypeNSEC/TypeNSEC3 name all three, and dnsutil.isDNSSEC's type switch is {RRSIG,NSEC,NSEC3}; (b) appendRecomposedRR handles explicitly every wireRecomposable type whose library pack compresses an rdata name, and returns ok only across wireRecomposable=true in its default arm; (c) option codes admitted by Request.parseWireOPT = option types read by SetEdns0/hasClientKeepalive/hasClientECS, plus PADDING; (d) Proto() case constants identical in edns.ServeDNS and edns.serveWire; (e) accept-verdict comparisons identical in the three engine entry points")
	// (a)
	want := map[string]string{}
	for _, n := range []string{"RRSIG", "NSEC", "NSEC3"} {
		if v := c.P.ConstVal(x5DnsPkg + ".Type" + n); v != nil {
			want[v.ExactString()] = n
		}
	}
	if len(want) != 3 {
		c.unresolved(R, "dns.TypeRRSIG/NSEC/NSEC3", "constants not found")
		return
	}
	nFull := 0
	var pkgs []string
	for path := range c.P.ByPath {
		if c.P.inModule(path) {
			pkgs = append(pkgs, path)
		}
	}
	sort.Strings(pkgs)
	for _, path := range pkgs {
		pk := c.P.ByPath[path]
		for _, f := range pk.Syntax {
			var encl []*ast.FuncDecl
			ast.Inspect(f, func(n ast.Node) bool {
				if fd, ok := n.(*ast.FuncDecl); ok {
					encl = []*ast.FuncDecl{fd}
				}
				cc, ok := n.(*ast.CaseClause)
				if !ok {
					return true
				}
				got := map[string]bool{}
				for _, e := range cc.List {
					if tv, ok := pk.TypesInfo.Types[e]; ok && tv.Value != nil && tv.Value.Kind() == constant.Int {
						if n, ok := want[tv.Value.ExactString()]; ok && x5IsDNSTypeConst(e, pk.TypesInfo) {
							got[n] = true
						}
					}
				}
				if len(got) < 2 {
					return true
				}
				fname := "?"
				if len(encl) > 0 {
					fname = encl[0].Name.Name
				}
				key := "C05-R5|DNSSEC type set|" + strings.TrimPrefix(path, modPath+"/") + "." + fname
				if len(got) == 3 {
					nFull++
					c.ok(R, key, cc.Pos(), "clause names RRSIG, NSEC and NSEC3")
				} else {
					c.violation(R, key, cc.Pos(), "clause names "+setString(got)+" of the DNSSEC record types but not all three: the byte path's DO=0 verdict and the Msg path's ClearDNSSEC disagree on the missing type")
				}
				return true
			})
		}
	}
	if fd, pk := c.P.FuncDecl("internal/dnsutil.isDNSSEC"); fd != nil {
		got := map[string]bool{}
		ast.Inspect(fd.Body, func(n ast.Node) bool {
			cc, ok := n.(*ast.CaseClause)
			if !ok {
				return true
			}
			for _, e := range cc.List {
				if tv, ok := pk.TypesInfo.Types[e]; ok && tv.IsType() {
					if nt, ok := deref(tv.Type).(*types.Named); ok {
						got[nt.Obj().Name()] = true
					}
				}
			}
			return true
		})
		c.x5Decide(R, "C05-R5|DNSSEC type set|internal/dnsutil.isDNSSEC", fd.Pos(), sameSet(got, map[string]bool{"RRSIG": true, "NSEC": true, "NSEC3": true}),
			"isDNSSEC strips {RRSIG,NSEC,NSEC3}", "isDNSSEC's type switch is "+setString(got)+", the wire verdicts use {NSEC,NSEC3,RRSIG}")
	} else {
		c.unresolved(R, "internal/dnsutil.isDNSSEC", "declaration not found")
	}
	if nFull < 3 {
		c.unresolved(R, "DNSSEC type set sites", fmt.Sprintf("expected ≥3 full clauses (prepareWireServe, denial proof response, wireRecomposable), found %d", nFull))
	}
	// (b)
	c05Recompose(c, R)
	// (c)
	c05OptionCodes(c, R)
	// (d)
	sets := map[string]map[string]bool{}
	for _, fnp := range []string{"middleware/edns.(*EDNS).ServeDNS", "middleware/edns.(*EDNS).serveWire"} {
		fd, pk := c.P.FuncDecl(fnp)
		if fd == nil {
			c.unresolved(R, fnp, "declaration not found")
			continue
		}
		s, n := caseConsts(fd, pk.TypesInfo, switchTagMentions("Proto"))
		if n == 0 {
			c.unresolved(R, fnp+"|switch Proto()", "no switch on Proto() found")
			continue
		}
		sets[fnp] = s
	}
	if len(sets) == 2 {
		a, b := sets["middleware/edns.(*EDNS).ServeDNS"], sets["middleware/edns.(*EDNS).serveWire"]
		c.x5Decide(R, "C05-R5|stream transports|edns.ServeDNS vs edns.serveWire", token.NoPos, sameSet(a, b) && len(a) > 0, "both branches lift the size ceiling for "+setString(a), "transports forced to MaxMsgSize differ: decoded "+setString(a)+" wire "+setString(b))
	}
	// (e) the three entry points treat every verdict alike: decided by interpreting
	// each entry point with the verdict fixed (independent of switch / if-chain shape)
	if aho := c.fobj(R, "server.acceptHeader"); aho != nil {
		vt := c.P.TypeName("server.acceptVerdict")
		okv, _ := x5ConstInt64(c, R, "server.acceptOK")
		type sigT struct{ serve, reject, write bool }
		per := map[string]map[string]sigT{}
		var names []string
		if vt != nil {
			sc := vt.Pkg().Scope()
			for _, s := range c.CallSites(aho) {
				if s.Kind != "call" {
					continue
				}
				fn := TopLevel(s.Fn)
				m := map[string]sigT{}
				for _, n := range sc.Names() {
					k, ok := sc.Lookup(n).(*types.Const)
					if !ok || !types.Identical(k.Type(), vt.Type()) {
						continue
					}
					kv, _ := constant.Int64Val(constant.ToInt(k.Val()))
					if kv == okv {
						continue // what follows acceptance differs by design (inline handoff vs FORMERR on undecodable bodies)
					}
					sig := x5VerdictBehaviour(fn, isPlainCallTo(aho), CallTo(aho), kv)
					if sig.bad != "" || !sig.reached {
						c.undecided(R, "C05-R5|accept verdicts|"+fnKey(fn)+"|"+n, instrPos(s.Instr), "cannot interpret the entry point: "+sig.bad)
						continue
					}
					m[n] = sigT{sig.serve, sig.reject, sig.write}
				}
				per[fnKey(fn)] = m
				names = append(names, fnKey(fn))
			}
		}
		sort.Strings(names)
		for i := 1; i < len(names); i++ {
			a, b := per[names[0]], per[names[i]]
			same := len(a) == len(b) && len(a) > 0
			var diff []string
			for n, sa := range a {
				if sb, ok := b[n]; !ok || sa != sb {
					same = false
					diff = append(diff, fmt.Sprintf("%s: %+v vs %+v", n, sa, b[n]))
				}
			}
			sort.Strings(diff)
			c.x5Decide(R, "C05-R5|accept verdicts|"+names[0]+" vs "+names[i], token.NoPos, same, "every non-OK verdict is handled alike (served / rejected / answered)", "the entry points handle a verdict differently: "+strings.Join(diff, "; "))
		}
		if len(names) < 1 { // anti-vacuity only: today three entry points; they may share one screening helper
			c.unresolved(R, "acceptHeader callers", fmt.Sprintf("expected at least one, found %d", len(names)))
		}
	}
	c.Floor(R, 25)
}

func x5IsDNSTypeConst(e ast.Expr, info *types.Info) bool {
	var id *ast.Ident
	switch x := ast.Unparen(e).(type) {
	case *ast.SelectorExpr:
		id = x.Sel
	case *ast.Ident:
		id = x
	}
	if id == nil {
		return false
	}
	k, ok := info.Uses[id].(*types.Const)
	return ok && k.Pkg() != nil && k.Pkg().Path() == x5DnsPkg && strings.HasPrefix(k.Name(), "Type")
}

func c05Recompose(c *Ctx, R string) {
	fdR, pkR := c.P.FuncDecl("middleware/cache.wireRecomposable")
	fdA, pkA := c.P.FuncDecl("middleware/cache.appendRecomposedRR")
	if fdR == nil || fdA == nil {
		c.unresolved(R, "middleware/cache.wireRecomposable/appendRecomposedRR", "declaration not found")
		return
	}
	all, _ := caseConsts(fdR, pkR.TypesInfo, nil)
	explicit, _ := caseConsts(fdA, pkA.TypesInfo, switchTagMentions("Type"))
	c.x5Decide(R, "C05-R5|recompose|explicit cases ⊆ recomposable", fdA.Pos(), subset(explicit, all) && len(explicit) > 0, "rewritten types "+setString(explicit)+" ⊆ recomposable "+setString(all), "appendRecomposedRR rewrites "+setString(explicit)+" but wireRecomposable admits "+setString(all))
	// library: which types compress an rdata name
	dp := c.P.ByPath[x5DnsPkg]
	if dp == nil {
		c.unresolved(R, x5DnsPkg, "package not loaded")
		return
	}
	pdn := c.fobj(R, x5DnsPkg+".packDomainName")
	byCode := map[string]string{}
	sc := dp.Types.Scope()
	for _, n := range sc.Names() {
		k, ok := sc.Lookup(n).(*types.Const)
		if !ok || !strings.HasPrefix(n, "Type") || k.Val().Kind() != constant.Int {
			continue
		}
		if _, isT := sc.Lookup(n[4:]).(*types.TypeName); isT {
			byCode[k.Val().ExactString()] = n[4:]
		}
	}
	var codes []string
	for k := range all {
		codes = append(codes, k)
	}
	sort.Strings(codes)
	for _, code := range codes {
		name := byCode[code]
		key := "C05-R5|recompose|type " + name
		if name == "" {
			c.undecided(R, "C05-R5|recompose|type code "+code, fdR.Pos(), "no library record type for this code")
			continue
		}
		pf := c.P.Func(x5DnsPkg + ".(*" + name + ").pack")
		if pf == nil {
			c.unresolved(R, x5DnsPkg+".(*"+name+").pack", "library pack method not found")
			continue
		}
		compresses := false
		for _, in := range instrsWhere(pf, isPlainCallTo(pdn)) {
			if _, isParam := callArg(in, 4).(*ssa.Parameter); isParam {
				compresses = true
			}
		}
		switch {
		case compresses && explicit[code]:
			c.ok(R, key, fdA.Pos(), name+": rdata names may be compressed and the recomposer re-encodes them")
		case compresses:
			c.violation(R, key, fdR.Pos(), name+" rdata carries a compressible name (library pack passes compress) but appendRecomposedRR copies it verbatim: the pointer refers to offsets of the source body")
		default:
			c.ok(R, key, fdR.Pos(), name+": rdata is name-free or packed uncompressed — verbatim copy is sound")
		}
	}
	// default arm refuses what wireRecomposable refuses
	if fn := c.fn(R, "middleware/cache.appendRecomposedRR"); fn != nil {
		wr := c.fobj(R, "middleware/cache.wireRecomposable")
		c.AfterEdge(R, fn, "non-recomposable type copied", OnFalse("wireRecomposable", CallTo(wr)), isReturnWith(1, IsConstBool(true)))
	}
}

func c05OptionCodes(c *Ctx, R string) {
	fd, pk := c.P.FuncDecl("middleware.(*Request).parseWireOPT")
	if fd == nil {
		c.unresolved(R, "middleware.(*Request).parseWireOPT", "declaration not found")
		return
	}
	admitted, n := caseConsts(fd, pk.TypesInfo, switchTagMentions("code"))
	if n == 0 {
		c.unresolved(R, "parseWireOPT|switch code", "no switch on the option code found")
		return
	}
	read := map[string]bool{}
	names := map[string]string{}
	for _, fnp := range []string{"internal/dnsutil.SetEdns0", "middleware/edns.hasClientKeepalive", "middleware/edns.hasClientECS"} {
		fn := c.fn(R, fnp)
		if fn == nil {
			continue
		}
		for _, in := range instrsWhere(fn, func(in ssa.Instruction) bool { _, ok := in.(*ssa.TypeAssert); return ok }) {
			ta := in.(*ssa.TypeAssert)
			nt, ok := deref(ta.AssertedType).(*types.Named)
			if !ok || nt.Obj().Pkg() == nil || nt.Obj().Pkg().Path() != x5DnsPkg || !strings.HasPrefix(nt.Obj().Name(), "EDNS0_") {
				continue
			}
			cn := strings.ReplaceAll(nt.Obj().Name(), "_", "")
			if v := c.P.ConstVal(x5DnsPkg + "." + cn); v != nil {
				read[v.ExactString()] = true
				names[v.ExactString()] = cn
			} else {
				c.unresolved(R, x5DnsPkg+"."+cn, "no option code constant for "+nt.Obj().Name())
			}
		}
	}
	exempt := map[string]string{}
	if v := c.P.ConstVal(x5DnsPkg + ".EDNS0PADDING"); v != nil {
		exempt[v.ExactString()] = "padding carries no client fact; ignored on both paths"
		names[v.ExactString()] = "EDNS0PADDING"
	}
	var ks []string
	for k := range admitted {
		ks = append(ks, k)
	}
	sort.Strings(ks)
	for _, k := range ks {
		key := "C05-R5|option codes|admitted " + names[k] + k
		switch {
		case read[k]:
			c.ok(R, key, fd.Pos(), "strict parser admits "+names[k]+", which the decoded path reads")
		case exempt[k] != "":
			c.ok(R, key, fd.Pos(), "strict parser admits "+names[k]+": "+exempt[k])
		default:
			c.violation(R, key, fd.Pos(), "strict parser admits option code "+k+" that the decoded path neither reads nor is listed as fact-free")
		}
	}
	ks = ks[:0]
	for k := range read {
		ks = append(ks, k)
	}
	sort.Strings(ks)
	for _, k := range ks {
		c.x5Decide(R, "C05-R5|option codes|read "+names[k], fd.Pos(), admitted[k], names[k]+" read by the decoded path has a strict-parser case", "the decoded path reads "+names[k]+" but the strict parser has no case for it: such packets lose the byte path, or the fact")
	}
	if len(read) < 4 {
		c.unresolved(R, "decoded-path option types", fmt.Sprintf("expected COOKIE,NSID,SUBNET,TCP-KEEPALIVE, found %d", len(read)))
	}
}

// ---------------------------------------------------------------------------

func c05R6(c *Ctx) {
	const R = "C05-R6"
	c.Doc(R, "middleware.Request: msg written only by SetMsg/materialize/release; every other field except the normalisation triple only by ParseWire/parseWireOPT (and SetMsg's zeroing literal); ednsRan/ecsPolicy/clientAddr only by RecordEDNSNormalization; whole-value stores to a *Request only in SetMsg/ParseWire; materialize calls SetEdns0(m, r.ecsPolicy, r.clientAddr) exactly on the ednsRan edge and before publishing r.msg")
	fields := c.structFields(R, "middleware.Request")
	if fields == nil {
		return
	}
	norm := map[string]bool{"ednsRan": true, "ecsPolicy": true, "clientAddr": true}
	const pre = "(*middleware.Request)."
	for _, f := range fields {
		sites := c.StoreSites(f)
		allow := map[string]string{}
		switch {
		case f.Name() == "msg":
			allow = map[string]string{pre + "SetMsg": "message-born request", pre + "materialize": "the one-way decode", pre + "release": "drops the decoded graph at Finish"}
		case norm[f.Name()]:
			allow = map[string]string{pre + "RecordEDNSNormalization": "edns wire branch records what SetEdns0 would do"}
		default:
			allow = map[string]string{pre + "ParseWire": "wire parse", pre + "parseWireOPT": "wire parse (OPT)"}
		}
		// keep the table exact: drop rows with no site today
		present := map[string]bool{}
		for _, s := range sites {
			present[fnKey(TopLevel(s.Fn))] = true
		}
		for k := range allow {
			if !present[k] {
				delete(allow, k)
			}
		}
		if len(sites) == 0 {
			c.ok(R, "C05-R6|Request."+f.Name()+"|no field store", f.Pos(), "field is only set through whole-value stores")
			continue
		}
		c.WhoMay(R, "Request."+f.Name()+" writers", sites, allow)
	}
	// whole-value stores
	tn := c.P.TypeName("middleware.Request")
	nWhole := 0
	for _, fn := range c.P.RepoFuncs() {
		for _, b := range fn.Blocks {
			for _, in := range b.Instrs {
				st, ok := in.(*ssa.Store)
				if !ok {
					continue
				}
				pt, ok := st.Addr.Type().Underlying().(*types.Pointer)
				if !ok {
					continue
				}
				n, ok := pt.Elem().(*types.Named)
				if !ok || n.Obj() != tn {
					continue
				}
				if _, local := st.Addr.(*ssa.Alloc); local {
					continue
				}
				nWhole++
				top := fnKey(TopLevel(fn))
				c.x5Decide(R, "C05-R6|"+top+"|whole Request store", instrPos(in), top == pre+"SetMsg" || top == pre+"ParseWire", "whole-value reset at birth", "a Request is overwritten wholesale outside SetMsg/ParseWire: parsed facts of a live request are rewritten")
			}
		}
	}
	if nWhole < 2 { // anti-vacuity only: SetMsg and at least one reset in ParseWire (today 1 + 3; refusals may share a body)
		c.unresolved(R, "whole Request stores", fmt.Sprintf("expected at least 2 (SetMsg, ParseWire), found %d", nWhole))
	}
	// materialize
	setEdns0 := c.fobj(R, "internal/dnsutil.SetEdns0")
	fRan := c.field(R, "middleware.Request.ednsRan")
	fMsg := c.field(R, "middleware.Request.msg")
	fPol := c.field(R, "middleware.Request.ecsPolicy")
	fAddr := c.field(R, "middleware.Request.clientAddr")
	if fn := c.fn(R, "middleware.(*Request).materialize"); fn != nil && setEdns0 != nil && fRan != nil && fMsg != nil && fPol != nil && fAddr != nil {
		c.MustCross(R, fn, "SetEdns0", isPlainCallTo(setEdns0), OnTrue("r.ednsRan", FieldIs(fRan)))
		c.AfterEdge(R, fn, "normalisation skipped before publishing msg", OnTrue("r.ednsRan", FieldIs(fRan)), func(in ssa.Instruction) bool { return isFieldStore(in, fMsg, nil) }, CallBarrier("SetEdns0", setEdns0))
		for _, in := range instrsWhere(fn, isPlainCallTo(setEdns0)) {
			good := FieldIs(fPol)(Desc(callArg(in, 1))) && FieldIs(fAddr)(Desc(callArg(in, 2)))
			c.x5Decide(R, "C05-R6|materialize|SetEdns0 arguments", instrPos(in), good, "SetEdns0(m, r.ecsPolicy, r.clientAddr)", "materialize normalises with something other than the recorded policy/client")
		}
		// the message is published only after a successful Unpack
		unpack := c.fobj(R, x5DnsPkg+".(*Msg).Unpack")
		c.MustCross(R, fn, "publish r.msg", func(in ssa.Instruction) bool { return isFieldStore(in, fMsg, nil) }, OnFalse("Unpack err", CallTo(unpack)))
	}
	c.Floor(R, 32)
}

// ---------------------------------------------------------------------------

func c05R7(c *Ctx) {
	const R = "C05-R7"
	c.Doc(R, "entry effects a later query (or the tap) can see fire once per client question: reflex reaches RecordQuery/RecordTCP/handleSuspicious and dnstap its query frame (logMessage(…, isQuery=true)) only across ch.Replay()=false")
	replayOff := OnFalse("ch.Replay()", MethodNamed("Replay"))
	if fn := c.fn(R, "middleware/reflex.(*Reflex).ServeDNS"); fn != nil {
		c.MustCross(R, fn, "reflex scoring", isCallNamed("RecordQuery", "RecordTCP", "handleSuspicious"), replayOff)
	}
	if fn := c.fn(R, "middleware/dnstap.(*Dnstap).ServeDNS"); fn != nil {
		lm := c.fobj(R, "middleware/dnstap.(*Dnstap).logMessage")
		c.MustCross(R, fn, "dnstap query frame", func(in ssa.Instruction) bool {
			return isPlainCallTo(lm)(in) && IsConstBool(true)(Desc(callArg(in, 6)))
		}, replayOff)
	}
	c.Floor(R, 4)
}

// ---------------------------------------------------------------------------

// x5RwFieldsWritten: fields of edns.ResponseWriter assigned in fn's own body
// (stores, and arrays filled through copy(field[:], …)).
func x5RwFieldsWritten(fn *ssa.Function, tn *types.TypeName) map[string]bool {
	out := map[string]bool{}
	st, _ := tn.Type().Underlying().(*types.Struct)
	for _, b := range fn.Blocks {
		for _, in := range b.Instrs {
			fa, ok := in.(*ssa.FieldAddr)
			if !ok || fa.Referrers() == nil {
				continue
			}
			bs, ok := deref(fa.X.Type()).Underlying().(*types.Struct)
			if !ok || !types.Identical(bs, st) {
				continue
			}
			name := bs.Field(fa.Field).Name()
			for _, r := range *fa.Referrers() {
				switch x := r.(type) {
				case *ssa.Store:
					if x.Addr == fa {
						out[name] = true
					}
				case *ssa.Slice:
					if x.Referrers() == nil {
						continue
					}
					for _, rr := range *x.Referrers() {
						if cl, ok := rr.(*ssa.Call); ok && calleeName(cl) == "builtin.copy" && cl.Call.Args[0] == x {
							out[name] = true
						}
					}
				}
			}
		}
	}
	return out
}

func c05R8(c *Ctx) {
	const R = "C05-R8"
	c.Doc(R, "edns.ServeDNS and edns.serveWire assign the same edns.ResponseWriter fields before installing the wrapper, with {opt, cookie} (decoded) ↔ {cookieRaw, hasCookieRaw} (wire) as the one representation pair; the top-level guards under which wireOPTLen adds to the reserve equal the guards under which appendWireOPT appends an option (the EDE guard excepted: its length is reserved by the producer)")
	tn := c.P.TypeName("middleware/edns.ResponseWriter")
	f1, f2 := c.fn(R, "middleware/edns.(*EDNS).ServeDNS"), c.fn(R, "middleware/edns.(*EDNS).serveWire")
	if tn == nil || f1 == nil || f2 == nil {
		return
	}
	norm := func(m map[string]bool) map[string]bool {
		out := map[string]bool{}
		for k := range m {
			switch k {
			case "opt", "cookie", "cookieRaw", "hasCookieRaw":
				out["<client cookie / request OPT>"] = true
			default:
				out[k] = true
			}
		}
		return out
	}
	w1, w2 := x5RwFieldsWritten(f1, tn), x5RwFieldsWritten(f2, tn)
	n1, n2 := norm(w1), norm(w2)
	// client facts = fields the writer's own methods read (plumbing such as `pooled` is not one)
	used := map[string]bool{}
	rst, _ := tn.Type().Underlying().(*types.Struct)
	for _, fn := range c.P.FuncsInPkg("middleware/edns") {
		top := TopLevel(fn)
		if top.Signature.Recv() == nil || !x5IsNamedType(top.Signature.Recv().Type(), modPath+"/middleware/edns", "ResponseWriter") {
			continue
		}
		for _, b := range fn.Blocks {
			for _, in := range b.Instrs {
				if fa, ok := in.(*ssa.FieldAddr); ok {
					if bs, ok := deref(fa.X.Type()).Underlying().(*types.Struct); ok && types.Identical(bs, rst) {
						used[bs.Field(fa.Field).Name()] = true
					}
				}
			}
		}
	}
	used = norm(used)
	var all []string
	for k := range used {
		all = append(all, k)
	}
	sort.Strings(all)
	if len(all) < 10 {
		c.unresolved(R, "ResponseWriter client facts", fmt.Sprintf("expected ≥10 fields read by the writer's methods, found %d", len(all)))
	}
	for _, k := range all {
		c.x5Decide(R, "C05-R8|client fact "+k, tn.Pos(), n1[k] && n2[k], "assigned in both branches", fmt.Sprintf("ResponseWriter.%s is assigned in only one of edns.ServeDNS (%v) / edns.serveWire (%v): the two paths shape replies from different client facts", k, n1[k], n2[k]))
	}
	// the representation pair is complete on each side
	c.x5Decide(R, "C05-R8|decoded cookie representation", f1.Pos(), w1["opt"] && w1["cookie"], "ServeDNS assigns opt and cookie", "ServeDNS does not assign both opt and cookie")
	c.x5Decide(R, "C05-R8|wire cookie representation", f2.Pos(), w2["cookieRaw"] && w2["hasCookieRaw"], "serveWire assigns cookieRaw and hasCookieRaw", "serveWire does not assign both cookieRaw and hasCookieRaw")

	// reserve vs append, decided on the CFG: for every assignment of the guard
	// atoms under which both functions succeed, the number of length
	// contributions wireOPTLen adds equals the number of options appendWireOPT
	// appends (the EDE append excepted: its length is reserved by the producer)
	fl, fa := c.fn(R, "middleware/edns.(*ResponseWriter).wireOPTLen"), c.fn(R, "middleware/edns.(*ResponseWriter).appendWireOPT")
	if fl != nil && fa != nil {
		// the additions that feed the returned length
		chain := map[ssa.Value]bool{}
		var grow func(v ssa.Value)
		grow = func(v ssa.Value) {
			if v == nil || chain[v] {
				return
			}
			chain[v] = true
			switch x := v.(type) {
			case *ssa.Phi:
				for _, e := range x.Edges {
					grow(e)
				}
			case *ssa.BinOp:
				if x.Op == token.ADD {
					grow(x.X)
				}
			}
		}
		for _, in := range returnsWhere(fl, 0, nil) {
			grow(in.(*ssa.Return).Results[0])
		}
		isContribution := func(in ssa.Instruction) bool {
			bo, ok := in.(*ssa.BinOp)
			return ok && bo.Op == token.ADD && chain[bo]
		}
		isAppend := func(in ssa.Instruction) bool {
			cl, ok := in.(*ssa.Call)
			if !ok {
				return false
			}
			fo, _, name := calleeObj(&cl.Call)
			return fo != nil && fo.Pkg() != nil && fo.Pkg().Path() == modPath+"/internal/wire" && strings.HasPrefix(name, "AppendOption") && name != "AppendOptionEDE"
		}
		atoms := x5Union((&x5Interp{fn: fl}).atoms(), (&x5Interp{fn: fa}).atoms())
		key := "C05-R8|wireOPTLen vs appendWireOPT guards"
		diff, compared := "", 0
		maxN := 0
		okRows := x5Rows(atoms, func(as map[string]bool) bool {
			count := func(fn *ssa.Function, pred func(ssa.Instruction) bool) (int, bool) {
				it := &x5Interp{fn: fn, assign: as}
				n := 0
				end := it.walk(Point{fn.Blocks[0], 0}, func(in ssa.Instruction) bool {
					if pred(in) {
						n++
					}
					return false
				})
				ret, isRet := end.(*ssa.Return)
				if !isRet || it.bad != "" {
					return 0, false
				}
				if r, ok := it.resultOf(ret, 1); !ok || r != "true" {
					return 0, false // declined: nothing is reserved / appended
				}
				if r, ok := it.resultOf(ret, 0); ok && r == "0" {
					return 0, false // no OPT at all (client without EDNS): appendWireOPT is not called (C06-R1)
				}
				return n, true
			}
			n1, ok1 := count(fl, isContribution)
			n2, ok2 := count(fa, isAppend)
			if !ok1 || !ok2 {
				return true
			}
			compared++
			if n2 > maxN {
				maxN = n2
			}
			if n1 != n2 {
				diff = fmt.Sprintf("under %s wireOPTLen reserves %d option(s) but appendWireOPT appends %d", x5FmtAssign(as), n1, n2)
				return false
			}
			return true
		})
		switch {
		case !okRows:
			c.undecided(R, key, fl.Pos(), fmt.Sprintf("too many guard atoms (%d)", len(atoms)))
		case diff != "":
			c.violation(R, key, fl.Pos(), diff+": the reply outgrows its lease or the reserve is wasted")
		case compared == 0 || maxN < 3:
			c.unresolved(R, "wireOPTLen vs appendWireOPT", fmt.Sprintf("compared %d assignments, at most %d options appended (expected cookie, NSID, keepalive)", compared, maxN))
		default:
			c.ok(R, key, fl.Pos(), fmt.Sprintf("reserve and append agree on the option count under all %d succeeding assignments of %d guard atoms", compared, len(atoms)))
		}
	}
	c.Floor(R, 13)
}
