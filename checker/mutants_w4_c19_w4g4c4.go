package main

// Regression mutants for C19-R12 (= C03-R5 under C19's id; seeded change C19-w4g4c4: an answer the
// authority scoped to a subnet that is not the client's is filed under the shared key).
func init() {
	const cachego = "middleware/cache/cache.go"
	addMutants("C19", []Mutant{
		{ID: "c19-w4-foreign-scope-merged-else", File: cachego, Expect: "C19-R12|(*middleware/cache.ResponseWriter).WriteMsg|shared-key store",
			Old: "\t\tif respScope, ok := ecs.ReadResponseScope(res); ok {\n\t\t\tclamped := w.cache.ecsPolicy.ClampScope(respScope, w.clientScope)\n\t\t\t// The scope is built from the address the upstream put in its\n\t\t\t// option, and that address MUST echo the query's (RFC 7871\n\t\t\t// §7.3). One that does not — another subnet, another family —\n\t\t\t// describes an audience this answer was not obtained for, so\n\t\t\t// there is no key it can safely be filed under: the client\n\t\t\t// still gets its reply, the cache keeps nothing.\n\t\t\tif clamped.Contains(w.clientScope.Addr()) {\n\t\t\t\tscopedKey := CacheKey{Question: q, CD: res.CheckingDisabled, Scope: clamped}.Hash()\n\t\t\t\tw.cache.store.SetFromResponseScoped(scopedKey, res, clamped, cutUntil, cutKey)\n\t\t\t}\n\t\t} else {\n\t\t\t// No SCOPE in response (or SCOPE=0): authority says\n\t\t\t// \"global\"; cache shared so future non-ECS clients hit.\n\t\t\tkey := CacheKey{Question: q, CD: res.CheckingDisabled}.Hash()\n\t\t\tw.cache.store.SetFromResponseWithKey(key, res, cutUntil, cutKey)\n\t\t}\n",
			New: "\t\trespScope, scoped := ecs.ReadResponseScope(res)\n\t\tclamped := w.cache.ecsPolicy.ClampScope(respScope, w.clientScope)\n\t\t// A scope that does not echo the query's subnet is never filed under a scoped key.\n\t\tif scoped && clamped.Contains(w.clientScope.Addr()) {\n\t\t\tscopedKey := CacheKey{Question: q, CD: res.CheckingDisabled, Scope: clamped}.Hash()\n\t\t\tw.cache.store.SetFromResponseScoped(scopedKey, res, clamped, cutUntil, cutKey)\n\t\t} else {\n\t\t\tkey := CacheKey{Question: q, CD: res.CheckingDisabled}.Hash()\n\t\t\tw.cache.store.SetFromResponseWithKey(key, res, cutUntil, cutKey)\n\t\t}\n",
			Why: "C19-w4g4c4 as seeded: the nested `if ok { if Contains { scoped } } else { shared }` flattened to `if scoped && Contains { scoped } else { shared }` — the merged else also takes the reply the authority DID scope, for another subnet, and files it for everybody"},
		{ID: "c19-w4-foreign-scope-falls-to-shared", File: cachego, Expect: "C19-R12|(*middleware/cache.ResponseWriter).WriteMsg|shared-key store",
			Old: "\t\t\t\tw.cache.store.SetFromResponseScoped(scopedKey, res, clamped, cutUntil, cutKey)\n\t\t\t}\n",
			New: "\t\t\t\tw.cache.store.SetFromResponseScoped(scopedKey, res, clamped, cutUntil, cutKey)\n\t\t\t} else {\n\t\t\t\t// not this client's subnet: keep it where the next lookup finds it\n\t\t\t\tw.cache.store.SetFromResponseWithKey(CacheKey{Question: q, CD: res.CheckingDisabled}.Hash(), res, cutUntil, cutKey)\n\t\t\t}\n",
			Why: "variant: the mismatching-echo arm, which must keep nothing, stores the tailored answer under the shared key"},
	})
}
