package main

// Regression mutants for F-C07-4 (the unspecified address passes the nameserver-address filter).
func init() {
	addMutants("C07", []Mutant{
		{ID: "c07-unspecified-addr-usable", File: "middleware/resolver/utils.go", Expect: "C07-R11|usableAddr",
			Old: "addr.IsLoopback() || addr.IsUnspecified() || isLocalIP(ip)", New: "addr.IsLoopback() || isLocalIP(ip)",
			Why: "F-C07-4: glue `ns. A 0.0.0.0` / `AAAA ::` becomes the upstream 0.0.0.0:53, which the OS delivers to the local host"},
		{ID: "c07-unspecified-tested-before-unmap", File: "middleware/resolver/utils.go", Expect: "C07-R11|usableAddr",
			Old: "\tif !ok {\n\t\treturn netip.Addr{}, false\n\t}\n\taddr = addr.Unmap()\n\t// The unspecified address (0.0.0.0, ::) is not a destination: a datagram\n\t// sent to it is delivered to the local host, exactly like loopback.\n\tif addr.IsLoopback() || addr.IsUnspecified() || isLocalIP(ip) {",
			New: "\tif !ok || addr.IsUnspecified() {\n\t\treturn netip.Addr{}, false\n\t}\n\taddr = addr.Unmap()\n\tif addr.IsLoopback() || isLocalIP(ip) {",
			Why: "F-C07-4 (partial regression): netip.Addr.IsUnspecified compares with 0.0.0.0 and :: only, so applied before Unmap it lets AAAA ::ffff:0.0.0.0 through, which Unmap then turns into 0.0.0.0"},
	})
}
