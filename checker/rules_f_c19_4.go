package main

// F-C19-4 / C19-R8 — a lookup that is shared between callers is keyed on the
// EDNS options of the query that is sent.
//
// The resolver collapses concurrent identical lookups through its singleflight
// wrapper: ONE caller (the leader) runs the closure, every other caller with the
// same key receives a copy of the leader's result.  The leader's closure sends
// the request message it captured upstream — the whole message: lookup copies it
// per server, additional section included, and the OPT of that section carries
// the forwarded client subnet whenever the ECS policy re-attached one
// (dnsutil.SetEdns0 → Policy.Clamp).  The authority tailors and scopes its reply
// to that subnet.  "Same key ⇒ same upstream query" is what makes the sharing
// sound, so:
//
//   for every call of a key-taking, closure-taking method of SingleflightWrapper
//   (discovered through the receiver type and the signature, not by name), and
//   for every *dns.Msg the closure captures (seen through Copy()): the key
//   argument is computed from the option list of that message's OPT record —
//   a read of dns.OPT.Option on a record obtained from the message
//   (M.IsEdns0() or an element of M.Extra), in the function itself or in a module
//   helper that is handed the message (or its OPT) and returns a value computed
//   from such a read.
//
// Decided on value descriptions (def-use), nothing is executed.
// Not decided (value-level): that the rendering of the option is injective, and
// that nothing else in the message (beyond question, CD, server set, options)
// changes the authority's answer.

import (
	"fmt"
	"go/types"
	"strings"

	"golang.org/x/tools/go/ssa"
)

// Rule id in one place: renumber here if the coordinator merges another C19 rule first.
const fC19_4Rule = "C19-R8"

func init() {
	wrap := func(id string, extra func(c *Ctx), explain string) {
		pd := props[id]
		if pd == nil {
			return
		}
		orig := pd.Run
		pd.Run = func(c *Ctx) { orig(c); extra(c) }
		pd.Explanation += " " + explain
	}
	wrap("C19", c19SingleflightKey, "R8 (added): every singleflight call whose leader closure captures a request message keys on the option list of that message's OPT record (the forwarded client subnet lives there and the message is sent upstream whole) — otherwise a follower from another subnet is handed the reply the authority scoped to the leader's subnet, and its own subnet is never asked.")
}

func c19SingleflightKey(c *Ctx) {
	R := fC19_4Rule
	c.Doc(R, "for every call of a (key string, fn func…) method of resolver.SingleflightWrapper: for each *dns.Msg captured by fn (through Copy()), the key is computed from a read of dns.OPT.Option on a record of that message (directly or in a module helper handed the message) — the leader sends the whole message, forwarded client subnet included, and followers receive its reply")
	optOption := c.field(R, "github.com/miekg/dns.OPT.Option")
	extraF := c.field(R, "github.com/miekg/dns.Msg.Extra")
	isEdns0 := c.fobj(R, "github.com/miekg/dns.(*Msg).IsEdns0")
	msgCopy := c.fobj(R, "github.com/miekg/dns.(*Msg).Copy")
	msgTN := c.P.TypeName("github.com/miekg/dns.Msg")
	sfTN := c.P.TypeName("middleware/resolver.SingleflightWrapper")
	if msgTN == nil || sfTN == nil {
		c.unresolved(R, "types", "dns.Msg / resolver.SingleflightWrapper not found")
	}
	if optOption == nil || extraF == nil || isEdns0 == nil || msgCopy == nil || msgTN == nil || sfTN == nil {
		return
	}
	isMsgPtr := func(t types.Type) bool {
		p, ok := t.Underlying().(*types.Pointer)
		if !ok {
			return false
		}
		nt, ok := p.Elem().(*types.Named)
		return ok && nt.Obj() == msgTN
	}
	copyTransparent := func(e *Expr) []int {
		if CallTo(msgCopy)(e) {
			return []int{0}
		}
		return nil
	}

	// the sharing entry points: methods of *SingleflightWrapper with a string key and a func argument
	type entry struct {
		fo       *types.Func
		key, fun int // argument indices, receiver = 0
	}
	var entries []entry
	ms := types.NewMethodSet(types.NewPointer(sfTN.Type()))
	for i := 0; i < ms.Len(); i++ {
		fo, ok := ms.At(i).Obj().(*types.Func)
		if !ok {
			continue
		}
		sig := fo.Type().(*types.Signature)
		k, f := -1, -1
		for j := 0; j < sig.Params().Len(); j++ {
			switch t := sig.Params().At(j).Type().Underlying().(type) {
			case *types.Basic:
				if t.Kind() == types.String && k < 0 {
					k = j + 1
				}
			case *types.Signature:
				if f < 0 {
					f = j + 1
				}
			}
		}
		if k > 0 && f > 0 {
			entries = append(entries, entry{fo, k, f})
		}
	}
	if len(entries) == 0 {
		c.unresolved(R, "SingleflightWrapper", "no method with a string key and a function argument")
		return
	}

	// onMsg(e, msgs): e reads something of one of the messages
	mentions := func(e *Expr, msgs map[string]bool) bool {
		return Contains(func(x *Expr) bool { return x != nil && x.K != EUnknown && msgs[x.String()] })(e)
	}
	// optionRead(e, msgs): e contains a read of OPT.Option on a record obtained from one of the messages
	optionRead := func(e *Expr, msgs map[string]bool) bool {
		return Contains(func(x *Expr) bool {
			if x.K != EField || x.Var != optOption {
				return false
			}
			return mentions(x.X, msgs) && (Contains(CallTo(isEdns0))(x.X) || Contains(FieldIs(extraF))(x.X))
		})(e)
	}
	// helperYieldsOptions(h, passed): h returns a value computed from the option list of a
	// message (or OPT) it received in one of the `passed` parameters.
	memo := map[string]int{}
	var dependsOnOptions func(e *Expr, msgs map[string]bool, depth int) bool
	helperYieldsOptions := func(h *ssa.Function, passed []int, depth int) bool {
		if h == nil || len(h.Blocks) == 0 || depth > 3 {
			return false
		}
		if p := fnPkg(h); p == nil || !c.P.inModule(p.Path()) {
			return false
		}
		mk := fmt.Sprintf("%s#%v", fnKey(h), passed)
		switch memo[mk] {
		case 1:
			return true
		case 2, 3:
			return false
		}
		memo[mk] = 3
		inner := map[string]bool{}
		optParam := map[string]bool{}
		for _, i := range passed {
			if i < len(h.Params) {
				s := Desc(h.Params[i]).String()
				inner[s] = true
				if !isMsgPtr(h.Params[i].Type()) {
					optParam[s] = true // the OPT record (or its option list) itself was handed over
				}
			}
		}
		ok := false
		for _, in := range instrsWhere(h, isReturn) {
			if in.Parent() != h {
				continue
			}
			for _, rv := range in.(*ssa.Return).Results {
				e := Desc(rv)
				if dependsOnOptions(e, inner, depth+1) {
					ok = true
				}
				// handed the OPT itself: a read of .Option on the parameter, or the list parameter itself
				if len(optParam) > 0 && Contains(func(x *Expr) bool {
					if x.K == EField && x.Var == optOption && mentions(x.X, optParam) {
						return true
					}
					return x.K == EParam && optParam[x.String()] && strings.Contains(x.V.Type().String(), "EDNS0")
				})(e) {
					ok = true
				}
			}
		}
		if ok {
			memo[mk] = 1
		} else {
			memo[mk] = 2
		}
		return ok
	}
	dependsOnOptions = func(e *Expr, msgs map[string]bool, depth int) bool {
		if optionRead(e, msgs) {
			return true
		}
		return Contains(func(x *Expr) bool {
			if x.K != ECall || x.SFn == nil {
				return false
			}
			var passed []int
			for i, a := range x.Args {
				// the message, its OPT record or that record's option list
				if mentions(a, msgs) && (msgs[a.String()] || Contains(CallTo(isEdns0))(a) || Contains(FieldIs(extraF))(a)) {
					passed = append(passed, i)
				}
			}
			return len(passed) > 0 && helperYieldsOptions(x.SFn, passed, depth)
		})(e)
	}

	n := 0
	for _, en := range entries {
		for _, s := range c.CallSites(en.fo) {
			if s.Kind == "ref" || s.Kind == "invoke" {
				continue
			}
			// calls inside the wrapper itself only pass their own parameters on
			if top := TopLevel(s.Fn); top != nil {
				if r := top.Signature.Recv(); r != nil {
					if nt, ok := deref(r.Type()).(*types.Named); ok && nt.Obj() == sfTN {
						continue
					}
				}
			}
			keyV, funV := callArg(s.Instr, en.key), callArg(s.Instr, en.fun)
			if keyV == nil || funV == nil {
				continue
			}
			mc, ok := funV.(*ssa.MakeClosure)
			if !ok {
				continue // a plain function captures no request
			}
			msgs := map[string]bool{}
			var names []string
			for _, b := range mc.Bindings {
				t := b.Type()
				if p, ok := t.Underlying().(*types.Pointer); ok && !isMsgPtr(t) {
					t = p.Elem() // a variable captured by reference
				}
				if !isMsgPtr(t) {
					continue
				}
				vals := []ssa.Value{b}
				if al, isCell := b.(*ssa.Alloc); isCell && al.Referrers() != nil {
					// captured by reference: the cell holds whatever was stored into it
					vals = nil
					for _, r := range *al.Referrers() {
						if st, ok := r.(*ssa.Store); ok && st.Addr == ssa.Value(al) {
							vals = append(vals, st.Val)
						}
					}
				}
				for _, v := range vals {
					for _, l := range Origins(Desc(v), copyTransparent) {
						if l.K == EUnknown || IsNilConst(l) {
							continue
						}
						if !msgs[l.String()] {
							msgs[l.String()] = true
							names = append(names, trunc(l.String(), 60))
						}
					}
				}
			}
			if len(msgs) == 0 {
				continue
			}
			n++
			key := fmt.Sprintf("%s|%s|singleflight key covers the EDNS options of the captured request", R, fnKey(TopLevel(s.Fn)))
			ke := Desc(keyV)
			covered := dependsOnOptions(ke, msgs, 0)
			if !covered {
				// the key is read out of a local accumulator (strings.Builder, bytes.Buffer, a
				// hash): what was written into it is what the key is computed from
				Contains(func(x *Expr) bool {
					if covered || x.K != ECall || len(x.Args) == 0 {
						return covered
					}
					al, ok := x.Args[0].V.(*ssa.Alloc)
					if !ok || al.Referrers() == nil {
						return false
					}
					for _, r := range *al.Referrers() {
						ci, ok := r.(ssa.CallInstruction)
						if !ok || len(ci.Common().Args) == 0 || ci.Common().Args[0] != ssa.Value(al) {
							continue
						}
						for _, a := range ci.Common().Args[1:] {
							if dependsOnOptions(Desc(a), msgs, 0) {
								covered = true
							}
						}
					}
					return covered
				})(ke)
			}
			if covered {
				c.ok(R, key, instrPos(s.Instr), fmt.Sprintf("key of %s is computed from the OPT option list of %s", en.fo.Name(), strings.Join(names, ", ")))
			} else {
				c.violation(R, key, instrPos(s.Instr), fmt.Sprintf("%s shares the leader's result with every caller that presents the same key; the leader closure captures the request %s and sends it upstream whole (forwarded client-subnet option included), but the key is not computed from that request's OPT option list: two clients whose forwarded subnets differ collapse onto one upstream query and the follower is handed the reply the authority scoped to the leader's subnet. key = %s", en.fo.Name(), strings.Join(names, ", "), trunc(ke.String(), 300)))
			}
		}
	}
	if n == 0 {
		c.unresolved(R, "singleflight call capturing a request", "no call of a SingleflightWrapper method with a closure that captures a *dns.Msg was found (rule would pass vacuously)")
	}
}
