package main

// Finding F-C11-2: a reply that no transport can frame (composed past 65,535
// octets) is handed to a stream transport, refused there, and the admitted
// query gets no reply at all.
//
//   C11-R9  the edns writer — the one layer every post-EDNS reply crosses — hands
//       a message to the transport only after the size test, on EVERY protocol:
//       each downstream WriteMsg in (*edns.ResponseWriter).WriteMsg is reached
//       only across the "fits" edge of the overflow test (udpOverflow(m, limit)
//       = false, or an inlined m.Len() > limit = false) or after the message was
//       reduced to the TC=1 form (store Truncated = true).  A test that sits
//       behind a protocol comparison leaves the other protocols' path open.
//       And the limit the test receives is never above the protocol maximum:
//       its origins are integer constants <= dns.MaxMsgSize or the writer's
//       negotiated size.

import (
	"fmt"
	"go/constant"
	"go/token"

	"golang.org/x/tools/go/ssa"
)

func init() {
	w := func(id string, extra func(c *Ctx), explain string) {
		pd := props[id]
		if pd == nil {
			return
		}
		orig := pd.Run
		pd.Run = func(c *Ctx) { orig(c); extra(c) }
		pd.Explanation += " " + explain
	}
	w("C11", fC112FrameBound, "R9 (added, F-C11-2): edns.ResponseWriter.WriteMsg reaches the transport's WriteMsg only across the fits-edge of the overflow test or after reducing the reply to TC=1 — on every protocol, not only behind Proto()==\"udp\" — and the limit handed to the test is a constant <= dns.MaxMsgSize or the negotiated size; a reply no stream can frame therefore leaves as TC=1 instead of being refused and lost.")
}

func fC112FrameBound(c *Ctx) {
	const R = "C11-R9"
	const ep = "middleware/edns"
	c.Doc(R, "every reply the edns writer forwards has passed the size test, whatever the transport: in (*edns.ResponseWriter).WriteMsg each call of the underlying writer's WriteMsg is reachable only across udpOverflow(…)=false (or an inlined Msg.Len() > limit = false) or after the store Truncated=true; the limit given to the test has only origins that are integer constants <= dns.MaxMsgSize or the writer's size field — a composed reply above 65,535 octets is otherwise refused by the stream transport (ErrFrameTooLarge) after the writer was already marked written, and the admitted query is never answered")
	fn := c.fn(R, ep+".(*ResponseWriter).WriteMsg")
	over := c.fobj(R, ep+".udpOverflow")
	sizeF := c.field(R, ep+".ResponseWriter.size")
	trunc := c.field(R, "github.com/miekg/dns.MsgHdr.Truncated")
	msgLen := c.fobj(R, "github.com/miekg/dns.(*Msg).Len")
	maxMsg := c.P.ConstVal("github.com/miekg/dns.MaxMsgSize")
	if fn == nil || over == nil || sizeF == nil || trunc == nil || msgLen == nil {
		return
	}
	if maxMsg == nil {
		c.unresolved(R, "github.com/miekg/dns.MaxMsgSize", "constant not found")
		return
	}
	handOff := func(in ssa.Instruction) bool {
		if in.Parent() == nil || TopLevel(in.Parent()) != fn {
			return false
		}
		return isMethodCallNamed("WriteMsg", nil)(in)
	}
	c.MustCross(R, fn, "hand-off to the transport", handOff,
		OnFalse("udpOverflow(m, limit)", CallTo(over)),
		OnCmp("Msg.Len() within limit", CallTo(msgLen), token.GTR, Any, false),
		StoreBarrier("Truncated=true", trunc, IsConstBool(true)))

	// the limit
	isBounded := func(e *Expr) bool {
		e = strip(e)
		if e == nil || e.K != EConst || e.Val == nil || e.Val.Kind() != constant.Int {
			return false
		}
		return constant.Compare(e.Val, token.LEQ, maxMsg)
	}
	n := 0
	for _, g := range scopeFuncs(fn) {
		if fo := funcObjOf(TopLevel(g)); fo != nil && sameFunc(fo, over) {
			continue
		}
		for _, in := range instrsWhere(g, isPlainCallTo(over)) {
			if in.Parent() != g {
				continue
			}
			n++
			key := fmt.Sprintf("%s|%s|limit of the overflow test", R, fnKey(fn))
			c.OriginCheck(R, key, in, "limit handed to udpOverflow", callArg(in, 1), func(e *Expr) []int {
				// min/max builtins and int conversions keep a bounded value bounded only
				// when every operand is: follow all operands
				x := e
				if x.K == EExtract {
					x = x.X
				}
				if x != nil && x.K == ECall && x.Fn == nil && (x.Name == "builtin.min") {
					idx := make([]int, len(x.Args))
					for i := range idx {
						idx[i] = i
					}
					return idx
				}
				return nil
			}, isBounded, FieldIs(sizeF))
		}
	}
	if n == 0 {
		c.ok(R, fmt.Sprintf("%s|%s|limit of the overflow test", R, fnKey(fn)), fn.Pos(), "no udpOverflow call in scope (test inlined): the comparison itself is the barrier")
	}
	c.Floor(R, 2)
}
