package main

// Regression mutants for F-C07-6 (root priming adopts glue addresses without the usableAddr filter).
func init() {
	addMutants("C07", []Mutant{
		{ID: "c07-priming-a-glue-unfiltered", File: "middleware/resolver/resolver.go", Expect: "C07-R13|(*middleware/resolver.Resolver).checkPriming|dns.A.A",
			Old: "if addr, valid := usableAddr(v4.A); valid {", New: "if addr, valid := netip.AddrFromSlice(v4.A); valid {",
			Why: "F-C07-6: the `. NS` reply's additional section is unsigned glue; `a.root-servers.net. A 127.0.0.53` / `A 0.0.0.0` becomes a root server the resolver asks for the whole namespace"},
		{ID: "c07-priming-aaaa-glue-partial-filter", File: "middleware/resolver/resolver.go", Expect: "C07-R13|(*middleware/resolver.Resolver).checkPriming|dns.AAAA.AAAA",
			Old: "if addr, valid := usableAddr(v6.AAAA); valid {", New: "if addr, valid := netip.AddrFromSlice(v6.AAAA); valid && !addr.IsLoopback() {",
			Why: "F-C07-6 (partial regression): a hand-rolled loopback test instead of the shared filter still lets `AAAA ::` / `::ffff:0.0.0.0` and the host's own interface addresses into the root list"},
	})
}
