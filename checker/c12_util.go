package main

// Helpers private to the C12 rule file: a repo-internal call graph (static
// callees, function values, interface invokes resolved with types.Implements
// over the module's named types), Tarjan SCCs, and small SSA predicates.

import (
	"go/types"
	"sort"
	"strings"

	"golang.org/x/tools/go/ssa"
)

type c12Graph struct {
	c     *Ctx
	nodes map[*ssa.Function]bool
	succ  map[*ssa.Function]map[*ssa.Function][]ssa.Instruction // caller → callee → call sites
	impls map[string][]*ssa.Function
	named []types.Type
}

// c12Node normalises a callee to the module's top-level declared function
// (closures → enclosing function, instantiations → generic origin, wrappers →
// the wrapped method).
func (g *c12Graph) node(f *ssa.Function) *ssa.Function {
	if f == nil {
		return nil
	}
	f = TopLevel(f)
	if o := f.Origin(); o != nil {
		f = o
	}
	if obj, ok := f.Object().(*types.Func); ok && obj != nil {
		if v := g.c.P.SSA.FuncValue(obj.Origin()); v != nil {
			f = v
		}
	}
	return f
}

func (g *c12Graph) inScope(f *ssa.Function, prefix string) bool {
	pk := fnPkg(f)
	return pk != nil && (pk.Path() == prefix || strings.HasPrefix(pk.Path(), prefix+"/"))
}

func (g *c12Graph) implementations(recv types.Type, m *types.Func) []*ssa.Function {
	it, ok := recv.Underlying().(*types.Interface)
	if !ok {
		return nil
	}
	key := types.TypeString(recv, nil) + "." + m.Name()
	if v, ok := g.impls[key]; ok {
		return v
	}
	var out []*ssa.Function
	seen := map[*ssa.Function]bool{}
	for _, t := range g.named {
		if !types.Implements(t, it) {
			continue
		}
		sel := g.c.P.SSA.MethodSets.MethodSet(t).Lookup(m.Pkg(), m.Name())
		if sel == nil {
			continue
		}
		fn := g.c.P.SSA.MethodValue(sel)
		if fn == nil {
			continue
		}
		n := g.node(fn)
		if n != nil && !seen[n] {
			seen[n] = true
			out = append(out, n)
		}
	}
	g.impls[key] = out
	return out
}

// c12BuildGraph builds the call graph restricted to functions whose package is
// under prefix (module-relative, e.g. "middleware").
func c12BuildGraph(c *Ctx, relPrefix string) *c12Graph {
	g := &c12Graph{c: c, nodes: map[*ssa.Function]bool{}, succ: map[*ssa.Function]map[*ssa.Function][]ssa.Instruction{}, impls: map[string][]*ssa.Function{}}
	prefix := c.P.ModPath + "/" + relPrefix
	var paths []string
	for path := range c.P.ByPath {
		if c.P.inModule(path) {
			paths = append(paths, path)
		}
	}
	sort.Strings(paths)
	for _, path := range paths {
		pk := c.P.ByPath[path]
		if pk.Types == nil {
			continue
		}
		sc := pk.Types.Scope()
		for _, name := range sc.Names() {
			tn, ok := sc.Lookup(name).(*types.TypeName)
			if !ok || tn.IsAlias() {
				continue
			}
			nt, ok := tn.Type().(*types.Named)
			if !ok || nt.TypeParams().Len() > 0 {
				continue
			}
			if _, isIface := nt.Underlying().(*types.Interface); isIface {
				continue
			}
			g.named = append(g.named, nt, types.NewPointer(nt))
		}
	}
	addEdge := func(from, to *ssa.Function, in ssa.Instruction) {
		if from == nil || to == nil || !g.inScope(from, prefix) || !g.inScope(to, prefix) {
			return
		}
		g.nodes[from], g.nodes[to] = true, true
		if g.succ[from] == nil {
			g.succ[from] = map[*ssa.Function][]ssa.Instruction{}
		}
		g.succ[from][to] = append(g.succ[from][to], in)
	}
	for _, fn := range c.P.RepoFuncs() {
		if !g.inScope(fn, prefix) {
			continue
		}
		from := g.node(fn)
		g.nodes[from] = true
		for _, b := range fn.Blocks {
			for _, in := range b.Instrs {
				if cc := callCommon(in); cc != nil {
					if cc.IsInvoke() {
						for _, impl := range g.implementations(cc.Value.Type(), cc.Method) {
							addEdge(from, impl, in)
						}
					} else if sf := cc.StaticCallee(); sf != nil {
						// calling one's own closure is not recursion
						if !(sf.Parent() != nil && g.node(sf) == from) {
							addEdge(from, g.node(sf), in)
						}
					}
				}
				var ops []*ssa.Value
				for _, op := range in.Operands(ops) {
					if op == nil || *op == nil {
						continue
					}
					if f, ok := (*op).(*ssa.Function); ok {
						if cc := callCommon(in); cc != nil && !cc.IsInvoke() && cc.Value == *op {
							continue
						}
						if n := g.node(f); n != from || f.Parent() == nil {
							// a closure of the same function is not a call edge
							if TopLevel(f) != TopLevel(fn) {
								addEdge(from, n, in)
							}
						}
					}
				}
			}
		}
	}
	return g
}

// sccs returns the strongly connected components of the graph minus `removed`
// that contain a cycle (size>1 or a self edge), each sorted by name; the list
// is sorted by first member.
func (g *c12Graph) cyclicSCCs(removed map[*ssa.Function]bool) [][]*ssa.Function {
	var order []*ssa.Function
	for n := range g.nodes {
		if !removed[n] {
			order = append(order, n)
		}
	}
	sort.Slice(order, func(i, j int) bool { return fnKey(order[i]) < fnKey(order[j]) })
	index := map[*ssa.Function]int{}
	low := map[*ssa.Function]int{}
	on := map[*ssa.Function]bool{}
	var stack []*ssa.Function
	var out [][]*ssa.Function
	idx := 0
	succs := func(n *ssa.Function) []*ssa.Function {
		var s []*ssa.Function
		for m := range g.succ[n] {
			if !removed[m] {
				s = append(s, m)
			}
		}
		sort.Slice(s, func(i, j int) bool { return fnKey(s[i]) < fnKey(s[j]) })
		return s
	}
	// iterative Tarjan
	type frame struct {
		n  *ssa.Function
		ss []*ssa.Function
		i  int
	}
	for _, root := range order {
		if _, ok := index[root]; ok {
			continue
		}
		fr := []*frame{{n: root, ss: succs(root)}}
		index[root], low[root] = idx, idx
		idx++
		stack = append(stack, root)
		on[root] = true
		for len(fr) > 0 {
			f := fr[len(fr)-1]
			if f.i < len(f.ss) {
				m := f.ss[f.i]
				f.i++
				if _, ok := index[m]; !ok {
					index[m], low[m] = idx, idx
					idx++
					stack = append(stack, m)
					on[m] = true
					fr = append(fr, &frame{n: m, ss: succs(m)})
				} else if on[m] && index[m] < low[f.n] {
					low[f.n] = index[m]
				}
				continue
			}
			fr = fr[:len(fr)-1]
			if len(fr) > 0 {
				p := fr[len(fr)-1].n
				if low[f.n] < low[p] {
					low[p] = low[f.n]
				}
			}
			if low[f.n] == index[f.n] {
				var comp []*ssa.Function
				for {
					m := stack[len(stack)-1]
					stack = stack[:len(stack)-1]
					on[m] = false
					comp = append(comp, m)
					if m == f.n {
						break
					}
				}
				cyclic := len(comp) > 1
				if !cyclic {
					if _, self := g.succ[comp[0]][comp[0]]; self && !removed[comp[0]] {
						cyclic = true
					}
				}
				if cyclic {
					sort.Slice(comp, func(i, j int) bool { return fnKey(comp[i]) < fnKey(comp[j]) })
					out = append(out, comp)
				}
			}
		}
	}
	sort.Slice(out, func(i, j int) bool { return fnKey(out[i][0]) < fnKey(out[j][0]) })
	return out
}

// c12MethodResult matches result #idx of a (static or interface) method call by name.
func c12MethodResult(idx int, names ...string) Pat {
	return func(e *Expr) bool {
		e = strip(e)
		if e == nil || e.K != EExtract || e.Idx != idx {
			return false
		}
		return MethodNamed(names...)(e.X)
	}
}

// c12ClosureOf returns the closure stored by a field store (value of a
// MakeClosure), or nil.
func c12ClosureOf(v ssa.Value) *ssa.Function {
	switch x := v.(type) {
	case *ssa.MakeClosure:
		f, _ := x.Fn.(*ssa.Function)
		return f
	case *ssa.Function:
		return x
	}
	return nil
}
