package main
