// Package lock2: a helper whose callers do not all hold the lock.
package lock2

import "sync"

type T struct {
	mu sync.Mutex
	m  map[int]int
}

func (t *T) helper(k int) { t.m[k] = 2 }
func (t *T) A(k int) {
	t.mu.Lock()
	t.helper(k)
	t.mu.Unlock()
}
func (t *T) B(k int) { t.helper(k) }
