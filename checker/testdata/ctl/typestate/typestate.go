// Package typestate holds tiny good/bad functions for the E5
// verify-before-use typestate positive control.
package typestate

type Entry struct {
	name  string
	qtype uint16
	body  []byte
	hits  int
}

type table struct{ m map[uint64]*Entry }

// raw is the raw keyed lookup (the control's primary source).
func (t *table) raw(k uint64) *Entry { return t.m[k] }

func sameName(a, b string) bool { return a == b }

// matches is a full verifier: both dimensions on every true return.
func matches(e *Entry, name string, qtype uint16) bool {
	return e != nil && e.qtype == qtype && sameName(e.name, name)
}

// halfMatches forgets the name.
func halfMatches(e *Entry, name string, qtype uint16) bool {
	return e != nil && e.qtype == qtype
}

func serve(e *Entry) []byte { return e.body }

// consume verifies its parameter before using it.
func consume(e *Entry, name string, qtype uint16) []byte {
	if !matches(e, name, qtype) {
		return nil
	}
	return serve(e)
}

// consumeBad counts the hit before verifying.
func consumeBad(e *Entry, name string, qtype uint16) []byte {
	e.hits++
	if !matches(e, name, qtype) {
		return nil
	}
	return serve(e)
}

func GoodVerifier(t *table, k uint64, name string, qt uint16) []byte {
	e := t.raw(k)
	if e == nil || !matches(e, name, qt) {
		return nil
	}
	return serve(e)
}

func GoodInline(t *table, k uint64, name string, qt uint16) []byte {
	if e := t.raw(k); e != nil && len(e.body) > 0 && e.qtype == qt && sameName(e.name, name) {
		return e.body
	}
	return nil
}

func GoodConsumer(t *table, k uint64, name string, qt uint16) []byte {
	return consume(t.raw(k), name, qt)
}

func GoodLoop(t *table, ks []uint64, name string, qt uint16) (out [][]byte) {
	var cur *Entry
	for _, k := range ks {
		next := t.raw(k)
		if next == nil || !matches(next, name, qt) {
			return nil
		}
		cur = next
		out = append(out, cur.body)
	}
	return out
}

func BadHalf(t *table, k uint64, name string, qt uint16) []byte {
	e := t.raw(k)
	if e == nil || !halfMatches(e, name, qt) {
		return nil
	}
	return serve(e)
}

func BadEarly(t *table, k uint64, name string, qt uint16) []byte {
	e := t.raw(k)
	if e == nil {
		return nil
	}
	b := serve(e)
	if !matches(e, name, qt) {
		return nil
	}
	return b
}

func BadConsumer(t *table, k uint64, name string, qt uint16) []byte {
	return consumeBad(t.raw(k), name, qt)
}

func BadOr(t *table, k uint64, name string, qt uint16) []byte {
	e := t.raw(k)
	if e != nil && (e.qtype == qt || sameName(e.name, name)) {
		return e.body
	}
	return nil
}

// BadReturn hands the raw value on without being a listed raw lookup.
func BadReturn(t *table, k uint64) *Entry { return t.raw(k) }

// GoodNamedBool: the verdict is kept in a named boolean built with && (a phi).
func GoodNamedBool(t *table, k uint64, name string, qt uint16) []byte {
	e := t.raw(k)
	usable := e != nil && e.qtype == qt && sameName(e.name, name)
	if !usable {
		return nil
	}
	return serve(e)
}

// BadNamedBool: the named boolean is an || of the two dimensions.
func BadNamedBool(t *table, k uint64, name string, qt uint16) []byte {
	e := t.raw(k)
	if e == nil {
		return nil
	}
	usable := e.qtype == qt || sameName(e.name, name)
	if !usable {
		return nil
	}
	return serve(e)
}
