// Package flow holds tiny good/bad functions for the engine positive controls.
package flow

import (
	"errors"
	"sync"
)

type T struct {
	mu    sync.RWMutex
	m     map[int]int
	ready bool
	n     int
}

func check(x int) bool       { return x > 0 }
func verify(x int) error     { if x < 0 { return errors.New("neg") }; return nil }
func sink(x int)             {}
func acquire() int           { return 1 }
func release(int)            {}
func produce() int           { return 7 }
func other() int             { return 8 }

// E2 must-cross
func GuardGood(x int) {
	if !check(x) {
		return
	}
	sink(x)
}
func GuardBad(x int) {
	if !check(x) {
		x++
	}
	sink(x)
}
func ErrGood(x int) int {
	if err := verify(x); err != nil {
		return 0
	}
	sink(x)
	return 1
}
func ErrBad(x int) int {
	if err := verify(x); err != nil {
		x = 0
	}
	sink(x)
	return 1
}
func ClosureGood(x int) {
	if !check(x) {
		return
	}
	f := func() { sink(x) }
	f()
}
func ClosureBad(x int) {
	f := func() { sink(x) }
	if !check(x) {
		return
	}
	f()
}
func AndGood(x int, t *T) {
	if t.ready && check(x) {
		sink(x)
	}
}
func AndBad(x int, t *T) {
	if t.ready || check(x) {
		sink(x)
	}
}

// E3 pairing
func PairGood(x int) int {
	h := acquire()
	defer release(h)
	if x > 3 {
		return 1
	}
	return 2
}
func PairGood2(x int) int {
	h := acquire()
	if x > 3 {
		release(h)
		return 1
	}
	release(h)
	return 2
}
func PairBad(x int) int {
	h := acquire()
	if x > 3 {
		return 1
	}
	release(h)
	return 2
}

// E6 lockset
func (t *T) LockGood(k int) int {
	t.mu.RLock()
	defer t.mu.RUnlock()
	return t.m[k]
}
func (t *T) LockBadWrite(k int) {
	t.mu.RLock()
	t.m[k] = 1
	t.mu.RUnlock()
}
func (t *T) LockBadNone(k int) int {
	t.mu.Lock()
	t.mu.Unlock()
	return t.m[k]
}
func (t *T) helperLocked(k int) { t.m[k] = 2 }
func (t *T) LockGoodHelper(k int) {
	t.mu.Lock()
	t.helperLocked(k)
	t.mu.Unlock()
}

// E4 origin
func OriginGood(x int) {
	v := produce()
	if x > 0 {
		v = produce()
	}
	sink(v)
}
func OriginBad(x int) {
	v := produce()
	if x > 0 {
		v = other()
	}
	sink(v)
}

// E1 who-may
func secret() {}
func AllowedCaller()  { secret() }
func IntruderCaller() { f := secret; f() }

// defer-spilled result: go/ssa stores the result in a cell when the function defers
func DeferRetGood(t *T, x int) bool {
	t.mu.Lock()
	defer t.mu.Unlock()
	if !check(x) {
		return false
	}
	return true
}
func DeferRetBad(t *T, x int) bool {
	t.mu.Lock()
	defer t.mu.Unlock()
	if !check(x) {
		return true
	}
	return true
}

// boolean variable assigned from a disjunction, branched on later in the same block
func PhiOrGood(x int, t *T) {
	skip := t.ready || check(x)
	if !skip {
		sink(x)
	}
}
func PhiOrBad(x int, t *T) {
	skip := t.n > 3 || check(x)
	if !skip {
		sink(x)
	}
}

// unexported helpers are seen through by summary
func syncAll(x int) error {
	if err := verify(x); err != nil {
		return err
	}
	return nil
}
func HelperErrGood(x int) int {
	if err := syncAll(x); err != nil {
		return 0
	}
	sink(x)
	return 1
}
func syncSome(x int) error {
	if x > 10 {
		return nil
	}
	if err := verify(x); err != nil {
		return err
	}
	return nil
}
func HelperErrBad(x int) int {
	if err := syncSome(x); err != nil {
		return 0
	}
	sink(x)
	return 1
}
func allChecked(x int) bool {
	for i := 0; i < x; i++ {
		if !check(i) {
			return false
		}
	}
	return check(x)
}
func HelperBoolGood(x int) {
	if !allChecked(x) {
		return
	}
	sink(x)
}
func emit(x int) { sink(x) }
func HelperTargetGood(x int) {
	if !check(x) {
		return
	}
	emit(x)
}
func HelperTargetBad(x int) {
	if !check(x) {
		x++
	}
	emit(x)
}
func releaseAll(h int) { release(h) }
func HelperPairGood(x int) int {
	h := acquire()
	if x > 3 {
		releaseAll(h)
		return 1
	}
	releaseAll(h)
	return 2
}

// ---- helper summaries, round 2 --------------------------------------------
// a predicate helper returning an || chain: its false result implies every atom false
func busy(x int) bool   { return x == 3 }
func broken(x int) bool { return x == 4 }
func anyBad(x int) bool { return busy(x) || broken(x) || x > 100 }
func someBad(x int) bool { return busy(x) || x > 100 } // forgets broken(x)
func OrChainGood(x int) {
	if anyBad(x) {
		return
	}
	sink(x)
}
func OrChainBad(x int) {
	if someBad(x) {
		return
	}
	sink(x)
}

// a guard spelled on the caller's value, evaluated inside a helper on its parameter
func checkedInHelper(v int) error {
	if err := verify(v); err != nil {
		return err
	}
	return nil
}
func uncheckedInHelper(v int) error {
	if err := verify(v + 1); err != nil { // verifies something else
		return err
	}
	return nil
}
func ParamGuardGood() int {
	y := produce()
	if err := checkedInHelper(y); err != nil {
		return 0
	}
	sink(y)
	return 1
}
func ParamGuardBad() int {
	y := produce()
	if err := uncheckedInHelper(y); err != nil {
		return 0
	}
	sink(y)
	return 1
}

// origins through a value-computing helper
func pick(a, b int) int {
	if a > b {
		return a
	}
	return produce()
}
func pickOther(a int) int {
	if a > 0 {
		return a
	}
	return other()
}
func OriginHelperGood() { sink(pick(produce(), produce())) }
func OriginHelperBad()  { sink(pickOther(produce())) }

// who-may with the construct extracted into a helper of the allowed caller
func secret2()          {}
func doSecret2()        { secret2() }
func AllowedCaller2()   { doSecret2() }
func secret3()          {}
func doSecret3()        { secret3() }
func AllowedCaller3()   { doSecret3() }
func IntruderCaller3()  { doSecret3() }
