module ctl

go 1.26.0
