package main

// C10-R12 (wave 4, change C10-w4g5c6) — a message that re-asks a question asks
// it in the question's class.
//
// (*dns.Msg).SetQuestion(name, qtype) always writes class IN.  A caller that
// passes it the Name AND the Qtype of one and the same dns.Question q is
// re-asking q on somebody's behalf (the failover writer re-asks the client's
// question at the fallback pool and relays the answer under the client's ID).
// The reply the client gets then answers q only if the outgoing question also
// carries q.Qclass; otherwise a CH/HS query is answered with the IN data of a
// question the client never asked.  Decided here, for every such call in the
// module (discovered through the callee and the field identities of its two
// arguments, not listed):
//
//   on every path from SetQuestion(q.Name, q.Qtype) on message M to the first
//   place M leaves the function (argument of a call that is not one of M's own
//   methods, or a return value) there is a store of q.Qclass into
//   M.Question[k].Qclass, or a store of q itself into M.Question[k].
//
// Anchor (so that the rule cannot pass vacuously): the message the failover
// writer hands to dnsclient.(*Client).Exchange has its question established
// either through such a SetQuestion call or by copying a Question / the
// Question slice of another message whole.
//
// Nothing is executed; no class value is looked at.

import (
	"go/types"

	"golang.org/x/tools/go/ssa"
)

func init() {
	wrap := func(id string, extra func(c *Ctx), explain string) {
		pd := props[id]
		if pd == nil {
			return
		}
		orig := pd.Run
		pd.Run = func(c *Ctx) { orig(c); extra(c) }
		pd.Explanation += " " + explain
	}
	wrap("C10", c10R12, "R12 (added): a message built with SetQuestion(q.Name, q.Qtype) from one Question q also receives q.Qclass before it leaves the function (SetQuestion writes class IN): the failover writer relays the fallback's answer under the client's ID, so a class-CH/HS query must not be re-asked — and answered — in class IN.")
}

func c10R12(c *Ctx) {
	const R = "C10-R12"
	c.Doc(R, "every (*dns.Msg).SetQuestion(q.Name, q.Qtype) whose two arguments are fields of the same dns.Question q (a question re-asked on behalf of its asker) is followed, on every path to the first use of the message outside its own methods, by a store of q.Qclass into the message's Question[k].Qclass (or of q whole into Question[k]); the failover writer's Exchange request is built that way or by a whole-question copy")
	setQ := c.fobj(R, "github.com/miekg/dns.(*Msg).SetQuestion")
	fName := c.field(R, "github.com/miekg/dns.Question.Name")
	fType := c.field(R, "github.com/miekg/dns.Question.Qtype")
	fClass := c.field(R, "github.com/miekg/dns.Question.Qclass")
	fQuestion := c.field(R, "github.com/miekg/dns.Msg.Question")
	exch := c.fobj(R, "internal/dnsclient.(*Client).Exchange")
	anchor := c.fn(R, "middleware/failover.(*ResponseWriter).WriteMsg")
	if setQ == nil || fName == nil || fType == nil || fClass == nil || fQuestion == nil || exch == nil || anchor == nil {
		return
	}
	isMsgMethod := func(cc *ssa.CallCommon) bool {
		if cc.IsInvoke() {
			return false
		}
		f := cc.StaticCallee()
		if f == nil || f.Signature.Recv() == nil {
			return false
		}
		o, _ := f.Object().(*types.Func)
		if o == nil || o.Pkg() == nil || o.Pkg().Path() != "github.com/miekg/dns" {
			return false
		}
		n, _ := deref(f.Signature.Recv().Type()).(*types.Named)
		return n != nil && n.Obj().Name() == "Msg"
	}
	fieldOf := func(e *Expr, fv *types.Var) (*Expr, bool) {
		e = strip(e)
		if e == nil || e.K != EField || e.Var == nil || e.Var != fv.Origin() || e.X == nil {
			return nil, false
		}
		return e.X, true
	}
	// M.Question[k] as an address / value: returns the description of M
	questionElemOf := func(e *Expr) (string, bool) {
		e = strip(e)
		if e == nil || e.K != EIndex || e.X == nil {
			return "", false
		}
		m, ok := fieldOf(e.X, fQuestion)
		if !ok {
			return "", false
		}
		return m.String(), true
	}

	type site struct {
		fn   *ssa.Function
		in   ssa.Instruction
		msg  string
		q    *Expr
		same bool
	}
	var sites []site
	for _, fn := range c.P.RepoFuncs() {
		for _, in := range instrsWhere(fn, isPlainCallTo(setQ)) {
			if in.Parent() != fn {
				continue
			}
			s := site{fn: fn, in: in, msg: Desc(callArg(in, 0)).String()}
			qa, okA := fieldOf(Desc(callArg(in, 1)), fName)
			qb, okB := fieldOf(Desc(callArg(in, 2)), fType)
			if okA && okB && qa.String() == qb.String() {
				s.q, s.same = qa, true
			}
			sites = append(sites, s)
		}
	}

	decided := map[*ssa.Function]bool{}
	for _, s := range sites {
		if !s.same {
			continue
		}
		s := s
		qStr := s.q.String()
		classOfQ := Contains(func(e *Expr) bool {
			x, ok := fieldOf(e, fClass)
			return ok && x.String() == qStr
		})
		bar := Barrier{Name: "M.Question[k].Qclass = q.Qclass", Instr: func(in ssa.Instruction) bool {
			st, ok := in.(*ssa.Store)
			if !ok {
				return false
			}
			addr := strip(Desc(st.Addr))
			// M.Question[k].Qclass = … q.Qclass …
			if el, ok := fieldOf(addr, fClass); ok {
				if m, ok := questionElemOf(el); ok && m == s.msg {
					return classOfQ(Desc(st.Val))
				}
				return false
			}
			// M.Question[k] = q
			if m, ok := questionElemOf(addr); ok && m == s.msg {
				v := strip(Desc(st.Val))
				return v != nil && v.String() == qStr
			}
			return false
		}}
		leaves := func(in ssa.Instruction) bool {
			if r, ok := in.(*ssa.Return); ok {
				for _, v := range r.Results {
					if Desc(v).String() == s.msg {
						return true
					}
				}
				return false
			}
			cc := callCommon(in)
			if cc == nil || isMsgMethod(cc) {
				return false
			}
			if _, isB := cc.Value.(*ssa.Builtin); isB {
				return false
			}
			for _, a := range cc.Args {
				if Desc(a).String() == s.msg {
					return true
				}
			}
			return false
		}
		key := R + "|" + fnKey(s.fn) + "|SetQuestion(q.Name, q.Qtype) is completed with q.Qclass before the message is used"
		decided[s.fn] = true
		r := reach([]Point{pointAfter(s.in)}, []Barrier{bar}, nil)
		var hit ssa.Instruction
		for _, t := range r.order {
			if leaves(t) {
				hit = t
				break
			}
		}
		if hit == nil {
			c.ok(R, key, instrPos(s.in), "the message receives the re-asked question's class on every path before it is handed on")
			continue
		}
		c.violation(R, key, instrPos(hit), "the message built with SetQuestion("+trunc(qStr, 80)+".Name, ….Qtype) reaches "+c.lineOf(hit)+" without "+trunc(qStr, 80)+".Qclass having been stored into its Question[k].Qclass: SetQuestion writes class IN, so a class CH / HS question is re-asked in class IN and the IN answer (question section `name TYPE IN`, IN records) is relayed to the client that asked something else, under its ID; path "+c.trail(r, hit))
	}

	// anchor: the failover writer's fallback request
	akey := R + "|" + fnKey(anchor) + "|the fallback request's question is the client's question, class included"
	var exs []ssa.Instruction
	for _, f := range WithAnons(anchor) {
		exs = append(exs, instrsWhere(f, isCallTo(exch))...)
	}
	if len(exs) == 0 {
		c.unresolved(R, fnKey(anchor)+"|Exchange", "the failover writer no longer calls dnsclient.(*Client).Exchange: the anchor of the rule is gone")
		return
	}
	for _, ex := range exs {
		msgE := strip(Desc(callArg(ex, 2)))
		msg := msgE.String()
		// the request may come out of a same-package constructor: its sites count
		var ctor *ssa.Function
		for _, o := range Origins(msgE, nil) {
			if o = strip(o); o != nil && (o.K == ECall || o.K == EExtract) {
				if o.K == EExtract {
					o = strip(o.X)
				}
				if o != nil && o.SFn != nil && o.SFn.Pkg == anchor.Pkg {
					ctor = o.SFn
				}
			}
		}
		viaSetQ, foreign := false, false
		for _, s := range sites {
			if ctor != nil && TopLevel(s.fn) == ctor {
				if s.same {
					viaSetQ = true
				} else {
					foreign = true
				}
				continue
			}
			if TopLevel(s.fn) == anchor && s.msg == msg {
				if s.same {
					viaSetQ = true
				} else {
					foreign = true
				}
			}
		}
		switch {
		case foreign:
			c.undecided(R, akey, instrPos(ex), "the request handed to Exchange is built with SetQuestion from something other than the Name and Qtype of one Question: whether it asks the client's question cannot be decided")
		case viaSetQ:
			c.ok(R, akey, instrPos(ex), "built with SetQuestion(q.Name, q.Qtype); the class is decided by the obligation above")
		default:
			// a whole copy: M.Question = <…other.Question…> or M.Question[k] = <other.Question[j]>
			whole := false
			for _, f := range WithAnons(anchor) {
				for _, in := range instrsWhere(f, func(in ssa.Instruction) bool { _, ok := in.(*ssa.Store); return ok }) {
					st := in.(*ssa.Store)
					addr := strip(Desc(st.Addr))
					var target string
					if m, ok := fieldOf(addr, fQuestion); ok {
						target = m.String()
					} else if m, ok := questionElemOf(addr); ok {
						target = m
					}
					if target != msg {
						continue
					}
					if Contains(func(e *Expr) bool {
						m, ok := fieldOf(e, fQuestion)
						return ok && m.String() != msg
					})(Desc(st.Val)) {
						whole = true
					}
				}
			}
			if whole {
				c.ok(R, akey, instrPos(ex), "the question is copied whole from another message")
			} else {
				c.undecided(R, akey, instrPos(ex), "the request handed to Exchange gets its question neither through SetQuestion(q.Name, q.Qtype) nor by a whole copy of another message's question: the rule does not recognise how it is built")
			}
		}
	}
}
