package main

// F-C19-2 / C19-R7 — "strip every client-supplied option" covers every OPT
// record of the request, not only the one (*dns.Msg).IsEdns0 happens to return.
//
// (*dns.Msg).IsEdns0 looks at ONE record: the last OPT of the additional
// section.  A function that normalises a client request by clearing the options
// of that record (`opt.Option = nil` on the result of req.IsEdns0()) has, by
// construction, said nothing about any other OPT record the client put into
// req.Extra — and the additional section travels upstream as a whole (the
// resolver copies leader.Extra into every attempt, the forwarder hands the
// request itself to the exchange).  The necessary condition is therefore local
// to the normaliser:
//
//   in every function that stores nil into dns.OPT.Option of a record obtained
//   from M.IsEdns0() (discovered through the field and the callee, so a second
//   normaliser is checked without being listed), every path from the
//   "IsEdns0() != nil" edge to a return
//     re-stores M'.Extra with a value that is computed from the old M'.Extra
//         through code that discriminates OPT records (a type test against
//         *dns.OPT / an Rrtype == TypeOPT comparison, in a called helper, in a
//         predicate handed to a filter, or inline).
//
// Decided on the SSA CFG; nothing is executed.  The barrier is spelled on the
// message the store itself names (M'.Extra = f(M'.Extra)), so it is recognised
// unchanged inside an unexported helper that received the request (the engine's
// helper summaries evaluate it there).
//
// A different repair — leaving the surplus OPT records in place and clearing the
// options of each in a loop — is not recognised: a loop body is not crossed on
// every path, so it would be reported and the rule would need a second clause.
//
// Not decided (value-level): that the filter drops exactly "the others" and
// keeps the normalised record; whether a non-OPT additional record of the
// client should travel upstream.

import (
	"fmt"
	"go/constant"
	"go/token"
	"go/types"

	"golang.org/x/tools/go/ssa"
)

// Rule id in one place: renumber here if the coordinator merges another C19 rule first.
const fC19_2Rule = "C19-R7"

func init() {
	wrap := func(id string, extra func(c *Ctx), explain string) {
		pd := props[id]
		if pd == nil {
			return
		}
		orig := pd.Run
		pd.Run = func(c *Ctx) { orig(c); extra(c) }
		pd.Explanation += " " + explain
	}
	wrap("C19", c19MultiOPT, "R7 (added): a function that clears the options of the OPT record req.IsEdns0() returns (one record: the last OPT) also rewrites req.Extra through an OPT-discriminating filter on every path of its EDNS arm, because the additional section travels upstream as a whole and a second client OPT would otherwise carry an un-clamped subnet and arbitrary options to the authorities.")
}

func c19MultiOPT(c *Ctx) {
	R := fC19_2Rule
	c.Doc(R, "every function that stores nil into OPT.Option of the record req.IsEdns0() returned re-stores req.Extra, on every path from the IsEdns0()!=nil edge to a return, with a value derived from the old req.Extra through an OPT-discriminating filter: IsEdns0 sees one OPT, the section is forwarded whole")
	optOption := c.field(R, "github.com/miekg/dns.OPT.Option")
	extraF := c.field(R, "github.com/miekg/dns.Msg.Extra")
	rrtypeF := c.field(R, "github.com/miekg/dns.RR_Header.Rrtype")
	isEdns0 := c.fobj(R, "github.com/miekg/dns.(*Msg).IsEdns0")
	optTN := c.P.TypeName("github.com/miekg/dns.OPT")
	if optTN == nil {
		c.unresolved(R, "dns.OPT", "type not found")
	}
	if optOption == nil || extraF == nil || rrtypeF == nil || isEdns0 == nil || optTN == nil {
		return
	}
	var typeOPT int64 = 41
	if v := c.P.ConstVal("github.com/miekg/dns.TypeOPT"); v != nil {
		if n, ok := constant.Int64Val(constant.ToInt(v)); ok {
			typeOPT = n
		}
	}

	isOPTType := func(t types.Type) bool {
		nt, ok := deref(t).(*types.Named)
		return ok && nt.Obj() == optTN
	}
	// an instruction that tells an OPT record from the others
	optTest := func(in ssa.Instruction) bool {
		switch x := in.(type) {
		case *ssa.TypeAssert:
			return isOPTType(x.AssertedType)
		case *ssa.BinOp:
			if x.Op != token.EQL && x.Op != token.NEQ {
				return false
			}
			l, r := Desc(x.X), Desc(x.Y)
			return (IsConstInt(typeOPT)(l) && Contains(FieldIs(rrtypeF))(r)) || (IsConstInt(typeOPT)(r) && Contains(FieldIs(rrtypeF))(l))
		}
		return false
	}
	// discriminates(f): f, its closures, the module functions it calls statically and
	// the function values it is handed contain an OPT test (depth-bounded).
	memo := map[*ssa.Function]int{} // 1 yes, 2 no, 3 in progress
	var discriminates func(f *ssa.Function, depth int) bool
	exprDiscriminates := func(e *Expr, depth int) bool {
		return Contains(func(x *Expr) bool {
			if x == nil || x.SFn == nil {
				return false
			}
			switch x.K {
			case ECall, EFunc, EClosure:
				return discriminates(x.SFn, depth)
			}
			return false
		})(e)
	}
	discriminates = func(f *ssa.Function, depth int) bool {
		if f == nil || depth > 3 || len(f.Blocks) == 0 {
			return false
		}
		if p := fnPkg(f); p == nil || !c.P.inModule(p.Path()) {
			return false
		}
		switch memo[f] {
		case 1:
			return true
		case 2, 3:
			return false
		}
		memo[f] = 3
		found := false
		for _, g := range WithAnons(f) {
			for _, b := range g.Blocks {
				for _, in := range b.Instrs {
					if found {
						break
					}
					if optTest(in) {
						found = true
						break
					}
					if cc := callCommon(in); cc != nil {
						if sf := cc.StaticCallee(); sf != nil && discriminates(sf, depth+1) {
							found = true
							break
						}
						for _, a := range cc.Args {
							if _, isFn := a.Type().Underlying().(*types.Signature); isFn && exprDiscriminates(Desc(a), depth+1) {
								found = true
								break
							}
						}
					}
				}
			}
		}
		if found {
			memo[f] = 1
		} else {
			memo[f] = 2
		}
		return found
	}

	// fromExtraElem: the value is (a type assertion of) an element of some Msg.Extra —
	// and not the record IsEdns0 settled on.
	fromExtraElem := func(e *Expr) bool {
		return Contains(FieldIs(extraF))(e) && !Contains(CallTo(isEdns0))(e)
	}

	coversEveryOPT := Barrier{Name: "req.Extra rewritten through an OPT filter", Instr: func(in ssa.Instruction) bool {
		st, ok := in.(*ssa.Store)
		if !ok {
			return false
		}
		fa, ok := st.Addr.(*ssa.FieldAddr)
		if !ok {
			return false
		}
		switch {
		case isFieldStore(in, extraF, nil):
			base := Desc(fa.X).String()
			val := Desc(st.Val)
			fromOld := Contains(func(x *Expr) bool { return x.K == EField && x.Var == extraF && x.X != nil && x.X.String() == base })(val)
			if !fromOld {
				return false
			}
			if exprDiscriminates(val, 0) {
				return true // helper / filter + predicate
			}
			// inline loop: the section is rebuilt by append in a function that tests the
			// elements of an Extra section for being OPT
			if !Contains(func(x *Expr) bool { return x.K == ECall && x.Method == "builtin.append" })(val) {
				return false
			}
			for _, g := range WithAnons(TopLevel(in.Parent())) {
				for _, t := range instrsWhere(g, optTest) {
					switch x := t.(type) {
					case *ssa.TypeAssert:
						if fromExtraElem(Desc(x.X)) {
							return true
						}
					case *ssa.BinOp:
						if fromExtraElem(Desc(x.X)) || fromExtraElem(Desc(x.Y)) {
							return true
						}
					}
				}
			}
			return false
		}
		return false
	}}

	// discover the normalisers: nil stores into OPT.Option of a record that IsEdns0 returned
	// (the record may reach the store through a parameter of an unexported helper).
	var fromIsEdns0 func(v ssa.Value, fn *ssa.Function, depth int) bool
	fromIsEdns0 = func(v ssa.Value, fn *ssa.Function, depth int) bool {
		for _, l := range Origins(Desc(v), nil) {
			if CallTo(isEdns0)(l) {
				return true
			}
			if l.K != EParam || depth >= 2 || l.Idx < 0 {
				continue
			}
			pv, ok := l.V.(*ssa.Parameter)
			if !ok {
				continue
			}
			fo := funcObjOf(pv.Parent())
			if fo == nil || fo.Exported() {
				continue
			}
			for _, s := range c.CallSites(fo) {
				if s.Kind == "ref" || s.Kind == "invoke" {
					continue
				}
				if av := callArg(s.Instr, l.Idx); av != nil && fromIsEdns0(av, s.Fn, depth+1) {
					return true
				}
			}
		}
		return false
	}
	// the function whose EDNS arm is walked: the one that holds the IsEdns0 branch
	holder := func(fn *ssa.Function) []*ssa.Function {
		edge := OnTrue("req.IsEdns0()!=nil", CallTo(isEdns0))
		top := TopLevel(fn)
		if len(edgePoints(top, edge)) > 0 {
			return []*ssa.Function{top}
		}
		var out []*ssa.Function
		if fo := funcObjOf(top); fo != nil && !fo.Exported() {
			for _, s := range c.CallSites(fo) {
				if s.Kind == "call" && len(edgePoints(TopLevel(s.Fn), edge)) > 0 {
					out = append(out, TopLevel(s.Fn))
				}
			}
		}
		return out
	}
	done := map[*ssa.Function]bool{}
	n := 0
	for _, site := range c.StoreSites(optOption) {
		st, ok := site.Instr.(*ssa.Store)
		if !ok || !IsNilConst(Desc(st.Val)) {
			continue
		}
		fa, ok := st.Addr.(*ssa.FieldAddr)
		if !ok || !fromIsEdns0(fa.X, site.Fn, 0) {
			continue
		}
		hs := holder(site.Fn)
		if len(hs) == 0 {
			c.unresolved(R, fnKey(TopLevel(site.Fn))+"|IsEdns0 branch", "options of the IsEdns0 record are cleared here, but no function branching on IsEdns0()!=nil was found to walk")
			continue
		}
		for _, h := range hs {
			if done[h] {
				continue
			}
			done[h] = true
			n++
			c.AfterEdge(R, h, "EDNS arm returns with the options of another client OPT record still in req.Extra",
				OnTrue("req.IsEdns0()!=nil", CallTo(isEdns0)), isReturn, coversEveryOPT)
		}
	}
	if n == 0 {
		c.unresolved(R, "option strip on the IsEdns0 record", fmt.Sprintf("no function clears OPT.Option of the record IsEdns0 returns (found %d)", n))
	}
}
