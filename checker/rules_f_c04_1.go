package main

// C04-R11 (finding F-C04-1) — in DNS64 synthesis "no SOA" is never spelled as
// a TTL value.
//
// RFC 6147 §5.1.7: synthesised TTL = min(A TTL, negative TTL of the AAAA
// answer); the 600 s ceiling applies only when the answer carries NO SOA.  A
// negative TTL of 0 is a TTL like any other (a cached denial in its last
// second is served with SOA TTL 0), so the choice between "SOA-derived bound"
// and "ceiling" must be made on the PRESENCE of the SOA:
//   (a) negativeAAAATTL reports absence out of band: if its only result is an
//       integer, no return outside the `rr.(*dns.SOA)` found-edge may yield a
//       constant (that constant would be indistinguishable from a real TTL);
//   (b) a boolean result of negativeAAAATTL is a constant at every return, and
//       `true` is returned only across the SOA found-edge (the flag does not
//       depend on the TTL's value);
//   (c) at every call site (discovered through the callee) the TTL result is
//       never zero-tested (compared with the constants 0 or 1) — such a test
//       can only be re-reading the value as a presence flag.
// Nothing is executed.

import (
	"fmt"
	"go/constant"
	"go/token"
	"go/types"

	"golang.org/x/tools/go/ssa"
)

func init() {
	wrap := func(id string, extra func(c *Ctx), explain string) {
		pd := props[id]
		if pd == nil {
			return
		}
		orig := pd.Run
		pd.Run = func(c *Ctx) { orig(c); extra(c) }
		pd.Explanation += " " + explain
	}
	wrap("C04", c04R11, "R11 (added, F-C04-1): DNS64 chooses between the SOA-derived negative TTL and the 600 s no-SOA ceiling on the presence of the SOA, never on the TTL's value — negativeAAAATTL reports absence out of band (constant presence flag, true only across the SOA found-edge) and no caller zero-tests the TTL it returns.")
}

func c04R11(c *Ctx) { c04R11as(c, "C04-R11") }

// c04R11as runs the rule under the given rule id (the clause is claimed by two properties).
func c04R11as(c *Ctx, R string) {
	const path = "middleware/dns64.negativeAAAATTL"
	c.Doc(R, "DNS64 (RFC 6147 §5.1.7): the SOA-derived negative TTL bounds the synthesised AAAA whenever an SOA is present, zero included — (a) negativeAAAATTL does not encode 'no SOA' as an integer constant when the integer is its only result, (b) its boolean result is a constant at every return and true only across the rr.(*dns.SOA) found-edge, (c) no call site compares the returned TTL with the constants 0/1 (a zero-test re-reads the TTL as a presence flag and swaps the shortest bound there is for the 600 s ceiling)")
	fn := c.fn(R, path)
	fo := c.fobj(R, path)
	soaT := c.P.TypeName("github.com/miekg/dns.SOA")
	if soaT == nil {
		c.unresolved(R, "github.com/miekg/dns.SOA", "type not found")
	}
	if fn == nil || fo == nil || soaT == nil {
		return
	}
	isSOAAssert := func(e *Expr) bool {
		if e == nil || e.K != EExtract || e.Idx != 1 || e.X == nil || e.X.K != ETypeAssert {
			return false
		}
		ta, ok := e.X.V.(*ssa.TypeAssert)
		if !ok {
			return false
		}
		nt, ok := deref(ta.AssertedType).(*types.Named)
		return ok && nt.Obj() == soaT
	}
	found := OnTrue("rr.(*dns.SOA)", isSOAAssert)
	isInt := func(t types.Type) bool {
		b, ok := t.Underlying().(*types.Basic)
		return ok && b.Info()&types.IsInteger != 0
	}
	isBool := func(t types.Type) bool {
		b, ok := t.Underlying().(*types.Basic)
		return ok && b.Info()&types.IsBoolean != 0
	}
	sig := fo.Type().(*types.Signature)
	res := sig.Results()

	// (a) + (b): the callee
	keyA := R + "|negativeAAAATTL|absence of an SOA is reported out of band"
	for _, b := range fn.Blocks {
		for _, in := range b.Instrs {
			r, ok := in.(*ssa.Return)
			if !ok {
				continue
			}
			if res.Len() == 1 && isInt(res.At(0).Type()) {
				// the integer is all the caller gets: a constant returned where no SOA was
				// found is a TTL the caller cannot tell from a real one
				isK := false
				for _, l := range Origins(Desc(r.Results[0]), nil) {
					if IsAnyConst(l) {
						isK = true
					}
				}
				if !isK {
					c.ok(R, keyA, instrPos(in), "returns the SOA-derived value")
				} else if ug, _ := c.unguarded(in, []Barrier{found}, fn); ug {
					c.violation(R, keyA, instrPos(in), "negativeAAAATTL's only result is the TTL and it returns a constant where no SOA was found: 'no SOA' and 'SOA with that negative TTL' (a cached denial in its last second shows TTL 0) are the same value to the caller, which then applies the 600 s ceiling to an answer that had less than a second left")
				} else {
					c.ok(R, keyA, instrPos(in), "constant returned only where an SOA was found")
				}
				continue
			}
			for i := 0; i < res.Len() && i < len(r.Results); i++ {
				if !isBool(res.At(i).Type()) {
					continue
				}
				// a flag merged from several assignments (named result, break out of the
				// loop) is a phi: judge every incoming value where it comes from
				type inc struct {
					v  ssa.Value
					at ssa.Instruction
				}
				incs := []inc{{r.Results[i], in}}
				if ph, isPhi := r.Results[i].(*ssa.Phi); isPhi {
					incs = nil
					for j, ev := range ph.Edges {
						pred := ph.Block().Preds[j]
						incs = append(incs, inc{ev, pred.Instrs[len(pred.Instrs)-1]})
					}
				}
				for _, ic := range incs {
					d := strip(Desc(ic.v))
					switch {
					case IsConstBool(false)(d):
						c.ok(R, keyA, instrPos(in), "reports 'no SOA' out of band")
					case IsConstBool(true)(d):
						if ug, tr := c.unguarded(ic.at, []Barrier{found}, fn); ug {
							c.violation(R, keyA, instrPos(in), "negativeAAAATTL reports an SOA as present on a path that never saw one; path "+tr)
						} else {
							c.ok(R, keyA, instrPos(in), "reports 'SOA present' only across the rr.(*dns.SOA) found-edge")
						}
					default:
						c.violation(R, keyA, instrPos(in), "negativeAAAATTL's presence flag is computed ("+trunc(d.String(), 100)+") instead of following the SOA's presence: a negative TTL of 0 must still count as 'SOA present'")
					}
				}
			}
		}
	}

	// (c): the callers
	isZeroOrOne := func(v ssa.Value) bool {
		k, ok := v.(*ssa.Const)
		if !ok || k.Value == nil || k.Value.Kind() != constant.Int {
			return false
		}
		n, ok := constant.Int64Val(k.Value)
		return ok && (n == 0 || n == 1)
	}
	cmp := map[token.Token]bool{token.EQL: true, token.NEQ: true, token.LSS: true, token.LEQ: true, token.GTR: true, token.GEQ: true}
	isTTL := ResultOf(0, fo)
	n := 0
	seenTop := map[*ssa.Function]bool{}
	for _, s := range c.CallSites(fo) {
		top := TopLevel(s.Fn)
		if seenTop[top] {
			continue
		}
		seenTop[top] = true
		n++
		key := fmt.Sprintf("%s|%s|negative TTL is never zero-tested", R, fnKey(top))
		var bad ssa.Instruction
		for _, f := range WithAnons(top) {
			for _, b := range f.Blocks {
				for _, in := range b.Instrs {
					bo, ok := in.(*ssa.BinOp)
					if !ok || !cmp[bo.Op] {
						continue
					}
					if (isZeroOrOne(bo.Y) && isTTL(Desc(bo.X))) || (isZeroOrOne(bo.X) && isTTL(Desc(bo.Y))) {
						bad = in
					}
				}
			}
		}
		if bad != nil {
			c.violation(R, key, instrPos(bad), "the TTL returned by negativeAAAATTL is zero-tested: a negative answer whose SOA TTL is 0 (served from the cache in the last second of its life, or sent so by the authority) is treated as carrying no SOA, and the synthesised AAAA gets min(600 s, A TTL) instead of 0")
		} else {
			c.ok(R, key, instrPos(s.Instr), "the SOA-derived TTL is used as data; the ceiling is not chosen by testing it against 0")
		}
	}
	if n == 0 {
		c.unresolved(R, "negativeAAAATTL callers", "no call site found")
	}
	c.Floor(R, 3)
}
