package main

// C03-R11 (finding F-C03-3) — the refresh of a shared entry asks the question
// no client subnet is attached to.
//
// The prefetch worker repeats a copy of the request of whichever client's hit
// claimed the refresh, and writes the answer back over the entry that claimed
// it (ReplaceIfCurrent inherits that entry's — shared — scope without looking
// at the reply).  If the copy still carries that client's ECS option the
// authority tailors and scopes the answer to one subnet and it becomes the
// shared entry.  Structurally, for every call of Cache.prefetchExchange(ctx, M)
// (sites discovered through the callee), every path from the function's entry
// to the call crosses one of
//   * a store  M.IsEdns0().Option = V  with V free of ECS options by
//     construction: nil, an empty slice, or built only by appends that sit
//     behind the not-*dns.EDNS0_SUBNET edge (o.(*dns.EDNS0_SUBNET) false /
//     o.Option() != dns.EDNS0SUBNET) — directly or as the result of a
//     same-package filter function, the way edns.stripECS is judged by C19-R3;
//   * a call handing M to a same-package function that crosses such a store
//     (or the no-OPT edge) for that parameter on every path;
//   * the call that produces M, when M is the result of a same-package function
//     every return of which hands out a value that has crossed one of these
//     barriers inside that function (the copy-and-strip block split off into a
//     builder);
//   * the edge on which M has no OPT at all (M.IsEdns0() == nil);
//   * the edge on which the entry being refreshed is scoped
//     ((*CacheEntry).scoped() true) — a scoped entry's refresh would need its
//     subnet (scoped entries are not prefetch-eligible today);
// or M is a message built in the function itself.  Nothing is executed.

import (
	"fmt"
	"go/constant"
	"go/token"
	"go/types"

	"golang.org/x/tools/go/ssa"
)

func init() {
	wrap := func(id string, extra func(c *Ctx), explain string) {
		pd := props[id]
		if pd == nil {
			return
		}
		orig := pd.Run
		pd.Run = func(c *Ctx) { orig(c); extra(c) }
		pd.Explanation += " " + explain
	}
	wrap("C03", c03R11, "R11 (added, F-C03-3): the message handed to Cache.prefetchExchange has had every EDNS Client Subnet option removed from its OPT (or has no OPT, or the entry being refreshed is scoped) on every path — the refresh of a shared entry must not be tailored to the subnet of whichever client's hit triggered it.")
}

func c03R11(c *Ctx) { c03R11as(c, "C03-R11") }

// c03R11as runs the rule under the given rule id (the clause is claimed by two properties).
func c03R11as(c *Ctx, R string) {
	c.Doc(R, "every call of Cache.prefetchExchange(ctx, M) is reachable only across (a) a store M.IsEdns0().Option = V with V free of ECS options by construction (nil / empty / appends only behind the not-*dns.EDNS0_SUBNET edge, directly or as the result of a same-package filter), (b) a same-package call that does so for M on every path, (c) the edge M.IsEdns0() == nil, or (d) the edge (*CacheEntry).scoped() == true; or M is built in the function itself — a refresh that ReplaceIfCurrent files under the shared entry's key must not carry the subnet of the client whose hit claimed it")
	pfx := c.fobj(R, c03Pkg+".(*Cache).prefetchExchange")
	isEdns0 := c.fobj(R, "github.com/miekg/dns.(*Msg).IsEdns0")
	optOption := c.field(R, "github.com/miekg/dns.OPT.Option")
	scoped := c.fobj(R, c03Pkg+".(*CacheEntry).scoped")
	subnetT := c.P.TypeName("github.com/miekg/dns.EDNS0_SUBNET")
	ecsCode := c.P.ConstVal("github.com/miekg/dns.EDNS0SUBNET")
	if subnetT == nil || ecsCode == nil {
		c.unresolved(R, "github.com/miekg/dns.EDNS0_SUBNET", "type or option-code constant not found")
	}
	if pfx == nil || isEdns0 == nil || optOption == nil || scoped == nil || subnetT == nil || ecsCode == nil {
		return
	}

	// the "is an ECS option" test of a filter loop, as a branch atom
	isECSAssert := func(e *Expr) bool {
		if e == nil || e.K != EExtract || e.Idx != 1 || e.X == nil || e.X.K != ETypeAssert {
			return false
		}
		ta, ok := e.X.V.(*ssa.TypeAssert)
		if !ok {
			return false
		}
		nt, ok := deref(ta.AssertedType).(*types.Named)
		return ok && nt.Obj() == subnetT
	}
	isECSCode := func(e *Expr) bool {
		e = strip(e)
		return e != nil && e.K == EConst && e.Val != nil && e.Val.Kind() == constant.Int && constant.Compare(constant.ToInt(e.Val), token.EQL, constant.ToInt(ecsCode))
	}
	keepEdges := []Barrier{
		OnFalse("o.(*dns.EDNS0_SUBNET)", isECSAssert),
		OnCmp("o.Option() != dns.EDNS0SUBNET", MethodNamed("Option"), token.NEQ, isECSCode, true),
	}
	isZero := func(v ssa.Value) bool {
		if v == nil {
			return true
		}
		k, ok := v.(*ssa.Const)
		if !ok || k.Value == nil {
			return false
		}
		n, ok := constant.Int64Val(constant.ToInt(k.Value))
		return ok && n == 0
	}
	samePkgFn := func(cc *ssa.CallCommon, from *ssa.Function) *ssa.Function {
		if cc == nil || cc.IsInvoke() {
			return nil
		}
		h := cc.StaticCallee()
		if h == nil {
			if mc, ok := cc.Value.(*ssa.MakeClosure); ok {
				h, _ = mc.Fn.(*ssa.Function)
			}
		}
		if h == nil || len(h.Blocks) == 0 || fnPkg(h) == nil || fnPkg(h) != fnPkg(from) {
			return nil
		}
		return h
	}
	// ecsFree: the slice value holds no ECS option by construction
	var ecsFree func(v ssa.Value, seen map[ssa.Value]bool, depth int) bool
	ecsFree = func(v ssa.Value, seen map[ssa.Value]bool, depth int) bool {
		if v == nil || depth > 14 {
			return false
		}
		if seen[v] {
			return true // a loop-carried value: decided by its other operands
		}
		seen[v] = true
		switch x := v.(type) {
		case *ssa.Const:
			return x.Value == nil
		case *ssa.Slice:
			return x.High != nil && isZero(x.High) && isZero(x.Low) // s[:0]
		case *ssa.MakeSlice:
			return isZero(x.Len)
		case *ssa.ChangeType:
			return ecsFree(x.X, seen, depth+1)
		case *ssa.Phi:
			for _, e := range x.Edges {
				if !ecsFree(e, seen, depth+1) {
					return false
				}
			}
			return len(x.Edges) > 0
		case *ssa.UnOp:
			if x.Op != token.MUL {
				return false
			}
			al, ok := x.X.(*ssa.Alloc)
			if !ok {
				return false
			}
			stores := cellStores(al)
			if stores == nil {
				return false
			}
			for _, s := range stores {
				if !ecsFree(s, seen, depth+1) {
					return false
				}
			}
			return true
		case *ssa.Extract:
			cl, ok := x.Tuple.(*ssa.Call)
			if !ok {
				return false
			}
			h := samePkgFn(&cl.Call, cl.Parent())
			if h == nil {
				return false
			}
			rets := returnsWhere(h, x.Index, nil)
			for _, r := range rets {
				if !ecsFree(r.(*ssa.Return).Results[x.Index], seen, depth+1) {
					return false
				}
			}
			return len(rets) > 0
		case *ssa.Call:
			if b, ok := x.Call.Value.(*ssa.Builtin); ok {
				if b.Name() != "append" || len(x.Call.Args) != 2 {
					return false
				}
				// a single element (variadic pack) must sit behind the keep edge;
				// append(a, b...) joins two lists that must both be clean
				single := false
				if sl, ok := x.Call.Args[1].(*ssa.Slice); ok {
					if al, ok := sl.X.(*ssa.Alloc); ok && al.Comment == "varargs" {
						single = true
					}
				}
				if single {
					if ug, _ := c.unguarded(x, keepEdges, TopLevel(x.Parent())); ug {
						return false
					}
				} else if !ecsFree(x.Call.Args[1], seen, depth+1) {
					return false
				}
				return ecsFree(x.Call.Args[0], seen, depth+1)
			}
			h := samePkgFn(&x.Call, x.Parent())
			if h == nil {
				return false
			}
			rets := returnsWhere(h, 0, nil)
			for _, r := range rets {
				if !ecsFree(r.(*ssa.Return).Results[0], seen, depth+1) {
					return false
				}
			}
			return len(rets) > 0
		}
		return false
	}
	// strip store for the message matched by isM
	stripStore := func(in ssa.Instruction, isM func(*Expr) bool) bool {
		st, ok := in.(*ssa.Store)
		if !ok || !isFieldStore(in, optOption, nil) {
			return false
		}
		base := strip(Desc(st.Addr.(*ssa.FieldAddr).X))
		if base == nil || base.K != ECall || base.Fn == nil || !sameFunc(base.Fn, isEdns0) || len(base.Args) < 1 || !isM(base.Args[0]) {
			return false
		}
		return ecsFree(st.Val, map[ssa.Value]bool{}, 0)
	}
	noOPT := func(isM func(*Expr) bool) Barrier {
		return OnFalse("M.IsEdns0()", func(e *Expr) bool {
			e = strip(e)
			return e != nil && e.K == ECall && e.Fn != nil && sameFunc(e.Fn, isEdns0) && len(e.Args) >= 1 && isM(e.Args[0])
		})
	}
	// stripsParam: h removes the ECS options of its parameter k on every path to a return
	var stripsParam func(h *ssa.Function, k int, depth int) bool
	// returnsStripped: every value h returns at result idx has been stripped (or has
	// no OPT, or the entry is scoped, or is built in h) on every path to that return
	var returnsStripped func(h *ssa.Function, idx int, depth int) bool
	var barriersFor func(isM func(*Expr) bool, depth int) []Barrier
	barriersFor = func(isM func(*Expr) bool, depth int) []Barrier {
		return []Barrier{
			{Name: "opt.Option = <no ECS option>", Instr: func(in ssa.Instruction) bool { return stripStore(in, isM) }},
			{Name: "M = stripping builder(…)", Instr: func(in ssa.Instruction) bool {
				// M is the result of a same-package function that hands out only
				// stripped requests (the copy-and-strip block split off into a builder)
				if depth >= 3 {
					return false
				}
				var cl *ssa.Call
				idx := 0
				switch x := in.(type) {
				case *ssa.Call:
					cl = x
				case *ssa.Extract:
					cl, _ = x.Tuple.(*ssa.Call)
					idx = x.Index
				}
				v, _ := in.(ssa.Value)
				if cl == nil || v == nil || !isM(Desc(v)) {
					return false
				}
				h := samePkgFn(&cl.Call, cl.Parent())
				return h != nil && returnsStripped(h, idx, depth+1)
			}},
			{Name: "strip helper(M)", Instr: func(in ssa.Instruction) bool {
				cl, ok := in.(*ssa.Call)
				if !ok || depth >= 3 {
					return false
				}
				h := samePkgFn(&cl.Call, cl.Parent())
				if h == nil {
					return false
				}
				for k, a := range cl.Call.Args {
					if k < len(h.Params) && isM(Desc(a)) && stripsParam(h, k, depth+1) {
						return true
					}
				}
				return false
			}},
			noOPT(isM),
		}
	}
	stripsParam = func(h *ssa.Function, k int, depth int) bool {
		isP := func(e *Expr) bool {
			e = strip(e)
			if e == nil || e.K != EParam || e.Idx != k {
				return false
			}
			p, ok := e.V.(*ssa.Parameter)
			return ok && p.Parent() == h
		}
		r := reach(entryPoint(h), barriersFor(isP, depth), nil)
		n := 0
		for _, b := range h.Blocks {
			for _, in := range b.Instrs {
				if isReturn(in) {
					n++
					if r.visited[in] {
						return false
					}
				}
			}
		}
		return n > 0
	}

	returnsStripped = func(h *ssa.Function, idx int, depth int) bool {
		n := 0
		for _, b := range h.Blocks {
			for _, in := range b.Instrs {
				r, ok := in.(*ssa.Return)
				if !ok || idx >= len(r.Results) {
					continue
				}
				n++
				rd := Desc(r.Results[idx])
				if rs := strip(rd); rs != nil && rs.K == EAlloc {
					continue // built in h, not copied from a client's
				}
				rStr := rd.String()
				isR := func(e *Expr) bool { return e != nil && e.String() == rStr }
				bars := append(barriersFor(isR, depth), OnTrue("entry.scoped()", CallTo(scoped)))
				if reach(entryPoint(h), bars, nil).visited[in] {
					return false
				}
			}
		}
		return n > 0
	}

	n := 0
	for _, s := range c.CallSites(pfx) {
		n++
		top := TopLevel(s.Fn)
		key := fmt.Sprintf("%s|%s|refresh request carries no client-subnet option", R, fnKey(top))
		if s.Kind != "call" {
			c.violation(R, key, instrPos(s.Instr), "prefetchExchange is used as a "+s.Kind+": the request it is handed cannot be decided")
			continue
		}
		mv := callArg(s.Instr, 2)
		if mv == nil {
			c.undecided(R, key, instrPos(s.Instr), "request argument of prefetchExchange not found")
			continue
		}
		md := Desc(mv)
		if ms := strip(md); ms != nil && ms.K == EAlloc {
			c.ok(R, key, instrPos(s.Instr), "the refresh request is built here, not copied from a client's")
			continue
		}
		mStr := md.String()
		isM := func(e *Expr) bool { return e != nil && e.String() == mStr }
		bars := append(barriersFor(isM, 0), OnTrue("entry.scoped()", CallTo(scoped)))
		if ug, trail := c.unguarded(s.Instr, bars, top); ug {
			c.violation(R, key, instrPos(s.Instr), fmt.Sprintf("the refresh request %s reaches prefetchExchange with the triggering client's EDNS Client Subnet option still on its OPT (no ECS-free store to its options, not the no-OPT edge, entry not scoped): the authority tailors the answer to that subnet and ReplaceIfCurrent files it under the shared key; path %s", trunc(mStr, 80), trail))
		} else {
			c.ok(R, key, instrPos(s.Instr), "every path to prefetchExchange strips the ECS options of the request's OPT (or the request has no OPT / the entry is scoped)")
		}
	}
	if n == 0 {
		c.unresolved(R, "prefetchExchange", "no call site found")
	}
	c.Floor(R, 1)
}
