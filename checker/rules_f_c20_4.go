package main

// F-C20-4 / C20-R13 — the AAAA negative TTL is min(SOA TTL, SOA MINIMUM) at
// every value of MINIMUM, zero included.
//
// C20-R7 fences one half of the min-fold in negativeAAAATTL: the MINIMUM is
// selected only behind `Minttl < ttl` (the result is never LARGER than the SOA
// TTL).  The defect was in the other half: the SOA header TTL was selected on
// a path on which `Minttl < ttl` had not been found false — the extra atom
// `Minttl > 0` sent MINIMUM == 0 down the "keep the header TTL" arm, so the
// result exceeded the MINIMUM and the synthesised AAAA outlived the denial it
// is derived from (RFC 2308 §5, RFC 6147 §5.1.7).  The necessary condition is
// the converse of R7:
//
//   wherever the value negativeAAAATTL returns (result #0) is the SOA record's
//   header TTL, that selection happens only across the edge on which
//   `Minttl < ttl` is FALSE (any spelling: mirrored, negated, >=) — no other
//   condition may route a record to the header-TTL arm.  A builtin
//   min(ttl, Minttl) satisfies it by construction; an unexported helper taking
//   both values is decided by FoldOfTwo; an unexported helper taking the SOA is
//   entered and judged on its own returns.
//
// Decided on the SSA CFG from field identity (dns.SOA.Minttl, dns.RR_Header.Ttl);
// nothing is executed and no source text is matched.

import (
	"go/token"

	"golang.org/x/tools/go/ssa"
)

const fC20_4Rule = "C20-R13"

func init() {
	wrap := func(id string, extra func(c *Ctx), explain string) {
		pd := props[id]
		if pd == nil {
			return
		}
		orig := pd.Run
		pd.Run = func(c *Ctx) { orig(c); extra(c) }
		pd.Explanation += " " + explain
	}
	wrap("C20", c20R13, "R13 (added, F-C20-4): negativeAAAATTL keeps the SOA header TTL only across the edge on which Minttl < ttl is false (or folds the two with min): no other atom — in particular no zero-test of the MINIMUM — may route an SOA to the header-TTL arm, so MINIMUM 0 bounds the synthesised AAAA like any other value.")
}

func c20R13(c *Ctx) {
	R := fC20_4Rule
	c.Doc(R, "negativeAAAATTL is a total min-fold of the SOA's header TTL and its MINIMUM (RFC 2308 §5): the header TTL is what is returned only across the edge on which `Minttl < ttl` is false — builtin min, a two-value helper that keeps the smaller, or a compare-and-assign with no further atom; the converse half (MINIMUM only behind Minttl < ttl) is C20-R7")
	fn := c.fn(R, "middleware/dns64.negativeAAAATTL")
	minttl := c.field(R, "github.com/miekg/dns.SOA.Minttl")
	hdrTTL := c.field(R, "github.com/miekg/dns.RR_Header.Ttl")
	if fn == nil || minttl == nil || hdrTTL == nil {
		return
	}
	key := R + "|negativeAAAATTL|SOA TTL kept only when the MINIMUM is not smaller"
	isHdr := func(v ssa.Value) bool { return FieldIs(hdrTTL)(strip(Desc(v))) }
	isMin := func(v ssa.Value) bool { return FieldIs(minttl)(strip(Desc(v))) }
	notSmaller := []Barrier{OnCmp("Minttl<ttl is false", FieldIs(minttl), token.LSS, FieldIs(hdrTTL), false)}

	checked, bad, viaFold := 0, 0, false
	var firstBad ssa.Instruction
	var firstOK ssa.Instruction

	// sel judges value v, which is what the function returns when `guarded`
	// describes the facts known at the point v is selected.
	var sel func(v ssa.Value, at ssa.Instruction, top *ssa.Function, guarded func() bool, seen map[ssa.Value]bool, depth int)
	retsOf := func(h *ssa.Function, idx int, seen map[ssa.Value]bool, depth int) {
		for _, b := range h.Blocks {
			for _, in := range b.Instrs {
				r, ok := in.(*ssa.Return)
				if !ok || idx >= len(r.Results) {
					continue
				}
				ret := r
				sel(r.Results[idx], in, h, func() bool { ug, _ := c.unguarded(ret, notSmaller, h); return !ug }, seen, depth)
			}
		}
	}
	sel = func(v ssa.Value, at ssa.Instruction, top *ssa.Function, guarded func() bool, seen map[ssa.Value]bool, depth int) {
		if v == nil || depth > 8 {
			return
		}
		switch x := v.(type) {
		case *ssa.Phi:
			// only merge points are visited once (loop phis); a leaf is judged once per
			// edge it arrives on — the same load usually reaches a merge over several edges
			if seen[v] {
				return
			}
			seen[v] = true
			for i, ev := range x.Edges {
				if i >= len(x.Block().Preds) {
					continue
				}
				pred, blk := x.Block().Preds[i], x.Block()
				sel(ev, at, top, func() bool { return c.edgeGuarded(pred, blk, notSmaller, top) || guarded() }, seen, depth+1)
			}
			return
		case *ssa.ChangeType:
			sel(x.X, at, top, guarded, seen, depth+1)
			return
		case *ssa.Convert:
			sel(x.X, at, top, guarded, seen, depth+1)
			return
		case *ssa.Extract:
			if cl, ok := x.Tuple.(*ssa.Call); ok {
				if h := localHelper(top, &cl.Call); h != nil {
					retsOf(h, x.Index, seen, depth+1)
				}
			}
			return
		case *ssa.Call:
			hasH, hasM := false, false
			for _, a := range x.Call.Args {
				if isHdr(a) {
					hasH = true
				} else if isMin(a) {
					hasM = true
				}
			}
			if bi, ok := x.Call.Value.(*ssa.Builtin); ok && hasH && hasM {
				checked++
				if bi.Name() == "min" {
					if firstOK == nil {
						firstOK = at
					}
				} else {
					bad++
					if firstBad == nil {
						firstBad = at
					}
				}
				return
			}
			if h := localHelper(top, &x.Call); h != nil {
				if hasH && hasM {
					viaFold = true // a two-value helper: FoldOfTwo decides which one it keeps
					return
				}
				retsOf(h, 0, seen, depth+1)
			}
			return
		}
		if isHdr(v) {
			checked++
			if guarded() {
				if firstOK == nil {
					firstOK = at
				}
			} else {
				bad++
				if firstBad == nil {
					firstBad = at
				}
			}
		}
	}
	seen := map[ssa.Value]bool{}
	retsOf(fn, 0, seen, 0)

	if viaFold {
		c.FoldOfTwo(R, key, fn, FieldIs(hdrTTL), FieldIs(minttl), false, "negative TTL = min(SOA TTL, SOA MINIMUM)")
	}
	switch {
	case bad > 0:
		c.violation(R, key, instrPos(firstBad), "negativeAAAATTL returns the SOA header TTL on a path on which `Minttl < ttl` was not found false (another atom, e.g. a zero-test of the MINIMUM, routes the record to the header-TTL arm): for such an SOA the result exceeds min(SOA TTL, MINIMUM) and the synthesised AAAA outlives the negative answer it is derived from — MINIMUM 0 ('do not cache this denial') yields the full header TTL")
	case checked > 0:
		c.ok(R, key, instrPos(firstOK), "the SOA header TTL is returned only across the false edge of Minttl < ttl (or through builtin min)")
	case !viaFold:
		c.unresolved(R, "negativeAAAATTL", "no return drawing on the SOA header TTL found (neither compare-and-assign, builtin min, nor a helper): the min(SOA TTL, MINIMUM) fold could not be located")
	}
}
