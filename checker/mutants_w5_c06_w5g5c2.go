package main

// Regression mutants for W5 C06-w5g5c2 (C06-R11 = C19-R15): the filter an additional section is rebuilt
// through cuts out the first foreign OPT and moves the rest of the section wholesale.
func init() {
	const seededOld = "\tother := false\n\tfor _, rr := range extra {\n\t\tif opt, ok := rr.(*dns.OPT); ok && opt != keep {\n\t\t\tother = true\n\t\t\tbreak\n\t\t}\n\t}\n\tif !other {\n\t\treturn extra\n\t}\n\tkept := make([]dns.RR, 0, len(extra)-1)\n\tfor _, rr := range extra {\n\t\tif opt, ok := rr.(*dns.OPT); ok && opt != keep {\n\t\t\tcontinue\n\t\t}\n\t\tkept = append(kept, rr)\n\t}\n\treturn kept\n"
	const seededNew = "\tfor i, rr := range extra {\n\t\tif opt, ok := rr.(*dns.OPT); ok && opt != keep {\n\t\t\tkept := make([]dns.RR, 0, len(extra)-1)\n\t\t\tkept = append(kept, extra[:i]...)\n\t\t\treturn append(kept, extra[i+1:]...)\n\t\t}\n\t}\n\treturn extra\n"
	const copyNew = "\tcut := -1\n\tfor i, rr := range extra {\n\t\tif opt, ok := rr.(*dns.OPT); ok && opt != keep {\n\t\t\tcut = i\n\t\t\tbreak\n\t\t}\n\t}\n\tif cut < 0 {\n\t\treturn extra\n\t}\n\tkept := make([]dns.RR, len(extra)-1)\n\tcopy(kept, extra[:cut])\n\tcopy(kept[cut:], extra[cut+1:])\n\treturn kept\n"
	for _, p := range []struct{ prop, rule string }{{"C06", "C06-R11"}, {"C19", "C19-R15"}} {
		sfx := "-" + p.prop
		addMutants(p.prop, []Mutant{
			{ID: "w5g5c2-first-foreign-opt-cut-rest-appended" + sfx, File: "middleware/edns/edns.go", Expect: p.rule + "|middleware/edns.dropOtherOPTs|append(.., tail...)",
				Old: seededOld, New: seededNew,
				Why: "seeded C06-w5g5c2: dropOtherOPTs cuts out the first OPT that is not the client-facing one and appends extra[i+1:] wholesale; with three or more OPT records of a relayed reply the 2nd..nth foreign OPT (ECS option, upstream cookie) reaches the client, and keepOPTOnly picks a foreign OPT for the TC=1 reply"},
			{ID: "w5g5c2-first-foreign-opt-cut-rest-copied" + sfx, File: "middleware/edns/edns.go", Expect: p.rule + "|middleware/edns.dropOtherOPTs|copy(.., tail)",
				Old: seededOld, New: copyNew,
				Why: "variant: scan with break for the first foreign OPT, then copy(kept, extra[:cut]); copy(kept[cut:], extra[cut+1:]) - one cut, the records after it never tested"},
			{ID: "w5g5c2-filterout-rest-appended-after-first-drop" + sfx, File: "internal/dnsutil/helpers.go", Expect: p.rule + "|internal/dnsutil.filterOut|append(.., tail...)",
				Old: "\tfor _, rr := range rrs[firstDrop+1:] {\n\t\tif drop(rr) {\n\t\t\tcontinue\n\t\t}\n\t\tkept = append(kept, rr)\n\t}\n\treturn kept\n",
				New: "\tkept = append(kept, rrs[firstDrop+1:]...)\n\treturn kept\n",
				Why: "variant in the other filter (dnsutil.filterOut behind ClearOPT): the records after the first dropped one are appended wholesale - a no-EDNS client's reply keeps the 2nd OPT of a relayed reply (and ClearDNSSEC keeps every RRSIG after the first)"},
		})
	}
}
