package main

// Finding F-C12-1: the alias chase in Cache.additionalAnswer is re-entrant — the
// sub-query it issues runs through the sub-pipeline, whose cache runs the same
// chase one nesting level deeper (up to maxCnameChaseDepth levels) — and each
// invocation paid ONE unit of its ten-hop budget per sub-query, however many
// hops the nested levels had walked to produce that sub-query's reply.  The
// budgets multiply (10^10 resolutions for one endless chain).
//
//   C12-R9  while nested invocations may chase (maxCnameChaseDepth > 1), the
//       amount debited from the loop-carried hop counter of the chase loop is
//       computed from the sub-query's response (result #0 of internalExchange:
//       through a helper that receives it, len() of one of its sections, or a
//       count made in a loop that ranges over one) on every path from the
//       sub-query back to the next one.  A debit that does not look at the
//       response cannot charge what the nested chase consumed.
//
// Not decided (value level): that the amount equals the number of alias records
// (any response-derived amount passes), and the resulting total bound.

import (
	"fmt"
	"go/constant"
	"go/token"

	"golang.org/x/tools/go/ssa"
)

func init() {
	w := func(id string, extra func(c *Ctx), explain string) {
		pd := props[id]
		if pd == nil {
			return
		}
		orig := pd.Run
		pd.Run = func(c *Ctx) { orig(c); extra(c) }
		pd.Explanation += " " + explain
	}
	w("C12", fC121ChaseDebit, "R9 (added, F-C12-1): the alias chase is re-entrant through the sub-pipeline (nesting up to maxCnameChaseDepth), so the per-invocation hop counter of Cache.additionalAnswer is debited, on every way from one sub-query to the next, by an amount computed from that sub-query's response — the hops the nested levels walked are charged to this level's budget instead of multiplying it.")
}

func fC121ChaseDebit(c *Ctx) {
	const R = "C12-R9"
	const cp = "middleware/cache"
	c.Doc(R, "Cache.additionalAnswer is re-entrant (its sub-query's reply is produced by the same chase one level deeper while the nesting counter is below maxCnameChaseDepth): every subtraction applied to the chase loop's carried hop counter between one internalExchange call and the next takes an amount that derives from that call's response (data: a helper/len/max over it; or control: a count accumulated in a loop whose condition ranges over it); a constant debit per sub-query lets every nesting level multiply the budget of the level above (10^maxCnameChaseDepth resolutions for one client query, ended only by the deadline)")
	fn := c.fn(R, cp+".(*Cache).additionalAnswer")
	ie := c.fobj(R, cp+".(*Cache).internalExchange")
	if fn == nil || ie == nil {
		return
	}
	key := R + "|additionalAnswer|hop budget is charged what the sub-query consumed"
	if mv := c.P.ConstVal(cp + ".maxCnameChaseDepth"); mv == nil {
		c.unresolved(R, cp+".maxCnameChaseDepth", "constant not found")
		return
	} else if constant.Compare(mv, token.LEQ, constant.MakeInt64(1)) {
		c.ok(R, key, fn.Pos(), "nested invocations cannot chase (maxCnameChaseDepth <= 1): a per-sub-query debit is exact")
		return
	}
	isResp := ResultOf(0, ie)
	inCycleAvoiding := func(a, b, avoid *ssa.BasicBlock) bool {
		reaches := func(from, to *ssa.BasicBlock) bool {
			seen := map[*ssa.BasicBlock]bool{}
			var dfs func(x *ssa.BasicBlock) bool
			dfs = func(x *ssa.BasicBlock) bool {
				if x == to {
					return true
				}
				if seen[x] || x == avoid {
					return false
				}
				seen[x] = true
				for _, s := range x.Succs {
					if dfs(s) {
						return true
					}
				}
				return false
			}
			for _, s := range from.Succs {
				if dfs(s) {
					return true
				}
			}
			return false
		}
		return reaches(a, b) && reaches(b, a)
	}
	inCycle := func(a, b *ssa.BasicBlock) bool { return inCycleAvoiding(a, b, nil) }
	// does v derive from the sub-query's response?
	var subQueryBlock *ssa.BasicBlock // the chase loop itself is not a "count over the response"
	var derives func(v ssa.Value, d int, seen map[ssa.Value]bool) bool
	derives = func(v ssa.Value, d int, seen map[ssa.Value]bool) bool {
		if v == nil || d > 10 || seen[v] {
			return false
		}
		seen[v] = true
		if Contains(isResp)(Desc(v)) {
			return true
		}
		switch x := v.(type) {
		case *ssa.Phi:
			for _, e := range x.Edges {
				if derives(e, d+1, seen) {
					return true
				}
			}
			// a count accumulated under a condition that looks at the response
			// (for _, r := range resp.Answer { if … { n++ } })
			for _, b := range x.Parent().Blocks {
				if len(b.Instrs) == 0 {
					continue
				}
				iff, ok := b.Instrs[len(b.Instrs)-1].(*ssa.If)
				if !ok || b == subQueryBlock || x.Block() == subQueryBlock || !inCycleAvoiding(b, x.Block(), subQueryBlock) {
					continue
				}
				if Contains(isResp)(condOf(iff)) {
					return true
				}
			}
		case *ssa.BinOp:
			return derives(x.X, d+1, seen) || derives(x.Y, d+1, seen)
		case *ssa.Convert:
			return derives(x.X, d+1, seen)
		case *ssa.Call:
			for _, a := range x.Call.Args {
				if derives(a, d+1, seen) {
					return true
				}
			}
		case *ssa.Extract:
			return derives(x.Tuple, d+1, seen)
		}
		return false
	}
	// the loop-carried counter: a phi merging a constant with its own decrement
	leadsTo := func(v ssa.Value, phi *ssa.Phi) bool {
		seen := map[ssa.Value]bool{}
		var back func(w ssa.Value) bool
		back = func(w ssa.Value) bool {
			if w == ssa.Value(phi) {
				return true
			}
			if seen[w] {
				return false
			}
			seen[w] = true
			switch z := w.(type) {
			case *ssa.Phi:
				for _, e := range z.Edges {
					if back(e) {
						return true
					}
				}
			case *ssa.BinOp:
				if z.Op == token.SUB {
					return back(z.X)
				}
			}
			return false
		}
		return back(v)
	}
	n := 0
	for _, call := range instrsWhere(fn, isCallTo(ie)) {
		if call.Parent() != fn {
			continue
		}
		cb := call.Block()
		subQueryBlock = cb
		var debits []*ssa.BinOp
		for _, b := range fn.Blocks {
			if !inCycle(b, cb) && b != cb {
				continue
			}
			for _, in := range b.Instrs {
				sub, ok := in.(*ssa.BinOp)
				if !ok || sub.Op != token.SUB {
					continue
				}
				// sub.X is (a phi web of) a counter phi with a constant seed that this very subtraction feeds
				for _, b2 := range fn.Blocks {
					for _, in2 := range b2.Instrs {
						phi, ok := in2.(*ssa.Phi)
						if !ok {
							break
						}
						hasConst, fed := false, false
						for _, e := range phi.Edges {
							if _, isC := e.(*ssa.Const); isC {
								hasConst = true
							}
							if e == ssa.Value(sub) {
								fed = true
							}
						}
						if hasConst && fed && leadsTo(sub.X, phi) {
							debits = append(debits, sub)
						}
					}
				}
			}
		}
		if !inCycle(cb, cb) {
			n++
			c.ok(R, key, instrPos(call), "the sub-query is not inside a loop")
			continue
		}
		if len(debits) == 0 {
			n++
			c.violation(R, key, instrPos(call), "no debit of a loop-carried hop counter found in the chase loop (C12-R8 decides the bound; nothing here charges the nested chase)")
			continue
		}
		for _, sub := range debits {
			n++
			if derives(sub.Y, 0, map[ssa.Value]bool{}) {
				c.ok(R, key, instrPos(sub), fmt.Sprintf("the debit %s is computed from the sub-query's response", trunc(Desc(sub.Y).String(), 100)))
			} else {
				c.violation(R, key, instrPos(sub), fmt.Sprintf("the hop counter is debited by %s per sub-query, an amount that does not look at the sub-query's response: the reply may carry a whole chain walked by the nested invocations (each with a fresh budget of its own), so the budgets multiply across the %s nesting levels", trunc(Desc(sub.Y).String(), 80), c.P.ConstVal(cp+".maxCnameChaseDepth").ExactString()))
			}
		}
	}
	if n == 0 {
		c.unresolved(R, "additionalAnswer|internalExchange", "no call found")
	}
	c.Floor(R, 1)
}
