package main

import (
	"fmt"
	"go/token"
	"go/types"
	"strings"

	"golang.org/x/tools/go/ssa"
)

func init() {
	register(&PropDef{
		ID:    "C13",
		Title: "Cached failures (RFC 9520) suppress only what failed, for a bounded time",
		Run:   runC13,
		Explanation: "Decided (who-may, guards, origins, constants): " +
			"R1 the creators of shared failure state are enumerated (FailureCache.record ← RecordQuestion/RecordZone ← Store.recordFailureQuestion/RecordZoneFailure ← RecordFailure, setFromResponseWithKey, SetEntryWithKey ← WriteMsg, Cache.Set, subQuery, recordResolutionZoneFailure) and each route is behind its locality guard: WriteMsg records only across cacheableResolutionFailure(ctx, same response)=true and stores only responses it classified as non-failures; cacheableResolutionFailure ≡ no ctx error ∧ ¬best-effort ∧ no work enforcement error ∧ no request-local mark; recordResolutionZoneFailure publishes only across its eight negative atoms; subQuery writes to the store only across resolve err==nil and no enforcement error; Cache.Set has no in-tree caller; " +
			"R2 walkFailureZones shortens the zone only at dns.NextLabel offsets (or to the root), walkWireSuffixes advances by 1+length octet; " +
			"R3 streak/retryAfter are written only in FailureCache.record (streak ∈ {1, streak+1}, retryAfter = now.Add(initialTTL | backoff(streak))); backoff returns maxTTL or a value behind ttl>maxTTL=false that grows only by ×2 from initialTTL; NewFailureCache constructs only across MaxTTL>ceiling=false with ceiling ≤ 5 min and is the only writer of maxTTL/initialTTL; the default constants are ≤ 5 min; " +
			"R4 every load of Store.failure is behind failureCacheDisabled=false, and the switch is written once from !cfg.RFC9520Enabled(); " +
			"R5 dns64 reaches synthesise only across isCachedFailureResponse=false and RequestLocalFailureForResponse=nil, isCachedFailureResponse is true for a marked response, handleFailureHit marks the very response it writes and every failure-cache hit in ServeDNS ends without ch.Next / joining a generation; failover reaches Exchange only across its probe-limit / request-error / work-limit checks; " +
			"R6 after a useful answer WriteMsg always calls resetMatchingFailures with the client scope; an unscoped positive store write resets the exact question, a scoped one neither resets nor records the global audience; " +
			"R7 Regroup only across counter < K with K ≤ 1, the counter starts once and grows by one per Regroup; a timed-out generation never leads to another Join/Regroup/ch.Next.",
		NotDecided: []string{
			"the actual sequence of TTLs over failure histories (value-level) and eviction effects",
			"concurrency of recorders (the CAS retry loop advancing the streak exactly once)",
			"'without upstream traffic' as an observable on the wire",
			"that every request-local cause inside resolve's cone is returned as an error and never as a response (C12)",
			"exact key equality / preimage verification of failure lookups (C03-R2/R3)",
		},
	})
}

type c13A struct {
	cachePkg, resolverPkg                                                      string
	recordQ, recordZ, record, backoff, newFC                                   *types.Func
	sRecordQ, sRecordFailure, sRecordZone, sResetQ, sResetMatching             *types.Func
	sSetKey, sSetScoped, sSet, sSetCut, sSetInner, sSetEntry                   *types.Func
	sLookupFailure, sRetryKey                                                  *types.Func
	cSet, handleHit, probeLimit, cacheable                                     *types.Func
	reqLocal, workErr, bestEffort, effErr, markCached, isCachedM, metaFrom, nx *types.Func
	classify, errorsIs                                                         *types.Func
}

func runC13(c *Ctx) {
	const cp = "middleware/cache"
	a := &c13A{cachePkg: c.P.expand(cp), resolverPkg: c.P.expand("middleware/resolver")}
	r0 := "C13-R0"
	a.recordQ = c.fobj(r0, cp+".(*FailureCache).RecordQuestion")
	a.recordZ = c.fobj(r0, cp+".(*FailureCache).RecordZone")
	a.record = c.fobj(r0, cp+".(*FailureCache).record")
	a.backoff = c.fobj(r0, cp+".(*FailureCache).backoff")
	a.newFC = c.fobj(r0, cp+".NewFailureCache")
	a.sRecordQ = c.fobj(r0, cp+".(*Store).recordFailureQuestion")
	a.sRecordFailure = c.fobj(r0, cp+".(*Store).RecordFailure")
	a.sRecordZone = c.fobj(r0, cp+".(*Store).RecordZoneFailure")
	a.sResetQ = c.fobj(r0, cp+".(*Store).resetQuestionFailure")
	a.sResetMatching = c.fobj(r0, cp+".(*Store).resetMatchingFailures")
	a.sSetKey = c.fobj(r0, cp+".(*Store).SetFromResponseWithKey")
	a.sSetScoped = c.fobj(r0, cp+".(*Store).SetFromResponseScoped")
	a.sSet = c.fobj(r0, cp+".(*Store).SetFromResponse")
	a.sSetCut = c.fobj(r0, cp+".(*Store).SetFromResponseWithCut")
	a.sSetInner = c.fobj(r0, cp+".(*Store).setFromResponseWithKey")
	a.sSetEntry = c.fobj(r0, cp+".(*Store).SetEntryWithKey")
	a.sLookupFailure = c.fobj(r0, cp+".(*Store).LookupFailure")
	a.sRetryKey = c.fobj(r0, cp+".(*Store).FailureRetryKey")
	a.cSet = c.fobj(r0, cp+".(*Cache).Set")
	a.handleHit = c.fobj(r0, cp+".(*Cache).handleFailureHit")
	a.probeLimit = c.fobj(r0, cp+".(*Cache).writeFailureProbeLimit")
	a.cacheable = c.fobj(r0, cp+".cacheableResolutionFailure")
	a.reqLocal = c.fobj(r0, "middleware.RequestLocalFailureForResponse")
	a.workErr = c.fobj(r0, "middleware.RecursionWorkEnforcementError")
	a.bestEffort = c.fobj(r0, "middleware.IsBestEffortRecursionWork")
	a.effErr = c.fobj(r0, "internal/contextutil.EffectiveError")
	a.markCached = c.fobj(r0, "middleware.(*ResponseMeta).MarkCachedFailureResponse")
	a.isCachedM = c.fobj(r0, "middleware.(*ResponseMeta).IsCachedFailureResponse")
	a.metaFrom = c.fobj(r0, "middleware.ResponseMetaFrom")
	a.nx = c.fobj(r0, "middleware.(*Chain).Next")
	a.classify = c.fobj(r0, "internal/dnsutil.ClassifyResponse")
	a.errorsIs = c.fobj(r0, "errors.Is")
	for _, f := range []*types.Func{a.recordQ, a.recordZ, a.record, a.backoff, a.newFC, a.sRecordQ, a.sRecordFailure, a.sRecordZone, a.sResetQ, a.sResetMatching,
		a.sSetKey, a.sSetScoped, a.sSet, a.sSetCut, a.sSetInner, a.sSetEntry, a.sLookupFailure, a.sRetryKey, a.cSet, a.handleHit, a.probeLimit, a.cacheable,
		a.reqLocal, a.workErr, a.bestEffort, a.effErr, a.markCached, a.isCachedM, a.metaFrom, a.nx, a.classify, a.errorsIs} {
		if f == nil {
			return
		}
	}
	c13R1(c, a)
	c13R2(c, a)
	c13R3(c, a)
	c13R4(c, a)
	c13R5(c, a)
	c13R6(c, a)
	c13R7(c, a)
}

func (c *Ctx) c13Key(path string) string {
	f := c.P.Func(path)
	if f == nil {
		c.unresolved("C13-R0", path, "anchor function not found")
		return path
	}
	return fnKey(f)
}

// ---------------------------------------------------------------------------
// R1 admission filter

func c13R1(c *Ctx, a *c13A) {
	const R = "C13-R1"
	const cp = "middleware/cache"
	c.Doc(R, "admission filter: the creators of shared failure state are exactly the enumerated chain, and each route into it is behind its locality guard (client write-back: cacheableResolutionFailure on the same response; resolver zone failures: eight negative atoms; resolver-private store writes: resolve err==nil and no enforcement error; compatibility Cache.Set: no in-tree caller)")
	who := func(what string, f *types.Func, allow map[string]string) {
		sites := c.CallSites(f)
		if len(sites) == 0 && len(allow) == 0 {
			c.ok(R, R+"|"+what+"|no caller", token.NoPos, what+": no non-test call site in the module")
			return
		}
		c.WhoMay(R, what, sites, allow)
	}
	who("call FailureCache.record", a.record, map[string]string{
		c.c13Key(cp + ".(*FailureCache).RecordQuestion"): "exact-question failure",
		c.c13Key(cp + ".(*FailureCache).RecordZone"):     "zone failure",
	})
	who("call FailureCache.RecordQuestion", a.recordQ, map[string]string{c.c13Key(cp + ".(*Store).recordFailureQuestion"): "the one question-failure writer"})
	who("call FailureCache.RecordZone", a.recordZ, map[string]string{c.c13Key(cp + ".(*Store).RecordZoneFailure"): "the one zone-failure writer"})
	who("call Store.recordFailureQuestion", a.sRecordQ, map[string]string{
		c.c13Key(cp + ".(*Store).RecordFailure"):          "admitted by the caller (WriteMsg / Cache.Set)",
		c.c13Key(cp + ".(*Store).setFromResponseWithKey"): "SERVFAIL arm of an unscoped store write (resolver-private sub-queries)",
		c.c13Key(cp + ".(*Store).SetEntryWithKey"):        "compatibility path of Cache.Set",
	})
	who("call Store.RecordFailure", a.sRecordFailure, map[string]string{
		c.c13Key(cp + ".(*ResponseWriter).WriteMsg"): "client write-back behind cacheableResolutionFailure",
		c.c13Key(cp + ".(*Cache).Set"):               "compatibility entry point (no in-tree caller)",
	})
	who("call Store.RecordZoneFailure", a.sRecordZone, map[string]string{
		c.c13Key("middleware/resolver.(*Resolver).recordResolutionZoneFailure"): "behind the eight locality atoms",
	})
	who("call Store.SetEntryWithKey", a.sSetEntry, map[string]string{c.c13Key(cp + ".(*Cache).Set"): "compatibility entry point"})
	who("call Cache.Set", a.cSet, map[string]string{})
	who("call Store.SetFromResponse / SetFromResponseWithCut", a.sSetCut, map[string]string{
		c.c13Key(cp + ".(*Store).SetFromResponse"):           "wrapper",
		c.c13Key("middleware/resolver.(*Resolver).subQuery"): "resolver-private store write",
	})
	who("call Store.SetFromResponse", a.sSet, map[string]string{
		c.c13Key("middleware/resolver.(*Resolver).subQuery"): "resolver-private store write",
	})
	who("call Store.setFromResponseWithKey", a.sSetInner, map[string]string{
		c.c13Key(cp + ".(*Store).SetFromResponseWithCut"): "resolver-private store write",
		c.c13Key(cp + ".(*Store).SetFromResponseWithKey"): "WriteMsg, non-failure responses only",
		c.c13Key(cp + ".(*Store).SetFromResponseScoped"):  "WriteMsg, scoped: never records",
	})
	who("call Store.SetFromResponseWithKey/Scoped", a.sSetKey, map[string]string{c.c13Key(cp + ".(*ResponseWriter).WriteMsg"): "non-failure responses only"})
	who("call Store.SetFromResponseScoped", a.sSetScoped, map[string]string{c.c13Key(cp + ".(*ResponseWriter).WriteMsg"): "non-failure responses only"})

	// (a) WriteMsg
	wm := c.fn(R, cp+".(*ResponseWriter).WriteMsg")
	if wm != nil {
		for _, in := range instrsWhere(wm, isCallTo(a.sRecordFailure)) {
			resp := Desc(callArg(in, 1)).String()
			c.c13Guarded(R, wm, "RecordFailure behind cacheableResolutionFailure(ctx, same response)", []ssa.Instruction{in},
				OnTrue("cacheableResolutionFailure(ctx, out)", func(e *Expr) bool {
					e = strip(e)
					return e != nil && e.K == ECall && sameFunc(e.Fn, a.cacheable) && len(e.Args) == 2 && e.Args[1].String() == resp
				}))
		}
		sf := c.P.ConstVal("internal/dnsutil.TypeServerFailure")
		if sf == nil {
			c.unresolved(R, "internal/dnsutil.TypeServerFailure", "constant not found")
		} else {
			// the store write may sit in WriteMsg or in an unexported helper split off
			// from it: the classification guard then stands in WriteMsg, on the value
			// the helper is handed (c13GuardedVal follows the stored response out of
			// the helper's parameter to the argument of each call site)
			writes := instrsInScope(wm, isCallTo(a.sSetKey, a.sSetScoped))
			if len(writes) == 0 {
				c.unresolved(R, fnKey(wm)+"|store write only for a response classified as a non-failure", "no store write found in WriteMsg or its helpers (rule would pass vacuously)")
			}
			for _, in := range writes {
				c.c13GuardedVal(R, wm, "store write only for a response classified as a non-failure", in, callArg(in, 2), func(rv ssa.Value) []Barrier {
					return []Barrier{c13OnCmp("ClassifyResponse(same res) != TypeServerFailure", func(e *Expr) bool {
						e = strip(e)
						if e == nil || e.K != EExtract || e.Idx != 0 || e.X == nil || e.X.K != ECall || !sameFunc(e.X.Fn, a.classify) || len(e.X.Args) < 1 {
							return false
						}
						return e.X.Args[0].V == rv
					}, token.EQL, c13ConstIs(sf), false)}
				})
			}
		}
	}
	// (b) cacheableResolutionFailure: decided on the evaluated CFG (any guard
	// shape: && chain, early returns, named locals, extracted bool helpers)
	if cf := c.fn(R, cp+".cacheableResolutionFailure"); cf != nil {
		judged := func(e *Expr) bool {
			e = strip(e)
			if e == nil || e.K != ECall || !sameFunc(e.Fn, a.reqLocal) || len(e.Args) != 2 {
				return false
			}
			m := strip(e.Args[1])
			return m != nil && m.K == EParam && m.Idx == 1
		}
		atoms := []c09Atom{
			c09TruthyAtom("request context error", CallTo(a.effErr)),
			c09TruthyAtom("best-effort recursion work", CallTo(a.bestEffort)),
			c09TruthyAtom("recursion-work enforcement error", CallTo(a.workErr)),
			c09TruthyAtom("request-local mark on the judged response", judged),
		}
		for _, at := range atoms {
			name := at.Name
			c.c09RequireWhen(R, R+"|cacheableResolutionFailure|admits only without "+name, cf, 0, atoms, true,
				func(v map[string]bool) bool { return !v[name] }, "no "+name)
		}
	}
	// (c) resolver zone failures
	if rz := c.fn(R, "middleware/resolver.(*Resolver).recordResolutionZoneFailure"); rz != nil {
		targets := c13MethodCalls(rz, "RecordZoneFailure")
		isCause := func(e *Expr) bool { e = strip(e); return e != nil && e.K == EParam && e.Name == "cause" }
		isZone := func(e *Expr) bool { e = strip(e); return e != nil && e.K == EParam && e.Name == "zone" }
		bars := []Barrier{
			c13OnCmp("zone!=\"\"", isZone, token.EQL, func(e *Expr) bool {
				e = strip(e)
				return e != nil && e.K == EConst && e.Val != nil && e.Val.ExactString() == `""`
			}, false),
			OnFalse("IsBestEffortRecursionWork", CallTo(a.bestEffort)),
			OnFalse("EffectiveError(ctx)", CallTo(a.effErr)),
		}
		for _, s := range []string{"context.Canceled", "context.DeadlineExceeded", "middleware.ErrRecursionWorkLimit", "middleware.ErrResolutionAttemptLimit", "middleware.ErrMaxRecursion"} {
			obj := c.P.Object(s)
			if obj == nil {
				c.unresolved(R, s, "sentinel not found")
				continue
			}
			bars = append(bars, OnFalse("errors.Is(cause, "+s+")", c13ErrorsIs(a.errorsIs, obj, isCause)))
		}
		for _, b := range bars {
			c.c13Guarded(R, rz, "RecordZoneFailure needs "+b.Name, targets, b)
		}
	}
	// (d) resolver-private store writes
	if sq := c.fn(R, "middleware/resolver.(*Resolver).subQuery"); sq != nil {
		resolve := c.fobj(R, "middleware/resolver.(*Resolver).resolve")
		targets := c13MethodCalls(sq, "SetFromResponse", "SetFromResponseWithCut")
		if resolve != nil {
			c.c13Guarded(R, sq, "store write needs resolve err==nil", targets, OnFalse("resolve err", ResultOf(1, resolve)))
			workF := c.field(R, "middleware/resolver.resolveState.work")
			bars := []Barrier{OnFalse("work.EnforcementError()", MethodNamed("EnforcementError"))}
			if workF != nil {
				bars = append(bars, OnFalse("child.work!=nil", FieldIs(workF)))
			}
			c.c13Guarded(R, sq, "store write needs no work-enforcement error", targets, bars...)
		}
	}
	c.Floor(R, 41)
}

// c13ConstIs: integer constant equal to v (C13-local copy so the file set is self-contained).
func c13ConstIs(v interface{ ExactString() string }) Pat {
	want := v.ExactString()
	return func(e *Expr) bool {
		e = strip(e)
		return e != nil && e.K == EConst && e.Val != nil && e.Val.ExactString() == want
	}
}

// ---------------------------------------------------------------------------
// R2 label-boundary walks

func c13R2(c *Ctx, a *c13A) {
	const R = "C13-R2"
	const cp = "middleware/cache"
	c.Doc(R, "ancestor walks move on label boundaries only: in walkFailureZones the visited zone is CanonicalName(name), the root, or zone[dns.NextLabel(zone,0):]; in walkWireSuffixes the offset starts at 0 and advances by 1 + int(name[off]) (the length octet) behind c<=63 and in-bounds checks; exact ECS audience: every Store.RecordFailure call made by a cache.ResponseWriter method passes that writer's clientScope (never a constant or another prefix), and Cache.ServeDNS hands the writer the very scope value it used for LookupFailure/FailureRetryKey — a failure produced for one audience is recorded, looked up and reset under that audience only")
	if fn := c.fn(R, cp+".walkFailureZones"); fn != nil {
		nextLabel := c.fobj(R, "github.com/miekg/dns.NextLabel")
		canon := c.fobj(R, "github.com/miekg/dns.CanonicalName")
		n := 0
		for _, in := range instrsWhere(fn, func(in ssa.Instruction) bool {
			cl, ok := in.(*ssa.Call)
			if !ok || cl.Call.IsInvoke() || cl.Call.StaticCallee() != nil {
				return false
			}
			_, isBuiltin := cl.Call.Value.(*ssa.Builtin)
			return !isBuiltin && len(cl.Call.Args) == 1
		}) {
			n++
			zv := in.(*ssa.Call).Call.Args[0]
			key := R + "|walkFailureZones|visited zone"
			bad := ""
			for _, t := range c13PhiTerminals(zv) {
				e := Desc(t)
				s := strip(e)
				switch {
				case CallTo(canon)(e):
				case s != nil && s.K == EConst && s.Val != nil && s.Val.ExactString() == `"."`:
				case s != nil && s.K == ESlice && len(s.Args) == 3 && s.Args[0] != nil && s.Args[1] == nil && ResultOf(0, nextLabel)(s.Args[0]):
					// the slice base and NextLabel's argument are the walked zone itself, offset 0
					nl := strip(s.Args[0]).X
					web := c13PhiWeb(zv)
					if sl, ok := t.(*ssa.Slice); !ok || !web[sl.X] || len(nl.Args) != 2 || !web[nl.Args[0].V] || !IsConstInt(0)(nl.Args[1]) {
						bad = "slice/NextLabel do not operate on the walked zone from offset 0: " + trunc(e.String(), 120)
					}
				default:
					bad = "zone takes a value that is not a label-boundary suffix: " + trunc(e.String(), 120)
				}
			}
			if bad != "" {
				c.violation(R, key, instrPos(in), bad)
			} else {
				c.ok(R, key, instrPos(in), "zone ∈ {CanonicalName(name), \".\", zone[NextLabel(zone,0):]}")
			}
		}
		if n == 0 {
			c.unresolved(R, "walkFailureZones|visit", "no visit(zone) call found")
		}
	}
	if fn := c.fn(R, cp+".walkWireSuffixes"); fn != nil {
		n := 0
		for _, in := range instrsWhere(fn, func(in ssa.Instruction) bool {
			cl, ok := in.(*ssa.Call)
			if !ok || cl.Call.IsInvoke() || cl.Call.StaticCallee() != nil {
				return false
			}
			_, isBuiltin := cl.Call.Value.(*ssa.Builtin)
			return !isBuiltin && len(cl.Call.Args) == 1
		}) {
			sl, ok := in.(*ssa.Call).Call.Args[0].(*ssa.Slice)
			if !ok || sl.Low == nil {
				continue
			}
			n++
			key := R + "|walkWireSuffixes|offset"
			web := c13PhiWeb(sl.Low)
			bad := ""
			for _, t := range c13PhiTerminals(sl.Low) {
				e := strip(Desc(t))
				if IsConstInt(0)(e) {
					continue
				}
				// off + (1 + int(name[off]))
				okStep := false
				if b, isBin := t.(*ssa.BinOp); isBin && b.Op == token.ADD && web[b.X] {
					if st, isBin2 := b.Y.(*ssa.BinOp); isBin2 && st.Op == token.ADD {
						one, ln := st.X, st.Y
						if !IsConstInt(1)(Desc(one)) {
							one, ln = ln, one
						}
						le := strip(Desc(ln))
						if IsConstInt(1)(Desc(one)) && le != nil && le.K == EIndex && le.X != nil && le.X.K == EParam && le.X.Idx == 0 && le.Y != nil && web[le.Y.V] {
							okStep = true
							// behind c > 63 = false
							lnv := ln
							if ug, tr := c.unguarded(b, []Barrier{c13OnCmp("len>63", func(x *Expr) bool { return x.V == lnv }, token.GTR, IsConstInt(63), false)}, fn); ug {
								bad = "offset advances without the length-octet ≤ 63 check; path " + tr
							}
						}
					}
				}
				if !okStep && bad == "" {
					bad = "offset takes a value other than 0 or off+1+int(name[off]): " + trunc(Desc(t).String(), 120)
				}
			}
			if bad != "" {
				c.violation(R, key, instrPos(in), bad)
			} else {
				c.ok(R, key, instrPos(in), "off ∈ {0, off + 1 + int(name[off])} behind length ≤ 63")
			}
		}
		if n == 0 {
			c.unresolved(R, "walkWireSuffixes|visit", "no visit(name[off:]) call found")
		}
	}
	// ECS audience: the write-back files a failure under the audience the request was looked up with
	scopeF := c.field(R, cp+".ResponseWriter.clientScope")
	if scopeF != nil {
		n := 0
		for _, st := range c.CallSites(a.sRecordFailure) {
			top := TopLevel(st.Fn)
			if !methodOnPkg(funcObjOf(top), "/middleware/cache", "ResponseWriter") {
				continue
			}
			n++
			recv := ""
			if len(top.Params) > 0 {
				recv = top.Params[0].Name()
			}
			c.OriginCheck(R, R+"|"+fnKey(top)+"|RecordFailure audience", st.Instr, "RecordFailure scope", callArg(st.Instr, 2), nil, func(e *Expr) bool {
				e = strip(e)
				if e == nil || e.K != EField || e.Var != scopeF || e.X == nil {
					return false
				}
				b := strip(e.X)
				return b != nil && b.K == EParam && b.Name == recv
			})
		}
		if n == 0 {
			c.unresolved(R, "ResponseWriter RecordFailure sites", "none found (rule would pass vacuously)")
		}
		if sd := c.fn(R, cp+".(*Cache).ServeDNS"); sd != nil {
			handed := map[string]bool{}
			for _, b := range sd.Blocks {
				for _, in := range b.Instrs {
					if _, val, ok := c13FieldStore(in, scopeF); ok {
						if e := Desc(val); !IsAnyConst(e) {
							handed[e.String()] = true
						}
					}
				}
			}
			if len(handed) == 0 {
				c.unresolved(R, fnKey(sd)+"|writer scope", "ServeDNS never hands a client scope to the response writer")
			}
			for _, in := range instrsWhere(sd, isCallTo(a.sLookupFailure, a.sRetryKey)) {
				key := R + "|" + fnKey(sd) + "|lookup audience = write-back audience"
				got := Desc(callArg(in, 2)).String()
				if handed[got] {
					c.ok(R, key, instrPos(in), "failure lookup / retry key use the scope handed to the response writer")
				} else {
					c.violation(R, key, instrPos(in), "failure state is looked up under an audience other than the one the write-back records under: "+trunc(got, 120))
				}
			}
		}
	}
	c.Floor(R, 2+2+4)
}

// ---------------------------------------------------------------------------
// R3 backoff envelope

func c13R3(c *Ctx, a *c13A) {
	const R = "C13-R3"
	const cp = "middleware/cache"
	c.Doc(R, "backoff envelope: failureEntry.streak/retryAfter are stored only in FailureCache.record; streak ← 1 or streak+1; retryAfter ← now.Add(c.initialTTL) for a first entry (streak 1) and now.Add(c.backoff(streak)) for a renewal; backoff returns c.maxTTL or a ttl behind ttl>c.maxTTL=false, where ttl starts at c.initialTTL and grows only by ttl*2; NewFailureCache builds the cache only across cfg.MaxTTL > ceiling = false (ceiling ≤ 5 min), MaxTTL < InitialTTL = false and InitialTTL < 1s = false, copies cfg.MaxTTL/InitialTTL, and is the only writer of those fields; default constants ≤ 5 min")
	streakF := c.field(R, cp+".failureEntry.streak")
	retryF := c.field(R, cp+".failureEntry.retryAfter")
	maxF := c.field(R, cp+".FailureCache.maxTTL")
	initF := c.field(R, cp+".FailureCache.initialTTL")
	nowF := c.field(R, cp+".FailureCache.now")
	cfgMax := c.field(R, cp+".FailureCacheConfig.MaxTTL")
	cfgInit := c.field(R, cp+".FailureCacheConfig.InitialTTL")
	recFn := c.fn(R, cp+".(*FailureCache).record")
	boFn := c.fn(R, cp+".(*FailureCache).backoff")
	newFn := c.fn(R, cp+".NewFailureCache")
	timeAdd := c.fobj(R, "time.Time.Add")
	if streakF == nil || retryF == nil || maxF == nil || initF == nil || nowF == nil || cfgMax == nil || cfgInit == nil || recFn == nil || boFn == nil || newFn == nil || timeAdd == nil {
		return
	}
	recKey := fnKey(recFn)
	// stores are allowed in record and in same-package helpers reachable only from record
	memo := map[*ssa.Function]bool{}
	whoStores := func(what string, fv *types.Var) {
		sites := c.StoreSites(fv)
		if len(sites) == 0 {
			c.unresolved(R, what, "no store found (rule would pass vacuously)")
		}
		for _, s := range sites {
			top := TopLevel(s.Fn)
			key := fmt.Sprintf("%s|%s|%s", R, what, fnKey(top))
			if top == recFn || c.c13OnlyReachedFrom(top, recFn, memo, 0) {
				c.ok(R, key, instrPos(s.Instr), what+": inside FailureCache.record (or a helper only it calls) — the one state transition")
			} else {
				c.violation(R, key, instrPos(s.Instr), what+": written outside FailureCache.record, bypassing the backoff envelope")
			}
		}
	}
	whoStores("store failureEntry.streak", streakF)
	whoStores("store failureEntry.retryAfter", retryF)
	c.WhoMay(R, "store FailureCache.maxTTL", c.StoreSites(maxF), map[string]string{fnKey(newFn): "validated constructor"})
	c.WhoMay(R, "store FailureCache.initialTTL", c.StoreSites(initF), map[string]string{fnKey(newFn): "validated constructor"})
	for _, s := range c.StoreSites(streakF) {
		// value followed through same-package helpers (parameters substituted):
		// 1, the previous streak + 1, or the previous streak unchanged (saturation)
		key := R + "|" + recKey + "|streak value"
		var bad []string
		leaves := c09LeavesThroughHelpers(s.Val, fnPkg(recFn))
		for _, l := range leaves {
			e := strip(l)
			switch {
			case IsConstInt(1)(l):
			case FieldIs(streakF)(l):
			case e != nil && e.K == EBin && e.Op == token.ADD && FieldIs(streakF)(e.X) && IsConstInt(1)(e.Y):
			case e != nil && e.K == EBin && e.Op == token.ADD && FieldIs(streakF)(e.Y) && IsConstInt(1)(e.X):
			default:
				bad = append(bad, trunc(l.String(), 120))
			}
		}
		if len(leaves) == 0 {
			c.undecided(R, key, instrPos(s.Instr), "streak: no origin could be determined")
		} else if len(bad) > 0 {
			c.violation(R, key, instrPos(s.Instr), "streak takes a value other than 1, streak or streak+1 (the interval would more than double): "+strings.Join(bad, " ; "))
		} else {
			c.ok(R, key, instrPos(s.Instr), "streak ∈ {1, streak, streak+1}")
		}
	}
	isNow := func(e *Expr) bool {
		e = strip(e)
		return e != nil && e.K == ECall && e.X != nil && FieldIs(nowF)(e.X)
	}
	for _, s := range c.StoreSites(retryF) {
		if TopLevel(s.Fn) != recFn {
			continue
		}
		key := R + "|" + recKey + "|retryAfter value"
		e := strip(Desc(s.Val))
		base, _, _ := c13FieldStore(s.Instr, retryF)
		switch {
		case e == nil || e.K != ECall || !sameFunc(e.Fn, timeAdd) || len(e.Args) != 2 || !isNow(e.Args[0]):
			c.violation(R, key, instrPos(s.Instr), "retryAfter is not now().Add(d): "+trunc(Desc(s.Val).String(), 160))
		case FieldIs(initF)(e.Args[1]):
			// first entry: the same object's streak must be the constant 1 on every path here
			okOne := false
			for _, t := range c.StoreSites(streakF) {
				if b2, v2, ok := c13FieldStore(t.Instr, streakF); ok && b2 == base && t.Instr.Block() == s.Instr.Block() && IsConstInt(1)(Desc(v2)) {
					okOne = true
				}
			}
			if okOne {
				c.ok(R, key, instrPos(s.Instr), "first entry: streak=1, retryAfter = now.Add(initialTTL)")
			} else {
				c.violation(R, key, instrPos(s.Instr), "retryAfter = now.Add(initialTTL) on an entry whose streak is not reset to 1 in the same step")
			}
		case CallTo(a.backoff)(e.Args[1]):
			be := strip(e.Args[1])
			fromEntry := len(be.Args) == 2 && FieldIs(streakF)(be.Args[1]) && be.Args[1].X != nil && base != nil && be.Args[1].X.V == base
			if !fromEntry && len(be.Args) == 2 && be.Args[1].V != nil {
				// or the very value stored into this entry's streak
				for _, t := range c.StoreSites(streakF) {
					if b2, v2, ok := c13FieldStore(t.Instr, streakF); ok && b2 == base && v2 == be.Args[1].V {
						fromEntry = true
					}
				}
			}
			if fromEntry {
				c.ok(R, key, instrPos(s.Instr), "renewal: retryAfter = now.Add(backoff(this entry's streak))")
			} else {
				c.violation(R, key, instrPos(s.Instr), "backoff is not computed from the streak of the entry being written: "+trunc(be.String(), 160))
			}
		default:
			c.violation(R, key, instrPos(s.Instr), "retryAfter interval is neither initialTTL nor backoff(streak): "+trunc(e.Args[1].String(), 160))
		}
	}
	// backoff
	for _, rs := range c09ReturnSites(boFn, 0) {
		rv := rs.Val
		in := rs.At
		key := R + "|" + fnKey(boFn) + "|return"
		if FieldIs(maxF)(Desc(rv)) {
			c.ok(R, key, instrPos(in), "returns c.maxTTL")
			continue
		}
		clamp := c13OnCmp("ttl>c.maxTTL", func(e *Expr) bool { return e.V == rv }, token.GTR, FieldIs(maxF), false)
		if ug, tr := c.unguarded(in, []Barrier{clamp}, boFn); ug {
			c.violation(R, key, instrPos(in), "backoff returns a value that was not clamped against c.maxTTL; path "+tr)
			continue
		}
		web := c13PhiWeb(rv)
		bad := ""
		for _, t := range c13PhiTerminals(rv) {
			if FieldIs(initF)(Desc(t)) {
				continue
			}
			if b, ok := t.(*ssa.BinOp); ok && b.Op == token.MUL && web[b.X] {
				if v, isC := constInt(Desc(b.Y)); isC && v >= 1 && v <= 2 {
					continue
				}
			}
			if b, ok := t.(*ssa.BinOp); ok && b.Op == token.ADD && web[b.X] && web[b.Y] {
				continue // ttl + ttl
			}
			bad = trunc(Desc(t).String(), 120)
		}
		if bad != "" {
			c.violation(R, key, instrPos(in), "ttl grows other than by at most doubling from initialTTL: "+bad)
		} else {
			c.ok(R, key, instrPos(in), "returns ttl ≤ c.maxTTL, ttl ∈ {initialTTL, ttl*2}")
		}
	}
	// NewFailureCache
	fiveMin := int64(5 * 60 * 1_000_000_000)
	var okRets []ssa.Instruction
	for _, rs := range c09ReturnSites(newFn, 0) {
		if !IsNilConst(Desc(rs.Val)) {
			okRets = append(okRets, rs.At)
		}
	}
	atMost5 := func(e *Expr) bool { v, ok := constInt(e); return ok && v <= fiveMin && v > 0 }
	c.c13Guarded(R, newFn, "constructs only with MaxTTL ≤ ceiling ≤ 5 min", okRets, c13OnCmp("cfg.MaxTTL>ceiling", FieldIs(cfgMax), token.GTR, atMost5, false))
	c.c13Guarded(R, newFn, "constructs only with MaxTTL ≥ InitialTTL", okRets, c13OnCmp("cfg.MaxTTL<cfg.InitialTTL", FieldIs(cfgMax), token.LSS, FieldIs(cfgInit), false))
	c.c13Guarded(R, newFn, "constructs only with InitialTTL ≥ 1s", okRets, c13OnCmp("cfg.InitialTTL<1s", FieldIs(cfgInit), token.LSS, func(e *Expr) bool { v, ok := constInt(e); return ok && v >= 1_000_000_000 }, false))
	for _, s := range c.StoreSites(maxF) {
		c.OriginCheck(R, R+"|NewFailureCache|maxTTL value", s.Instr, "FailureCache.maxTTL", s.Val, nil, FieldIs(cfgMax))
	}
	for _, s := range c.StoreSites(initF) {
		c.OriginCheck(R, R+"|NewFailureCache|initialTTL value", s.Instr, "FailureCache.initialTTL", s.Val, nil, FieldIs(cfgInit))
	}
	for _, s := range c.StoreSites(cfgMax) {
		if TopLevel(s.Fn) == newFn {
			c.OriginCheck(R, R+"|NewFailureCache|defaulted MaxTTL", s.Instr, "cfg.MaxTTL default", s.Val, nil, atMost5)
		}
	}
	c.ConstBound(R, cp+".DefaultFailureMaxTTL", token.LEQ, fiveMin, "hard ceiling 5 minutes")
	c.ConstBound(R, "config.DefaultRecursionFirewallFailureCacheMaxTTL", token.LEQ, fiveMin, "fallback configuration stays under the ceiling")
	c.Floor(R, 18) // every sub-check reports its own vacuity; the count of streak stores depends on how record is factored
}

func c13FieldStore(in ssa.Instruction, fv *types.Var) (base, val ssa.Value, ok bool) {
	st, isSt := in.(*ssa.Store)
	if !isSt {
		return nil, nil, false
	}
	fa, isFa := st.Addr.(*ssa.FieldAddr)
	if !isFa {
		return nil, nil, false
	}
	s, isS := deref(fa.X.Type()).Underlying().(*types.Struct)
	if !isS || s.Field(fa.Field).Origin() != fv {
		return nil, nil, false
	}
	return fa.X, st.Val, true
}

// ---------------------------------------------------------------------------
// R4 kill switch

func c13R4(c *Ctx, a *c13A) {
	const R = "C13-R4"
	const cp = "middleware/cache"
	c.Doc(R, "kill switch: every load of Store.failure (in any function of the module) is behind the failureCacheDisabled=false edge of the same store; failureCacheDisabled is written exactly once, in cache.New, from !cfg.RFC9520Enabled()")
	failF := c.field(R, cp+".Store.failure")
	disF := c.field(R, cp+".Store.failureCacheDisabled")
	enabled := c.fobj(R, "config.(*Config).RFC9520Enabled")
	if failF == nil || disF == nil || enabled == nil {
		return
	}
	for _, in := range c13FieldLoads(c.P.RepoFuncs(), failF) {
		fn := in.Parent()
		base := ""
		if u, ok := in.(*ssa.UnOp); ok {
			base = Desc(u.X.(*ssa.FieldAddr).X).String()
		}
		sameStore := func(e *Expr) bool {
			e = strip(e)
			return e != nil && e.K == EField && e.Var == disF && (base == "" || e.X.String() == base)
		}
		c.c13Guarded(R, TopLevel(fn), "use of Store.failure", []ssa.Instruction{in}, OnFalse("s.failureCacheDisabled", sameStore))
	}
	sites := c.StoreSites(disF)
	c.WhoMay(R, "store Store.failureCacheDisabled", sites, map[string]string{c.c13Key(cp + ".New"): "operator configuration"})
	for _, s := range sites {
		c.OriginCheck(R, R+"|cache.New|switch value", s.Instr, "failureCacheDisabled", s.Val, nil, func(e *Expr) bool {
			e = strip(e)
			return e != nil && e.K == EUn && e.Op == token.NOT && CallTo(enabled)(e.X)
		})
	}
	c.Floor(R, 18) // every sub-check reports its own vacuity; the count of streak stores depends on how record is factored
}

// ---------------------------------------------------------------------------
// R5 cached failures are terminal

func c13R5(c *Ctx, a *c13A) {
	const R = "C13-R5"
	const cp = "middleware/cache"
	c.Doc(R, "cached failures are terminal: dns64's WriteMsg reaches synthesise (its secondary A lookup) only across isCachedFailureResponse(ctx, m)=false and RequestLocalFailureForResponse(ctx, m)=nil; isCachedFailureResponse returns true whenever ResponseMeta.IsCachedFailureResponse does; handleFailureHit writes the response it marked (mark before write unless no meta exists); after a LookupFailure hit Cache.ServeDNS reaches neither ch.Next nor a dedup generation; failover reaches Exchange only across RecursionWorkEnforcementError=nil, EffectiveError=nil and errors.Is(requestLocalErr, ErrFailureProbeLimit)=false")
	// dns64
	dw := c.fn(R, "middleware/dns64.(*responseWriter).WriteMsg")
	synth := c.fobj(R, "middleware/dns64.(*responseWriter).synthesise")
	isCached := c.fobj(R, "middleware/dns64.isCachedFailureResponse")
	isM := func(e *Expr) bool { e = strip(e); return e != nil && e.K == EParam && e.Idx == 1 }
	if dw != nil && synth != nil && isCached != nil {
		targets := instrsWhere(dw, isCallTo(synth))
		c.c13Guarded(R, dw, "synthesise behind isCachedFailureResponse(ctx, m)=false", targets, OnFalse("isCachedFailureResponse", func(e *Expr) bool {
			e = strip(e)
			return e != nil && e.K == ECall && sameFunc(e.Fn, isCached) && len(e.Args) == 2 && isM(e.Args[1])
		}))
		c.c13Guarded(R, dw, "synthesise behind RequestLocalFailureForResponse(ctx, m)=nil", targets, OnFalse("RequestLocalFailureForResponse", func(e *Expr) bool {
			e = strip(e)
			return e != nil && e.K == ECall && sameFunc(e.Fn, a.reqLocal) && len(e.Args) == 2 && isM(e.Args[1])
		}))
	}
	if fn := c.fn(R, "middleware/dns64.isCachedFailureResponse"); fn != nil {
		c.AfterEdge(R, fn, "marked response not reported as cached failure", OnTrue("meta.IsCachedFailureResponse(m)", CallTo(a.isCachedM)), func(in ssa.Instruction) bool {
			r, ok := in.(*ssa.Return)
			return ok && !(len(r.Results) == 1 && IsConstBool(true)(Desc(r.Results[0])))
		})
	}
	// handleFailureHit
	if fn := c.fn(R, cp+".(*Cache).handleFailureHit"); fn != nil {
		writes := c13MethodCalls(fn, "WriteMsg")
		for _, w := range writes {
			resp := Desc(callArg(w, 1)).String()
			c.c13Guarded(R, fn, "write of the failure response only after marking it", []ssa.Instruction{w},
				Barrier{Name: "meta.MarkCachedFailureResponse(resp)", Instr: func(in ssa.Instruction) bool {
					return isPlainCallTo(a.markCached)(in) && Desc(callArg(in, 1)).String() == resp
				}},
				OnFalse("ResponseMetaFrom(ctx)", CallTo(a.metaFrom)))
		}
		if len(writes) == 0 {
			c.unresolved(R, fnKey(fn)+"|WriteMsg", "no write found")
		}
	}
	// ServeDNS: a hit is terminal
	if fn := c.fn(R, cp+".(*Cache).ServeDNS"); fn != nil {
		join := c.fobj(R, "internal/waitgroup.(*WaitGroup).JoinGeneration")
		regroup := c.fobj(R, "internal/waitgroup.(*WaitGroup).Regroup")
		c.AfterEdge(R, fn, "failure-cache hit continues to resolution", OnTrue("LookupFailure hit", ResultOf(1, a.sLookupFailure)), isCallTo(a.nx, join, regroup))
		c.AfterEdge(R, fn, "failure-cache hit returns without answering", OnTrue("LookupFailure hit", ResultOf(1, a.sLookupFailure)), isReturn, CallBarrier("handleFailureHit", a.handleHit))
	}
	// failover
	if fw := c.fn(R, "middleware/failover.(*ResponseWriter).WriteMsg"); fw != nil {
		exch := c.fobj(R, "internal/dnsclient.(*Client).Exchange")
		probe := c.P.Object("middleware.ErrFailureProbeLimit")
		if exch != nil && probe != nil {
			targets := instrsWhere(fw, isCallTo(exch))
			c.c13Guarded(R, fw, "fallback Exchange behind probe-limit check", targets, OnFalse("errors.Is(requestLocalErr, ErrFailureProbeLimit)", c13ErrorsIs(a.errorsIs, probe, CallTo(a.reqLocal))))
			c.c13Guarded(R, fw, "fallback Exchange behind live request", targets, OnFalse("EffectiveError(ctx)", CallTo(a.effErr)))
			c.c13Guarded(R, fw, "fallback Exchange behind work-limit check", targets, OnFalse("RecursionWorkEnforcementError(ctx)", CallTo(a.workErr)))
		} else if probe == nil {
			c.unresolved(R, "middleware.ErrFailureProbeLimit", "sentinel not found")
		}
	}
	c.Floor(R, 11)
}

// ---------------------------------------------------------------------------
// R6 reset on success

func c13R6(c *Ctx, a *c13A) {
	const R = "C13-R6"
	const cp = "middleware/cache"
	c.Doc(R, "reset on success: in WriteMsg every path from a store write (SetFromResponseWithKey/Scoped) to return calls resetMatchingFailures, with the writer's client scope; in setFromResponseWithKey a positive Set is followed by resetQuestionFailure unless scoped; resetQuestionFailure/recordFailureQuestion there run only across scoped=false (a scoped write never touches the global audience)")
	if wm := c.fn(R, cp+".(*ResponseWriter).WriteMsg"); wm != nil {
		// a store write that sits in an unexported helper and can reach the helper's
		// return without the reset makes the call of that helper the acquire site
		c.Paired(R, wm, "store write → resetMatchingFailures", c13AcquireThroughHelpers(isPlainCallTo(a.sSetKey, a.sSetScoped), isPlainCallTo(a.sResetMatching)), isPlainCallTo(a.sResetMatching))
		// both store writers are part of the mechanism, wherever they stand
		for _, w := range []*types.Func{a.sSetKey, a.sSetScoped} {
			if w != nil && len(instrsInScope(wm, isPlainCallTo(w))) == 0 {
				c.unresolved(R, fnKey(wm)+"|store write "+w.Name(), "no call in WriteMsg or its helpers (the pairing would not cover this writer)")
			}
		}
		scopeF := c.field(R, cp+".ResponseWriter.clientScope")
		resets := instrsInScope(wm, isPlainCallTo(a.sResetMatching))
		if len(resets) == 0 {
			c.unresolved(R, fnKey(wm)+"|reset scope", "no resetMatchingFailures call found")
		}
		for _, in := range resets {
			c.OriginCheck(R, R+"|WriteMsg|reset scope", in, "resetMatchingFailures scope", callArg(in, 3), nil, FieldIs(scopeF))
		}
	}
	if fn := c.fn(R, cp+".(*Store).setFromResponseWithKey"); fn != nil {
		posSet := c.fobj(R, cp+".(*PositiveCache).Set")
		isValid := c.fobj(R, "net/netip.Prefix.IsValid")
		if posSet != nil && isValid != nil {
			scoped := CallTo(isValid)
			c.Paired(R, fn, "positive Set → resetQuestionFailure (unscoped)", isPlainCallTo(posSet), isPlainCallTo(a.sResetQ), OnTrue("scoped", scoped))
			c.c13Guarded(R, fn, "global-audience reset only for unscoped writes", instrsWhere(fn, isPlainCallTo(a.sResetQ)), OnFalse("scoped", scoped))
			c.c13Guarded(R, fn, "global-audience record only for unscoped writes", instrsWhere(fn, isPlainCallTo(a.sRecordQ)), OnFalse("scoped", scoped))
		}
	}
	// WriteMsg: ≥1 paired store write (each writer's presence is checked above; how
	// many textual copies of the shared-key branch there are is a matter of shape)
	// + reset scope; setFromResponseWithKey: pairing + two audience guards
	c.Floor(R, 5)
}

// ---------------------------------------------------------------------------
// R7 single probe

func c13R7(c *Ctx, a *c13A) {
	const R = "C13-R7"
	const cp = "middleware/cache"
	c.Doc(R, "single probe: in Cache.ServeDNS Regroup is reached only across counter >= K = false with K a constant ≤ 1; the counter has one constant start and otherwise only counter+1 computed in the block of a Regroup; maxFailureProbeRegroups ≤ 1; after generation.Err() is DeadlineExceeded no JoinGeneration/Regroup/ch.Next is reachable (the cohort is shed through writeFailureProbeLimit)")
	fn := c.fn(R, cp+".(*Cache).ServeDNS")
	join := c.fobj(R, "internal/waitgroup.(*WaitGroup).JoinGeneration")
	regroup := c.fobj(R, "internal/waitgroup.(*WaitGroup).Regroup")
	genErr := c.fobj(R, "internal/waitgroup.(*Generation).Err")
	deadline := c.P.Object("context.DeadlineExceeded")
	if fn == nil || join == nil || regroup == nil || genErr == nil || deadline == nil {
		if deadline == nil {
			c.unresolved(R, "context.DeadlineExceeded", "not found")
		}
		return
	}
	c.ConstBound(R, cp+".maxFailureProbeRegroups", token.LEQ, 1, "one clean re-election")
	regs := instrsWhere(fn, isCallTo(regroup))
	// the regroup counter: the phi compared against a constant ≤ 1 with >=
	var counter ssa.Value
	atMost1 := func(e *Expr) bool { v, ok := constInt(e); return ok && v <= 1 }
	for _, f := range WithAnons(fn) {
		for _, b := range f.Blocks {
			if len(b.Instrs) == 0 {
				continue
			}
			iff, ok := b.Instrs[len(b.Instrs)-1].(*ssa.If)
			if !ok {
				continue
			}
			var cap ssa.Value
			if m, _ := CmpMatch(condOf(iff), func(e *Expr) bool {
				if e.K == EPhi && e.V != nil {
					cap = e.V
					return true
				}
				return false
			}, token.GEQ, atMost1); m && cap != nil {
				counter = cap
			}
		}
	}
	if counter == nil {
		for _, r := range regs {
			c.violation(R, R+"|"+fnKey(fn)+"|Regroup behind the regroup bound", instrPos(r), "Regroup is reachable with no `counter >= K` (K ≤ 1) bound on a counted variable: every follower of a failed probe becomes the next probe")
		}
		if len(regs) == 0 {
			c.unresolved(R, fnKey(fn)+"|regroup counter", "no Regroup call and no counter comparison found")
		}
	} else {
		c.c13Guarded(R, fn, "Regroup behind the regroup bound", regs,
			c13OnCmp("regroups>=K(≤1)", func(e *Expr) bool { return e.V == counter }, token.GEQ, atMost1, false))
		web := c13PhiWeb(counter)
		consts, bad := 0, ""
		for _, t := range c13PhiTerminals(counter) {
			if k, ok := t.(*ssa.Const); ok {
				consts++
				if v, isInt := constInt(Desc(k)); !isInt || v < 0 {
					bad = "counter starts below zero"
				}
				continue
			}
			b, ok := t.(*ssa.BinOp)
			if !ok || b.Op != token.ADD || !web[b.X] {
				bad = "counter takes a value other than start / counter+1: " + trunc(Desc(t).String(), 120)
				continue
			}
			if v, isC := constInt(Desc(b.Y)); !isC || v < 1 {
				bad = "counter increment is not a positive constant"
			}
		}
		if consts != 1 {
			bad = fmt.Sprintf("counter has %d constant assignments (a reset inside the loop would lift the bound)", consts)
		}
		for _, r := range regs {
			has := false
			for _, in := range r.Block().Instrs {
				if b, ok := in.(*ssa.BinOp); ok && b.Op == token.ADD && web[b.X] {
					for _, t := range c13PhiTerminals(counter) {
						if t == b {
							has = true
						}
					}
				}
			}
			if !has {
				bad = "a Regroup is not counted (no counter+1 in its block feeding the counter)"
			}
		}
		key := R + "|" + fnKey(fn) + "|regroup counter"
		if bad != "" {
			c.violation(R, key, instrPos(counter.(ssa.Instruction)), bad)
		} else {
			c.ok(R, key, instrPos(counter.(ssa.Instruction)), "counter: one constant start, +1 per Regroup")
		}
	}
	isTimedOut := c13ErrorsIs(a.errorsIs, deadline, CallTo(genErr))
	timedOut := OnTrue("errors.Is(generation.Err(), DeadlineExceeded)", isTimedOut)
	notTimedOut := OnFalse("generationTimedOut", isTimedOut)
	c.AfterEdge(R, fn, "timed-out probe generation re-elected or fanned out", timedOut, isCallTo(join, regroup, a.nx))
	c.AfterEdge(R, fn, "timed-out probe generation not shed", timedOut, isReturn, CallBarrier("writeFailureProbeLimit", a.probeLimit))
	checks := instrsWhere(fn, func(in ssa.Instruction) bool {
		cl, ok := in.(*ssa.Call)
		return ok && isTimedOut(Desc(cl))
	})
	retryOK := OnTrue("FailureRetryKey ok", ResultOf(1, a.sRetryKey))
	flagMemo := map[ssa.Value]bool{}
	notProbe := Barrier{Name: "failureProbe=false", Edge: func(cond *Expr) (bool, int) {
		at, pol := Truthy(cond)
		at = strip(at)
		if at == nil || at.K != EPhi || at.V == nil {
			return false, 0
		}
		isFlag, seen := flagMemo[at.V]
		if !seen {
			isFlag = c.c13ConstBoolFlag(at.V, retryOK, fn)
			flagMemo[at.V] = isFlag
		}
		if !isFlag {
			return false, 0
		}
		if pol {
			return true, 1
		}
		return true, 0
	}}
	c.c13FromNoReach(R, fn, "a generation that timed out is never re-joined", checks, isCallTo(join, regroup), notTimedOut)
	c.c13FromNoReach(R, fn, "a probe follower of a timed-out generation never falls through to resolution", checks, isCallTo(a.nx), notTimedOut, notProbe)
	c.Floor(R, 9)
}
