package main

import (
	"fmt"
	"go/token"
	"go/types"

	"golang.org/x/tools/go/ssa"
)

func init() {
	register(&PropDef{
		ID:    "C06",
		Title: "Every reply respects what the client sent and negotiated",
		Run:   runC06,
		Explanation: "Decided (structure only): R1 in edns.ResponseWriter.WriteMsg the delegate write is unreachable without ClearDNSSEC or the do edge, without ClearOPT or the !noedns edge, " +
			"on the EDNS arm without stripECS and stripKeepalive after the last merge into the OPT, and on udp without udpOverflow(m, w.size) whose true edge performs the four truncation stores; " +
			"in WriteWire the delegate is unreachable on !do ∧ HasDNSSEC, the OPT is appended only on the EDNS arm; " +
			"R2 appendWireOPT emits only COOKIE/NSID/TCP-KEEPALIVE/EDE, each behind its own client fact, keepalive is stored as fact ∧ proto==\"tcp\", the cookie fields come only from the client's cookie; " +
			"R3 SetEdns0 clears opt.Option on every path of the OPT arm before the only re-attachment (the policy-clamped ECS); " +
			"R4 every dns.Msg allocated in middleware/…, server/…, internal/dnsutil and written (or returned to a writer) has Id, QR and opcode set from the request (SetReply family or explicit header image), " +
			"wire bodies committed by producers cross wire.ApplyReply(body, req id, req opcode, …), DoQ zeroes the Id before packing; " +
			"R5 acceptHeader ≡ miekg/dns defaultMsgAcceptFunc as a decision table over the header predicates, each engine entry point, interpreted with the verdict fixed to every acceptVerdict constant, " +
			"serves only on OK, stays silent on Ignore and rejects in place on every other verdict; rejectInPlace echoes ID/opcode/RD and sets QR; QDCOUNT != 1 → FORMERR before the chain; BADVERS / foreign opcode arms never continue the chain; " +
			"R6 the UDP ceiling computed by SetEdns0 and edns.serveWire lies in [512,1232] for every advertised size, is raised only on the tcp/doq/doh arm, and every UDP write is compared with ResponseWriter.size; " +
			"R7 constructors that re-attach the request's Extra to a reply (Chain.CancelWithRcode, dnsutil.SetRcode*) are not used by handlers ahead of edns in the default chain, where the request OPT is still unstripped and the writer unshaped.",
		NotDecided: []string{
			"the byte length of packed replies versus the ceiling (value-level: Msg.Len / len measure what is sent)",
			"AD discipline (noad truth table) — decided under C01-R6",
			"correctness of the cookie digest and of every OPT shape; options carried by an upstream/cached response OPT other than ECS and keepalive",
			"DoH assembly; replies of handlers outside the default chain (plugins)",
			"that forwarded upstream responses (forwarder, failover) echo the client's id/question — they are written as received",
		},
	})
}

func runC06(c *Ctx) {
	c06R1(c)
	c06R2(c)
	c06R3(c)
	c06R4(c)
	c06R5(c)
	c06R6(c)
	c06R7(c)
}

// x5EdnsAnchors resolves what several C06/C05 rules share.
type x5EdnsAnchors struct {
	writeMsg, writeWire, serveDNS, serveWire                                                   *ssa.Function
	do, noedns, size, keepalive, nsid, cookie, cookieRaw, hasCookieRaw, opt, respUDPSize, noad *types.Var
	nsidstr, cookiesecret                                                                      *types.Var
}

func c06Anchors(c *Ctx, rule string) *x5EdnsAnchors {
	a := &x5EdnsAnchors{}
	const p = "middleware/edns"
	a.writeMsg = c.fn(rule, p+".(*ResponseWriter).WriteMsg")
	a.writeWire = c.fn(rule, p+".(*ResponseWriter).WriteWire")
	a.serveDNS = c.fn(rule, p+".(*EDNS).ServeDNS")
	a.serveWire = c.fn(rule, p+".(*EDNS).serveWire")
	f := func(n string) *types.Var { return c.field(rule, p+".ResponseWriter."+n) }
	a.do, a.noedns, a.size, a.keepalive, a.nsid = f("do"), f("noedns"), f("size"), f("keepalive"), f("nsid")
	a.cookie, a.cookieRaw, a.hasCookieRaw, a.opt, a.respUDPSize, a.noad = f("cookie"), f("cookieRaw"), f("hasCookieRaw"), f("opt"), f("respUDPSize"), f("noad")
	a.nsidstr = c.field(rule, p+".EDNS.nsidstr")
	a.cookiesecret = c.field(rule, p+".EDNS.cookiesecret")
	if a.writeMsg == nil || a.writeWire == nil || a.serveDNS == nil || a.serveWire == nil || a.do == nil || a.noedns == nil || a.size == nil || a.keepalive == nil ||
		a.nsid == nil || a.cookie == nil || a.cookieRaw == nil || a.hasCookieRaw == nil || a.opt == nil || a.nsidstr == nil {
		return nil
	}
	return a
}

var x5ProtoIsUDP = func(holds bool) Barrier {
	n := "Proto()==\"udp\""
	if !holds {
		n = "Proto()!=\"udp\""
	}
	return OnCmp(n, MethodNamed("Proto"), token.EQL, x5IsConstString("udp"), holds)
}

// ---------------------------------------------------------------------------
// R1 shaping is unavoidable

func c06R1(c *Ctx) {
	const R = "C06-R1"
	c.Doc(R, "edns.ResponseWriter.WriteMsg: the delegate WriteMsg is behind ClearDNSSEC|do, ClearOPT|!noedns, (EDNS arm) stripECS and stripKeepalive after every merge into OPT.Option, and udpOverflow's true edge performs Truncated=true, Answer=Ns=empty, Extra=keepOPTOnly; WriteWire: delegate behind do|!HasDNSSEC, appendWireOPT only on the !noedns arm and unavoidable there")
	a := c06Anchors(c, R)
	if a == nil {
		return
	}
	clearDNSSEC := c.fobj(R, "internal/dnsutil.ClearDNSSEC")
	clearOPT := c.fobj(R, "internal/dnsutil.ClearOPT")
	stripECS := c.fobj(R, "middleware/edns.stripECS")
	stripKA := c.fobj(R, "middleware/edns.stripKeepalive")
	keepOPTOnly := c.fobj(R, "middleware/edns.keepOPTOnly")
	udpOverflow := c.fobj(R, "middleware/edns.udpOverflow")
	optOption := c.field(R, x5DnsPkg+".OPT.Option")
	fTrunc := c.field(R, x5DnsPkg+".MsgHdr.Truncated")
	fAnswer := c.field(R, x5DnsPkg+".Msg.Answer")
	fNs := c.field(R, x5DnsPkg+".Msg.Ns")
	fExtra := c.field(R, x5DnsPkg+".Msg.Extra")
	hasDNSSEC := c.field(R, "middleware.WireInfo.HasDNSSEC")
	appendWireOPT := c.fobj(R, "middleware/edns.(*ResponseWriter).appendWireOPT")
	if clearDNSSEC == nil || clearOPT == nil || stripECS == nil || stripKA == nil || keepOPTOnly == nil || udpOverflow == nil || optOption == nil ||
		fTrunc == nil || fAnswer == nil || fNs == nil || fExtra == nil || hasDNSSEC == nil || appendWireOPT == nil {
		return
	}
	fn := a.writeMsg
	delegate := func(in ssa.Instruction) bool {
		cc := callCommon(in)
		return cc != nil && cc.IsInvoke() && x5MsgWriteArg(in) != nil
	}
	// DNSSEC strip / OPT strip
	c.MustCross(R, fn, "delegate WriteMsg (DNSSEC strip)", delegate, CallBarrier("ClearDNSSEC", clearDNSSEC), OnTrue("w.do", FieldIs(a.do)))
	c.MustCross(R, fn, "delegate WriteMsg (OPT strip)", delegate, CallBarrier("ClearOPT", clearOPT), OnFalse("w.noedns", FieldIs(a.noedns)))
	// the message written is the one that was shaped
	for _, in := range instrsWhere(fn, delegate) {
		c.OriginCheck(R, "C06-R1|edns.WriteMsg|written message", in, "message handed to the delegate", x5MsgWriteArg(in), nil,
			func(e *Expr) bool { return e.K == EParam }, CallTo(clearDNSSEC), CallTo(clearOPT))
	}
	// EDNS arm: both strips between the arm's entry and the write
	ednsArm := OnFalse("w.noedns", FieldIs(a.noedns))
	c.AfterEdge(R, fn, "EDNS arm reaches the delegate without stripECS", ednsArm, delegate, CallBarrier("stripECS", stripECS))
	c.AfterEdge(R, fn, "EDNS arm reaches the delegate without stripKeepalive", ednsArm, delegate, CallBarrier("stripKeepalive", stripKA))
	// every store to OPT.Option: a strip result, the server's own fresh keepalive, or a merge that both strips still follow
	isFreshKeepalive := func(e *Expr) bool {
		e = strip(e)
		if !x5IsBuiltinCall(e, "append") || len(e.Args) != 2 || e.Args[1].K != EMake || len(e.Args[1].Args) == 0 {
			return false
		}
		for _, el := range e.Args[1].Args {
			el = strip(el)
			if el == nil || el.V == nil {
				return false
			}
			if _, ok := el.V.(*ssa.Alloc); !ok || !x5IsNamedType(el.V.Type(), x5DnsPkg, "EDNS0_TCP_KEEPALIVE") {
				return false
			}
		}
		return true
	}
	nStore := 0
	optStores := x5StoresToField(fn, optOption)
	if len(optStores) == 0 {
		// the EDNS arm was extracted wholesale: its stores are those of the unexported
		// helper(s) of WriteMsg that perform the strips
		for _, g := range scopeFuncs(fn) {
			if TopLevel(g) == fn || len(instrsWhere(g, isCallTo(stripECS, stripKA))) == 0 {
				continue
			}
			optStores = append(optStores, x5StoresToField(g, optOption)...)
		}
	}
	for _, in := range optStores {
		nStore++
		st := in.(*ssa.Store)
		v := Desc(st.Val)
		key := "C06-R1|edns.WriteMsg|OPT.Option store"
		switch {
		case CallTo(stripECS)(v), CallTo(stripKA)(v):
			// the strip must operate on the option list it is assigned back to
			arg := strip(v)
			if arg.K == EExtract {
				arg = arg.X
			}
			c.x5Decide(R, key, instrPos(in), len(arg.Args) == 1 && FieldIs(optOption)(arg.Args[0]),
				"strip result assigned back to OPT.Option", "strip is not applied to the OPT's own option list: "+trunc(v.String(), 160))
		case isFreshKeepalive(v):
			ug, tr := c.unguarded(in, []Barrier{OnTrue("w.keepalive", FieldIs(a.keepalive))}, fn)
			c.x5Decide(R, key+" (own keepalive)", instrPos(in), !ug, "server keepalive appended only behind w.keepalive", "server keepalive appended without the w.keepalive fact; path "+tr)
		default:
			// a merge: both strips must still lie ahead on every path to the write
			for _, s := range []struct {
				n string
				f *types.Func
			}{{"stripECS", stripECS}, {"stripKeepalive", stripKA}} {
				r := reach([]Point{pointAfter(in)}, []Barrier{CallBarrier(s.n, s.f)}, nil)
				bad := false
				for _, t := range r.order {
					// inside an extracted helper the strips must follow before it returns
					if delegate(t) || (TopLevel(in.Parent()) != fn && isReturn(t)) {
						bad = true
						c.violation(R, key+" (merge then "+s.n+")", instrPos(in), "options merged into the response OPT reach the delegate write without "+s.n+"; path "+c.trail(r, t))
						break
					}
				}
				if !bad {
					c.ok(R, key+" (merge then "+s.n+")", instrPos(in), "merge into OPT.Option is followed by "+s.n+" on every path to the write")
				}
			}
		}
	}
	if nStore < 4 {
		c.unresolved(R, "edns.WriteMsg|OPT.Option stores", fmt.Sprintf("expected ≥4 stores to OPT.Option (merge, two strips, keepalive), found %d", nStore))
	}
	// truncation arm
	over := OnTrue("udpOverflow", CallTo(udpOverflow))
	c.AfterEdge(R, fn, "overflow edge: Truncated=true", over, delegate, StoreBarrier("Truncated=true", fTrunc, IsConstBool(true)))
	c.AfterEdge(R, fn, "overflow edge: Answer emptied", over, delegate, StoreBarrier("Answer=empty", fAnswer, x5IsEmptySliceOrNil))
	c.AfterEdge(R, fn, "overflow edge: Ns emptied", over, delegate, StoreBarrier("Ns=empty", fNs, x5IsEmptySliceOrNil))
	c.AfterEdge(R, fn, "overflow edge: Extra=keepOPTOnly", over, delegate, StoreBarrier("Extra=keepOPTOnly", fExtra, CallTo(keepOPTOnly)))
	// keepOPTOnly returns nil or a one-element slice holding an *OPT
	if ko := c.fn(R, "middleware/edns.keepOPTOnly"); ko != nil {
		good := true
		var seen []string
		for _, in := range returnsWhere(ko, 0, nil) {
			e := strip(Desc(in.(*ssa.Return).Results[0]))
			seen = append(seen, trunc(e.String(), 60))
			if IsNilConst(e) {
				continue
			}
			if e.K == EMake && len(e.Args) == 1 && strip(e.Args[0]).K == ETypeAssert || (e.K == EMake && len(e.Args) == 1 && e.Args[0].V != nil && x5IsNamedType(e.Args[0].V.Type(), x5DnsPkg, "OPT")) {
				continue
			}
			good = false
		}
		c.x5Decide(R, "C06-R1|keepOPTOnly|returns", ko.Pos(), good, "keepOPTOnly returns nil or a single OPT: "+fmt.Sprint(seen), "keepOPTOnly may return more than the OPT: "+fmt.Sprint(seen))
	}

	// WriteWire
	ww := a.writeWire
	wdelegate := func(in ssa.Instruction) bool {
		cc := callCommon(in)
		return cc != nil && cc.IsInvoke() && cc.Method.Name() == "WriteWire"
	}
	c.MustCross(R, ww, "delegate WriteWire (DNSSEC gate)", wdelegate, OnTrue("w.do", FieldIs(a.do)), OnFalse("info.HasDNSSEC", FieldIs(hasDNSSEC)))
	c.MustCross(R, ww, "appendWireOPT", isPlainCallTo(appendWireOPT), OnFalse("w.noedns", FieldIs(a.noedns)))
	c.AfterEdge(R, ww, "EDNS arm reaches the delegate without appendWireOPT", OnFalse("w.noedns", FieldIs(a.noedns)), wdelegate, CallBarrier("appendWireOPT", appendWireOPT))
	c.Floor(R, 19)
}

// ---------------------------------------------------------------------------
// R2 only the server's own options on the wire path

func c06R2(c *Ctx) {
	const R = "C06-R2"
	c.Doc(R, "appendWireOPT calls only AppendOPTHeader/AppendOption{,String,EDE}/FinishOPT of internal/wire; option codes ⊆ {COOKIE,NSID,TCP-KEEPALIVE}+EDE; cookie behind cookie!=\"\"|hasCookieRaw, NSID behind nsidstr!=\"\" and w.nsid, keepalive behind w.keepalive, EDE behind info.HasEDE; ResponseWriter.keepalive is stored as fact && Proto()==\"tcp\"; cookie/cookieRaw/hasCookieRaw come only from the client's cookie")
	a := c06Anchors(c, R)
	if a == nil {
		return
	}
	fn := c.fn(R, "middleware/edns.(*ResponseWriter).appendWireOPT")
	hasEDE := c.field(R, "middleware.WireInfo.HasEDE")
	if fn == nil || hasEDE == nil {
		return
	}
	codes := map[string]int64{}
	for _, n := range []string{"EDNS0COOKIE", "EDNS0NSID", "EDNS0TCPKEEPALIVE", "EDNS0EDE"} {
		if v, ok := x5ConstInt64(c, R, x5DnsPkg+"."+n); ok {
			codes[n] = v
		}
	}
	if v, ok := x5ConstInt64(c, R, "internal/wire.optCodeEDE"); ok {
		c.x5Decide(R, "C06-R2|wire.optCodeEDE", token.NoPos, v == codes["EDNS0EDE"], "wire.optCodeEDE equals dns.EDNS0EDE", fmt.Sprintf("wire.optCodeEDE=%d differs from dns.EDNS0EDE=%d", v, codes["EDNS0EDE"]))
	}
	guards := map[string][]Barrier{
		"EDNS0COOKIE":       {OnCmp("w.cookie!=\"\"", FieldIs(a.cookie), token.NEQ, x5IsConstString(""), true), OnTrue("w.hasCookieRaw", FieldIs(a.hasCookieRaw))},
		"EDNS0TCPKEEPALIVE": {OnTrue("w.keepalive", FieldIs(a.keepalive))},
	}
	wirePkg := modPath + "/internal/wire"
	allowedPlain := map[string]bool{"AppendOPTHeader": true, "FinishOPT": true}
	for _, f := range WithAnons(fn) {
		for _, b := range f.Blocks {
			for _, in := range b.Instrs {
				cl, ok := in.(*ssa.Call)
				if !ok {
					continue
				}
				fo, _, name := calleeObj(&cl.Call)
				if fo == nil || fo.Pkg() == nil || fo.Pkg().Path() != wirePkg {
					continue
				}
				key := "C06-R2|appendWireOPT|" + name
				switch {
				case allowedPlain[name]:
					c.ok(R, key, instrPos(in), "framing helper "+name)
				case name == "AppendOptionEDE":
					ug, tr := c.unguarded(in, []Barrier{OnTrue("info.HasEDE", FieldIs(hasEDE))}, fn)
					c.x5Decide(R, key, instrPos(in), !ug, "EDE appended only behind info.HasEDE", "EDE appended without info.HasEDE; path "+tr)
				case name == "AppendOption" || name == "AppendOptionString":
					code, isConst := constInt(Desc(cl.Call.Args[1]))
					var cname string
					for n, v := range codes {
						if isConst && v == code && n != "EDNS0EDE" {
							cname = n
						}
					}
					if cname == "" {
						c.violation(R, key, instrPos(in), fmt.Sprintf("option code %s is not one of the server's own (COOKIE/NSID/TCP-KEEPALIVE)", Desc(cl.Call.Args[1]).String()))
						continue
					}
					key += " " + cname
					if cname == "EDNS0NSID" {
						ug1, tr1 := c.unguarded(in, []Barrier{OnTrue("w.nsid", FieldIs(a.nsid))}, fn)
						ug2, tr2 := c.unguarded(in, []Barrier{OnCmp("nsidstr!=\"\"", FieldIs(a.nsidstr), token.NEQ, x5IsConstString(""), true)}, fn)
						c.x5Decide(R, key, instrPos(in), !ug1 && !ug2, "NSID emitted only when configured and requested", "NSID emitted without (nsidstr != \"\" && w.nsid); path "+tr1+tr2)
						continue
					}
					ug, tr := c.unguarded(in, guards[cname], fn)
					c.x5Decide(R, key, instrPos(in), !ug, cname+" emitted only behind its client fact", cname+" emitted without its client fact; path "+tr)
				default:
					c.violation(R, key, instrPos(in), "appendWireOPT calls internal/wire."+name+" which is not an OPT framing/option helper known to this rule")
				}
			}
		}
	}
	// keepalive fact = client option ∧ stream transport
	for _, s := range c.StoreSites(a.keepalive) {
		st := s.Instr.(*ssa.Store)
		leaves := Origins(Desc(st.Val), nil)
		good := len(leaves) > 0
		hasTCP := false
		for _, l := range leaves {
			switch {
			case IsConstBool(false)(l):
			case func() bool {
				m, pol := CmpMatch(l, MethodNamed("Proto"), token.EQL, x5IsConstString("tcp"))
				return m && pol
			}():
				hasTCP = true
			default:
				good = false
			}
		}
		c.x5Decide(R, "C06-R2|"+fnKey(TopLevel(s.Fn))+"|keepalive store", instrPos(st), good && hasTCP,
			"keepalive = <client fact> && Proto()==\"tcp\"", "ResponseWriter.keepalive is not conjoined with Proto()==\"tcp\": "+x5FmtExprs(leaves))
	}
	// cookie provenance
	setEdns0 := c.fobj(R, "internal/dnsutil.SetEdns0")
	hexEnc := c.fobj(R, "encoding/hex.EncodeToString")
	for _, s := range c.StoreSites(a.cookie) {
		c.OriginCheck(R, "C06-R2|"+fnKey(TopLevel(s.Fn))+"|cookie store", s.Instr, "ResponseWriter.cookie", s.Val, nil,
			ResultOf(2, setEdns0), func(e *Expr) bool { return CallTo(hexEnc)(e) && Contains(FieldIs(a.cookieRaw))(e) })
	}
	for _, s := range c.StoreSites(a.hasCookieRaw) {
		if !IsConstBool(true)(Desc(s.Val)) {
			c.x5Decide(R, "C06-R2|"+fnKey(TopLevel(s.Fn))+"|hasCookieRaw store", instrPos(s.Instr), IsConstBool(false)(Desc(s.Val)), "hasCookieRaw cleared", "hasCookieRaw stored from a non-constant")
			continue
		}
		ug, tr := c.unguarded(s.Instr, []Barrier{OnCmp("len(ClientCookie())>=8", x5LenOf(MethodNamed("ClientCookie")), token.GEQ, IsConstInt(8), true)}, TopLevel(s.Fn))
		c.x5Decide(R, "C06-R2|"+fnKey(TopLevel(s.Fn))+"|hasCookieRaw store", instrPos(s.Instr), !ug, "hasCookieRaw=true only behind len(req.ClientCookie()) >= 8", "hasCookieRaw=true without a client cookie; path "+tr)
	}
	c.Floor(R, 12)
}

// ---------------------------------------------------------------------------
// R3 request OPT stripped before anything is re-attached

func c06R3(c *Ctx) {
	const R = "C06-R3"
	c.Doc(R, "dnsutil.SetEdns0: on the opt != nil arm every path to a return crosses opt.Option = nil; every non-nil store to OPT.Option comes after it and appends only the policy-clamped ECS")
	fn := c.fn(R, "internal/dnsutil.SetEdns0")
	optOption := c.field(R, x5DnsPkg+".OPT.Option")
	isEdns0 := c.fobj(R, x5DnsPkg+".(*Msg).IsEdns0")
	clamp := c.fobj(R, "internal/ecs.(*Policy).Clamp")
	if fn == nil || optOption == nil || isEdns0 == nil || clamp == nil {
		return
	}
	nilStore := StoreBarrier("opt.Option=nil", optOption, IsNilConst)
	c.AfterEdge(R, fn, "OPT arm returns without clearing the client's options", OnTrue("req.IsEdns0()", CallTo(isEdns0)), isReturn, nilStore)
	n := 0
	for _, in := range x5StoresToField(fn, optOption) {
		st := in.(*ssa.Store)
		v := Desc(st.Val)
		if IsNilConst(v) {
			continue
		}
		n++
		ug, tr := c.unguarded(in, []Barrier{nilStore}, fn)
		c.x5Decide(R, "C06-R3|SetEdns0|re-attach after strip", instrPos(in), !ug, "re-attachment happens after opt.Option = nil", "an option is attached to the forwarded OPT before the client's options are dropped; path "+tr)
		good := x5IsBuiltinCall(v, "append") && len(strip(v).Args) == 2 && strip(v).Args[1].K == EMake && len(strip(v).Args[1].Args) > 0
		if good {
			for _, el := range strip(v).Args[1].Args {
				for _, l := range Origins(el, nil) {
					if !CallTo(clamp)(l) {
						good = false
					}
				}
			}
		}
		c.x5Decide(R, "C06-R3|SetEdns0|re-attached value", instrPos(in), good, "only policy.Clamp(clientSubnet) is re-attached", "something other than the policy-clamped ECS is attached to the forwarded OPT: "+trunc(v.String(), 200))
	}
	if n == 0 {
		c.ok(R, "C06-R3|SetEdns0|re-attach after strip", fn.Pos(), "nothing is re-attached")
	}
	c.Floor(R, 3)
}
