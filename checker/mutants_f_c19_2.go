package main

// Regression mutants for F-C19-2 (client options carried in a second OPT record reach the upstream servers).
func init() {
	addMutants("C19", []Mutant{
		{ID: "c19-surplus-opt-kept", File: "internal/dnsutil/helpers.go", Expect: fC19_2Rule + "|internal/dnsutil.SetEdns0",
			Old: "\t\tkeep := dns.RR(opt)\n\t\treq.Extra = filterOut(req.Extra, func(rr dns.RR) bool { return isOPT(rr) && rr != keep })\n",
			New: "",
			Why: "F-C19-2: SetEdns0 normalises only the record IsEdns0 returns (the last OPT); another OPT in the additional section keeps the client's /32 subnet and private options and is copied into every upstream query, with ECS disabled"},
		{ID: "c19-surplus-opt-dropped-only-with-ecs", File: "internal/dnsutil/helpers.go", Expect: fC19_2Rule + "|internal/dnsutil.SetEdns0",
			Old: "\t\tkeep := dns.RR(opt)\n\t\treq.Extra = filterOut(req.Extra, func(rr dns.RR) bool { return isOPT(rr) && rr != keep })\n",
			New: "\t\tif clientSubnet != nil {\n\t\t\tkeep := dns.RR(opt)\n\t\t\treq.Extra = filterOut(req.Extra, func(rr dns.RR) bool { return isOPT(rr) && rr != keep })\n\t\t}\n",
			Why: "F-C19-2 (path-sensitive variant): the additional section is reduced to one OPT only when the chosen OPT itself carried a subnet; the demonstrated request (ECS in the FIRST record, empty last record) still leaks"},
	})
}
