package main

// C19-R12 (seeded change C19-w4g4c4) — the cache half of "an answer the
// authority scoped to one subnet is served only inside that scope".
//
// The clause is shared with C03 ("for answers an authority scoped to a client
// subnet only clients inside that scope"), and C03-R5 decides it: scopedLookup
// probes and returns the scope it hashed, ServeDNS verifies a scoped hit against
// that very scope, WriteMsg files a scoped answer under the hash of the scope it
// stores, and — the part the seeded change breaks — the shared-key store
// SetFromResponseWithKey is reachable in (*ResponseWriter).WriteMsg only across
// "the request had no usable ECS scope" or "ReadResponseScope found no SCOPE".
// Merging the two else arms (`scoped && clamped.Contains(..)` … else shared)
// lets an answer the authority DID scope, for somebody else's subnet, reach the
// shared key.  The same rule function runs here under C19's own rule id, as
// C19-R9/R10 do for C03-R10/R11.

func init() {
	wrap := func(id string, extra func(c *Ctx), explain string) {
		pd := props[id]
		if pd == nil {
			return
		}
		orig := pd.Run
		pd.Run = func(c *Ctx) { orig(c); extra(c) }
		pd.Explanation += " " + explain
	}
	wrap("C19", func(c *Ctx) { c03R5as(c, "C19-R12") }, "R12 (added, same rule as C03-R5): a scoped entry is probed, verified and filed under one and the same scope that contains the client, and the cache's shared-key store is reachable in ResponseWriter.WriteMsg only when the request had no usable ECS scope or the reply carried no SCOPE — an answer the authority scoped (to this client's subnet or to any other) is never filed where every client finds it.")
}
