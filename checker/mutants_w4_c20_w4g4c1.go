package main

// Regression mutants for C20-R12 (seeded change C20-w4g4c1: the synthesised TTL is bounded by one
// fixed A record instead of every record that is embedded).
func init() {
	const fold = "\tfor _, a := range addresses {\n\t\tif a.Hdr.Ttl < ttl {\n\t\t\tttl = a.Hdr.Ttl\n\t\t}\n\t}\n"
	addMutants("C20", []Mutant{
		{ID: "c20-w4-ttl-first-a-only", File: "middleware/dns64/dns64.go", Expect: "C20-R12|synthesise",
			Old: fold,
			New: "\t// The addresses are one RRset, and an RRset has one TTL (RFC 2181 §5.2).\n\tif aTTL := addresses[0].Hdr.Ttl; aTTL < ttl {\n\t\tttl = aTTL\n\t}\n",
			Why: "C20-w4g4c1 as seeded: only addresses[0].Hdr.Ttl lowers the synthesised TTL; an upstream answer `A 300 …, A 7 …` yields AAAAs with TTL 300 that embed the 7 s record"},
		{ID: "c20-w4-ttl-fold-stops-early", File: "middleware/dns64/dns64.go", Expect: "C20-R12|synthesise",
			Old: fold,
			New: "\tfor _, a := range addresses {\n\t\tif a.Hdr.Ttl < ttl {\n\t\t\tttl = a.Hdr.Ttl\n\t\t\tbreak\n\t\t}\n\t}\n",
			Why: "variant: the fold leaves the loop at the first record that lowers the TTL; a still shorter record further down the answer is never looked at"},
		{ID: "c20-w4-ttl-fold-over-subslice", File: "middleware/dns64/dns64.go", Expect: "C20-R12|synthesise",
			Old: "\tfor _, a := range addresses {\n\t\tif a.Hdr.Ttl < ttl {\n",
			New: "\tfor _, a := range addresses[:1] {\n\t\tif a.Hdr.Ttl < ttl {\n",
			Why: "variant: the fold ranges over a sub-slice of the list the AAAAs are built from"},
	})
}
