package main

// F-C19-6 / C19-R14 — "no ECS option is ever returned to a client" covers every
// OPT record of the reply, not only the one (*dns.Msg).IsEdns0 happens to return.
//
// This is the reply-side sibling of C19-R7 (F-C19-2).  (*dns.Msg).IsEdns0 looks
// at ONE record: the last OPT of the additional section.  A writer that makes a
// reply fit for the client by running stripECS over the options of that record
// has, by construction, said nothing about any other OPT record a relayed
// upstream reply brought along in m.Extra — and the section is handed to the next
// writer (and packed to the client) as a whole.  The necessary condition is local
// to the sanitising writer:
//
//   in every function that stores the result of stripECS into dns.OPT.Option of
//   a record obtained from M.IsEdns0() (discovered through the callee and the
//   field, so a second sanitiser is checked without being listed) and hands a
//   message to a delegate WriteMsg, every path from the entry to that delegate
//   call
//     re-stores M'.Extra with a value computed from the old M'.Extra through
//         code that discriminates OPT records (a type test against *dns.OPT /
//         an Rrtype == TypeOPT comparison — in a called helper, in a predicate
//         handed to a filter, or inline), or
//     calls a module function that does so on every one of its own paths
//         (dnsutil.ClearOPT on the no-EDNS arm; not named, recognised by what
//         it does).
//
// Decided on the SSA CFG; nothing is executed.  The barrier is spelled on the
// message the store itself names (M'.Extra = f(M'.Extra)), so the engine's helper
// summaries recognise it unchanged inside an unexported helper that received
// the message.
//
// Not recognised (would be reported): leaving the surplus OPT records in place
// and sanitising each in a loop (a loop body is not crossed on every path), and
// making the rewrite conditional on a value test (`if len(m.Extra) > 1 {…}`).
//
// Not decided (value-level): that the filter drops exactly "the others" and
// keeps the sanitised record.

import (
	"fmt"
	"go/constant"
	"go/token"
	"go/types"

	"golang.org/x/tools/go/ssa"
)

// Rule id in one place (pre-assigned by the coordinator).
const fC19_6Rule = "C19-R14"

func init() {
	wrap := func(id string, extra func(c *Ctx), explain string) {
		pd := props[id]
		if pd == nil {
			return
		}
		orig := pd.Run
		pd.Run = func(c *Ctx) { orig(c); extra(c) }
		pd.Explanation += " " + explain
	}
	wrap("C19", c19ReplySingleOPT, "R14 (added): a writer that strips the client-subnet option from the OPT record m.IsEdns0() returns (one record: the last OPT) hands the reply on only after m.Extra was rewritten through an OPT-discriminating filter, because the additional section reaches the client as a whole and another OPT of a relayed upstream reply would otherwise carry its ECS option (and that hop's cookie, NSID, padding) to the client.")
}

func c19ReplySingleOPT(c *Ctx) {
	R := fC19_6Rule
	c.Doc(R, "every function that stores stripECS(...) into OPT.Option of the record m.IsEdns0() returned reaches its delegate WriteMsg only after m.Extra was re-stored with a value derived from the old m.Extra through an OPT-discriminating filter (directly, or by a module function that does so on all its paths): IsEdns0 sees one OPT, the section goes to the client whole")
	stripECS := c.fobj(R, "middleware/edns.stripECS")
	optOption := c.field(R, "github.com/miekg/dns.OPT.Option")
	extraF := c.field(R, "github.com/miekg/dns.Msg.Extra")
	rrtypeF := c.field(R, "github.com/miekg/dns.RR_Header.Rrtype")
	isEdns0 := c.fobj(R, "github.com/miekg/dns.(*Msg).IsEdns0")
	optTN := c.P.TypeName("github.com/miekg/dns.OPT")
	msgTN := c.P.TypeName("github.com/miekg/dns.Msg")
	if optTN == nil || msgTN == nil {
		c.unresolved(R, "dns.OPT / dns.Msg", "type not found")
	}
	if stripECS == nil || optOption == nil || extraF == nil || rrtypeF == nil || isEdns0 == nil || optTN == nil || msgTN == nil {
		return
	}
	var typeOPT int64 = 41
	if v := c.P.ConstVal("github.com/miekg/dns.TypeOPT"); v != nil {
		if n, ok := constant.Int64Val(constant.ToInt(v)); ok {
			typeOPT = n
		}
	}
	isNamed := func(t types.Type, tn *types.TypeName) bool {
		nt, ok := deref(t).(*types.Named)
		return ok && nt.Obj() == tn
	}
	// an instruction that tells an OPT record from the others
	optTest := func(in ssa.Instruction) bool {
		switch x := in.(type) {
		case *ssa.TypeAssert:
			return isNamed(x.AssertedType, optTN)
		case *ssa.BinOp:
			if x.Op != token.EQL && x.Op != token.NEQ {
				return false
			}
			l, r := Desc(x.X), Desc(x.Y)
			return (IsConstInt(typeOPT)(l) && Contains(FieldIs(rrtypeF))(r)) || (IsConstInt(typeOPT)(r) && Contains(FieldIs(rrtypeF))(l))
		}
		return false
	}
	// discriminates(f): f, its closures, the module functions it calls statically and
	// the function values it is handed contain an OPT test (depth-bounded).
	memo := map[*ssa.Function]int{} // 1 yes, 2 no, 3 in progress
	var discriminates func(f *ssa.Function, depth int) bool
	exprDiscriminates := func(e *Expr, depth int) bool {
		return Contains(func(x *Expr) bool {
			if x == nil || x.SFn == nil {
				return false
			}
			switch x.K {
			case ECall, EFunc, EClosure:
				return discriminates(x.SFn, depth)
			}
			return false
		})(e)
	}
	discriminates = func(f *ssa.Function, depth int) bool {
		if f == nil || depth > 3 || len(f.Blocks) == 0 {
			return false
		}
		if p := fnPkg(f); p == nil || !c.P.inModule(p.Path()) {
			return false
		}
		switch memo[f] {
		case 1:
			return true
		case 2, 3:
			return false
		}
		memo[f] = 3
		found := false
		for _, g := range WithAnons(f) {
			for _, b := range g.Blocks {
				for _, in := range b.Instrs {
					if found {
						break
					}
					if optTest(in) {
						found = true
						break
					}
					if cc := callCommon(in); cc != nil {
						if sf := cc.StaticCallee(); sf != nil && discriminates(sf, depth+1) {
							found = true
							break
						}
						for _, a := range cc.Args {
							if _, isFn := a.Type().Underlying().(*types.Signature); isFn && exprDiscriminates(Desc(a), depth+1) {
								found = true
								break
							}
						}
					}
				}
			}
		}
		if found {
			memo[f] = 1
		} else {
			memo[f] = 2
		}
		return found
	}
	// an element of some Msg.Extra that is not the record IsEdns0 settled on
	fromExtraElem := func(e *Expr) bool {
		return Contains(FieldIs(extraF))(e) && !Contains(CallTo(isEdns0))(e)
	}

	// M'.Extra = f(M'.Extra) with f discriminating OPT records
	extraRewrite := func(in ssa.Instruction) bool {
		st, ok := in.(*ssa.Store)
		if !ok || !isFieldStore(in, extraF, nil) {
			return false
		}
		fa, ok := st.Addr.(*ssa.FieldAddr)
		if !ok {
			return false
		}
		base := Desc(fa.X).String()
		val := Desc(st.Val)
		fromOld := Contains(func(x *Expr) bool { return x.K == EField && x.Var == extraF && x.X != nil && x.X.String() == base })(val)
		if !fromOld {
			return false
		}
		if exprDiscriminates(val, 0) {
			return true // helper, or filter + predicate
		}
		// inline loop: the section is rebuilt by append in a function that tests the
		// elements of an Extra section for being OPT
		if !Contains(func(x *Expr) bool { return x.K == ECall && x.Method == "builtin.append" })(val) {
			return false
		}
		for _, g := range WithAnons(TopLevel(in.Parent())) {
			for _, t := range instrsWhere(g, optTest) {
				switch x := t.(type) {
				case *ssa.TypeAssert:
					if fromExtraElem(Desc(x.X)) {
						return true
					}
				case *ssa.BinOp:
					if fromExtraElem(Desc(x.X)) || fromExtraElem(Desc(x.Y)) {
						return true
					}
				}
			}
		}
		return false
	}
	rewriteBar := Barrier{Name: "m.Extra = OPT-filter(m.Extra)", Instr: extraRewrite}

	// a module function handed a *dns.Msg that performs the rewrite on every entry→return
	// path (dnsutil.ClearOPT today).  Unexported same-package helpers are summarised by
	// the engine itself; this covers exported / other-package ones.
	always := map[*ssa.Function]int{}
	alwaysRewrites := func(g *ssa.Function) bool {
		if g == nil || len(g.Blocks) == 0 {
			return false
		}
		if p := fnPkg(g); p == nil || !c.P.inModule(p.Path()) {
			return false
		}
		if v := always[g]; v != 0 {
			return v == 1
		}
		always[g] = 2
		if len(instrsWhere(g, extraRewrite)) == 0 {
			return false
		}
		r := reach(entryPoint(g), []Barrier{rewriteBar}, nil)
		for _, in := range r.order {
			if isReturn(in) {
				return false
			}
		}
		always[g] = 1
		return true
	}
	filterCall := Barrier{Name: "call that OPT-filters m.Extra", Instr: func(in ssa.Instruction) bool {
		cc := callCommon(in)
		if cc == nil || cc.IsInvoke() {
			return false
		}
		sf := cc.StaticCallee()
		if sf == nil {
			return false
		}
		hasMsg := false
		for _, a := range cc.Args {
			if isNamed(a.Type(), msgTN) {
				hasMsg = true
			}
		}
		return hasMsg && alwaysRewrites(sf)
	}}

	// the hand-off: an interface WriteMsg given a *dns.Msg
	delegate := func(in ssa.Instruction) bool {
		cc := callCommon(in)
		if cc == nil || !cc.IsInvoke() || cc.Method.Name() != "WriteMsg" {
			return false
		}
		for _, a := range cc.Args {
			if isNamed(a.Type(), msgTN) {
				return true
			}
		}
		return false
	}

	// discover the sanitisers: stores of stripECS(...) into OPT.Option of a record that
	// IsEdns0 returned (the record may reach the store through a parameter of an
	// unexported helper).
	var fromIsEdns0 func(v ssa.Value, depth int) bool
	fromIsEdns0 = func(v ssa.Value, depth int) bool {
		for _, l := range Origins(Desc(v), nil) {
			if CallTo(isEdns0)(l) {
				return true
			}
			if l.K != EParam || depth >= 2 || l.Idx < 0 {
				continue
			}
			pv, ok := l.V.(*ssa.Parameter)
			if !ok {
				continue
			}
			fo := funcObjOf(pv.Parent())
			if fo == nil || fo.Exported() {
				continue
			}
			for _, s := range c.CallSites(fo) {
				if s.Kind == "ref" || s.Kind == "invoke" {
					continue
				}
				if av := callArg(s.Instr, l.Idx); av != nil && fromIsEdns0(av, depth+1) {
					return true
				}
			}
		}
		return false
	}
	// the function whose paths are walked: the one that holds the hand-off
	var holders func(fn *ssa.Function, depth int) []*ssa.Function
	holders = func(fn *ssa.Function, depth int) []*ssa.Function {
		top := TopLevel(fn)
		for _, g := range WithAnons(top) {
			if len(instrsWhere(g, delegate)) > 0 {
				return []*ssa.Function{top}
			}
		}
		var out []*ssa.Function
		if fo := funcObjOf(top); fo != nil && !fo.Exported() && depth < 2 {
			for _, s := range c.CallSites(fo) {
				if s.Kind == "call" {
					out = append(out, holders(s.Fn, depth+1)...)
				}
			}
		}
		return out
	}
	done := map[*ssa.Function]bool{}
	n := 0
	for _, site := range c.StoreSites(optOption) {
		st, ok := site.Instr.(*ssa.Store)
		if !ok || !Contains(CallTo(stripECS))(Desc(st.Val)) {
			continue
		}
		fa, ok := st.Addr.(*ssa.FieldAddr)
		if !ok || !fromIsEdns0(fa.X, 0) {
			continue
		}
		hs := holders(site.Fn, 0)
		if len(hs) == 0 {
			c.unresolved(R, fnKey(TopLevel(site.Fn))+"|hand-off", "the IsEdns0 record is stripped of ECS here, but no function handing the message to a delegate WriteMsg was found to walk")
			continue
		}
		for _, h := range hs {
			if done[h] {
				continue
			}
			done[h] = true
			n++
			c.MustCross(R, h, "reply handed on with every OPT record of m.Extra accounted for", delegate, rewriteBar, filterCall)
		}
	}
	if n == 0 {
		c.unresolved(R, "ECS strip on the IsEdns0 record of a reply", fmt.Sprintf("no function stores stripECS(...) into OPT.Option of the record IsEdns0 returns (found %d)", n))
	}
}
