package main

// C04-R12 (finding F-C04-2) — the reply that fills the cache is shown under the
// lifetime the answer was admitted with.
//
// The lifetime of an answer (record TTLs, 24 h ceiling, RRSIG expiry, SOA
// minimum, ECS cap, delegation lease) is folded together only inside the store's
// admission primitive Store.setFromResponseWithKey and applied at read time
// (CacheEntry.remaining).  Every hit route rewrites the TTLs it shows; the one
// client-facing route that never passes through an entry is the writer that
// admits a message and then relays that message downstream.  Structurally:
//
//   (a) in every function of the module that calls an admission function (the
//       primitive, or a Store method that calls it — discovered through the
//       callee) and afterwards hands a message to a downstream writer (an
//       interface invoke named WriteMsg), every path from the admission call to
//       that relay
//         – executes a TTL bound: a call that receives a value originating from
//           the admission call's time.Duration result and in whose scope (body,
//           closures, unexported helpers) dns.RR_Header.Ttl is stored, or a store
//           to dns.RR_Header.Ttl of a value derived from that result, or
//         – follows the false edge of the admission call's boolean result
//           (nothing was stored: there is no lifetime to exceed);
//   (b) the time.Duration the primitive reports is the stored entry's own read-
//       time lifetime: at every return it is the constant zero or the result of
//       (*CacheEntry).remaining — never a partial bound (the record TTL without
//       the lease, say).
//
// On a tree whose admission functions report nothing, (a) has no barrier to find
// and reports the relay; (b) has nothing to judge.  Nothing is executed.

import (
	"go/token"
	"go/types"

	"golang.org/x/tools/go/ssa"
)

func init() {
	wrap := func(id string, extra func(c *Ctx), explain string) {
		pd := props[id]
		if pd == nil {
			return
		}
		orig := pd.Run
		pd.Run = func(c *Ctx) { orig(c); extra(c) }
		pd.Explanation += " " + explain
	}
	wrap("C04", c04R12, "R12 (added, F-C04-2): a writer that admits a message to the store and then relays it downstream bounds the TTLs it shows by the lifetime the admission reported (or nothing was stored), and that reported lifetime is the stored entry's own remaining().")
}

func c04R12(c *Ctx) {
	const R = "C04-R12"
	const cp = "middleware/cache"
	c.Doc(R, "the TTL shown to the client that caused an admission never exceeds the admitted lifetime: (a) wherever an admission function (Store.setFromResponseWithKey or a Store method calling it) is followed by a downstream relay (interface invoke WriteMsg), every path between them executes a TTL bound fed by the admission's time.Duration result (a call that stores dns.RR_Header.Ttl in its scope, or such a store itself) or follows the false edge of the admission's 'stored' result; (b) the time.Duration setFromResponseWithKey returns is constant zero or (*CacheEntry).remaining of the entry it stored")
	prim := c.fobj(R, cp+".(*Store).setFromResponseWithKey")
	primFn := c.fn(R, cp+".(*Store).setFromResponseWithKey")
	remaining := c.fobj(R, cp+".(*CacheEntry).remaining")
	ttlF := c.field(R, "github.com/miekg/dns.RR_Header.Ttl")
	storeT := c.P.TypeName(cp + ".Store")
	if storeT == nil {
		c.unresolved(R, cp+".Store", "type not found")
	}
	if prim == nil || primFn == nil || remaining == nil || ttlF == nil || storeT == nil {
		return
	}

	// admission family: the primitive and the Store methods that call it
	adm := []*types.Func{prim}
	seen := map[*types.Func]bool{prim: true}
	for _, s := range c.CallSites(prim) {
		fo := funcObjOf(TopLevel(s.Fn))
		if fo == nil || seen[fo] {
			continue
		}
		sig, _ := fo.Type().(*types.Signature)
		if sig == nil || sig.Recv() == nil {
			continue
		}
		if nt, ok := deref(sig.Recv().Type()).(*types.Named); ok && nt.Obj() == storeT {
			seen[fo] = true
			adm = append(adm, fo)
		}
	}
	isAdm := isCallTo(adm...)
	lifetimeOf := Contains(ResultOf(0, adm...))
	isDuration := func(t types.Type) bool {
		nt, ok := t.(*types.Named)
		return ok && nt.Obj().Name() == "Duration" && nt.Obj().Pkg() != nil && nt.Obj().Pkg().Path() == "time"
	}
	fedByLifetime := func(v ssa.Value) bool {
		if v == nil {
			return false
		}
		return lifetimeOf(Desc(v))
	}
	isTTLStore := func(in ssa.Instruction) bool { return isFieldStore(in, ttlF, nil) }
	// a call that is handed the admitted lifetime and lowers TTLs in its scope
	boundCall := Barrier{Name: "TTL bound fed by the admitted lifetime", Instr: func(in ssa.Instruction) bool {
		if st, ok := in.(*ssa.Store); ok {
			return isTTLStore(in) && fedByLifetime(st.Val)
		}
		cc := callCommon(in)
		if cc == nil || isAdm(in) {
			return false
		}
		fed := false
		for _, a := range cc.Args {
			if isDuration(a.Type()) && fedByLifetime(a) {
				fed = true
			}
		}
		if !fed {
			return false
		}
		callee := cc.StaticCallee()
		if callee == nil {
			if mc, ok := cc.Value.(*ssa.MakeClosure); ok {
				callee, _ = mc.Fn.(*ssa.Function)
			}
		}
		if callee == nil {
			return false
		}
		return len(instrsInScope(callee, isTTLStore)) > 0
	}}
	nothingStored := OnFalse("admission stored an entry", ResultOf(1, adm...))

	isRelay := isMethodCallNamed("WriteMsg", func(t types.Type) bool {
		_, ok := t.Underlying().(*types.Interface)
		return ok
	})

	// (a) every function that admits and relays
	done := map[*ssa.Function]bool{}
	var wrappers []*types.Func
	n := 0
	for _, f := range adm {
		for _, s := range c.CallSites(f) {
			top := TopLevel(s.Fn)
			if top == nil || done[top] {
				continue
			}
			done[top] = true
			if fo := funcObjOf(top); fo != nil && seen[fo] {
				continue // the family's own wrappers
			}
			if len(instrsWhere(top, isRelay)) == 0 {
				// admits, relays nothing itself: when it is an unexported function
				// (the insert extracted out of the relaying writer), the admission is
				// judged at its callers — the call of the helper stands for the
				// admission it performs (depth 1)
				if fo := funcObjOf(top); fo != nil && !token.IsExported(fo.Name()) {
					wrappers = append(wrappers, fo)
				}
				continue
			}
			n += c.MustCrossFrom(R, top, "relay after admission shows no TTL above the admitted lifetime", isAdm, isRelay, boundCall, nothingStored)
		}
	}
	for _, w := range wrappers {
		for _, s := range c.CallSites(w) {
			top := TopLevel(s.Fn)
			if top == nil || done[top] {
				continue
			}
			done[top] = true
			if len(instrsWhere(top, isRelay)) == 0 {
				continue
			}
			n += c.MustCrossFrom(R, top, "relay after admission shows no TTL above the admitted lifetime", isCallTo(w), isRelay, boundCall, nothingStored)
		}
	}
	if n == 0 {
		c.unresolved(R, "admit-and-relay sites", "no function admits a message and relays it downstream (rule would pass vacuously)")
	}

	// (b) what the primitive reports is the stored entry's own lifetime
	keyB := R + "|" + fnKey(primFn) + "|reported lifetime is the stored entry's remaining()"
	sig := prim.Type().(*types.Signature)
	for i := 0; i < sig.Results().Len(); i++ {
		if !isDuration(sig.Results().At(i).Type()) {
			continue
		}
		for _, in := range instrsWhere(primFn, isReturn) {
			r := in.(*ssa.Return)
			if in.Parent() != primFn || i >= len(r.Results) {
				continue // returns of the closures inside the primitive are not its results
			}
			c.OriginCheck(R, keyB, in, "lifetime reported by the admission primitive", r.Results[i], nil, IsAnyConst, ResultOf(0, remaining))
		}
	}
}

// ---------------------------------------------------------------------------
// helpers the older C04 rules use to accept the repaired shape (rules_c04.go)

// c04AdmissionFamily: Store.setFromResponseWithKey and the Store methods that
// call it (nil when the primitive is not found).
func c04AdmissionFamily(c *Ctx) []*types.Func {
	const cp = "middleware/cache"
	prim := c.P.FuncObj(cp + ".(*Store).setFromResponseWithKey")
	storeT := c.P.TypeName(cp + ".Store")
	if prim == nil || storeT == nil {
		return nil
	}
	adm := []*types.Func{prim}
	seen := map[*types.Func]bool{prim: true}
	for _, s := range c.CallSites(prim) {
		fo := funcObjOf(TopLevel(s.Fn))
		if fo == nil || seen[fo] {
			continue
		}
		sig, _ := fo.Type().(*types.Signature)
		if sig == nil || sig.Recv() == nil {
			continue
		}
		if nt, ok := deref(sig.Recv().Type()).(*types.Named); ok && nt.Obj() == storeT {
			seen[fo] = true
			adm = append(adm, fo)
		}
	}
	return adm
}

// c04AdmittedLifetimeSeconds (C04-R2): inside an unexported, only-ever-called
// function `top` the leaf is the constant 0 or seconds(P) of a time.Duration
// parameter P of top, and at every call site of top the argument for P
// originates only from constants and the time.Duration result of an admission
// function — i.e. the TTL written is the lifetime an answer was just admitted
// with (itself remaining() of the stored entry, C04-R12(b)).
func c04AdmittedLifetimeSeconds(c *Ctx, top *ssa.Function, e *Expr) bool {
	if top == nil {
		return false
	}
	fo := funcObjOf(top)
	if fo == nil || fo.Exported() {
		return false
	}
	adm := c04AdmissionFamily(c)
	if len(adm) == 0 {
		return false
	}
	isDur := func(t types.Type) bool {
		nt, ok := t.(*types.Named)
		return ok && nt.Obj().Name() == "Duration" && nt.Obj().Pkg() != nil && nt.Obj().Pkg().Path() == "time"
	}
	// the one Duration parameter of top, fed by admissions at every call site
	idx := -1
	for i, p := range top.Params {
		if isDur(p.Type()) {
			if idx >= 0 {
				return false
			}
			idx = i
		}
	}
	if idx < 0 {
		return false
	}
	fromAdm := ResultOf(0, adm...)
	// every call site hands over the admitted lifetime; a site that forwards its
	// own Duration parameter (the bound sits one helper further down) is decided
	// at that helper's call sites in turn
	var fed func(f *ssa.Function, pi int, depth int) bool
	fed = func(f *ssa.Function, pi int, depth int) bool {
		ffo := funcObjOf(f)
		if ffo == nil || ffo.Exported() || depth > 3 {
			return false
		}
		sites := c.CallSites(ffo)
		if len(sites) == 0 {
			return false
		}
		// f.Params includes the receiver, as cc.Args does for static calls
		for _, s := range sites {
			cc := callCommon(s.Instr)
			if s.Kind == "ref" || cc == nil || cc.IsInvoke() || pi >= len(cc.Args) {
				return false
			}
			leaves := Origins(Desc(cc.Args[pi]), nil)
			if len(leaves) == 0 {
				return false
			}
			n := 0
			for _, l := range leaves {
				ls := strip(l)
				switch {
				case IsAnyConst(l):
				case fromAdm(l):
					n++
				case ls != nil && ls.K == EParam:
					p, _ := ls.V.(*ssa.Parameter)
					if p == nil || p.Parent() == nil {
						return false
					}
					qi := -1
					for i, q := range p.Parent().Params {
						if q == p {
							qi = i
						}
					}
					if qi < 0 || !fed(TopLevel(p.Parent()), qi, depth+1) || TopLevel(p.Parent()) != p.Parent() {
						return false
					}
					n++
				default:
					return false
				}
			}
			if n == 0 {
				return false
			}
		}
		return true
	}
	if !fed(top, idx, 0) {
		return false
	}
	e = strip(e)
	if IsConstInt(0)(e) {
		return true
	}
	d, ok := c04SecondsConv(e)
	if !ok {
		return false
	}
	d = strip(d)
	if d == nil || d.K != EParam {
		return false
	}
	p, _ := d.V.(*ssa.Parameter)
	return p != nil && p.Parent() == top && p == top.Params[idx]
}

// c04ReadsLifetimeFields (C04-R3): like c04LoadsField, except that a load of
// CacheEntry.stored whose only use is the instant handed to that same entry's
// remaining() is not a lifetime computed outside remaining(): it asks
// remaining() for the lifetime at the moment of admission.
func c04ReadsLifetimeFields(fn *ssa.Function, remaining *types.Func, stored *types.Var, fields ...*types.Var) bool {
	if !c04LoadsField(fn, fields...) {
		return false
	}
	for _, b := range fn.Blocks {
		for _, in := range b.Instrs {
			switch x := in.(type) {
			case *ssa.UnOp:
				fa, ok := x.X.(*ssa.FieldAddr)
				if !ok || !c04LoadsFieldInstr(in, fields...) {
					continue
				}
				st, _ := deref(fa.X.Type()).Underlying().(*types.Struct)
				if st == nil || st.Field(fa.Field).Origin() != stored || remaining == nil {
					return true
				}
				refs := x.Referrers()
				if refs == nil || len(*refs) == 0 {
					return true
				}
				for _, r := range *refs {
					cc := callCommon(r)
					if cc == nil || !callIs(cc, remaining) || len(cc.Args) != 2 || cc.Args[1] != ssa.Value(x) ||
						Desc(cc.Args[0]).String() != Desc(fa.X).String() {
						return true
					}
				}
			case *ssa.Field:
				if c04LoadsFieldInstr(in, fields...) {
					return true
				}
			}
		}
	}
	return false
}

// c04LoadsFieldInstr: the instruction is a load of one of the fields.
func c04LoadsFieldInstr(in ssa.Instruction, fields ...*types.Var) bool {
	is := func(v *types.Var) bool {
		for _, f := range fields {
			if f == v {
				return true
			}
		}
		return false
	}
	switch x := in.(type) {
	case *ssa.UnOp:
		if fa, ok := x.X.(*ssa.FieldAddr); ok {
			if st, ok := deref(fa.X.Type()).Underlying().(*types.Struct); ok && is(st.Field(fa.Field).Origin()) {
				return true
			}
		}
	case *ssa.Field:
		if st, ok := x.X.Type().Underlying().(*types.Struct); ok && is(st.Field(x.Field).Origin()) {
			return true
		}
	}
	return false
}
