package main

// Regression mutants for W5 C09-w5g4c1 / C09-R16(c): the set of revocations
// retained in the Resolver is emptied without a successful tombstone write.
func init() {
	const key = "C09-R16|(*middleware/resolver.Resolver).AutoTA|retained revocations are dropped only behind a successful tombstone write"
	addMutants("C09", []Mutant{
		{ID: "c09-w5g4c1-retain-only-on-new-revocation", File: "middleware/resolver/auto_trust_anchor.go", Expect: key,
			Old: "\tif tombErr != nil {\n\t\tr.unpersistedRevocations = tombstones",
			New: "\tif tombErr != nil && newRevocation {\n\t\tr.unpersistedRevocations = tombstones",
			Why: "seeded change: the retention became conditional on newRevocation — the refresh that merges a retained revocation back accepts no new one, so on the second consecutive failed persistence round the field is reset to nil and the third refresh republishes the key from the old state file"},
		{ID: "c09-w5g4c1-retained-set-taken-at-read", File: "middleware/resolver/auto_trust_anchor.go", Expect: key,
			Old: "\tr.RLock()\n\tunpersisted := r.unpersistedRevocations\n\tr.RUnlock()",
			New: "\tr.Lock()\n\tunpersisted := r.unpersistedRevocations\n\tr.unpersistedRevocations = nil\n\tr.Unlock()",
			Why: "variant: the refresh takes ownership of the retained set when it reads it (counting on the store after writeTombstones to put it back) — a refresh that returns early (root unreachable, DNSKEY set not validated, work budget) has then emptied the field and the next refresh republishes the key"},
		{ID: "c09-w5g4c1-retain-only-with-live-trust", File: "middleware/resolver/auto_trust_anchor.go", Expect: key,
			Old: "\tif tombErr != nil {\n\t\tr.unpersistedRevocations = tombstones",
			New: "\tif tombErr != nil && priorTrustValid {\n\t\tr.unpersistedRevocations = tombstones",
			Why: "variant: retention tied to another flag of the run — after the fail-closed clear (priorTrustValid=false) exactly the refresh that follows a double write failure forgets the revocation when its tombstone write fails again"},
	})
}
