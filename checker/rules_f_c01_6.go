package main

// F-C01-6 / C01-R15 — an NSEC / NSEC3 RRset is never authenticated through
// wildcard reconstruction.
//
// The data an RRSIG signs does not contain the owner name as sent: RFC 4035
// §5.3.2 rebuilds "*.<last Labels labels>" whenever the owner has more labels
// than the RRSIG's Labels field says (this package's canonicalRRset and the
// library's Verify both do).  That is how a wildcard ANSWER is verified, and
// §5.3.4 makes its acceptance depend on a next-closer denial.  A denial record
// is never synthesised: it states facts about the one owner it was published
// at.  If the Labels field is not looked at for such a set, the wildcard's own
// NSEC verifies under every name below the wildcard and "proves" that name
// lacks every type the wildcard lacks.
//
//   Starting at the cryptographic primitive (dnssec.cryptoVerify) and walking up
//   through the callers that merely pass the signature on (the *dns.RRSIG is
//   their parameter), the first function in which the signature is NOT a
//   parameter — the loop that pairs RRsets with signatures — or any function
//   below it on that chain must reach the verification only across
//       (L)  a comparison of THAT signature's Labels field with a label count
//            of the owner (dns.CountLabel …) on the edge where Labels is not
//            smaller (Labels < count fails, Labels >= count holds, or equality),
//     or (T)  the edges on which the RRset's type is neither NSEC nor NSEC3
//            (x == TypeNSEC fails AND x == TypeNSEC3 fails, x a uint16).
//   Decided as two must-cross obligations — {L, not-NSEC} and {L, not-NSEC3} —
//   so every path carries L or both type edges.  Guards in unexported helpers
//   (denialRecordType / wildcardExpanded, or inside signatureMatchesRRset) are
//   seen through by the engine's helper summaries.
//
// What the rule does not decide: that the count the Labels field is compared
// with discounts a leading "*" label of a wildcard owner (value level; getting
// it wrong refuses the genuine "*.zone. NSEC", a false SERVFAIL, not a false AD).
// Nothing is executed.

import (
	"fmt"
	"go/constant"
	"go/token"
	"go/types"

	"golang.org/x/tools/go/ssa"
)

func init() {
	wrap := func(id string, extra func(c *Ctx), explain string) {
		pd := props[id]
		if pd == nil {
			return
		}
		orig := pd.Run
		pd.Run = func(c *Ctx) { orig(c); extra(c) }
		pd.Explanation += " " + explain
	}
	wrap("C01", c01R15, "R15 (added): the signature check of an NSEC/NSEC3 RRset is reached only across a test that the RRSIG's Labels field is not smaller than the owner's label count — a denial record is never accepted through RFC 4035 §5.3.2 wildcard reconstruction, so the wildcard's NSEC cannot be replayed under another owner.")
}

func c01R15(c *Ctx) { c01R15as(c, "C01-R15") }

func c01R15as(c *Ctx, R string) {
	const pkg = "middleware/resolver/dnssec"
	c.Doc(R, "package dnssec: walking up from cryptoVerify through the callers that only pass the *dns.RRSIG on, the verification is reached only across (L) a comparison of that signature's Labels field with the owner's label count (dns.CountLabel) on the not-smaller edge, or (T) the edges on which the RRset type is neither NSEC nor NSEC3. An NSEC/NSEC3 whose signature fits only after wildcard reconstruction is the wildcard's denial record under another name (RFC 4035 §5.3.2 applies to synthesised answers only)")
	crypto := c.fobj(R, pkg+".cryptoVerify")
	labelsF := c.field(R, "github.com/miekg/dns.RRSIG.Labels")
	countLabel := c.fobj(R, "github.com/miekg/dns.CountLabel")
	tNSEC := c.P.ConstVal("github.com/miekg/dns.TypeNSEC")
	tNSEC3 := c.P.ConstVal("github.com/miekg/dns.TypeNSEC3")
	rrsigT := c.P.TypeName("github.com/miekg/dns.RRSIG")
	if crypto == nil || labelsF == nil || countLabel == nil || tNSEC == nil || tNSEC3 == nil || rrsigT == nil {
		if tNSEC == nil || tNSEC3 == nil || rrsigT == nil {
			c.unresolved(R, "dns.TypeNSEC/TypeNSEC3/RRSIG", "not found")
		}
		return
	}
	nsec, _ := constant.Int64Val(tNSEC)
	nsec3, _ := constant.Int64Val(tNSEC3)

	isRRSIGPtr := func(t types.Type) bool {
		p, ok := t.(*types.Pointer)
		if !ok {
			return false
		}
		n, ok := p.Elem().(*types.Named)
		return ok && n.Obj() == rrsigT
	}
	mentions := func(e *Expr, v ssa.Value) bool {
		return Contains(func(x *Expr) bool { return x != nil && x.V == v })(e)
	}
	isU16 := func(e *Expr) bool {
		e = strip(e)
		if e == nil || e.K == EConst || e.V == nil {
			return false
		}
		b, ok := e.V.Type().Underlying().(*types.Basic)
		return ok && b.Kind() == types.Uint16
	}
	barsFor := func(sig ssa.Value, typeConst int64) []Barrier {
		labelsOf := Contains(func(e *Expr) bool {
			e = strip(e)
			return e != nil && e.K == EField && e.Var == labelsF && mentions(e.X, sig)
		})
		count := Contains(CallTo(countLabel))
		plain := []Barrier{
			OnCmp("sig.Labels < labels(owner) fails", labelsOf, token.LSS, count, false),
			OnCmp("sig.Labels == labels(owner)", labelsOf, token.EQL, count, true),
			OnCmp(fmt.Sprintf("type == %d fails", typeConst), isU16, token.EQL, IsConstInt(typeConst), false),
		}
		return append(plain, c01ViaPredicate(plain))
	}

	type frame struct {
		in  ssa.Instruction
		fn  *ssa.Function
		sig ssa.Value
	}
	sigArgOf := func(cc *ssa.CallCommon) (ssa.Value, int) {
		for i, a := range cc.Args {
			if isRRSIGPtr(a.Type()) {
				return a, i
			}
		}
		return nil, -1
	}
	n := 0
	seen := map[ssa.Instruction]bool{}
	var judge func(fr frame, depth int, chain string)
	judge = func(fr frame, depth int, chain string) {
		if seen[fr.in] {
			return
		}
		seen[fr.in] = true
		top := TopLevel(fr.fn)
		key := fmt.Sprintf("%s|%s|an NSEC/NSEC3 signature is never accepted through wildcard reconstruction", R, fnKey(top))
		// reach with the edge-aware verdict summary (helperCtx.edgePhi): the guard may be one
		// conjunct of a predicate's single return expression (signatureMatchesRRset)
		ugd := func(bars []Barrier) (bool, string) {
			if fr.fn.Parent() != nil {
				return c.unguarded(fr.in, bars, top)
			}
			hc := &helperCtx{always: map[helperKey]int{}, implies: map[helperKey]int{}, act: map[*ssa.Function][]*Expr{}, edgePhi: true}
			r := reachH(entryPoint(fr.fn), bars, nil, hc)
			if !r.visited[fr.in] {
				return false, ""
			}
			return true, c.trail(r, fr.in)
		}
		ug1, tr1 := ugd(barsFor(fr.sig, nsec))
		ug2, tr2 := ugd(barsFor(fr.sig, nsec3))
		if !ug1 && !ug2 {
			n++
			c.ok(R, key, instrPos(fr.in), "the verification"+chain+" is behind `Labels not smaller than the owner's label count` or `type is neither NSEC nor NSEC3`")
			return
		}
		if p, ok := fr.sig.(*ssa.Parameter); ok && fr.fn.Parent() == nil && depth < 5 {
			fo := funcObjOf(fr.fn)
			idx := -1
			for i, q := range fr.fn.Params {
				if q == p {
					idx = i
				}
			}
			sites := c.CallSites(fo)
			if fo != nil && idx >= 0 {
				if len(sites) == 0 {
					n++
					c.ok(R, key, instrPos(fr.in), fr.fn.Name()+" passes the signature on and has no caller in non-test code")
					return
				}
				for _, s := range sites {
					cc := callCommon(s.Instr)
					if cc == nil || s.Kind == "ref" || idx >= len(cc.Args) {
						n++
						c.undecided(R, fmt.Sprintf("%s|%s|an NSEC/NSEC3 signature is never accepted through wildcard reconstruction", R, fnKey(TopLevel(s.Fn))), instrPos(s.Instr), fr.fn.Name()+" is used as a value: the signature it will verify cannot be traced")
						continue
					}
					judge(frame{s.Instr, s.Fn, cc.Args[idx]}, depth+1, chain+" (through "+fr.fn.Name()+")")
				}
				return
			}
		}
		n++
		tr := tr1
		which := "NSEC"
		if !ug1 {
			tr, which = tr2, "NSEC3"
		}
		c.violation(R, key, instrPos(fr.in), "the signature verification"+chain+" is reachable for an "+which+" RRset without the RRSIG's Labels field having been compared with the owner's label count: RFC 4035 §5.3.2 reconstruction makes the RRSIG of `*.zone. NSEC` verify under every owner below the wildcard, and the denial validators then read its bitmap/interval as facts about that owner (an existing type is reported absent with AD=1); path "+tr)
	}
	for _, s := range c.CallSites(crypto) {
		cc := callCommon(s.Instr)
		if cc == nil || s.Kind == "ref" {
			n++
			c.undecided(R, R+"|cryptoVerify|used as a value", instrPos(s.Instr), "cryptoVerify is taken as a function value")
			continue
		}
		sig, _ := sigArgOf(cc)
		if sig == nil {
			continue
		}
		judge(frame{s.Instr, s.Fn, sig}, 0, "")
	}
	if n == 0 {
		c.unresolved(R, "dnssec|cryptoVerify call sites", "no call found (rule would pass vacuously)")
	}
}

// c01ViaPredicate: a branch (or a returned verdict) on the result of an unexported
// same-package predicate is a barrier edge when that verdict implies one of the
// inner barriers — every return of the predicate that may yield the verdict is
// behind them, with the predicate's parameters read as the call's arguments.
// The engine summarises a helper whose result is branched on directly; this adds
// the nested case (a verdict that is itself returned, negated or and-ed, by the
// helper the caller branches on: signatureMatchesRRset → wildcardExpanded).
func c01ViaPredicate(inner []Barrier) Barrier {
	return Barrier{Name: "verdict of a predicate helper that implies the guard", Edge: func(cond *Expr) (bool, int) {
		a, pol := Truthy(cond)
		a = strip(a)
		if a == nil || a.K != ECall {
			return false, 0
		}
		cl, ok := a.V.(*ssa.Call)
		if !ok || cl.Parent() == nil {
			return false, 0
		}
		h := localHelper(cl.Parent(), &cl.Call)
		if h == nil {
			return false, 0
		}
		if b, ok := a.V.Type().Underlying().(*types.Basic); !ok || b.Kind() != types.Bool {
			return false, 0
		}
		for _, want := range []bool{false, true} {
			hc := &helperCtx{always: map[helperKey]int{}, implies: map[helperKey]int{}, act: map[*ssa.Function][]*Expr{}, edgePhi: true}
			if hc.resultImplies(h, 0, want, inner, a.Args) {
				// cond is true exactly when the verdict equals pol
				if want == pol {
					return true, 0
				}
				return true, 1
			}
		}
		return false, 0
	}}
}
