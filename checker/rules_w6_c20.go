package main

// C20-R14 (red wave 6, change C20-w6g4c1) — an SOA that is present is never
// reported absent.  negativeAAAATTL's second result tells synthesise whether the
// negative answer carried an SOA; when it says "no", synthesise falls back to its
// ceiling and the synthesised AAAA (and the copied alias) may outlive the
// negative answer it is derived from.  Any extra condition between "this
// authority record is an SOA" and "found = true" (an owner test against the
// question, a class test, …) turns an SOA that is there into "no SOA" for some
// replies — e.g. the NODATA at the end of an alias chain, whose SOA belongs to the
// target's zone, not to the question's.
//
// Structurally, on the function's CFG: from the success edge of every
// `x.(*dns.SOA)` assertion, every return that can be reached yields true as the
// found-result — a constant true, or a phi whose operands arriving from blocks
// reachable from that edge are all constant true.  Nothing is executed.

import (
	"go/constant"
	"go/types"

	"golang.org/x/tools/go/ssa"
)

func init() {
	wrap := func(id string, extra func(c *Ctx), explain string) {
		pd := props[id]
		if pd == nil {
			return
		}
		orig := pd.Run
		pd.Run = func(c *Ctx) { orig(c); extra(c) }
		pd.Explanation += " " + explain
	}
	wrap("C20", c20R14, "R14 (added, red wave 6): once negativeAAAATTL has seen an SOA in the authority section, every return reachable from there reports it as found — no further condition (owner, class) can turn a present SOA into the 'no SOA' ceiling.")
}

func c20R14(c *Ctx) {
	const R = "C20-R14"
	c.Doc(R, "negativeAAAATTL: from the success edge of every *dns.SOA type assertion, every reachable return yields found=true (constant, or a phi whose operands from reachable blocks are all true) — an SOA that is present always bounds the synthesised TTL")
	fn := c.fn(R, "middleware/dns64.negativeAAAATTL")
	soaT := c.P.TypeName("github.com/miekg/dns.SOA")
	if fn == nil || soaT == nil {
		if soaT == nil {
			c.unresolved(R, "dns.SOA", "type not found")
		}
		return
	}
	key := R + "|negativeAAAATTL|an SOA that was seen is reported as found on every return"
	boolIdx := -1
	res := fn.Signature.Results()
	for i := 0; i < res.Len(); i++ {
		if b, ok := res.At(i).Type().Underlying().(*types.Basic); ok && b.Kind() == types.Bool {
			boolIdx = i
		}
	}
	if boolIdx < 0 {
		c.unresolved(R, "negativeAAAATTL|results", "no boolean found-result")
		return
	}
	isSOAAssert := func(v ssa.Value) bool {
		ta, ok := v.(*ssa.TypeAssert)
		if !ok || !ta.CommaOk {
			return false
		}
		p, ok := ta.AssertedType.(*types.Pointer)
		if !ok {
			return false
		}
		n, ok := p.Elem().(*types.Named)
		return ok && n.Obj() == soaT
	}
	constBool := func(v ssa.Value) (bool, bool) {
		k, ok := v.(*ssa.Const)
		if !ok || k.Value == nil || k.Value.Kind() != constant.Bool {
			return false, false
		}
		return constant.BoolVal(k.Value), true
	}
	sites := 0
	for _, b := range fn.Blocks {
		iff, ok := b.Instrs[len(b.Instrs)-1].(*ssa.If)
		if !ok {
			continue
		}
		ex, ok := iff.Cond.(*ssa.Extract)
		if !ok || ex.Index != 1 || !isSOAAssert(ex.Tuple) {
			continue
		}
		sites++
		// blocks reachable from the success edge
		reachable := map[*ssa.BasicBlock]bool{}
		work := []*ssa.BasicBlock{b.Succs[0]}
		for len(work) > 0 {
			x := work[len(work)-1]
			work = work[:len(work)-1]
			if reachable[x] {
				continue
			}
			reachable[x] = true
			work = append(work, x.Succs...)
		}
		bad := false
		for rb := range reachable {
			ret, ok := rb.Instrs[len(rb.Instrs)-1].(*ssa.Return)
			if !ok || boolIdx >= len(ret.Results) {
				continue
			}
			v := ret.Results[boolIdx]
			if val, isC := constBool(v); isC {
				if !val {
					bad = true
					c.violation(R, key, ret.Pos(), "after an SOA was found in the authority section a return reporting 'no SOA' is still reachable: a condition between the *dns.SOA assertion and the found-result turns a present SOA into the fallback ceiling, and the synthesised AAAA may outlive the negative answer")
				}
				continue
			}
			if ph, isPhi := v.(*ssa.Phi); isPhi {
				for k, e := range ph.Edges {
					if k >= len(ph.Block().Preds) || !reachable[ph.Block().Preds[k]] {
						continue
					}
					if val, isC := constBool(e); isC && !val {
						bad = true
						c.violation(R, key, ret.Pos(), "after an SOA was found in the authority section the found-result can still arrive as false (phi operand from a block reachable from the assertion's success edge)")
					} else if !isC {
						bad = true
						c.undecided(R, key, ret.Pos(), "the found-result reaching this return from the SOA arm is not a constant")
					}
				}
				continue
			}
			bad = true
			c.undecided(R, key, ret.Pos(), "the found-result is neither a constant nor a phi of constants")
		}
		if !bad {
			c.ok(R, key, iff.Pos(), "every return reachable from the SOA assertion's success edge reports found=true")
		}
	}
	if sites == 0 {
		c.unresolved(R, "negativeAAAATTL|*dns.SOA assertion", "no comma-ok assertion to *dns.SOA decides a branch here: the rule no longer sees where the SOA is recognised")
	}
}
