package main

// Regression mutants for the rules added after red-team wave 3 (one per seeded change that was
// first missed, plus variants of the same clause in a different spelling).
func init() {
	addMutants("C02", []Mutant{
		{ID: "c02-nsec-encloser-min", File: "middleware/resolver/dnssec/nsec.go", Expect: "C02-R10",
			Old: "\tn := shared(nsec.Header().Name)\n\tif s := shared(nsec.NextDomain); s > n {\n\t\tn = s\n\t}\n", New: "\tn := min(shared(nsec.Header().Name), shared(nsec.NextDomain))\n",
			Why: "the shorter shared suffix moves the closest encloser up; the real wildcard below it is never required to be denied (seeded C02-w3A)"},
		{ID: "c02-nsec-encloser-less-than", File: "middleware/resolver/dnssec/nsec.go", Expect: "C02-R10",
			Old: "\tif s := shared(nsec.NextDomain); s > n {\n\t\tn = s\n\t}\n", New: "\tif s := shared(nsec.NextDomain); s < n {\n\t\tn = s\n\t}\n"},
		{ID: "c02-nsec-encloser-always-next", File: "middleware/resolver/dnssec/nsec.go", Expect: "C02-R10",
			Old: "\tif s := shared(nsec.NextDomain); s > n {\n\t\tn = s\n\t}\n", New: "\tif s := shared(nsec.NextDomain); s > 0 {\n\t\tn = s\n\t}\n"},
	})
	addMutants("C05", []Mutant{
		{ID: "c05-keepalive-len-upto2", File: "middleware/request.go", Expect: "C05-R12",
			Old: "\t\t\tif optLen != 0 && optLen != 2 {", New: "\t\t\tif optLen > 2 {",
			Why: "a one-octet keepalive the library refuses is admitted on the strict path (seeded C05-w3B)"},
		{ID: "c05-ecs-minlen-3", File: "middleware/request.go", Expect: "C05-R12",
			Old: "\t\t\tif optLen < 4 {\n\t\t\t\treturn false\n\t\t\t}\n\t\t\tfamily :=", New: "\t\t\tif optLen < 3 {\n\t\t\t\treturn false\n\t\t\t}\n\t\t\tfamily :="},
	})
	addMutants("C06", []Mutant{
		{ID: "c06-job-slot-not-zeroed", File: "middleware/edns/edns.go", Expect: "C06-R9",
			Old: "\t\tpooled := rw.pooled\n\t\t*rw = ResponseWriter{}\n\t\tif pooled {\n\t\t\tresponseWriterPool.Put(rw)\n\t\t}\n",
			New: "\t\tif rw.pooled {\n\t\t\t*rw = ResponseWriter{}\n\t\t\tresponseWriterPool.Put(rw)\n\t\t\treturn\n\t\t}\n\t\trw.ResponseWriter = nil\n\t\trw.EDNS = nil\n\t\trw.opt = nil\n",
			Why: "a cookieless client on a reused job gets a COOKIE built from the previous client's bytes (seeded C06-w3A)"},
		{ID: "c06-msg-path-no-cleanup", File: "middleware/edns/edns.go", Expect: "C06-R9",
			Old: "\t\tch.Writer = w\n\t\t*rw = ResponseWriter{}\n\t\tresponseWriterPool.Put(rw)\n", New: "\t\tch.Writer = w\n\t\trw.ResponseWriter, rw.EDNS, rw.opt = nil, nil, nil\n\t\tresponseWriterPool.Put(rw)\n"},
	})
	addMutants("C10", []Mutant{
		{ID: "c10-job-slot-not-zeroed", File: "middleware/edns/edns.go", Expect: "C10-R10",
			Old: "\t\tpooled := rw.pooled\n\t\t*rw = ResponseWriter{}\n\t\tif pooled {\n\t\t\tresponseWriterPool.Put(rw)\n\t\t}\n",
			New: "\t\tif rw.pooled {\n\t\t\t*rw = ResponseWriter{}\n\t\t\tresponseWriterPool.Put(rw)\n\t\t\treturn\n\t\t}\n\t\trw.ResponseWriter, rw.EDNS, rw.opt, rw.cookie = nil, nil, nil, \"\"\n",
			Why: "seeded C10-w3B"},
		{ID: "c10-stream-reset-conditional", File: "server/tcp_stream.go", Expect: "C10-R4",
			Old: "\ts.conn = conn\n\ts.start, s.end = 0, 0\n\ts.held = 0\n\ts.werr = nil\n", New: "\ts.conn = conn\n\tif conn == nil {\n\t\ts.start, s.end = 0, 0\n\t\ts.held = 0\n\t}\n\ts.werr = nil\n",
			Why: "a reset helper that clears the buffers only when parking: with the release reduced to conn=nil the next connection is served the previous client's pipelined frames (seeded C10-w3A, the stream half)"},
	})
	addMutants("C08", []Mutant{
		{ID: "c08-bare-nxdomain-no-inherit", File: "middleware/cache/cache.go", Expect: "C08-R9",
			Old: "\t\t\tmiddleware.PropagateValidatedDenialResponse(ctx, respCname, msg)\n\t\t\t// The outer response is now this denial, proof and all.\n\t\t\tlineage.inherit()\n", New: "\t\t\tmiddleware.PropagateValidatedDenialResponse(ctx, respCname, msg)\n",
			Why: "an alias of a bare NXDOMAIN outlives the target's delegation lease (seeded C08-w3B)"},
	})
	addMutants("C09", []Mutant{
		{ID: "c09-stage-valid-only", File: "middleware/resolver/auto_trust_anchor.go", Expect: "C09-R11",
			Old: "\t\tif oldTA == nil || (oldTA.State != StateValid && oldTA.State != StateMissing) {\n\t\t\tcontinue\n\t\t}\n\t\tif !sameKeyExceptRevoke(oldTA.DNSKey, ta.DNSKey) {\n\t\t\tcontinue\n\t\t}",
			New: "\t\tif oldTA == nil || oldTA.State != StateValid {\n\t\t\tcontinue\n\t\t}\n\t\tif !sameKeyExceptRevoke(oldTA.DNSKey, ta.DNSKey) {\n\t\t\tcontinue\n\t\t}",
			Why: "Missing + RevBit is never staged: the revoked key stays published for 90 days (seeded C09-w3B)"},
		{ID: "c09-consume-valid-only", File: "middleware/resolver/auto_trust_anchor.go", Expect: "C09-R11",
			Old: "\t\t\tif oldTA != nil && (oldTA.State == StateValid || oldTA.State == StateMissing) {", New: "\t\t\tif oldTA != nil && oldTA.State == StateValid {"},
	})
	addMutants("C12", []Mutant{
		{ID: "c12-failover-rescues-over-budget", File: "middleware/failover/failover.go", Expect: "C12-R7",
			Old: "\tif middleware.RecursionWorkEnforcementError(w.ctx) != nil {\n\t\treturn w.writeRecursionWorkFailure(m, nil)\n\t}\n\n", New: "\n",
			Why: "an over-budget tree is answered by the fallback resolver (seeded C12-w3A, failover half)"},
		{ID: "c12-chase-depth-restarts", File: "middleware/cache/cache.go", Expect: "C12-R8",
			Old: "\tcnameDepth := 10\n\ttargets := []string{}\n\n\tif len(cnameReq.Question) > 0 {\n\tlookup:\n\t\tchild := false\n", New: "\ttargets := []string{}\n\n\tif len(cnameReq.Question) > 0 {\n\tlookup:\n\t\tchild := false\n\t\tcnameDepth := 10\n",
			Why: "seeded C12-w3B"},
		{ID: "c12-chase-no-depth-test", File: "middleware/cache/cache.go", Expect: "C12-R8",
			Old: "\t\tif child && cnameDepth > 0 && !respCnameHasType(respCname, q.Qtype) {", New: "\t\tif child && !respCnameHasType(respCname, q.Qtype) {"},
	})
	addMutants("C13", []Mutant{
		{ID: "c13-lookup-gives-up-after-three", File: "middleware/resolver/resolver.go", Expect: "C13-R9",
			Old: "\t\t\t\t\tif (len(responseErrors) > 2 || level < 2) && resp.Rcode == dns.RcodeNameError {", New: "\t\t\t\t\tif len(responseErrors) > 2 || (level < 2 && resp.Rcode == dns.RcodeNameError) {",
			Why: "three lame servers end the lookup and a zone failure is recorded with a healthy authority untried (seeded C13-w3A)"},
		{ID: "c13-lookup-gives-up-on-any-root-error", File: "middleware/resolver/resolver.go", Expect: "C13-R9",
			Old: "\t\t\t\t\tif (len(responseErrors) > 2 || level < 2) && resp.Rcode == dns.RcodeNameError {", New: "\t\t\t\t\tif len(responseErrors) > 2 && resp.Rcode == dns.RcodeNameError || level < 2 {"},
	})
	addMutants("C14", []Mutant{
		{ID: "c14-wrapped-key-not-counted", File: "middleware/resolver/dnssec/ds_digest.go", Expect: "C14-R6",
			Old: "\tmaterial := 0\n\tfor i := range len(publicKey) {\n\t\tif c := publicKey[i]; c == '\\r' || c == '\\n' {\n\t\t\tcontinue\n\t\t}\n\t\tmaterial++\n\t\tif material > limit {\n\t\t\treturn true\n\t\t}\n\t}\n\treturn false", New: "\treturn false",
			Why: "seeded C14-w3B (the oversizedKeyMaterial half)"},
		{ID: "c14-wrapped-key-count-no-limit", File: "middleware/resolver/dnssec/ds_digest.go", Expect: "C14-R6",
			Old: "\t\tmaterial++\n\t\tif material > limit {\n\t\t\treturn true\n\t\t}\n", New: "\t\tmaterial++\n"},
	})
	addMutants("C15", []Mutant{
		{ID: "c15-opt-shim-section-guard", File: "internal/wire/pack.go", Expect: "C15-R7",
			Old: "\t\t\tif o, ok := rr.(*dns.OPT); ok && o == opt {\n\t\t\t\t// The library writes the extended rcode", New: "\t\t\tif o, ok := rr.(*dns.OPT); ok && o == opt && len(section) == len(msg.Extra) {\n\t\t\t\t// The library writes the extended rcode",
			Why: "variant of seeded C15-w3B: a further condition on the section keeps an aliased OPT outside the additional section from being shimmed"},
		{ID: "c15-opt-shim-any-opt", File: "internal/wire/pack.go", Expect: "C15-R7",
			Old: "\t\t\tif o, ok := rr.(*dns.OPT); ok && o == opt {\n\t\t\t\t// The library writes the extended rcode", New: "\t\t\tif o, ok := rr.(*dns.OPT); ok {\n\t\t\t\t// The library writes the extended rcode",
			Why: "every OPT gets the extended rcode, the library rewrites only the selected one"},
	})
	addMutants("C18", []Mutant{
		{ID: "c18-sync-error-logged-only", File: "middleware/blocklist/blocklist.go", Expect: "C18-R9",
			Old: "\tif err := tmp.Sync(); err != nil {\n\t\tfail(\"sync\", err)\n\t\treturn\n\t}", New: "\tif err := tmp.Sync(); err != nil {\n\t\tzlog.Warn(\"Blocklist persist: sync\", \"error\", err.Error())\n\t}",
			Why: "a failed write-back is renamed over the previous complete file (the fault class of seeded C18-w3A)"},
		{ID: "c18-write-error-dropped", File: "middleware/blocklist/blocklist.go", Expect: "C18-R9",
			Old: "\t\tif _, err := tmp.WriteString(\"*.\" + suffix + \"\\n\"); err != nil {\n\t\t\tfail(\"write wild\", err)\n\t\t\treturn\n\t\t}", New: "\t\t_, _ = tmp.WriteString(\"*.\" + suffix + \"\\n\")"},
	})
	addMutants("C20", []Mutant{
		{ID: "c20-default-prefix-after-exclusions", File: "middleware/dns64/config.go", Expect: "C20-R8",
			Old: "\t\tzlog.Info(\"DNS64 enabled with no configured prefix; defaulting to 64:ff9b::/96 per RFC 6147 §5.2\")\n\t\tout.prefixes = []compiledPrefix{{net: wellKnownPrefix, wellKnown: true}}\n\t}\n", New: "\t}\n\tdefer func() {\n\t\tif len(out.prefixes) == 0 {\n\t\t\tout.prefixes = []compiledPrefix{{net: wellKnownPrefix, wellKnown: true}}\n\t\t}\n\t}()\n",
			Why: "the defaulted well-known prefix is installed after hasWellKnown() was read: its IPv4 exclusion list is never loaded (seeded C20-w3B)"},
	})
}
