package main

// C19-R11 (seeded change C19-w4g2c4) — the resolver drops the authority's ECS
// option for ONE reason only: there was none (or none was asked for).
//
// C19-R9 (= C03-R10) decides that wherever package middleware/resolver
// rebuilds a reply's additional section around the REQUEST's OPT, the OPT it
// stores depends on the reply's own EDNS Client Subnet option.  "Depends on"
// is satisfied by
//     if scope != nil { opt = optWithClientSubnet(opt, scope) }
// no matter when `scope` is nil.  The request's option says SCOPE 0 by
// construction, and the cache reads SCOPE 0 as "valid for everybody"; so every
// additional reason for which the request OPT is re-attached AS IS — the echo
// is not octet-exact, the family differs, the source prefix was rewritten —
// turns an answer the authority scoped to one subnet into one the cache files
// under the shared key.  Judging a non-matching echo is the cache's job
// (ClampScope + Contains, C19-R4/R12); it can only do it if the option arrives.
//
// Decided here, at the same sites as C19-R9 (stores into M.Extra of a value
// containing R.IsEdns0(), R ≠ M, M not freshly allocated):
//   every way in which R's OPT can flow into the stored value WITHOUT M's ECS
//   option — a phi operand, or the whole value — is taken only across the
//   empty edge of an ECS option lookup: the not-found/nil edge of a
//   *dns.EDNS0_SUBNET type assertion, or the nil edge of a call to a pure scan
//   (a same-package function or closure returning *dns.EDNS0_SUBNET whose every
//   branch condition is built only from the option list's structure: IsEdns0,
//   Msg.Extra / OPT.Option, indices, len, the type assertion itself, the option
//   code).  Unexported helpers between the lookup and the store are seen
//   through by the engine's result summaries (the nil result of
//   upstreamClientSubnet implies an empty lookup only if every `return nil` of
//   it is behind one).
// Nothing is executed; no option is ever looked at.

import (
	"fmt"
	"go/types"

	"golang.org/x/tools/go/ssa"
)

func init() {
	wrap := func(id string, extra func(c *Ctx), explain string) {
		pd := props[id]
		if pd == nil {
			return
		}
		orig := pd.Run
		pd.Run = func(c *Ctx) { orig(c); extra(c) }
		pd.Explanation += " " + explain
	}
	wrap("C19", func(c *Ctx) { c19R11as(c, "C19-R11") }, "R11 (added): where the resolver rebuilds a reply's additional section around the request's OPT, the request OPT goes in without the reply's own ECS option only across the empty edge of an ECS option lookup (no option in the reply, or none in the query) — never because of what the option says (family, source prefix, address): the request's option reads SCOPE 0 = 'valid for everybody', and a non-matching echo is for the cache to judge.")
}

// c19R11as runs the rule under the given rule id (the clause is shared with C03).
func c19R11as(c *Ctx, R string) {
	const pkg = "middleware/resolver"
	c.Doc(R, "in package middleware/resolver, at every store into M.Extra of a value containing another message's OPT (R.IsEdns0(), R ≠ M, M not a fresh allocation): each way R's OPT reaches the stored value without M's own EDNS Client Subnet option (a phi operand, or the value as a whole) is taken only across the empty edge of an ECS option lookup — the false/nil edge of a *dns.EDNS0_SUBNET type assertion or the nil edge of a pure option scan; helper results are judged by summary (a nil result counts only if every nil return is behind such an edge). The authority's option is never dropped for what it says")
	extraF := c.field(R, "github.com/miekg/dns.Msg.Extra")
	optionF := c.field(R, "github.com/miekg/dns.OPT.Option")
	isEdns0 := c.fobj(R, "github.com/miekg/dns.(*Msg).IsEdns0")
	subnetT := c.P.TypeName("github.com/miekg/dns.EDNS0_SUBNET")
	if subnetT == nil {
		c.unresolved(R, "github.com/miekg/dns.EDNS0_SUBNET", "type not found")
	}
	if extraF == nil || optionF == nil || isEdns0 == nil || subnetT == nil {
		return
	}
	isSubnetPtr := func(t types.Type) bool {
		p, ok := t.(*types.Pointer)
		if !ok {
			return false
		}
		n, ok := p.Elem().(*types.Named)
		return ok && n.Obj() == subnetT
	}
	anyNode := func(e *Expr, pred func(*Expr) bool) bool {
		seen := map[*Expr]bool{}
		var rec func(e *Expr, d int) bool
		rec = func(e *Expr, d int) bool {
			if e == nil || d > 40 || seen[e] {
				return false
			}
			seen[e] = true
			if pred(e) {
				return true
			}
			if rec(e.X, d+1) || rec(e.Y, d+1) {
				return true
			}
			for _, a := range e.Args {
				if rec(a, d+1) {
					return true
				}
			}
			return false
		}
		return rec(e, 0)
	}

	// ---- reads of a message's ECS option (as in C19-R9) --------------------------------
	ofMsg := func(isM func(*Expr) bool) func(*Expr) bool {
		return func(e *Expr) bool {
			if e == nil {
				return false
			}
			if e.K == ECall && e.Fn != nil && sameFunc(e.Fn, isEdns0) && len(e.Args) >= 1 && isM(e.Args[0]) {
				return true
			}
			return e.K == EField && e.Var == extraF && isM(e.X)
		}
	}
	isParam := func(fn *ssa.Function, idx int) func(*Expr) bool {
		return func(e *Expr) bool {
			e = strip(e)
			if e == nil || e.K != EParam || e.Idx != idx {
				return false
			}
			p, ok := e.V.(*ssa.Parameter)
			return ok && p.Parent() == fn
		}
	}
	localCallee := func(in ssa.Instruction) (*ssa.Function, *ssa.CallCommon) {
		cl, ok := in.(*ssa.Call)
		if !ok || cl.Call.IsInvoke() {
			return nil, nil
		}
		d := Desc(cl)
		if d == nil || d.SFn == nil || len(d.SFn.Blocks) == 0 {
			return nil, nil
		}
		h := d.SFn
		if fnPkg(h) == nil || fnPkg(h) != fnPkg(in.Parent()) {
			return nil, nil
		}
		return h, &cl.Call
	}
	var readsECSOf func(fn *ssa.Function, idx int, depth int) bool
	isRead := func(in ssa.Instruction, isM func(*Expr) bool, depth int) bool {
		if ta, ok := in.(*ssa.TypeAssert); ok && isSubnetPtr(ta.AssertedType) {
			return anyNode(Desc(ta.X), ofMsg(isM))
		}
		if h, cc := localCallee(in); h != nil && depth < 4 {
			for k, a := range cc.Args {
				if k < len(h.Params) && isM(Desc(a)) && readsECSOf(h, k, depth+1) {
					return true
				}
			}
		}
		return false
	}
	memo := map[string]bool{}
	readsECSOf = func(fn *ssa.Function, idx int, depth int) bool {
		mk := fmt.Sprintf("%p/%d", fn, idx)
		if v, ok := memo[mk]; ok {
			return v
		}
		memo[mk] = false
		for _, f := range WithAnons(fn) {
			for _, b := range f.Blocks {
				for _, in := range b.Instrs {
					if isRead(in, isParam(fn, idx), depth) {
						memo[mk] = true
						return true
					}
				}
			}
		}
		return false
	}

	// ---- the ECS option lookup and its empty edge ------------------------------------
	// condition of a pure scan: built only from the option list's structure
	structural := func(cond *Expr) bool {
		return !anyNode(cond, func(e *Expr) bool {
			switch e.K {
			case EConst, EParam, EFree, EBin, EUn, EPhi, EIndex, ESlice, ERange, EConvert, ETypeAssert, EExtract, EAlloc:
				return false
			case EUnknown:
				return !(e.Name == "phi-cycle" || e.Name == "cell-cycle")
			case EField:
				return !(e.Var == extraF || e.Var == optionF)
			case ECall:
				if e.Fn != nil && sameFunc(e.Fn, isEdns0) {
					return false
				}
				if e.Method == "builtin.len" || e.Method == "Option" {
					return false
				}
				return true
			}
			return true
		})
	}
	pure := map[*ssa.Function]int{}
	pureScan := func(h *ssa.Function) bool {
		if h == nil || len(h.Blocks) == 0 {
			return false
		}
		if v, ok := pure[h]; ok {
			return v == 1
		}
		pure[h] = 2
		res := h.Signature.Results()
		if res.Len() != 1 || !isSubnetPtr(res.At(0).Type()) {
			return false
		}
		if fnPkg(h) == nil || fnPkg(h).Path() != c.P.expand(pkg) {
			return false
		}
		asserts := 0
		for _, b := range h.Blocks {
			for _, in := range b.Instrs {
				switch x := in.(type) {
				case *ssa.TypeAssert:
					if isSubnetPtr(x.AssertedType) {
						asserts++
					}
				case *ssa.If:
					if !structural(condOf(x)) {
						return false
					}
				case *ssa.Call:
					// a scan calls nothing but IsEdns0 / len / Option()
					d := Desc(x)
					if !(d.Fn != nil && sameFunc(d.Fn, isEdns0)) && d.Method != "builtin.len" && d.Method != "Option" {
						return false
					}
				}
			}
		}
		if asserts == 0 {
			return false
		}
		pure[h] = 1
		return true
	}
	var isLookup func(e *Expr) bool
	isLookup = func(e *Expr) bool {
		for e != nil && (e.K == EConvert || (e.K == EFree && e.X != nil)) {
			e = e.X
		}
		if e == nil {
			return false
		}
		switch e.K {
		case ETypeAssert:
			ta, ok := e.V.(*ssa.TypeAssert)
			return ok && isSubnetPtr(ta.AssertedType)
		case EExtract:
			if e.X != nil && e.X.K == ETypeAssert {
				return isLookup(e.X)
			}
		case ECall:
			return pureScan(e.SFn)
		case EPhi, EAlloc:
			// `var sub *EDNS0_SUBNET; for … { if s, ok := o.(*EDNS0_SUBNET); ok { sub = s } }`: nil ⇔ nothing found
			n := 0
			for _, a := range e.Args {
				switch {
				case IsNilConst(a):
				case a != nil && a.K == EUnknown && (a.Name == "phi-cycle" || a.Name == "cell-cycle"):
				case isLookup(a):
					n++
				default:
					return false
				}
			}
			return n > 0
		}
		return false
	}
	bars := []Barrier{OnFalse("ECS option lookup came back empty", isLookup)}

	nSites := 0
	for _, fn := range c.P.FuncsInPkg(pkg) {
		for _, b := range fn.Blocks {
			for _, in := range b.Instrs {
				st, ok := in.(*ssa.Store)
				if !ok || !isFieldStore(in, extraF, nil) {
					continue
				}
				md := Desc(st.Addr.(*ssa.FieldAddr).X)
				if ms := strip(md); ms == nil || ms.K == EAlloc || ms.K == EMake || ms.K == EUnknown {
					continue // a message built here has no upstream option to lose
				}
				mStr := md.String()
				isM := func(e *Expr) bool { return e != nil && e.String() == mStr }
				otherOPT := func(e *Expr) bool {
					return e.K == ECall && e.Fn != nil && sameFunc(e.Fn, isEdns0) && len(e.Args) >= 1 && !isM(e.Args[0])
				}
				vd := Desc(st.Val)
				if !anyNode(vd, otherOPT) {
					continue
				}
				nSites++
				top := TopLevel(fn)
				key := fmt.Sprintf("%s|%s|another message's OPT is re-attached without the reply's ECS option only when an ECS lookup came back empty", R, fnKey(top))
				depends := func(e *Expr) bool {
					return anyNode(e, func(x *Expr) bool {
						xi, ok := x.V.(ssa.Instruction)
						return ok && (x.K == ECall || x.K == ETypeAssert) && isRead(xi, isM, 0)
					})
				}
				// where R's OPT flows in without M's option
				type flowIn struct {
					pred, succ *ssa.BasicBlock // a phi edge …
					whole      bool            // … or the stored value as such
					what       string
				}
				var raws []flowIn
				undec := ""
				seen := map[*Expr]bool{}
				var walk func(e *Expr, pred, succ *ssa.BasicBlock, d int)
				walk = func(e *Expr, pred, succ *ssa.BasicBlock, d int) {
					if e == nil || seen[e] || d > 30 || !anyNode(e, otherOPT) {
						return
					}
					seen[e] = true
					switch {
					case e.K == EPhi:
						ph, _ := e.V.(*ssa.Phi)
						if ph == nil || len(ph.Edges) != len(e.Args) || len(ph.Block().Preds) != len(ph.Edges) {
							undec = "a phi that cannot be related to its incoming edges"
							return
						}
						for i, a := range e.Args {
							walk(a, ph.Block().Preds[i], ph.Block(), d+1)
						}
					case e.K == EAlloc:
						undec = "R's OPT goes through a local cell (" + trunc(e.String(), 60) + "): the flow cannot be tied to a path"
					case e.K == EMake || e.K == EConvert || (e.K == ECall && e.Method == "builtin.append"):
						walk(e.X, pred, succ, d+1)
						for _, a := range e.Args {
							walk(a, pred, succ, d+1)
						}
					default:
						if depends(e) {
							return
						}
						raws = append(raws, flowIn{pred, succ, pred == nil, trunc(e.String(), 80)})
					}
				}
				walk(vd, nil, nil, 0)
				if undec != "" {
					c.undecided(R, key, instrPos(in), undec)
					continue
				}
				if len(raws) == 0 {
					c.ok(R, key, instrPos(in), "every value stored carries the reply's own ECS option")
					continue
				}
				hc := &helperCtx{always: map[helperKey]int{}, implies: map[helperKey]int{}, act: map[*ssa.Function][]*Expr{}}
				bad := ""
				for _, r := range raws {
					if r.whole {
						if ug, tr := c.unguarded(in, bars, top); ug {
							bad = fmt.Sprintf("%s is stored as is on a path that crosses no empty ECS lookup (%s)", r.what, tr)
						}
						continue
					}
					if len(r.pred.Instrs) == 0 {
						bad = "empty predecessor block"
						continue
					}
					if hc.phiEdgeBlocked(r.pred, r.succ, bars) {
						continue
					}
					term := r.pred.Instrs[len(r.pred.Instrs)-1]
					if ug, tr := c.unguarded(term, bars, top); ug {
						bad = fmt.Sprintf("%s flows into the stored OPT (branch at %s) on a path that crosses no empty ECS lookup (%s)", r.what, c.lineOf(term), tr)
					}
				}
				if bad != "" {
					c.violation(R, key, instrPos(in), bad+": the authority's option is dropped for a reason other than 'there was none / none was asked for', and the request's own option says SCOPE 0 — the cache files the tailored answer for everybody")
				} else {
					c.ok(R, key, instrPos(in), fmt.Sprintf("%d raw flow(s) of the other OPT, each only across an empty ECS lookup", len(raws)))
				}
			}
		}
	}
	if nSites == 0 {
		c.unresolved(R, "sites", "no store into Msg.Extra of another message's OPT found in "+pkg+" (the rule would pass vacuously)")
	}
	c.Floor(R, 1)
}
