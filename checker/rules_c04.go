package main

import (
	"fmt"
	"go/token"
	"go/types"
	"os"
	"strings"
	"time"

	"golang.org/x/tools/go/ssa"
)

func init() {
	register(&PropDef{
		ID:    "C04",
		Title: "Nothing is served past its lifetime; composed answers inherit the shortest part",
		Run:   runC04,
		Explanation: "Decided (structure only): R1 every function that reads a stored body (CacheEntry.wire/stripped, nxDomainCutEntry.msg/wire templates, denialProofEntry.records) hands out a reply only across the live edge of that item's expiry comparison (remaining > 0 / now.Before(expires)), per hop in the wire chase; " +
			"R2 every TTL written into a reply by package cache (RR header stores, wire.SetTTL, appendRecomposedRR, chase segment ttl) is the seconds conversion of that same remaining time; " +
			"R3 CacheEntry.remaining returns min(ttl-elapsed, cutUntil-now) with cutUntil.IsZero() the only bypass, and stored/ttl/cutUntil are read nowhere else but boundRequestToEntryLifetime; " +
			"R4 the lifetime fields have one writer each, fed from time.Now() (monotonic reading kept) / the ttl parameter / the cutUntil parameter / denialProofExpiry; every CacheEntry ttl comes from TTLManager.Calculate(CalculateCacheTTL(..)) (ECS cap only lowers); CalculateCacheTTL is a min-fold with record-TTL and RRSIG-expiry candidates in each of the three section loops plus SOA.Minttl, getRRSIGTTL returns the smaller of TTL and time-to-expiry; " +
			"R5 nxDomainCutCache.record and denialProofExpiry lower their lifetime only through the bound closure (candidate < ttl), pass RR TTL, SOA minimum, RRSIG OrigTtl, RRSIG expiration and cutUntil through it, never call TTLManager.Calculate, and store nothing when the result is <= 0; " +
			"R6 after every builder call the function returns only across the matching boundRequestTo*/…EntryLifetime call, the builder's failure edge, an aborted lease or the wire-fallback edge; boundRequestToEntryLifetime folds min(stored+ttl, cutUntil); " +
			"R7 ResponseMeta.cut is written only by BoundCutFor (behind zero/earlier), Reset, detachedCopy; BoundCutFor's callers are the listed feeders; WriteMsg cannot reach additionalAnswer after reading Cut(); " +
			"R8 processPrefetch touches the cache only through prefetchExchange/ReplaceIfCurrent/RecordDenialProof/RecordNXDomainCut, the records only behind ReplaceIfCurrent=true; ReplaceIfCurrent writes only via CompareAndSwap(key, expected, …); the prefetch queryer is built from SubPipeline(skip + the cache handler's own name); " +
			"R10 after every Cache.internalExchange, wherever the sub-response is transferred into the outer message (a call receiving both, or a sub-response-dependent store into the outer message) every path to a return crosses subQueryLineage.inherit (directly or through a helper that always calls it); R4 additionally: each CalculateCacheTTL candidate is applied for every response type that reaches the fold (path feasibility under respType = TypeSuccess / TypeNXDomain / TypeNoRecords; SOA.Minttl for the negative ones); min-folds are decided shape-independently (phi, loop accumulator, early returns, several consumer calls, lowering helpers, builtin min); " +
			"R9 MinCacheTTL=5s, MaxCacheTTL=24h feed NewPositiveCache in cache.New; TTLManager.Calculate and the tail of CalculateCacheTTL return min/max only behind the comparison that makes them a clamp.",
		NotDecided: []string{
			"the numeric result of CalculateCacheTTL (minimum over records/RRSIG expirations) for all messages",
			"monotonic non-growth of the shown TTL between hits as a timed statement",
			"schedule-level races beyond the CAS shape (C16-R6 decides the compare-then-write under the segment lock)",
			"whether every future composite route folds lineage: R6 discovers serving functions by their use of the entry builders; a route that re-implements a builder is caught by R1 (it must read the stored body), one that copies records out of a served message is not",
			"failure-cache lifetimes (retryAfter) — decided under C13",
			"authority.Cache.Get expiry — decided under C08-R2",
		},
	})
}

func runC04(c *Ctx) {
	const cp = "middleware/cache"
	// ---- anchors
	remainingF := c.fobj("C04-R1", cp+".(*CacheEntry).remaining")
	fWire := c.field("C04-R1", cp+".CacheEntry.wire")
	fStripped := c.field("C04-R1", cp+".CacheEntry.stripped")
	wireBodyFor := c.fobj("C04-R1", cp+".(*CacheEntry).wireBodyFor")
	checkCache := c.fobj("C04-R1", cp+".(*Cache).checkCache")
	nxMsg := c.field("C04-R1", cp+".nxDomainCutEntry.msg")
	nxFull := c.field("C04-R1", cp+".nxDomainCutEntry.wireFull")
	nxStripped := c.field("C04-R1", cp+".nxDomainCutEntry.wireStripped")
	nxExpires := c.field("C04-R1", cp+".nxDomainCutEntry.expires")
	dpRecords := c.field("C04-R1", cp+".denialProofEntry.records")
	dpExpires := c.field("C04-R1", cp+".denialProofEntry.expires")
	fStored := c.field("C04-R3", cp+".CacheEntry.stored")
	fTTL := c.field("C04-R3", cp+".CacheEntry.ttl")
	fCutUntil := c.field("C04-R3", cp+".CacheEntry.cutUntil")
	hdrTTL := c.field("C04-R2", "github.com/miekg/dns.RR_Header.Ttl")
	timeNow := c.fobj("C04-R4", "time.Now")
	timeAdd := c.fobj("C04-R4", "time.Time.Add")
	if remainingF == nil || fWire == nil || fStripped == nil || wireBodyFor == nil || checkCache == nil || nxMsg == nil || nxFull == nil || nxStripped == nil ||
		nxExpires == nil || dpRecords == nil || dpExpires == nil || fStored == nil || fTTL == nil || fCutUntil == nil || hdrTTL == nil || timeNow == nil || timeAdd == nil {
		return
	}

	isRemaining := CallTo(remainingF)
	nxRemaining := c04TimeSub(FieldIs(nxExpires), Any)
	// live edges
	liveEntry := []Barrier{OnCmp("remaining>0", isRemaining, token.GTR, IsConstInt(0), true)}
	// bool helpers of CacheEntry whose outcome establishes liveness: every
	// return of the helper that yields `want` is behind remaining > 0 inside the
	// helper, or the helper returns the comparison itself
	for _, h := range c.P.FuncsInPkg(cp) {
		fo := funcObjOf(h)
		if h.Parent() != nil || fo == nil || !methodOn(fo, "CacheEntry") || h.Signature.Results().Len() != 1 {
			continue
		}
		if b, ok := h.Signature.Results().At(0).Type().Underlying().(*types.Basic); !ok || b.Kind() != types.Bool {
			continue
		}
		for _, want := range []bool{true, false} {
			okAll, n := true, 0
			for _, in := range returnsWhere(h, 0, nil) {
				n++
				e := strip(Desc(in.(*ssa.Return).Results[0]))
				switch {
				case IsConstBool(!want)(e):
				case IsConstBool(want)(e):
					if ug, _ := c.unguarded(in, liveEntry[:1], h); ug {
						okAll = false
					}
				default:
					if m, pol := CmpMatch(e, isRemaining, token.GTR, IsConstInt(0)); !m || pol != want {
						okAll = false
					}
				}
			}
			if okAll && n > 0 {
				if want {
					liveEntry = append(liveEntry, OnTrue(fo.Name()+"()", CallTo(fo)))
				} else {
					liveEntry = append(liveEntry, OnFalse(fo.Name()+"()", CallTo(fo)))
				}
			}
		}
	}
	liveCut := []Barrier{
		OnCmp("expires-now>0", nxRemaining, token.GTR, IsConstInt(0), true),
		OnTrue("now.Before(expires)", c08TimeMethod("Before", Any, FieldIs(nxExpires))),
	}

	// ------------------------------------------------------------------ R1
	c.Doc("C04-R1", "every function of package cache that reads a stored body returns a built reply only across the live edge of that item's expiry comparison; the wire chase re-checks after every hop it fetches")
	type bodyKind struct {
		what    string
		fields  []*types.Var
		callee  *types.Func
		live    []Barrier
		nonServ map[string]string
	}
	// denial proofs: the comparison is on min(expires…) - now; the accumulator is checked below
	var dpAcc ssa.Value
	dpLive := []Barrier{OnCmp("min(expires)-now>0", func(e *Expr) bool {
		e = strip(e)
		if !c04TimeSub(Any, Any)(e) || len(e.Args) != 2 {
			return false
		}
		fam := c08PhiFamily(e.Args[0].V)
		if len(fam) == 0 {
			return false
		}
		for _, en := range c08FamilyEntries(fam) {
			if !FieldIs(dpExpires)(Desc(en.Val)) {
				return false
			}
		}
		dpAcc = e.Args[0].V
		return true
	}, token.GTR, IsConstInt(0), true)}
	kinds := []bodyKind{
		{"CacheEntry body", []*types.Var{fWire, fStripped}, wireBodyFor, liveEntry, map[string]string{
			"(*middleware/cache.CacheEntry).wireBodyFor":       "accessor choosing the DO / non-DO body; every caller is in this rule",
			"(*middleware/cache.CacheEntry).wireChainMismatch": "reads only len(body) for the size gate; returns a counter",
			"(*middleware/cache.CacheEntry).serveWire":         "sizes the buffer from len(body); the reply is built by serveWireInto",
			"(*middleware/cache.Cache).serveHitFromWire":       "sizes the lease from len(body); the reply is built by serveWireIntoRequest",
			"(*middleware/cache.CacheEntry).storedMsg":         "inspection helper without serve-time shaping; no non-test caller (checked)",
		}},
		{"subtree-cut body", []*types.Var{nxMsg, nxFull, nxStripped}, nil, liveCut, map[string]string{
			"(*middleware/cache.nxDomainCutEntry).prepareWire":  "packs the templates at admission; returns nothing",
			"(*middleware/cache.Cache).serveCutHitFromWire":     "reads only len(template) for the lease; the reply is built by nxDomainCutEntry.serveWireInto",
			"(*middleware/cache.nxDomainCutCache).lookupWire$1": "index probe: tests wireFull for nil only; the entry it selects is served through nxDomainCutEntry.serveWireInto",
			"(*middleware/cache.nxDomainCutCache).record":       "admission: byte accounting and index insertion of the freshly built templates",
		}},
		{"denial-proof records", []*types.Var{dpRecords}, nil, dpLive, map[string]string{}},
	}
	for _, k := range kinds {
		used := map[string]bool{}
		for _, fn := range c.P.FuncsInPkg(cp) {
			reads := c04LoadsField(fn, k.fields...)
			if !reads && k.callee != nil {
				reads = len(instrsWhere(fn, isCallTo(k.callee))) > 0 && fn.Parent() == nil
				if reads {
					// only direct calls in fn itself
					reads = false
					for _, b := range fn.Blocks {
						for _, in := range b.Instrs {
							if isCallTo(k.callee)(in) {
								reads = true
							}
						}
					}
				}
			}
			if !reads {
				continue
			}
			name := fnKey(fn)
			if why, ok := k.nonServ[name]; ok {
				used[name] = true
				c.ok("C04-R1", fmt.Sprintf("C04-R1|%s|%s (non-serving reader)", name, k.what), fn.Pos(), why)
				continue
			}
			n := 0
			for _, b := range fn.Blocks {
				for _, in := range b.Instrs {
					if !c04SuccessReturn(in) {
						continue
					}
					n++
					key := fmt.Sprintf("C04-R1|%s|%s served only while live", name, k.what)
					if ug, tr := c.unguarded(in, k.live, TopLevel(fn)); ug {
						c.violation("C04-R1", key, instrPos(in), fmt.Sprintf("%s reads a %s and can return a reply without crossing the live edge {%s}; path %s", name, k.what, c08BarNames(k.live), tr))
					} else {
						c.ok("C04-R1", key, instrPos(in), fmt.Sprintf("%s: reply returned only behind {%s}", name, c08BarNames(k.live)))
					}
				}
			}
			if n == 0 {
				c.undecided("C04-R1", fmt.Sprintf("C04-R1|%s|%s", name, k.what), fn.Pos(), name+" reads a "+k.what+" but has no recognisable reply-returning exit; add it to the non-serving table with a reason or give it a (…, bool)/pointer result")
			}
		}
		for name := range k.nonServ {
			if !used[name] {
				c.unresolved("C04-R1", name, "non-serving reader row is stale (function no longer reads a "+k.what+")")
			}
		}
	}
	if sm := c.fobj("C04-R1", cp+".(*CacheEntry).storedMsg"); sm != nil {
		if sites := c.CallSites(sm); len(sites) == 0 {
			c.ok("C04-R1", "C04-R1|storedMsg|no caller", token.NoPos, "storedMsg has no non-test caller")
		} else {
			for _, s := range sites {
				c.violation("C04-R1", "C04-R1|storedMsg|"+fnKey(TopLevel(s.Fn)), instrPos(s.Instr), "storedMsg hands out the stored message without any expiry check")
			}
		}
	}
	// per hop in the chase
	if cw := c.fn("C04-R1", cp+".(*Cache).collectWireChase"); cw != nil {
		c.MustCrossFrom("C04-R1", cw, "hop fetched from the cache is live before it is composed", isPlainCallTo(checkCache), c04SuccessReturn, liveEntry...)
	}
	// the denial-proof expiry that is compared is the minimum over all parts
	if dr := c.fn("C04-R1", cp+".denialProofResponse"); dr != nil {
		edgePoints(dr, dpLive[0]) // sets dpAcc
		if dpAcc == nil {
			c.violation("C04-R1", "C04-R1|denialProofResponse|expiry is min over SOA and proof entries", dr.Pos(), "no comparison of (min over entry.expires) - now against zero found")
		} else {
			cands := c.c08MinFoldAccum("C04-R1", "C04-R1|denialProofResponse|expiry is min over SOA and proof entries", dpAcc, "synthesised-denial expiry",
				func(e *Expr) bool { e = strip(e); return FieldIs(dpExpires)(e) && e.X != nil && strip(e.X).K == EParam })
			for _, cd := range cands {
				if !FieldIs(dpExpires)(cd) {
					c.violation("C04-R1", "C04-R1|denialProofResponse|expiry candidates", dr.Pos(), "expiry folds something other than entry.expires: "+trunc(cd.String(), 100))
				}
			}
		}
	}
	c.Floor("C04-R1", 18)

	// ------------------------------------------------------------------ R2
	c.Doc("C04-R2", "every TTL written into a reply by package cache is seconds(remaining) of the live-checked remaining time (or a chase segment's ttl, itself stored from it)")
	setTTL := c.fobj("C04-R2", "internal/wire.SetTTL")
	appendRR := c.fobj("C04-R2", cp+".appendRecomposedRR")
	segTTL := c.field("C04-R2", cp+".wireChaseSegment.ttl")
	if setTTL != nil && appendRR != nil && segTTL != nil {
		var curTop *ssa.Function // function holding the store being judged
		shown := func(e *Expr) bool {
			e = strip(e)
			if FieldIs(segTTL)(e) {
				return true
			}
			// F-C04-2: the relay that fills the cache lowers TTLs to the lifetime the
			// answer was just admitted with (see rules_f_c04_2.go)
			if c04AdmittedLifetimeSeconds(c, curTop, e) {
				return true
			}
			d, ok := c04SecondsConv(e)
			if !ok {
				return false
			}
			if isRemaining(d) {
				// the remaining time of the entry being served: the builder's own receiver
				r := strip(d)
				if r.K == EExtract {
					r = strip(r.X)
				}
				recv := strip(r.Args[0])
				return recv != nil && recv.K == EParam && recv.Idx == 0
			}
			if nxRemaining(d) {
				return true
			}
			// denial proof: min(expires) - now
			if c04TimeSub(Any, Any)(d) && len(d.Args) == 2 && dpAcc != nil && d.Args[0].V == dpAcc {
				return true
			}
			return false
		}
		for _, fn := range c.P.FuncsInPkg(cp) {
			for _, b := range fn.Blocks {
				for _, in := range b.Instrs {
					var v ssa.Value
					var what string
					switch {
					case isFieldStore(in, hdrTTL, nil):
						v, what = in.(*ssa.Store).Val, "RR header TTL"
					case isFieldStore(in, segTTL, nil):
						v, what = in.(*ssa.Store).Val, "chase segment ttl"
					case isPlainCallTo(setTTL)(in):
						v, what = callArg(in, 2), "wire.SetTTL"
					case isPlainCallTo(appendRR)(in):
						v, what = callArg(in, 3), "appendRecomposedRR ttl"
					default:
						continue
					}
					key := fmt.Sprintf("C04-R2|%s|%s", fnKey(TopLevel(fn)), what)
					if what == "chase segment ttl" {
						// composite literal store: seconds(remaining) of the very entry
						// stored in the same segment
						var segEnt *Expr
						base := Desc(in.(*ssa.Store).Addr.(*ssa.FieldAddr).X).String()
						if fe := c.field("C04-R2", cp+".wireChaseSegment.entry"); fe != nil {
							for _, x := range in.Block().Instrs {
								if isFieldStore(x, fe, nil) && Desc(x.(*ssa.Store).Addr.(*ssa.FieldAddr).X).String() == base {
									segEnt = Desc(x.(*ssa.Store).Val)
								}
							}
						}
						c.OriginCheck("C04-R2", key, in, what, v, nil, func(e *Expr) bool {
							d, ok := c04SecondsConv(e)
							if !ok || !isRemaining(d) || segEnt == nil {
								return false
							}
							r := strip(d)
							if r.K == EExtract {
								r = strip(r.X)
							}
							return c08SameAs(segEnt)(r.Args[0])
						})
						continue
					}
					curTop = TopLevel(fn)
					c.OriginCheck("C04-R2", key, in, what, v, nil, shown)
				}
			}
		}
	}
	c.Floor("C04-R2", 10)

	// ------------------------------------------------------------------ R3
	c.Doc("C04-R3", "CacheEntry.remaining = min(ttl - now.Sub(stored), cutUntil.Sub(now)), the cut skipped only when cutUntil.IsZero(); stored/ttl/cutUntil are read only in remaining and boundRequestToEntryLifetime")
	isZeroCut := OnTrue("cutUntil.IsZero()", func(e *Expr) bool {
		e = strip(e)
		return e != nil && e.K == ECall && e.Fn != nil && e.Fn.Name() == "IsZero" && len(e.Args) == 1 && FieldIs(fCutUntil)(e.Args[0])
	})
	if rf := c.fn("C04-R3", cp+".(*CacheEntry).remaining"); rf != nil {
		// all returns together (one return of a phi, or early returns): the value
		// handed out is min(ttl-elapsed, cutUntil-now); the cut may be left out
		// only where cutUntil.IsZero()
		sinks := c08ReturnSinks(rf, 0, nil)
		terms := c.c08Fold("C04-R3", "C04-R3|CacheEntry.remaining|minimum, cut skipped only when zero", "remaining", sinks, c08FoldOpt{Skip: []Barrier{isZeroCut}})
		ls := c08TermExprs(terms)
		hasTTL, hasCut := false, false
		var other []string
		for _, l := range ls {
			ll := strip(l)
			switch {
			case ll.K == EBin && ll.Op == token.SUB && FieldIs(fTTL)(ll.X) && c04TimeSub(Any, FieldIs(fStored))(ll.Y):
				hasTTL = true
			case c04TimeSub(FieldIs(fCutUntil), Any)(ll):
				hasCut = true
			default:
				other = append(other, trunc(ll.String(), 100))
			}
		}
		key := "C04-R3|CacheEntry.remaining|folds ttl-elapsed and cutUntil-now"
		if hasTTL && hasCut && len(other) == 0 {
			c.ok("C04-R3", key, rf.Pos(), "remaining ∈ {"+c08ExprList(ls)+"}")
		} else {
			c.violation("C04-R3", key, rf.Pos(), fmt.Sprintf("remaining does not fold exactly {ttl-elapsed, cutUntil-now} (ttl=%v cut=%v other=%v): an answer can outlive its delegation cut", hasTTL, hasCut, other))
		}
	}
	readers := map[string]string{
		"(*middleware/cache.CacheEntry).remaining":     "the read-time lifetime",
		"middleware/cache.boundRequestToEntryLifetime": "lineage bound = min(stored+ttl, cutUntil) (C04-R6)",
	}
	usedReaders := map[string]bool{}
	for _, fn := range c.P.RepoFuncs() {
		// F-C04-2: entry.remaining(entry.stored) — the lifetime at the moment of
		// admission — is remaining()'s own answer, not a second computation
		if !c04ReadsLifetimeFields(fn, remainingF, fStored, fStored, fTTL, fCutUntil) {
			continue
		}
		name := fnKey(TopLevel(fn))
		key := "C04-R3|read of stored/ttl/cutUntil|" + name
		if why, ok := readers[name]; ok {
			usedReaders[name] = true
			c.ok("C04-R3", key, fn.Pos(), why)
		} else {
			c.violation("C04-R3", key, fn.Pos(), name+" reads CacheEntry.stored/ttl/cutUntil itself: a lifetime computed outside remaining() does not fold the delegation cut")
		}
	}
	for n := range readers {
		if !usedReaders[n] {
			c.unresolved("C04-R3", n, "reader row is stale")
		}
	}
	c.Floor("C04-R3", 4)

	runC04Writers(c, isZeroCut)
	runC04Lineage(c, isZeroCut)
	runC04SubQueryLineage(c)
}

var _ = strings.Join
var _ = time.Second

// ---------------------------------------------------------------------------
// R4 (writers and sources of the lifetime fields), R5 (no floor on proofs and
// cuts), R9 (floor / cap constants and clamp shape)

func runC04Writers(c *Ctx, isZeroCut Barrier) {
	const cp = "middleware/cache"
	const du = "internal/dnsutil"
	fStored := c.field("C04-R4", cp+".CacheEntry.stored")
	fTTL := c.field("C04-R4", cp+".CacheEntry.ttl")
	fCutUntil := c.field("C04-R4", cp+".CacheEntry.cutUntil")
	nxExpires := c.field("C04-R4", cp+".nxDomainCutEntry.expires")
	dpExpires := c.field("C04-R4", cp+".denialProofEntry.expires")
	ecsMax := c.field("C04-R4", cp+".CacheConfig.ECSMaxTTL")
	tmMin := c.field("C04-R9", cp+".TTLManager.min")
	tmMax := c.field("C04-R9", cp+".TTLManager.max")
	timeNow := c.fobj("C04-R4", "time.Now")
	timeAdd := c.fobj("C04-R4", "time.Time.Add")
	timeUnix := c.fobj("C04-R5", "time.Unix")
	calc := c.fobj("C04-R4", cp+".TTLManager.Calculate")
	calcTTL := c.fobj("C04-R4", du+".CalculateCacheTTL")
	getTTL := c.fobj("C04-R4", du+".getTTL")
	getSigTTL := c.fobj("C04-R4", du+".getRRSIGTTL")
	newEntryK := c.fobj("C04-R4", cp+".NewCacheEntryWithKey")
	newEntryS := c.fobj("C04-R4", cp+".NewScopedCacheEntry")
	newEntry0 := c.fobj("C04-R4", cp+".NewCacheEntry")
	newDP := c.fobj("C04-R4", cp+".newDenialProofEntry")
	dpExpiry := c.fobj("C04-R4", cp+".denialProofExpiry")
	hdrTTL := c.field("C04-R5", "github.com/miekg/dns.RR_Header.Ttl")
	soaMin := c.field("C04-R5", "github.com/miekg/dns.SOA.Minttl")
	sigOrig := c.field("C04-R5", "github.com/miekg/dns.RRSIG.OrigTtl")
	sigExp := c.field("C04-R5", "github.com/miekg/dns.RRSIG.Expiration")
	msgAnswer := c.field("C04-R4", "github.com/miekg/dns.Msg.Answer")
	msgNs := c.field("C04-R4", "github.com/miekg/dns.Msg.Ns")
	msgExtra := c.field("C04-R4", "github.com/miekg/dns.Msg.Extra")
	if fStored == nil || fTTL == nil || fCutUntil == nil || nxExpires == nil || dpExpires == nil || ecsMax == nil || tmMin == nil || tmMax == nil || timeNow == nil || timeAdd == nil ||
		timeUnix == nil || calc == nil || calcTTL == nil || getTTL == nil || getSigTTL == nil || newEntryK == nil || newEntryS == nil || newEntry0 == nil || newDP == nil ||
		dpExpiry == nil || hdrTTL == nil || soaMin == nil || sigOrig == nil || sigExp == nil || msgAnswer == nil || msgNs == nil || msgExtra == nil {
		return
	}
	isParam := c08IsParamNamed

	// ------------------------------------------------------------------ R4
	c.Doc("C04-R4", "one writer per lifetime field, fed from time.Now() / the ttl parameter / the cutUntil parameter / denialProofExpiry; every CacheEntry ttl = [ECS cap ∘] TTLManager.Calculate(CalculateCacheTTL(..)); CalculateCacheTTL folds record TTL and RRSIG expiry per section and SOA.Minttl as a minimum")
	type fw struct {
		f      *types.Var
		name   string
		allow  map[string]string
		origin Pat
		odesc  string
	}
	for _, w := range []fw{
		{fStored, "CacheEntry.stored", map[string]string{"middleware/cache.NewCacheEntryWithKey": "single constructor"},
			func(e *Expr) bool { e = strip(e); return e != nil && e.K == ECall && CallTo(timeNow)(e) }, "time.Now() (monotonic reading kept)"},
		{fTTL, "CacheEntry.ttl", map[string]string{"middleware/cache.NewCacheEntryWithKey": "single constructor"}, isParam("ttl"), "the ttl parameter"},
		{fCutUntil, "CacheEntry.cutUntil", map[string]string{
			"(*middleware/cache.Store).setFromResponseWithKey": "admission (newEntry closure)",
			"(*middleware/cache.Store).ReplaceIfCurrent":       "CAS refresh (inherit closure)"}, isParam("cutUntil"), "the cutUntil parameter"},
		{nxExpires, "nxDomainCutEntry.expires", map[string]string{"(*middleware/cache.nxDomainCutCache).record": "single constructor"}, nil, ""},
		{dpExpires, "denialProofEntry.expires", map[string]string{"middleware/cache.newDenialProofEntry": "single constructor"}, isParam("expires"), "the expires parameter"},
	} {
		sites := c.StoreSites(w.f)
		c.WhoMay("C04-R4", "store "+w.name, sites, w.allow)
		if w.origin == nil {
			continue
		}
		for _, s := range sites {
			owner := fnKey(TopLevel(s.Fn))
			_, ok := w.allow[owner]
			if !ok {
				// the writer was extracted into an unexported helper of an allowed function
				if rows, okh := c.whoMayRows(TopLevel(s.Fn), w.allow, 0, map[*ssa.Function]bool{}); okh {
					owner, ok = rows[0], true
				}
			}
			if ok {
				c.OriginCheck("C04-R4", fmt.Sprintf("C04-R4|%s|%s origin", owner, w.name), s.Instr, w.name+" ← "+w.odesc, s.Val, nil, w.origin)
			}
		}
	}
	for _, s := range c.CallSites(newDP) {
		if s.Kind == "ref" {
			c.undecided("C04-R4", "C04-R4|newDenialProofEntry|ref", instrPos(s.Instr), "used as a function value")
			continue
		}
		c.OriginCheck("C04-R4", fmt.Sprintf("C04-R4|%s|newDenialProofEntry expires", fnKey(TopLevel(s.Fn))), s.Instr, "proof entry expiry", callArg(s.Instr, 3), nil, ResultOf(0, dpExpiry))
	}
	// ttl sources
	var ttlOK func(e *Expr, fn *ssa.Function, depth int) (bool, string)
	capOnlyLowers := func(cl *ssa.Function) bool {
		if cl == nil || len(cl.Params) != 1 {
			return false
		}
		p := c08IsParamNamed(cl.Params[0].Name())
		ok := true
		n := 0
		for _, in := range returnsWhere(cl, 0, nil) {
			n++
			e := strip(Desc(in.(*ssa.Return).Results[0]))
			if p(e) {
				continue
			}
			if ug, _ := c.unguarded(in, c08LT(c08SameAs(e), p), TopLevel(cl)); ug {
				ok = false
			}
		}
		return ok && n > 0
	}
	ttlOK = func(e *Expr, fn *ssa.Function, depth int) (bool, string) {
		e = strip(e)
		if e == nil || depth > 4 {
			return false, "?"
		}
		switch {
		case e.K == ECall && CallTo(calc)(e) && len(e.Args) == 2:
			for _, l := range Origins(e.Args[1], nil) {
				if !CallTo(calcTTL)(l) {
					return false, "Calculate(" + trunc(l.String(), 80) + ")"
				}
			}
			return true, ""
		case e.K == ECall && e.SFn != nil && e.SFn.Parent() != nil && len(e.Args) == 1:
			if !capOnlyLowers(e.SFn) {
				return false, "closure " + fnKey(e.SFn) + " can raise the ttl"
			}
			for _, l := range Origins(e.Args[0], nil) {
				if ok, why := ttlOK(l, fn, depth+1); !ok {
					return false, why
				}
			}
			return true, ""
		case e.K == EParam && fn != nil && fn.Parent() != nil:
			calls := c04ClosureCalls(fn)
			if len(calls) == 0 {
				return false, "closure " + fnKey(fn) + " has no call"
			}
			for _, cl := range calls {
				cc := callCommon(cl)
				if e.Idx < 0 || e.Idx >= len(cc.Args) {
					return false, "closure arg"
				}
				for _, l := range Origins(Desc(cc.Args[e.Idx]), nil) {
					if ok, why := ttlOK(l, cl.Parent(), depth+1); !ok {
						return false, why
					}
				}
			}
			return true, ""
		case e.K == EParam && fn != nil && (funcObjOf(fn) == newEntry0 || funcObjOf(fn) == newEntryS):
			return true, "" // exported wrapper: its own call sites are in this loop
		}
		return false, trunc(e.String(), 120)
	}
	for _, ctor := range []*types.Func{newEntryK, newEntryS, newEntry0} {
		for _, s := range c.CallSites(ctor) {
			key := fmt.Sprintf("C04-R4|%s|%s ttl source", fnKey(TopLevel(s.Fn)), ctor.Name())
			if s.Kind == "ref" {
				c.undecided("C04-R4", key, instrPos(s.Instr), ctor.Name()+" used as a function value")
				continue
			}
			bad := ""
			ls := Origins(Desc(callArg(s.Instr, 1)), nil)
			for _, l := range ls {
				if ok, why := ttlOK(l, s.Fn, 0); !ok {
					bad = why
				}
			}
			if bad != "" || len(ls) == 0 {
				c.violation("C04-R4", key, instrPos(s.Instr), "entry ttl is not TTLManager.Calculate(CalculateCacheTTL(…)) (optionally lowered by the ECS cap): "+bad)
			} else {
				c.ok("C04-R4", key, instrPos(s.Instr), "entry ttl ← [cap∘] TTLManager.Calculate(CalculateCacheTTL(…))")
			}
		}
	}
	// CalculateCacheTTL: whatever leaves the function other than a constant is
	// decided as a min-fold (loop accumulator, lowering helpers, early returns),
	// and every required candidate must be applied for every response type that
	// reaches the fold — decided by path feasibility under respType = T, not by
	// looking for a particular local.
	if f := c.fn("C04-R4", du+".CalculateCacheTTL"); f != nil {
		sinks := c08ReturnSinks(f, 0, func(in ssa.Instruction) bool { return !IsAnyConst(Desc(in.(*ssa.Return).Results[0])) })
		if len(sinks) == 0 {
			c.unresolved("C04-R4", "CalculateCacheTTL", "no non-constant return found")
		} else {
			terms := c.c08Fold("C04-R4", "C04-R4|CalculateCacheTTL|min-fold", "minTTL", sinks, c08FoldOpt{})
			type need struct {
				what     string
				p        Pat
				negative bool // applies to negative answers only
			}
			var needs []need
			for _, sec := range []*types.Var{msgAnswer, msgNs, msgExtra} {
				sec := sec
				needs = append(needs,
					need{"record TTL of " + sec.Name(), func(e *Expr) bool { return CallTo(getTTL)(e) && Contains(FieldIs(sec))(e) }, false},
					need{"RRSIG expiry in " + sec.Name(), func(e *Expr) bool { return CallTo(getSigTTL)(e) && Contains(FieldIs(sec))(e) }, false})
			}
			needs = append(needs, need{"SOA minimum (negative answers)", func(e *Expr) bool { s, ok := c08SecondsOf(e); return ok && FieldIs(soaMin)(s) }, true})
			// response types whose TTL is computed by the fold
			var respParam *ssa.Parameter
			if len(f.Params) == 2 {
				respParam = f.Params[1]
			}
			type rt struct {
				name     string
				negative bool
			}
			feas := map[string]*c04Feasible{}
			var rts []rt
			for _, t := range []rt{{"TypeSuccess", false}, {"TypeNXDomain", true}, {"TypeNoRecords", true}} {
				cv := c.P.ConstVal(du + "." + t.name)
				if cv == nil || respParam == nil {
					c.unresolved("C04-R4", du+"."+t.name, "response type constant / respType parameter not found")
					continue
				}
				fz := c04FeasibleUnder(f, respParam, cv)
				reaches := false
				for _, s := range sinks {
					if fz.alt(s) {
						reaches = true
					}
				}
				if !reaches {
					continue // this type is answered by a constant before the fold
				}
				feas[t.name] = fz
				rts = append(rts, t)
			}
			if len(rts) == 0 {
				c.unresolved("C04-R4", "CalculateCacheTTL|response types", "no response type reaches the fold")
			}
			for _, nd := range needs {
				key := "C04-R4|CalculateCacheTTL|folds " + nd.what
				var missing []string
				any := false
				for _, tm := range terms {
					if nd.p(strip(tm.E)) {
						any = true
					}
				}
				for _, t := range rts {
					if nd.negative && !t.negative {
						continue
					}
					ok := false
					for _, tm := range terms {
						if nd.p(strip(tm.E)) && feas[t.name].alt(tm.Loc) {
							ok = true
						}
					}
					if !ok {
						missing = append(missing, t.name)
					}
				}
				switch {
				case !any:
					c.violation("C04-R4", key, f.Pos(), nd.what+" is not folded into the cache TTL")
				case len(missing) > 0:
					c.violation("C04-R4", key, f.Pos(), fmt.Sprintf("%s is folded, but not for response type(s) %v: entries of that type outlive it", nd.what, missing))
				default:
					c.ok("C04-R4", key, f.Pos(), nd.what+" is a candidate of the minimum for every response type that reaches the fold")
				}
			}
		}
	}
	if f := c.fn("C04-R4", du+".getRRSIGTTL"); f != nil {
		// non-constant results (the constant is the declared floor for an already expired signature)
		sinks := c08ReturnSinks(f, 0, func(in ssa.Instruction) bool { return !IsAnyConst(Desc(in.(*ssa.Return).Results[0])) })
		key := "C04-R4|getRRSIGTTL|smaller of record TTL and time to expiry"
		terms := c.c08Fold("C04-R4", key, "RRSIG-bounded TTL", sinks, c08FoldOpt{})
		hasExp, hasTTL := false, false
		for _, e := range c08TermExprs(terms) {
			if c04TimeSub(Contains(FieldIs(sigExp)), Any)(strip(e)) {
				hasExp = true
			}
			if s, ok := c08SecondsOf(e); ok && FieldIs(hdrTTL)(s) {
				hasTTL = true
			}
		}
		k2 := "C04-R4|getRRSIGTTL|alternatives are record TTL and time to expiration"
		if hasExp && hasTTL {
			c.ok("C04-R4", k2, f.Pos(), "both the record TTL and the time to RRSIG expiration are alternatives of the minimum")
		} else {
			c.violation("C04-R4", k2, f.Pos(), fmt.Sprintf("getRRSIGTTL does not choose between record TTL and time to expiration (ttl=%v expiration=%v)", hasTTL, hasExp))
		}
	}
	c.Floor("C04-R4", 30)

	// ------------------------------------------------------------------ R5
	c.Doc("C04-R5", "nxDomainCutCache.record / denialProofExpiry: lifetime = now.Add(ttl) where ttl is lowered only by bound(candidate) (candidate < ttl), all five candidate kinds pass through bound, TTLManager.Calculate is never called, nothing is stored when ttl <= 0")
	for _, spec := range []struct {
		path    string
		isStore bool // expiry is stored into nxDomainCutEntry.expires (else: returned as result #0)
	}{{cp + ".(*nxDomainCutCache).record", true}, {cp + ".denialProofExpiry", false}} {
		f := c.fn("C04-R5", spec.path)
		if f == nil {
			continue
		}
		name := fnKey(f)
		// locate the expiry expression now.Add(ttl-cell)
		var expInstr ssa.Instruction
		var expVal ssa.Value
		if spec.isStore {
			for _, in := range instrsWhere(f, func(in ssa.Instruction) bool { return isFieldStore(in, nxExpires, nil) }) {
				expInstr, expVal = in, in.(*ssa.Store).Val
			}
		} else {
			for _, in := range returnsWhere(f, 0, nil) {
				if c04SuccessReturn(in) {
					expInstr, expVal = in, in.(*ssa.Return).Results[0]
				}
			}
		}
		kShape := fmt.Sprintf("C04-R5|%s|expiry = now.Add(ttl)", name)
		if expInstr == nil {
			c.unresolved("C04-R5", name, "expiry site not found")
			continue
		}
		ee := strip(Desc(expVal))
		var cell *ssa.Alloc
		if CallTo(timeAdd)(ee) && len(ee.Args) == 2 {
			if a, ok := strip(ee.Args[1]).V.(*ssa.Alloc); ok {
				cell = a
			} else if u, ok := strip(ee.Args[1]).V.(*ssa.UnOp); ok {
				cell = c04CellOf(u.X)
			}
		}
		isAdd := CallTo(timeAdd)(ee) && len(ee.Args) == 2
		nowOK := isAdd && (CallTo(timeNow)(ee.Args[0]) || isParam("now")(ee.Args[0]))
		if !nowOK {
			c.violation("C04-R5", kShape, instrPos(expInstr), "expiry is not now.Add(<ttl accumulator>): "+trunc(ee.String(), 160))
			continue
		}
		c.ok("C04-R5", kShape, instrPos(expInstr), "expiry ← "+trunc(ee.String(), 120))
		kFold := fmt.Sprintf("C04-R5|%s|ttl only lowered", name)
		var args []*Expr // the folded candidates
		var ttlPat Pat   // the accumulator as it appears in the ttl > 0 test
		if cell == nil {
			// value form: the accumulator is an SSA value (inline ifs, min(), a
			// lowering helper) — decided by the general fold
			addCall, _ := ee.V.(*ssa.Call)
			if addCall == nil || len(addCall.Call.Args) != 2 {
				c.undecided("C04-R5", kFold, instrPos(expInstr), "cannot locate the ttl operand of now.Add")
				continue
			}
			tv := addCall.Call.Args[1]
			for _, t := range c.c08Fold("C04-R5", kFold, "ttl", []c08Alt{{Val: tv, At: expInstr}}, c08FoldOpt{}) {
				args = append(args, strip(t.E))
			}
			ttlPat = c08SameAs(Desc(tv))
		} else {
			ttlPat = c04IsCellLoad(cell)
			// cell form: a captured variable lowered by a closure
			isCellStore := func(in ssa.Instruction) bool {
				st, ok := in.(*ssa.Store)
				return ok && c04CellOf(st.Addr) == cell
			}
			var boundFn *ssa.Function
			for _, in := range instrsWhere(f, isCellStore) {
				st := in.(*ssa.Store)
				if in.Parent() == f {
					// initial upper bound: must not be reachable after a bound(...) call
					reached := false
					for _, cl := range instrsWhere(f, func(x ssa.Instruction) bool {
						cc := callCommon(x)
						if cc == nil {
							return false
						}
						_, isClosure := cc.Value.(*ssa.MakeClosure)
						return isClosure && x.Parent() == f
					}) {
						if reach([]Point{pointAfter(cl)}, nil, nil).visited[in] {
							reached = true
						}
					}
					if reached {
						c.violation("C04-R5", kFold, instrPos(in), "ttl is re-assigned in "+name+" after candidates were folded: "+trunc(Desc(st.Val).String(), 100))
					} else {
						c.ok("C04-R5", kFold, instrPos(in), "initial upper bound "+trunc(Desc(st.Val).String(), 100))
					}
					continue
				}
				boundFn = in.Parent()
				ve := Desc(st.Val)
				// ttl = min(ttl, candidate)
				if se := strip(ve); se != nil && se.K == ECall && se.Method == "builtin.min" {
					self := false
					for _, a := range se.Args {
						if c04IsCellLoad(cell)(a) {
							self = true
						}
					}
					if self {
						c.ok("C04-R5", kFold, instrPos(in), "ttl = min(ttl, candidate) in "+fnKey(in.Parent()))
						continue
					}
				}
				if ug, tr := c.unguarded(in, c08LT(c08SameAs(ve), c04IsCellLoad(cell)), in.Parent()); ug {
					c.violation("C04-R5", kFold, instrPos(in), "ttl is overwritten in "+fnKey(in.Parent())+" without the guard candidate < ttl (a floor or a raise); path "+tr)
				} else {
					c.ok("C04-R5", kFold, instrPos(in), "ttl = candidate only behind candidate < ttl in "+fnKey(in.Parent()))
				}
			}
			if boundFn == nil {
				c.violation("C04-R5", kFold, f.Pos(), "no bound closure lowers the ttl")
				continue
			}
			for _, cl := range c04ClosureCalls(boundFn) {
				if cc := callCommon(cl); len(cc.Args) == 1 {
					args = append(args, strip(Desc(cc.Args[0])))
				}
			}
		}
		secs := func(fv *types.Var) Pat {
			return func(e *Expr) bool { s, ok := c08SecondsOf(e); return ok && FieldIs(fv)(s) }
		}
		for _, nd := range []struct {
			what string
			p    Pat
		}{
			{"RR TTL", secs(hdrTTL)},
			{"SOA minimum", secs(soaMin)},
			{"RRSIG original TTL", secs(sigOrig)},
			{"RRSIG expiration", c04TimeSub(func(e *Expr) bool { return CallTo(timeUnix)(e) && Contains(FieldIs(sigExp))(e) }, Any)},
			{"delegation cut", c04TimeSub(isParam("cutUntil"), Any)},
		} {
			found := false
			for _, a := range args {
				if nd.p(a) {
					found = true
				}
			}
			key := fmt.Sprintf("C04-R5|%s|bound(%s)", name, nd.what)
			if found {
				c.ok("C04-R5", key, f.Pos(), nd.what+" passes through bound()")
			} else {
				c.violation("C04-R5", key, f.Pos(), nd.what+" is not folded into the lifetime of "+name)
			}
		}
		// no floor
		kFloor := fmt.Sprintf("C04-R5|%s|no TTL floor", name)
		if fl := instrsWhere(f, isCallTo(calc)); len(fl) > 0 {
			c.violation("C04-R5", kFloor, instrPos(fl[0]), name+" passes its lifetime through TTLManager.Calculate: the 5 s floor extends an authenticated denial beyond a proof component")
		} else {
			c.ok("C04-R5", kFloor, f.Pos(), "no TTLManager.Calculate call")
		}
		// non-positive ⇒ nothing stored
		kPos := fmt.Sprintf("C04-R5|%s|stored only when ttl > 0", name)
		if ug, tr := c.unguarded(expInstr, []Barrier{OnCmp("ttl>0", ttlPat, token.GTR, IsConstInt(0), true)}, f); ug {
			c.violation("C04-R5", kPos, instrPos(expInstr), "expiry produced without the ttl > 0 check; path "+tr)
		} else {
			c.ok("C04-R5", kPos, instrPos(expInstr), "expiry produced only behind ttl > 0")
		}
	}
	c.Floor("C04-R5", 18)

	// ------------------------------------------------------------------ R9
	c.Doc("C04-R9", "MinCacheTTL <= 5s and MaxCacheTTL <= 24h are what cache.New gives NewPositiveCache; TTLManager.Calculate returns min only behind msgTTL<min, max only behind msgTTL>max, msgTTL only behind both comparisons failing")
	c.ConstBound("C04-R9", du+".MinCacheTTL", token.LEQ, int64(5*time.Second), "cache floor")
	c.ConstBound("C04-R9", du+".MaxCacheTTL", token.LEQ, int64(24*time.Hour), "cache cap")
	if npc := c.fobj("C04-R9", cp+".NewPositiveCache"); npc != nil {
		for _, s := range c.CallSites(npc) {
			if fnKey(TopLevel(s.Fn)) != "middleware/cache.New" {
				continue
			}
			mn, ok1 := constInt(Desc(callArg(s.Instr, 1)))
			mx, ok2 := constInt(Desc(callArg(s.Instr, 2)))
			key := "C04-R9|cache.New|NewPositiveCache(min,max)"
			if ok1 && ok2 && mn >= 0 && mn <= int64(5*time.Second) && mx <= int64(24*time.Hour) && mx >= mn {
				c.ok("C04-R9", key, instrPos(s.Instr), fmt.Sprintf("NewPositiveCache(min=%s, max=%s)", time.Duration(mn), time.Duration(mx)))
			} else {
				c.violation("C04-R9", key, instrPos(s.Instr), "the positive cache is not constructed with constant floor <= 5s and cap <= 24h")
			}
		}
	}
	if f := c.fn("C04-R9", cp+".TTLManager.Calculate"); f != nil && len(f.Params) == 2 {
		p := c08IsParamNamed(f.Params[1].Name())
		ltMin := OnCmp("msgTTL<min", p, token.LSS, FieldIs(tmMin), true)
		geMin := OnCmp("msgTTL>=min", p, token.LSS, FieldIs(tmMin), false)
		gtMax := OnCmp("msgTTL>max", p, token.GTR, FieldIs(tmMax), true)
		leMax := OnCmp("msgTTL<=max", p, token.GTR, FieldIs(tmMax), false)
		for _, in := range returnsWhere(f, 0, nil) {
			e := strip(Desc(in.(*ssa.Return).Results[0]))
			key := "C04-R9|TTLManager.Calculate|clamp"
			var need [][]Barrier
			switch {
			case FieldIs(tmMin)(e):
				need = [][]Barrier{{ltMin}}
			case FieldIs(tmMax)(e):
				need = [][]Barrier{{gtMax}}
			case p(e):
				need = [][]Barrier{{geMin}, {leMax}}
			default:
				c.undecided("C04-R9", key, instrPos(in), "Calculate returns something other than min, max or its argument: "+trunc(e.String(), 100))
				continue
			}
			bad := false
			for _, bs := range need {
				if ug, tr := c.unguarded(in, bs, f); ug {
					bad = true
					c.violation("C04-R9", key, instrPos(in), fmt.Sprintf("return of %s is not behind %s; path %s", trunc(e.String(), 60), c08BarNames(bs), tr))
				}
			}
			if !bad {
				c.ok("C04-R9", key, instrPos(in), "return of "+trunc(e.String(), 60)+" is behind its clamp comparison(s)")
			}
		}
	}
	c.Floor("C04-R9", 6)
}

// ---------------------------------------------------------------------------
// R6 lineage folding on every hit, R7 the request-tree bound only decreases,
// R8 late-write guard

func runC04Lineage(c *Ctx, isZeroCut Barrier) {
	const cp = "middleware/cache"
	boundEntry := c.fobj("C04-R6", cp+".boundRequestToEntryLifetime")
	boundTo := c.fobj("C04-R6", cp+".boundRequestTo")
	boundCutFor := c.fobj("C04-R7", "middleware.(*ResponseMeta).BoundCutFor")
	errorsIs := c.fobj("C04-R6", "errors.Is")
	errFallback := c.P.Object("middleware.ErrWireFallback")
	fStored := c.field("C04-R6", cp+".CacheEntry.stored")
	fTTL := c.field("C04-R6", cp+".CacheEntry.ttl")
	fCutUntil := c.field("C04-R6", cp+".CacheEntry.cutUntil")
	nxExpires := c.field("C04-R6", cp+".nxDomainCutEntry.expires")
	segEntry := c.field("C04-R6", cp+".wireChaseSegment.entry")
	timeAdd := c.fobj("C04-R6", "time.Time.Add")
	if boundEntry == nil || boundTo == nil || boundCutFor == nil || errorsIs == nil || errFallback == nil || fStored == nil || fTTL == nil || fCutUntil == nil || nxExpires == nil || segEntry == nil || timeAdd == nil {
		if errFallback == nil {
			c.unresolved("C04-R6", "middleware.ErrWireFallback", "object not found")
		}
		return
	}
	fallbackEdge := OnTrue("errors.Is(err, ErrWireFallback)", func(e *Expr) bool {
		e = strip(e)
		return CallTo(errorsIs)(e) && e.K == ECall && len(e.Args) == 2 && GlobalIs(errFallback)(e.Args[1])
	})
	abort := Barrier{Name: "AbortWire (nothing written)", Instr: isMethodCallNamed("AbortWire", nil)}
	noLease := OnFalse("BeginWire lease (nil: nothing to write into)", MethodNamed("BeginWire"))

	// ------------------------------------------------------------------ R6
	c.Doc("C04-R6", "after each call of an entry builder the calling function returns only across the matching bound call, the builder's failure edge, an aborted lease or the wire-fallback edge; boundRequestToEntryLifetime folds min(stored+ttl, cutUntil); boundRequestTo receives the item's own expiry")
	type builder struct {
		path    string
		failIdx int
		bound   *types.Func
		wire    bool
	}
	builders := []builder{
		{cp + ".(*CacheEntry).ToMsg", 0, boundEntry, false},
		{cp + ".(*CacheEntry).serveWire", 2, boundEntry, true},
		{cp + ".(*CacheEntry).serveWireInto", 2, boundEntry, true},
		{cp + ".(*CacheEntry).serveWireIntoRequest", 2, boundEntry, true},
		{cp + ".(*Cache).collectWireChase", 1, boundEntry, true},
		{cp + ".(*nxDomainCutEntry).response", 0, boundTo, false},
		{cp + ".(*nxDomainCutEntry).serveWireInto", 1, boundTo, true},
		{cp + ".(*Store).lookupDenialProofWithExpiry", 4, boundTo, false},
	}
	wrappers := map[string]string{
		"(*middleware/cache.CacheEntry).serveWire":    "allocates the buffer and returns serveWireInto's results unchanged; its own callers are checked",
		"(*middleware/cache.Store).LookupDenialProof": "exported compatibility signature dropping the expiry; no in-tree caller (checked below)",
	}
	usedWrappers := map[string]bool{}
	for _, b := range builders {
		fo := c.fobj("C04-R6", b.path)
		if fo == nil {
			continue
		}
		sites := c.CallSites(fo)
		if len(sites) == 0 {
			c.unresolved("C04-R6", b.path, "builder has no caller")
		}
		for _, s := range sites {
			top := fnKey(TopLevel(s.Fn))
			key := fmt.Sprintf("C04-R6|%s|after %s", top, fo.Name())
			if s.Kind == "ref" {
				c.undecided("C04-R6", key, instrPos(s.Instr), fo.Name()+" used as a function value")
				continue
			}
			if why, ok := wrappers[top]; ok {
				usedWrappers[top] = true
				c.ok("C04-R6", key, instrPos(s.Instr), why)
				continue
			}
			bars := []Barrier{c08CallsAlways(b.bound.Name(), b.bound), OnFalse(fo.Name()+" result", ResultOf(b.failIdx, fo))}
			if b.wire {
				bars = append(bars, abort, noLease, fallbackEdge)
			}
			if fo.Name() == "collectWireChase" {
				// the bound call sits in `for i := range n` over the n collected
				// segments: leaving such a loop counts as "all n bound", provided every
				// iteration calls the bound before it re-tests the loop condition.
				// Only loops whose body reaches the bound call qualify (the sizing
				// loop over the same n does not).
				loopCond := func(e *Expr) (bool, bool) { return CmpMatch(e, Any, token.LSS, ResultOf(0, fo)) }
				boundLoops := map[ssa.Value]bool{}
				isLoopIf := func(in ssa.Instruction) bool {
					iff, ok := in.(*ssa.If)
					if !ok {
						return false
					}
					m, _ := loopCond(condOf(iff))
					return m
				}
				for _, in := range instrsWhere(s.Fn, isLoopIf) {
					iff := in.(*ssa.If)
					_, pol := loopCond(condOf(iff))
					body := 0
					if !pol {
						body = 1
					}
					r := reach([]Point{{iff.Block().Succs[body], 0}}, []Barrier{CallBarrier(b.bound.Name(), b.bound), {Name: "return", Instr: isReturn}}, nil)
					calls := false
					for _, x := range reach([]Point{{iff.Block().Succs[body], 0}}, nil, isLoopIf).order {
						if isPlainCallTo(b.bound)(x) {
							calls = true
						}
					}
					if !calls {
						continue
					}
					kl := fmt.Sprintf("C04-R6|%s|each chase segment bound before the next is tested", top)
					if r.visited[in] {
						c.violation("C04-R6", kl, instrPos(in), "an iteration of the segment loop can skip "+b.bound.Name())
					} else {
						boundLoops[iff.Cond] = true
						c.ok("C04-R6", kl, instrPos(in), "every iteration of the loop over the n collected segments calls "+b.bound.Name())
					}
				}
				bars = append(bars, Barrier{Name: "loop binding all n segments done", Edge: func(cond *Expr) (bool, int) {
					if cond == nil || !boundLoops[cond.V] {
						return false, 0
					}
					_, pol := loopCond(cond)
					if pol {
						return true, 1
					}
					return true, 0
				}})
			}
			r := reach([]Point{pointAfter(s.Instr)}, bars, nil)
			bad := false
			for _, t := range r.order {
				if isReturn(t) {
					bad = true
					c.violation("C04-R6", key, instrPos(t), fmt.Sprintf("%s: after %s (%s) a return is reachable without folding the served item's lifetime into the request tree {%s}; path %s", fnKey(s.Fn), fo.Name(), c.P.pos(instrPos(s.Instr)), c08BarNames(bars), c.trail(r, t)))
					break
				}
			}
			if !bad {
				c.ok("C04-R6", key, instrPos(s.Instr), fmt.Sprintf("%s: every exit after %s crosses {%s}", fnKey(s.Fn), fo.Name(), c08BarNames(bars)))
			}
		}
	}
	for w := range wrappers {
		if !usedWrappers[w] {
			c.unresolved("C04-R6", w, "wrapper row is stale")
		}
	}
	// expiry-dropping wrappers have no caller
	for _, p := range []string{cp + ".(*Store).LookupDenialProof", cp + ".(*denialProofCache).Lookup"} {
		if fo := c.fobj("C04-R6", p); fo != nil {
			if sites := c.CallSites(fo); len(sites) == 0 {
				c.ok("C04-R6", "C04-R6|"+fo.Name()+"|no caller", token.NoPos, funcObjKey(fo)+" (drops the proof expiry) has no non-test caller")
			} else {
				for _, s := range sites {
					c.violation("C04-R6", "C04-R6|"+fo.Name()+"|"+fnKey(TopLevel(s.Fn)), instrPos(s.Instr), funcObjKey(fo)+" hands out a synthesised denial without its expiry: the caller cannot bind the request tree to it")
				}
			}
		}
	}
	// the denial lookup chain forwards the expiry
	if lwm := c.fobj("C04-R6", cp+".(*denialProofCache).lookupWithMeta"); lwm != nil {
		c.WhoMay("C04-R6", "call denialProofCache.lookupWithMeta", c.CallSites(lwm), map[string]string{
			"(*middleware/cache.Store).lookupDenialProofWithExpiry": "forwards the expiry (checked next)",
			"(*middleware/cache.denialProofCache).Lookup":           "exported helper dropping the expiry; no caller (checked above)",
		})
		if f := c.fn("C04-R6", cp+".(*Store).lookupDenialProofWithExpiry"); f != nil {
			for _, in := range returnsWhere(f, 4, func(e *Expr) bool { return !IsConstBool(false)(e) }) {
				c.OriginCheck("C04-R6", "C04-R6|lookupDenialProofWithExpiry|forwards expiry", in, "result #3", in.(*ssa.Return).Results[3], nil, ResultOf(3, lwm))
			}
		}
	}
	// arguments of the bound calls
	lde := c.fobj("C04-R6", cp+".(*Store).lookupDenialProofWithExpiry")
	for _, s := range c.CallSites(boundTo) {
		if s.Kind == "ref" {
			continue
		}
		c.OriginCheck("C04-R6", fmt.Sprintf("C04-R6|%s|boundRequestTo expiry", fnKey(TopLevel(s.Fn))), s.Instr, "boundRequestTo expiry", callArg(s.Instr, 1), nil,
			FieldIs(nxExpires), ResultOf(3, lde))
	}
	collectF := c.fobj("C04-R6", cp+".(*Cache).collectWireChase")
	for _, s := range c.CallSites(boundEntry) {
		if s.Kind == "ref" {
			continue
		}
		e := strip(Desc(callArg(s.Instr, 1)))
		composes := collectF != nil && len(instrsWhere(TopLevel(s.Fn), isCallTo(collectF))) > 0
		if !composes && !FieldIs(segEntry)(e) {
			continue
		}
		key := fmt.Sprintf("C04-R6|%s|every chase segment bound", fnKey(TopLevel(s.Fn)))
		if FieldIs(segEntry)(e) && e.X != nil && strip(e.X).K == EIndex && !IsAnyConst(strip(e.X).Y) {
			c.ok("C04-R6", key, instrPos(s.Instr), "boundRequestToEntryLifetime(segs[i].entry) inside the loop over all segments")
		} else {
			c.violation("C04-R6", key, instrPos(s.Instr), "a reply composed from several cached hops binds only "+trunc(e.String(), 80)+": it outlives its other hops")
		}
	}
	if f := c.fn("C04-R6", cp+".boundRequestToEntryLifetime"); f != nil {
		calls := instrsWhere(f, isPlainCallTo(boundCutFor))
		if len(calls) == 0 {
			c.violation("C04-R6", "C04-R6|boundRequestToEntryLifetime|BoundCutFor", f.Pos(), "no BoundCutFor call")
		}
		if len(calls) > 0 {
			terms := c.c08Fold("C04-R6", "C04-R6|boundRequestToEntryLifetime|earlier of the two", "hardUntil", c08ArgSinks(calls, 1), c08FoldOpt{Skip: []Barrier{isZeroCut}})
			hasHard, hasCut := false, false
			var other []string
			for _, l := range c08TermExprs(terms) {
				ll := strip(l)
				switch {
				case CallTo(timeAdd)(ll) && len(ll.Args) == 2 && FieldIs(fStored)(ll.Args[0]) && FieldIs(fTTL)(ll.Args[1]):
					hasHard = true
				case FieldIs(fCutUntil)(ll):
					hasCut = true
				default:
					other = append(other, trunc(ll.String(), 80))
				}
			}
			key := "C04-R6|boundRequestToEntryLifetime|bound = min(stored+ttl, cutUntil)"
			if hasHard && hasCut && len(other) == 0 {
				c.ok("C04-R6", key, f.Pos(), "bound ∈ {stored.Add(ttl), cutUntil}")
			} else {
				c.violation("C04-R6", key, f.Pos(), fmt.Sprintf("bound does not fold both the TTL expiry and the delegation cut (ttl=%v cut=%v other=%v)", hasHard, hasCut, other))
			}
		}
	}
	if f := c.fn("C04-R6", cp+".boundRequestTo"); f != nil {
		for _, in := range instrsWhere(f, isPlainCallTo(boundCutFor)) {
			c.OriginCheck("C04-R6", "C04-R6|boundRequestTo|forwards expires", in, "BoundCutFor deadline", callArg(in, 1), nil, c08IsParamNamed("expires"))
		}
	}
	c.Floor("C04-R6", 30)

	// ------------------------------------------------------------------ R7
	c.Doc("C04-R7", "ResponseMeta.cut is written only in BoundCutFor / Reset / detachedCopy; in BoundCutFor only behind cut.deadline.IsZero() or deadline.Before(cut.deadline), with the parameter; BoundCutFor's callers are the listed feeders; WriteMsg cannot reach additionalAnswer after reading Cut()")
	metaCut := c.field("C04-R7", "middleware.ResponseMeta.cut")
	rcDeadline := c.field("C04-R7", "middleware.responseCut.deadline")
	if metaCut != nil && rcDeadline != nil {
		c.WhoMay("C04-R7", "store ResponseMeta.cut", c.StoreSites(metaCut), map[string]string{
			"(*middleware.ResponseMeta).BoundCutFor":  "the min-fold",
			"(*middleware.ResponseMeta).Reset":        "pooled Chain reuse: next request starts unbounded",
			"(*middleware.ResponseMeta).detachedCopy": "copies the bound into a fresh heap meta",
		})
		if f := c.fn("C04-R7", "middleware.(*ResponseMeta).BoundCutFor"); f != nil {
			isCutStore := func(in ssa.Instruction) bool {
				if isFieldStore(in, metaCut, nil) {
					return true
				}
				if isFieldStore(in, rcDeadline, nil) {
					fa := in.(*ssa.Store).Addr.(*ssa.FieldAddr)
					return FieldIs(metaCut)(Desc(fa.X))
				}
				return false
			}
			isZeroCur := OnTrue("cut.deadline.IsZero()", func(e *Expr) bool {
				e = strip(e)
				return e != nil && e.K == ECall && e.Fn != nil && e.Fn.Name() == "IsZero" && len(e.Args) == 1 && FieldIs(rcDeadline)(e.Args[0])
			})
			bars := append([]Barrier{isZeroCur}, c08LT(c08IsParamNamed("deadline"), FieldIs(rcDeadline))...)
			c.MustCross("C04-R7", f, "store of the request-tree bound", isCutStore, bars...)
		}
		for _, s := range c.StoreSites(rcDeadline) {
			if fnKey(TopLevel(s.Fn)) == "(*middleware.ResponseMeta).BoundCutFor" {
				c.OriginCheck("C04-R7", "C04-R7|BoundCutFor|stored deadline", s.Instr, "responseCut.deadline ←", s.Val, nil, c08IsParamNamed("deadline"))
			}
		}
	}
	c.WhoMay("C04-R7", "call ResponseMeta.BoundCutFor", c.CallSites(boundCutFor), map[string]string{
		"(*middleware.ResponseMeta).BoundCut":          "key-less wrapper",
		"middleware/resolver.noteCut":                  "delegation cuts met by the resolver (C08-R4)",
		"(*middleware/resolver.Resolver).answer":       "DNAME/CNAME target splice: folds the forked target bound back",
		"(*middleware/cache.subQueryLineage).inherit":  "sub-query bound folded into the deriving request",
		"middleware/cache.boundRequestToEntryLifetime": "cache hit lineage",
		"middleware/cache.boundRequestTo":              "cut / synthesised-denial lineage",
	})
	cutFn := c.fobj("C04-R7", "middleware.(*ResponseMeta).Cut")
	addl := c.fobj("C04-R7", cp+".(*Cache).additionalAnswer")
	if wm := c.fn("C04-R7", cp+".(*ResponseWriter).WriteMsg"); wm != nil && cutFn != nil && addl != nil {
		c.MustCrossFrom("C04-R7", wm, "Cut() is read after the synchronous chase", isPlainCallTo(cutFn), isCallTo(addl))
		// the chase call itself, or WriteMsg's unexported same-package helper that
		// makes it (MustCrossFrom above already treats a call to such a helper as
		// reaching the chase); only "WriteMsg never chases" is vacuous
		if len(instrsInScope(wm, isCallTo(addl))) == 0 {
			c.unresolved("C04-R7", "WriteMsg|additionalAnswer", "no chase call found in WriteMsg")
		}
	}
	c.Floor("C04-R7", 12)

	// ------------------------------------------------------------------ R8
	c.Doc("C04-R8", "processPrefetch's calls into Cache/Store/PositiveCache/NegativeCache are exactly prefetchExchange, ReplaceIfCurrent, RecordDenialProof, RecordNXDomainCut (records behind ReplaceIfCurrent=true); ReplaceIfCurrent writes only via CompareAndSwap(key, expected, …); the prefetch queryer's sub-pipeline skips the cache handler's own name")
	replace := c.fobj("C04-R8", cp+".(*Store).ReplaceIfCurrent")
	recDP := c.fobj("C04-R8", cp+".(*Store).RecordDenialProof")
	recNX := c.fobj("C04-R8", cp+".(*Store).RecordNXDomainCut")
	if pp := c.fn("C04-R8", cp+".(*PrefetchQueue).processPrefetch"); pp != nil && replace != nil && recDP != nil && recNX != nil {
		allowed := map[string]string{"prefetchExchange": "the refresh query (cache-less sub-pipeline)", "ReplaceIfCurrent": "pointer-CAS write-back", "RecordDenialProof": "after a successful CAS", "RecordNXDomainCut": "after a successful CAS"}
		seen := map[string]bool{}
		for _, in := range c04MethodCalls(pp, "/middleware/cache", "Cache", "Store", "PositiveCache", "NegativeCache", "nxDomainCutCache", "denialProofCache") {
			n := calleeName(in)
			key := "C04-R8|processPrefetch|cache call " + n
			if why, ok := allowed[n]; ok {
				seen[n] = true
				c.ok("C04-R8", key, instrPos(in), why)
			} else {
				c.violation("C04-R8", key, instrPos(in), "the prefetch worker calls "+n+": an unconditional write can overwrite newer data stored for the key while the refresh was in flight")
			}
		}
		if !seen["ReplaceIfCurrent"] {
			c.violation("C04-R8", "C04-R8|processPrefetch|cache call ReplaceIfCurrent", pp.Pos(), "the refresh is not written back through ReplaceIfCurrent")
		}
		c.MustCross("C04-R8", pp, "publish proof/cut of the refresh", isCallTo(recDP, recNX), OnTrue("ReplaceIfCurrent", CallTo(replace)))
		for _, in := range instrsWhere(pp, isPlainCallTo(replace)) {
			reqEntry := c.field("C04-R8", cp+".PrefetchRequest.Entry")
			c.OriginCheck("C04-R8", "C04-R8|processPrefetch|expected = claiming entry", in, "ReplaceIfCurrent expected", callArg(in, 2), nil, FieldIs(reqEntry))
		}
	}
	cas := c.fobj("C04-R8", "internal/cache.(*Cache).CompareAndSwap")
	if rf := c.fn("C04-R8", cp+".(*Store).ReplaceIfCurrent"); rf != nil && cas != nil {
		n := 0
		for _, in := range instrsWhere(rf, func(in ssa.Instruction) bool {
			cc := callCommon(in)
			if cc == nil || cc.IsInvoke() {
				return false
			}
			fo, _, _ := calleeObj(cc)
			return methodOnPkg(fo, "/internal/cache", "Cache") || methodOnPkg(fo, "/middleware/cache", "PositiveCache") || methodOnPkg(fo, "/middleware/cache", "NegativeCache") || methodOnPkg(fo, "/middleware/cache", "Store")
		}) {
			name := calleeName(in)
			key := "C04-R8|ReplaceIfCurrent|table write " + name
			if !isCallTo(cas)(in) {
				c.violation("C04-R8", key, instrPos(in), "ReplaceIfCurrent touches the table through "+name+" instead of CompareAndSwap: a late refresh can overwrite newer data")
				continue
			}
			n++
			c.OriginCheck("C04-R8", key, in, "CompareAndSwap old value", callArg(in, 2), nil, c08IsParamNamed("expected"))
		}
		if n == 0 {
			c.violation("C04-R8", "C04-R8|ReplaceIfCurrent|table write CompareAndSwap", rf.Pos(), "ReplaceIfCurrent performs no CompareAndSwap")
		}
	}
	// the prefetch sub-pipeline excludes the cache
	if aw := c.fn("C04-R8", "middleware.(*Pipeline).autoWire"); aw != nil {
		sub := c.fobj("C04-R8", "middleware.(*Pipeline).SubPipeline")
		npq := c.fobj("C04-R8", "middleware.NewPipelineQueryer")
		var cacheName string
		if nf := c.fn("C04-R8", cp+".(*Cache).Name"); nf != nil {
			for _, in := range returnsWhere(nf, 0, nil) {
				if e := strip(Desc(in.(*ssa.Return).Results[0])); e != nil && e.K == EConst && e.Val != nil {
					cacheName = strings.Trim(e.Val.ExactString(), "\"")
				}
			}
		}
		if cacheName == "" {
			c.undecided("C04-R8", "C04-R8|cache.Name|constant", token.NoPos, "(*Cache).Name does not return a constant")
		}
		for _, in := range instrsWhere(aw, isMethodCallNamed("SetPrefetchQueryer", nil)) {
			e := strip(Desc(callArg(in, 1)))
			key := "C04-R8|autoWire|prefetch queryer excludes the cache handler"
			switch {
			case sub == nil || npq == nil:
			case !CallTo(npq)(e) || len(e.Args) == 0 || !CallTo(sub)(e.Args[0]):
				c.violation("C04-R8", key, instrPos(in), "SetPrefetchQueryer is not fed NewPipelineQueryer(SubPipeline(…)): "+trunc(e.String(), 160))
			case cacheName != "" && Contains(c04IsConstString(cacheName))(strip(e.Args[0])):
				c.ok("C04-R8", key, instrPos(in), fmt.Sprintf("prefetch sub-pipeline skips %q = (*Cache).Name(): the refresh is never written by cache.ResponseWriter.WriteMsg", cacheName))
			default:
				c.violation("C04-R8", key, instrPos(in), fmt.Sprintf("the prefetch sub-pipeline does not skip %q: the refresh runs through the cache handler, whose WriteMsg stores unconditionally (late write)", cacheName))
			}
		}
	}
	c.Floor("C04-R8", 10)
}

// ---------------------------------------------------------------------------
// R10 (round 2): a reply that takes anything from a sub-query inherits the
// sub-query's lifetime.

func c04IsDNSMsgPtr(t types.Type) bool {
	p, ok := t.Underlying().(*types.Pointer)
	if !ok {
		return false
	}
	n, ok := p.Elem().(*types.Named)
	return ok && n.Obj().Name() == "Msg" && n.Obj().Pkg() != nil && n.Obj().Pkg().Path() == "github.com/miekg/dns"
}

// c04RootOf follows field/index addressing back to the pointer it starts from.
func c04RootOf(v ssa.Value) ssa.Value {
	for i := 0; i < 8; i++ {
		switch x := v.(type) {
		case *ssa.FieldAddr:
			v = x.X
		case *ssa.IndexAddr:
			v = x.X
		default:
			return v
		}
	}
	return v
}

// c04HelperTransfers follows a call that hands both the sub-response and another
// message to an unexported same-package helper h into h's body and decides there
// the same thing runSubQueryLineage decides in the caller: is anything of the
// sub-response moved into the other message?  subIdx = the parameters of h bound
// to the sub-response; unconditional = the call is reached whatever the
// sub-response says.  A transfer inside h is
//   - a call that receives a message derived from a sub parameter together with
//     another *dns.Msg (a further local helper is followed, depth ≤ 2; anything
//     else counts as a transfer),
//   - a store into a field of a *dns.Msg parameter that is not the sub-response
//     (AD ← false and stores independent of the sub-response excepted, exactly as
//     in the caller),
//   - a returned *dns.Msg that derives from a sub parameter (the caller would go
//     on composing its reply from the sub-response under another name).
//
// A helper that only reads the sub-response (its rcode, its EDE option) and
// rebuilds the outer message from the outer message transfers nothing.
func c04HelperTransfers(h *ssa.Function, subIdx map[int]bool, unconditional bool, adF *types.Var, depth int) (bool, string) {
	isSubParam := func(e *Expr) bool {
		if e == nil || e.K != EParam || !subIdx[e.Idx] {
			return false
		}
		p, ok := e.V.(*ssa.Parameter)
		return ok && p.Parent() == h
	}
	mentionsSub := Contains(isSubParam)
	// a message value is the sub-response when it originates in a sub parameter,
	// or in a call that was itself handed such a message (sub.Copy(), f(sub));
	// a message built from the outer one with scalars read off the sub-response
	// (SetRcodeWithEDE(msg, …, GetEDE(sub).InfoCode, …)) is not
	var msgFromSub func(e *Expr, d int) bool
	msgFromSub = func(e *Expr, d int) bool {
		if d > 6 {
			return true
		}
		for _, l := range Origins(e, nil) {
			if isSubParam(l) {
				return true
			}
			call := l
			if l.K == EExtract && l.X != nil {
				call = l.X
			}
			if call.K != ECall {
				continue
			}
			for _, a := range call.Args {
				if a != nil && a.V != nil && c04IsDNSMsgPtr(a.V.Type()) && msgFromSub(a, d+1) {
					return true
				}
			}
		}
		return false
	}
	fromSub := func(v ssa.Value) bool { return msgFromSub(Desc(v), 0) }
	outerRoot := func(v ssa.Value) bool {
		for _, l := range Origins(Desc(v), nil) {
			if l.K != EParam || subIdx[l.Idx] {
				continue
			}
			if p, ok := l.V.(*ssa.Parameter); ok && p.Parent() == h && c04IsDNSMsgPtr(p.Type()) {
				return true
			}
		}
		return false
	}
	subCond := func(succ int) Barrier {
		return Barrier{Name: "decision on the sub-response", Edge: func(cond *Expr) (bool, int) { return mentionsSub(cond), succ }}
	}
	independent := reach(entryPoint(h), []Barrier{subCond(0), subCond(1)}, nil)
	for _, g := range WithAnons(h) {
		for _, b := range g.Blocks {
			for _, in := range b.Instrs {
				if cc := callCommon(in); cc != nil {
					args := cc.Args
					if cc.IsInvoke() {
						args = append([]ssa.Value{cc.Value}, args...)
					}
					hasSub, hasOuter := false, false
					inner := map[int]bool{}
					for i, a := range args {
						if !c04IsDNSMsgPtr(a.Type()) {
							continue
						}
						if fromSub(a) {
							hasSub = true
							inner[i] = true
						} else {
							hasOuter = true
						}
					}
					if hasSub && hasOuter {
						if g2 := localHelper(g, cc); g2 != nil && depth < 2 {
							if t, why := c04HelperTransfers(g2, inner, unconditional && g == h && independent.visited[in], adF, depth+1); !t {
								continue
							} else {
								return true, calleeName(in) + ": " + why
							}
						}
						return true, "call " + calleeName(in) + "(sub-response, outer message)"
					}
					continue
				}
				switch x := in.(type) {
				case *ssa.Store:
					root := c04RootOf(x.Addr)
					if root == x.Addr || !outerRoot(root) {
						continue
					}
					if adF != nil && isFieldStore(in, adF, IsConstBool(false)) {
						continue
					}
					if unconditional && g == h && independent.visited[in] && !mentionsSub(Desc(x.Val)) {
						continue
					}
					return true, "store into the outer message (" + trunc(Desc(x.Addr).String(), 60) + ")"
				case *ssa.Return:
					if g != h {
						continue
					}
					for _, r := range x.Results {
						if c04IsDNSMsgPtr(r.Type()) && fromSub(r) {
							return true, "returns a message derived from the sub-response"
						}
					}
				}
			}
		}
	}
	return false, ""
}

func runC04SubQueryLineage(c *Ctx) { runSubQueryLineage(c, "C04-R10") }

// runSubQueryLineage is claimed by C04 (lifetimes) and C08 (leases): R names the rule.
func runSubQueryLineage(c *Ctx, R string) {
	const cp = "middleware/cache"
	c.Doc(R, "after every Cache.internalExchange call: wherever the sub-response is transferred into the outer message (a call receiving both the sub-response and another *dns.Msg, or a store into a field of a *dns.Msg parameter), every path from the exchange through that transfer to a return crosses subQueryLineage.inherit — the composed reply, and what is re-cached from it, is bounded by the sub-query's lifetime")
	ie := c.fobj(R, cp+".(*Cache).internalExchange")
	inherit := c.fobj(R, cp+".(*subQueryLineage).inherit")
	if ie == nil || inherit == nil {
		return
	}
	adF := c.field(R, "github.com/miekg/dns.MsgHdr.AuthenticatedData")
	sub := ResultOf(0, ie)
	fromSub := func(v ssa.Value) bool {
		for _, l := range Origins(Desc(v), nil) {
			if sub(l) {
				return true
			}
		}
		return false
	}
	sites := c.CallSites(ie)
	if len(sites) == 0 {
		c.unresolved(R, "internalExchange", "no call site")
	}
	for _, s := range sites {
		top := fnKey(TopLevel(s.Fn))
		if s.Kind != "call" {
			c.undecided(R, R+"|"+top+"|internalExchange", instrPos(s.Instr), "internalExchange used other than by a plain call")
			continue
		}
		// inherit itself, or a same-package helper handed the lineage that calls
		// inherit on every path to its returns
		inhBar := Barrier{Name: "call inherit", Instr: func(in ssa.Instruction) bool {
			cl, ok := in.(*ssa.Call)
			if !ok {
				return false
			}
			if callIs(&cl.Call, inherit) {
				return true
			}
			h := cl.Call.StaticCallee()
			if h == nil || len(h.Blocks) == 0 || h.Pkg != s.Fn.Pkg {
				return false
			}
			takes := false
			for _, a := range cl.Call.Args {
				if pt, ok := a.Type().Underlying().(*types.Pointer); ok {
					if n, ok := pt.Elem().(*types.Named); ok && n.Obj().Name() == "subQueryLineage" {
						takes = true
					}
				}
			}
			if !takes {
				return false
			}
			r := reach(entryPoint(h), []Barrier{CallBarrier("inherit", inherit)}, nil)
			for _, t := range r.order {
				if isReturn(t) {
					return false
				}
			}
			return true
		}}
		// decisions that look at the sub-response
		subCond := func(succ int) Barrier {
			return Barrier{Name: "decision on the sub-response", Edge: func(cond *Expr) (bool, int) { return Contains(sub)(cond), succ }}
		}
		independent := reach([]Point{pointAfter(s.Instr)}, []Barrier{subCond(0), subCond(1)}, nil)
		all := reach([]Point{pointAfter(s.Instr)}, nil, nil)
		noInh := reach([]Point{pointAfter(s.Instr)}, []Barrier{inhBar}, nil)
		isTransfer := func(in ssa.Instruction) (bool, string) {
			if cc := callCommon(in); cc != nil {
				hasSub, hasOuter := false, false
				args := cc.Args
				if cc.IsInvoke() {
					args = append([]ssa.Value{cc.Value}, args...)
				}
				subIdx := map[int]bool{}
				for i, a := range args {
					if !c04IsDNSMsgPtr(a.Type()) {
						continue
					}
					if fromSub(a) {
						hasSub = true
						subIdx[i] = true
					} else {
						hasOuter = true
					}
				}
				if hasSub && hasOuter {
					// handed to an unexported same-package helper: the question "does
					// anything of the sub-response reach the outer message" is decided
					// inside the helper's body, as it would be were the body inline
					if h := localHelper(s.Fn, cc); h != nil {
						t, why := c04HelperTransfers(h, subIdx, independent.visited[in], adF, 0)
						if os.Getenv("SDNSVERIF_DEBUG_HELPER") != "" {
							fmt.Fprintf(os.Stderr, "c04HelperTransfers %s: %v %s\n", h.Name(), t, why)
						}
						if !t {
							return false, ""
						}
					}
					return true, "call " + calleeName(in) + "(sub-response, outer message)"
				}
				return false, ""
			}
			if st, ok := in.(*ssa.Store); ok {
				root := c04RootOf(st.Addr)
				if root == st.Addr {
					return false, ""
				}
				if p, ok := root.(*ssa.Parameter); ok && c04IsDNSMsgPtr(p.Type()) {
					// AD ← false withdraws a claim of the outer reply; nothing of the
					// sub-response travels with it that could be served past the
					// sub-query's lifetime (AD=0 is a valid thing to say at any time),
					// however the decision to withdraw was reached (F-C02-5, F-C01-9)
					if adF != nil && isFieldStore(in, adF, IsConstBool(false)) {
						return false, ""
					}
					// a store that happens whatever the sub-response says, with a value
					// not taken from it, transfers nothing
					if independent.visited[in] && !fromSub(st.Val) {
						return false, ""
					}
					return true, "store into the outer message (" + trunc(Desc(st.Addr).String(), 60) + ")"
				}
			}
			return false, ""
		}
		n := 0
		for _, in := range all.order {
			ok, what := isTransfer(in)
			if !ok {
				continue
			}
			n++
			key := fmt.Sprintf("%s|%s|%s", R, top, what)
			if !noInh.visited[in] || inhBar.Instr(in) {
				c.ok(R, key, instrPos(in), "lineage.inherit() precedes (or is part of) the transfer on every path from the exchange")
				continue
			}
			r := reach([]Point{pointAfter(in)}, []Barrier{inhBar}, nil)
			bad := false
			for _, t := range r.order {
				if isReturn(t) {
					bad = true
					c.violation(R, key, instrPos(t), fmt.Sprintf("%s: the sub-query's answer reaches the outer reply (%s at %s) and the function can return without lineage.inherit(): the composed reply is cached and served beyond the lifetime of the piece it was built from; path %s", top, what, c.P.pos(instrPos(in)), c.trail(r, t)))
					break
				}
			}
			if !bad {
				c.ok(R, key, instrPos(in), "every return after this transfer crosses lineage.inherit()")
			}
		}
		if n == 0 {
			c.unresolved(R, top+"|transfers", "the sub-response is never transferred into an outer message (rule would pass vacuously)")
		}
	}
	c.Floor(R, 4)
}
