package main

// Regression mutants for finding F-C05-1 (rule C05-R13): each re-introduces
// "the decoded path keeps the spelling the entry was stored under" into the
// repaired CacheEntry.ToMsg.

func init() {
	addMutants("C05", []Mutant{
		{ID: "f-c05-1-answer-keeps-stored-spelling", File: "middleware/cache/types.go", Expect: "C05-R13|(*middleware/cache.CacheEntry).ToMsg|Answer",
			Old: "\tfor _, rr := range resp.Answer {\n\t\trr.Header().Ttl = ttl\n\t\techoOwnerSpelling(rr, echo)\n\t}\n",
			New: "\tfor _, rr := range resp.Answer {\n\t\trr.Header().Ttl = ttl\n\t}\n",
			Why: "the answer owners keep the stored spelling again: `big.ZERO.test.` does not compress against the client's `big.zero.test.`, the decoded reply is 519 octets where the byte path's is 510, and a 512-octet client gets TC=1 from one path and the full answer from the other"},
		{ID: "f-c05-1-echo-from-stored-question", File: "middleware/cache/types.go", Expect: "C05-R13",
			Old: "\t\techo = req.Question[0].Name\n",
			New: "\t\techo = e.question.Name\n",
			Why: "the owners are rewritten to the entry's own spelling instead of the client's — a no-op for the defect; all three sections lose the client's spelling"},
	})
}
