package main

// Helpers for the C04 rules (names prefixed c04).  The min-fold checkers
// themselves live in c08_util.go and are shared.

import (
	"fmt"
	"go/constant"
	"go/token"
	"go/types"
	"sort"

	"golang.org/x/tools/go/ssa"
)

// c04CellOf resolves an address operand (an Alloc, or a FreeVar bound to an
// Alloc at the single MakeClosure of its function) to the local cell.
func c04CellOf(addr ssa.Value) *ssa.Alloc {
	for depth := 0; depth < 4; depth++ {
		switch a := addr.(type) {
		case *ssa.Alloc:
			return a
		case *ssa.FreeVar:
			fn := a.Parent()
			par := fn.Parent()
			if par == nil {
				return nil
			}
			idx := -1
			for i, fv := range fn.FreeVars {
				if fv == a {
					idx = i
				}
			}
			var mc *ssa.MakeClosure
			n := 0
			for _, b := range par.Blocks {
				for _, in := range b.Instrs {
					if m, ok := in.(*ssa.MakeClosure); ok && m.Fn == fn {
						mc = m
						n++
					}
				}
			}
			if n != 1 || idx < 0 || idx >= len(mc.Bindings) {
				return nil
			}
			addr = mc.Bindings[idx]
		default:
			return nil
		}
	}
	return nil
}

// c04IsCellLoad matches a load of the given cell (Desc collapses a cell with
// several stores into EAlloc{V: cell}).
func c04IsCellLoad(cell *ssa.Alloc) Pat {
	return func(e *Expr) bool {
		e = strip(e)
		if e == nil || cell == nil {
			return false
		}
		if e.K == EAlloc && e.V == ssa.Value(cell) {
			return true
		}
		if u, ok := e.V.(*ssa.UnOp); ok && u.Op == token.MUL {
			return c04CellOf(u.X) == cell
		}
		return false
	}
}

// c04ClosureCalls lists the call instructions (in the parent and sibling
// closures) that invoke the closure fn through its MakeClosure value.
func c04ClosureCalls(fn *ssa.Function) []ssa.Instruction {
	par := fn.Parent()
	if par == nil {
		return nil
	}
	var out []ssa.Instruction
	for _, f := range WithAnons(TopLevel(fn)) {
		for _, b := range f.Blocks {
			for _, in := range b.Instrs {
				cc := callCommon(in)
				if cc == nil || cc.IsInvoke() {
					continue
				}
				switch v := cc.Value.(type) {
				case *ssa.MakeClosure:
					if v.Fn == fn {
						out = append(out, in)
					}
				case *ssa.UnOp: // closure kept in a cell
					if cell := c04CellOf(v.X); cell != nil {
						for _, s := range cellStores(cell) {
							if m, ok := s.(*ssa.MakeClosure); ok && m.Fn == fn {
								out = append(out, in)
							}
						}
					}
				}
			}
		}
	}
	sort.SliceStable(out, func(i, j int) bool { return instrPos(out[i]) < instrPos(out[j]) })
	return out
}

// c04SuccessReturn: a return that hands out a built reply: the trailing bool
// result is not the constant false, or (no bool result) the first result is
// not the nil constant.
func c04SuccessReturn(in ssa.Instruction) bool {
	r, ok := in.(*ssa.Return)
	if !ok || len(r.Results) == 0 {
		return false
	}
	last := r.Results[len(r.Results)-1]
	if b, ok := last.Type().Underlying().(*types.Basic); ok && b.Kind() == types.Bool {
		return !IsConstBool(false)(Desc(last))
	}
	first := r.Results[0]
	if cst, ok := first.(*ssa.Const); ok && cst.Value == nil {
		return false
	}
	return true
}

// c04LoadsField reports whether fn (not its closures) loads one of the fields
// (a FieldAddr that is read, or a Field extraction).
func c04LoadsField(fn *ssa.Function, fields ...*types.Var) bool {
	is := func(v *types.Var) bool {
		for _, f := range fields {
			if f == v {
				return true
			}
		}
		return false
	}
	for _, b := range fn.Blocks {
		for _, in := range b.Instrs {
			switch x := in.(type) {
			case *ssa.UnOp:
				if x.Op != token.MUL {
					continue
				}
				if fa, ok := x.X.(*ssa.FieldAddr); ok {
					if st, ok := deref(fa.X.Type()).Underlying().(*types.Struct); ok && is(st.Field(fa.Field).Origin()) {
						return true
					}
				}
			case *ssa.Field:
				if st, ok := x.X.Type().Underlying().(*types.Struct); ok && is(st.Field(x.Field).Origin()) {
					return true
				}
			}
		}
	}
	return false
}

// c04SecondsConv recognises the conversions used to show a remaining duration
// as a TTL: uint32(d.Seconds()) and uint32(d / time.Second); returns d.
func c04SecondsConv(e *Expr) (*Expr, bool) {
	e = strip(e)
	if e == nil {
		return nil, false
	}
	if e.K == ECall && e.Fn != nil && e.Fn.Name() == "Seconds" && e.Fn.Pkg() != nil && e.Fn.Pkg().Path() == "time" && len(e.Args) == 1 {
		return strip(e.Args[0]), true
	}
	if e.K == EBin && e.Op == token.QUO {
		if v, ok := constInt(e.Y); ok && v == 1000000000 {
			return strip(e.X), true
		}
	}
	return nil, false
}

func c04IsConstString(s string) Pat {
	return func(e *Expr) bool {
		e = strip(e)
		return e != nil && e.K == EConst && e.Val != nil && e.Val.Kind() == constant.String && constant.StringVal(e.Val) == s
	}
}

// c04TimeSub matches (time.Time).Sub(x, y) / time.Until(x).
func c04TimeSub(x, y Pat) Pat {
	return func(e *Expr) bool {
		e = strip(e)
		if e == nil || e.K != ECall || e.Fn == nil || e.Fn.Pkg() == nil || e.Fn.Pkg().Path() != "time" {
			return false
		}
		switch e.Fn.Name() {
		case "Sub":
			return len(e.Args) == 2 && x(e.Args[0]) && y(e.Args[1])
		case "Until":
			return len(e.Args) == 1 && x(e.Args[0])
		}
		return false
	}
}

// c04Methods lists the call-like instructions of fn (+closures) whose static
// callee is a method on one of the named types of the package with suffix pkg.
func c04MethodCalls(fn *ssa.Function, pkgSuffix string, typeNames ...string) []ssa.Instruction {
	return instrsWhere(fn, func(in ssa.Instruction) bool {
		cc := callCommon(in)
		if cc == nil || cc.IsInvoke() {
			return false
		}
		fo, _, _ := calleeObj(cc)
		for _, tn := range typeNames {
			if methodOnPkg(fo, pkgSuffix, tn) {
				return true
			}
		}
		return false
	})
}

// ---------------------------------------------------------------------------
// Path feasibility under an assumption on one parameter (round 2): a small
// path-sensitive constant propagation over the SSA CFG.  Branch conditions
// that become decidable (comparisons of the parameter with constants, boolean
// phis fed by constants on the taken edges, negations) prune the infeasible
// successor; everything else explores both.  Used to state "this fold is
// applied for response type T" without naming the local that encodes T.

type c04Feasible struct {
	edges  map[[2]*ssa.BasicBlock]bool
	blocks map[*ssa.BasicBlock]bool
}

func (f *c04Feasible) alt(a c08Alt) bool {
	if f == nil {
		return false
	}
	if a.At != nil {
		return f.blocks[a.At.Block()]
	}
	return f.edges[[2]*ssa.BasicBlock{a.P, a.S}]
}

func c04FeasibleUnder(fn *ssa.Function, param *ssa.Parameter, val constant.Value) *c04Feasible {
	res := &c04Feasible{edges: map[[2]*ssa.BasicBlock]bool{}, blocks: map[*ssa.BasicBlock]bool{}}
	if fn == nil || len(fn.Blocks) == 0 {
		return res
	}
	type env map[*ssa.Phi]constant.Value
	var eval func(v ssa.Value, e env, d int) constant.Value
	eval = func(v ssa.Value, e env, d int) constant.Value {
		if d > 12 {
			return nil
		}
		switch x := v.(type) {
		case *ssa.Const:
			return x.Value
		case *ssa.Parameter:
			if x == param {
				return val
			}
		case *ssa.Phi:
			return e[x]
		case *ssa.Convert:
			return eval(x.X, e, d+1)
		case *ssa.ChangeType:
			return eval(x.X, e, d+1)
		case *ssa.UnOp:
			if x.Op == token.NOT {
				if a := eval(x.X, e, d+1); a != nil && a.Kind() == constant.Bool {
					return constant.MakeBool(!constant.BoolVal(a))
				}
			}
		case *ssa.BinOp:
			a, b := eval(x.X, e, d+1), eval(x.Y, e, d+1)
			if a == nil || b == nil {
				return nil
			}
			switch x.Op {
			case token.EQL, token.NEQ, token.LSS, token.LEQ, token.GTR, token.GEQ:
				if a.Kind() == constant.Bool && b.Kind() == constant.Bool {
					eq := constant.BoolVal(a) == constant.BoolVal(b)
					if x.Op == token.EQL {
						return constant.MakeBool(eq)
					}
					if x.Op == token.NEQ {
						return constant.MakeBool(!eq)
					}
					return nil
				}
				if (a.Kind() == constant.Int || a.Kind() == constant.String) && a.Kind() == b.Kind() {
					return constant.MakeBool(constant.Compare(a, x.Op, b))
				}
			}
		}
		return nil
	}
	sig := func(e env) string {
		var ks []string
		for p, v := range e {
			ks = append(ks, p.Name()+"="+v.ExactString())
		}
		sort.Strings(ks)
		s := ""
		for _, k := range ks {
			s += k + ";"
		}
		return s
	}
	type state struct {
		b, from *ssa.BasicBlock
		e       env
	}
	seen := map[string]bool{}
	work := []state{{fn.Blocks[0], nil, env{}}}
	for len(work) > 0 && len(seen) < 50000 {
		st := work[len(work)-1]
		work = work[:len(work)-1]
		e := env{}
		for k, v := range st.e {
			e[k] = v
		}
		// phis take the value of the edge we came through (all read the old env)
		upd := env{}
		for _, in := range st.b.Instrs {
			ph, ok := in.(*ssa.Phi)
			if !ok {
				break
			}
			var cv constant.Value
			for i, p := range st.b.Preds {
				if p == st.from {
					cv = eval(ph.Edges[i], st.e, 0)
				}
			}
			upd[ph] = cv
		}
		for ph, cv := range upd {
			if cv != nil && (cv.Kind() == constant.Bool || cv.Kind() == constant.Int) {
				e[ph] = cv
			} else {
				delete(e, ph)
			}
		}
		fromIdx := -1
		if st.from != nil {
			fromIdx = st.from.Index
		}
		key := fmt.Sprintf("%d|%d|%s", st.b.Index, fromIdx, sig(e))
		if seen[key] {
			continue
		}
		seen[key] = true
		res.blocks[st.b] = true
		if st.from != nil {
			res.edges[[2]*ssa.BasicBlock{st.from, st.b}] = true
		}
		if len(st.b.Instrs) == 0 {
			continue
		}
		switch t := st.b.Instrs[len(st.b.Instrs)-1].(type) {
		case *ssa.If:
			cv := eval(t.Cond, e, 0)
			for k, s := range st.b.Succs {
				if cv != nil && cv.Kind() == constant.Bool {
					if constant.BoolVal(cv) != (k == 0) {
						continue
					}
				}
				work = append(work, state{s, st.b, e})
			}
		case *ssa.Jump:
			work = append(work, state{st.b.Succs[0], st.b, e})
		}
	}
	return res
}
