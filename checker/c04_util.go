package main

// Helpers for the C04 rules (names prefixed c04).  The min-fold checkers
// themselves live in c08_util.go and are shared.

import (
	"go/constant"
	"go/token"
	"go/types"
	"sort"

	"golang.org/x/tools/go/ssa"
)

// c04CellOf resolves an address operand (an Alloc, or a FreeVar bound to an
// Alloc at the single MakeClosure of its function) to the local cell.
func c04CellOf(addr ssa.Value) *ssa.Alloc {
	for depth := 0; depth < 4; depth++ {
		switch a := addr.(type) {
		case *ssa.Alloc:
			return a
		case *ssa.FreeVar:
			fn := a.Parent()
			par := fn.Parent()
			if par == nil {
				return nil
			}
			idx := -1
			for i, fv := range fn.FreeVars {
				if fv == a {
					idx = i
				}
			}
			var mc *ssa.MakeClosure
			n := 0
			for _, b := range par.Blocks {
				for _, in := range b.Instrs {
					if m, ok := in.(*ssa.MakeClosure); ok && m.Fn == fn {
						mc = m
						n++
					}
				}
			}
			if n != 1 || idx < 0 || idx >= len(mc.Bindings) {
				return nil
			}
			addr = mc.Bindings[idx]
		default:
			return nil
		}
	}
	return nil
}

// c04IsCellLoad matches a load of the given cell (Desc collapses a cell with
// several stores into EAlloc{V: cell}).
func c04IsCellLoad(cell *ssa.Alloc) Pat {
	return func(e *Expr) bool {
		e = strip(e)
		if e == nil || cell == nil {
			return false
		}
		if e.K == EAlloc && e.V == ssa.Value(cell) {
			return true
		}
		if u, ok := e.V.(*ssa.UnOp); ok && u.Op == token.MUL {
			return c04CellOf(u.X) == cell
		}
		return false
	}
}

// c04ClosureCalls lists the call instructions (in the parent and sibling
// closures) that invoke the closure fn through its MakeClosure value.
func c04ClosureCalls(fn *ssa.Function) []ssa.Instruction {
	par := fn.Parent()
	if par == nil {
		return nil
	}
	var out []ssa.Instruction
	for _, f := range WithAnons(TopLevel(fn)) {
		for _, b := range f.Blocks {
			for _, in := range b.Instrs {
				cc := callCommon(in)
				if cc == nil || cc.IsInvoke() {
					continue
				}
				switch v := cc.Value.(type) {
				case *ssa.MakeClosure:
					if v.Fn == fn {
						out = append(out, in)
					}
				case *ssa.UnOp: // closure kept in a cell
					if cell := c04CellOf(v.X); cell != nil {
						for _, s := range cellStores(cell) {
							if m, ok := s.(*ssa.MakeClosure); ok && m.Fn == fn {
								out = append(out, in)
							}
						}
					}
				}
			}
		}
	}
	sort.SliceStable(out, func(i, j int) bool { return instrPos(out[i]) < instrPos(out[j]) })
	return out
}

// c04SuccessReturn: a return that hands out a built reply: the trailing bool
// result is not the constant false, or (no bool result) the first result is
// not the nil constant.
func c04SuccessReturn(in ssa.Instruction) bool {
	r, ok := in.(*ssa.Return)
	if !ok || len(r.Results) == 0 {
		return false
	}
	last := r.Results[len(r.Results)-1]
	if b, ok := last.Type().Underlying().(*types.Basic); ok && b.Kind() == types.Bool {
		return !IsConstBool(false)(Desc(last))
	}
	first := r.Results[0]
	if cst, ok := first.(*ssa.Const); ok && cst.Value == nil {
		return false
	}
	return true
}

// c04LoadsField reports whether fn (not its closures) loads one of the fields
// (a FieldAddr that is read, or a Field extraction).
func c04LoadsField(fn *ssa.Function, fields ...*types.Var) bool {
	is := func(v *types.Var) bool {
		for _, f := range fields {
			if f == v {
				return true
			}
		}
		return false
	}
	for _, b := range fn.Blocks {
		for _, in := range b.Instrs {
			switch x := in.(type) {
			case *ssa.UnOp:
				if x.Op != token.MUL {
					continue
				}
				if fa, ok := x.X.(*ssa.FieldAddr); ok {
					if st, ok := deref(fa.X.Type()).Underlying().(*types.Struct); ok && is(st.Field(fa.Field).Origin()) {
						return true
					}
				}
			case *ssa.Field:
				if st, ok := x.X.Type().Underlying().(*types.Struct); ok && is(st.Field(x.Field).Origin()) {
					return true
				}
			}
		}
	}
	return false
}

// c04SecondsConv recognises the conversions used to show a remaining duration
// as a TTL: uint32(d.Seconds()) and uint32(d / time.Second); returns d.
func c04SecondsConv(e *Expr) (*Expr, bool) {
	e = strip(e)
	if e == nil {
		return nil, false
	}
	if e.K == ECall && e.Fn != nil && e.Fn.Name() == "Seconds" && e.Fn.Pkg() != nil && e.Fn.Pkg().Path() == "time" && len(e.Args) == 1 {
		return strip(e.Args[0]), true
	}
	if e.K == EBin && e.Op == token.QUO {
		if v, ok := constInt(e.Y); ok && v == 1000000000 {
			return strip(e.X), true
		}
	}
	return nil, false
}

func c04IsConstString(s string) Pat {
	return func(e *Expr) bool {
		e = strip(e)
		return e != nil && e.K == EConst && e.Val != nil && e.Val.Kind() == constant.String && constant.StringVal(e.Val) == s
	}
}

// c04TimeSub matches (time.Time).Sub(x, y) / time.Until(x).
func c04TimeSub(x, y Pat) Pat {
	return func(e *Expr) bool {
		e = strip(e)
		if e == nil || e.K != ECall || e.Fn == nil || e.Fn.Pkg() == nil || e.Fn.Pkg().Path() != "time" {
			return false
		}
		switch e.Fn.Name() {
		case "Sub":
			return len(e.Args) == 2 && x(e.Args[0]) && y(e.Args[1])
		case "Until":
			return len(e.Args) == 1 && x(e.Args[0])
		}
		return false
	}
}

// c04Methods lists the call-like instructions of fn (+closures) whose static
// callee is a method on one of the named types of the package with suffix pkg.
func c04MethodCalls(fn *ssa.Function, pkgSuffix string, typeNames ...string) []ssa.Instruction {
	return instrsWhere(fn, func(in ssa.Instruction) bool {
		cc := callCommon(in)
		if cc == nil || cc.IsInvoke() {
			return false
		}
		fo, _, _ := calleeObj(cc)
		for _, tn := range typeNames {
			if methodOnPkg(fo, pkgSuffix, tn) {
				return true
			}
		}
		return false
	})
}
