package main

// Helpers private to the C14 rules (table agreement on case → value maps and
// per-clause callee families).  Everything is resolved through type
// information; no source text is compared.

import (
	"fmt"
	"go/ast"
	"go/constant"
	"go/token"
	"go/types"
	"os"
	"sort"
	"strings"

	"golang.org/x/tools/go/packages"
	"golang.org/x/tools/go/ssa"
)

// c14CalleeOf resolves the function object a call expression invokes.
func c14CalleeOf(call *ast.CallExpr, info *types.Info) *types.Func {
	var id *ast.Ident
	switch f := call.Fun.(type) {
	case *ast.Ident:
		id = f
	case *ast.SelectorExpr:
		id = f.Sel
	case *ast.ParenExpr:
		if s, ok := f.X.(*ast.SelectorExpr); ok {
			id = s.Sel
		}
	}
	if id == nil {
		return nil
	}
	fo, _ := info.Uses[id].(*types.Func)
	return fo
}

// c14ExprID names an expression canonically: a constant by its exact value
// ("const:5"), a call by the full name of its callee ("call:crypto/sha1.New").
func c14ExprID(e ast.Expr, info *types.Info) string {
	if e == nil {
		return ""
	}
	if tv, ok := info.Types[e]; ok && tv.Value != nil {
		return "const:" + tv.Value.ExactString()
	}
	if p, ok := e.(*ast.ParenExpr); ok {
		return c14ExprID(p.X, info)
	}
	if call, ok := e.(*ast.CallExpr); ok {
		if fo := c14CalleeOf(call, info); fo != nil {
			return "call:" + fo.FullName()
		}
	}
	return "?" + types.ExprString(e)
}

// c14Switches lists the switch statements of fd selected by pick.
func c14Switches(fd *ast.FuncDecl, pick func(*ast.SwitchStmt) bool) []*ast.SwitchStmt {
	var out []*ast.SwitchStmt
	if fd == nil || fd.Body == nil {
		return nil
	}
	ast.Inspect(fd.Body, func(n ast.Node) bool {
		if sw, ok := n.(*ast.SwitchStmt); ok && (pick == nil || pick(sw)) {
			out = append(out, sw)
		}
		return true
	})
	return out
}

// c14CaseValues maps every case constant of the selected switch to the
// canonical id of the expression sel picks from the clause body (result #idx
// of its return statement, or the right-hand side of its assignment).
func c14CaseValues(fd *ast.FuncDecl, info *types.Info, pick func(*ast.SwitchStmt) bool, resultIdx int) map[string]string {
	out := map[string]string{}
	for _, sw := range c14Switches(fd, pick) {
		for _, st := range sw.Body.List {
			cc := st.(*ast.CaseClause)
			if len(cc.List) == 0 {
				continue // default
			}
			val := ""
			for _, s := range cc.Body {
				switch x := s.(type) {
				case *ast.ReturnStmt:
					if resultIdx < len(x.Results) {
						val = c14ExprID(x.Results[resultIdx], info)
					}
				case *ast.AssignStmt:
					if len(x.Rhs) == 1 && val == "" {
						val = c14ExprID(x.Rhs[0], info)
					}
				}
				if val != "" {
					break
				}
			}
			for _, e := range cc.List {
				k := "?" + types.ExprString(e)
				if tv, ok := info.Types[e]; ok && tv.Value != nil {
					k = tv.Value.ExactString()
				}
				out[k] = val
			}
		}
	}
	return out
}

// c14ClauseFamilies groups the case constants of the selected switch by the
// family (classify) of a function called inside the clause body.
func c14ClauseFamilies(fd *ast.FuncDecl, info *types.Info, pick func(*ast.SwitchStmt) bool, classify func(*types.Func) string) map[string]map[string]bool {
	out := map[string]map[string]bool{}
	for _, sw := range c14Switches(fd, pick) {
		for _, st := range sw.Body.List {
			cc := st.(*ast.CaseClause)
			if len(cc.List) == 0 {
				continue
			}
			fam := ""
			for _, s := range cc.Body {
				ast.Inspect(s, func(n ast.Node) bool {
					if call, ok := n.(*ast.CallExpr); ok {
						if f := classify(c14CalleeOf(call, info)); f != "" {
							if fam != "" && fam != f {
								fam = "mixed"
							} else if fam == "" {
								fam = f
							}
						}
					}
					return true
				})
			}
			if fam == "" {
				fam = "none"
			}
			if out[fam] == nil {
				out[fam] = map[string]bool{}
			}
			for _, e := range cc.List {
				k := "?" + types.ExprString(e)
				if tv, ok := info.Types[e]; ok && tv.Value != nil {
					k = tv.Value.ExactString()
				}
				out[fam][k] = true
			}
		}
	}
	return out
}

// c14MapLitValues reads a map composite literal with constant keys into
// key → canonical value id.
func c14MapLitValues(e ast.Expr, info *types.Info) (map[string]string, bool) {
	cl, ok := e.(*ast.CompositeLit)
	if !ok {
		return nil, false
	}
	out := map[string]string{}
	for _, el := range cl.Elts {
		kv, ok := el.(*ast.KeyValueExpr)
		if !ok {
			return nil, false
		}
		tv, ok := info.Types[kv.Key]
		if !ok || tv.Value == nil {
			return nil, false
		}
		out[tv.Value.ExactString()] = c14ExprID(kv.Value, info)
	}
	return out, true
}

// c14PkgVarValue is pkgVarValue for any loaded package (dependencies too).
func c14PkgVarValue(p *Prog, pkgPath, name string) (ast.Expr, *packages.Package) {
	pk := p.ByPath[pkgPath]
	if pk == nil {
		return nil, nil
	}
	for _, f := range pk.Syntax {
		for _, d := range f.Decls {
			gd, ok := d.(*ast.GenDecl)
			if !ok {
				continue
			}
			for _, sp := range gd.Specs {
				vs, ok := sp.(*ast.ValueSpec)
				if !ok {
					continue
				}
				for i, n := range vs.Names {
					if n.Name == name && i < len(vs.Values) {
						return vs.Values[i], pk
					}
				}
			}
		}
	}
	return nil, nil
}

func c14MapString(m map[string]string) string {
	var ks []string
	for k := range m {
		ks = append(ks, k)
	}
	sort.Slice(ks, func(i, j int) bool {
		if len(ks[i]) != len(ks[j]) {
			return len(ks[i]) < len(ks[j])
		}
		return ks[i] < ks[j]
	})
	var b []string
	for _, k := range ks {
		b = append(b, k+"→"+m[k])
	}
	return "{" + strings.Join(b, ", ") + "}"
}

// c14FieldsReadAST collects the struct fields (types.Var, origin) selected
// anywhere below the given nodes.
func c14FieldsReadAST(nodes []ast.Node, info *types.Info) map[*types.Var]bool {
	out := map[*types.Var]bool{}
	for _, n := range nodes {
		ast.Inspect(n, func(x ast.Node) bool {
			if se, ok := x.(*ast.SelectorExpr); ok {
				if sel := info.Selections[se]; sel != nil && sel.Kind() == types.FieldVal {
					if v, ok := sel.Obj().(*types.Var); ok {
						out[v.Origin()] = true
					}
				}
			}
			return true
		})
	}
	return out
}

// c14BodiesWithHelpers: the body of fd and the bodies of the unexported functions of
// the same package it calls (transitively, depth ≤ 2, like scopeFuncs): what a function
// "reads" does not depend on whether part of its body was extracted into a helper.
func c14BodiesWithHelpers(p *Prog, fd *ast.FuncDecl, pk *packages.Package) []ast.Node {
	if fd == nil || fd.Body == nil || pk == nil {
		return nil
	}
	self, _ := pk.TypesInfo.Defs[fd.Name].(*types.Func)
	seen := map[*ast.FuncDecl]bool{fd: true}
	out := []ast.Node{fd.Body}
	var add func(body *ast.BlockStmt, depth int)
	add = func(body *ast.BlockStmt, depth int) {
		if depth >= 2 {
			return
		}
		ast.Inspect(body, func(n ast.Node) bool {
			call, ok := n.(*ast.CallExpr)
			if !ok {
				return true
			}
			fo := c14CalleeOf(call, pk.TypesInfo)
			if fo == nil || fo == self || fo.Pkg() == nil || fo.Pkg() != pk.Types || token.IsExported(fo.Name()) {
				return true
			}
			hd := p.astFuncs[fo.Origin()]
			if hd == nil || hd.Body == nil || seen[hd] || p.astPkgOf[hd] != pk {
				return true
			}
			seen[hd] = true
			out = append(out, hd.Body)
			add(hd.Body, depth+1)
			return true
		})
	}
	add(fd.Body, 0)
	return out
}

// c14GuardConds returns the conditions of the if-statements of fd whose body
// consists of a single `return <package-level error variable>` (optionally
// preceded by nothing else): the refusals of a preflight.
func c14GuardConds(fd *ast.FuncDecl, info *types.Info, errNames map[string]bool) []ast.Node {
	var out []ast.Node
	if fd == nil || fd.Body == nil {
		return nil
	}
	ast.Inspect(fd.Body, func(n ast.Node) bool {
		is, ok := n.(*ast.IfStmt)
		if !ok || len(is.Body.List) != 1 {
			return true
		}
		rs, ok := is.Body.List[0].(*ast.ReturnStmt)
		if !ok || len(rs.Results) != 1 {
			return true
		}
		id, ok := rs.Results[0].(*ast.Ident)
		if !ok {
			return true
		}
		v, ok := info.Uses[id].(*types.Var)
		if !ok || v.Parent() != v.Pkg().Scope() || !errNames[v.Name()] {
			return true
		}
		if is.Init != nil {
			out = append(out, is.Init)
		}
		out = append(out, is.Cond)
		return true
	})
	return out
}

// c14LenOf matches the builtin len applied to a value matching p.
func c14LenOf(p Pat) Pat {
	return func(e *Expr) bool {
		e = strip(e)
		if e == nil || e.K != ECall || e.Method != "builtin.len" || len(e.Args) != 1 {
			return false
		}
		for _, l := range Origins(e.Args[0], nil) {
			if !p(l) {
				return false
			}
		}
		return true
	}
}

func c14ParamIdx(i int) Pat {
	return func(e *Expr) bool { e = strip(e); return e != nil && e.K == EParam && e.Idx == i }
}

// c14HasCall reports whether fn (or a closure) contains a plain call to f.
func c14HasCall(fn *ssa.Function, f *types.Func) bool {
	return fn != nil && f != nil && len(instrsWhere(fn, isPlainCallTo(f))) > 0
}

// ---------------------------------------------------------------------------
// Shape-independent table reader (round 2).
//
// A table function ("alg → value / supported?") may be written as a switch, an
// if/else chain, an `a == X || a == Y` expression, early returns or a named
// result joined at one return, or a lookup in a package-level map literal.
// go/ssa lowers all but the last to the same thing — branches on
// `tag == constant` — so the table is read from the control-flow graph: for
// every equality edge, the function's continuation is followed (phis resolved
// along the path taken) to the value it returns / the calls it makes.

type c14Arm struct {
	Key      string // exact constant the tag is compared with
	From, To *ssa.BasicBlock
}

// c14TagCompare decides whether cond is "tag == const" (any spelling) and on
// which successor the equality holds.
func c14TagCompare(cond *Expr, tag Pat) (key string, succ int, ok bool) {
	var k *Expr
	m, pol := CmpMatch(cond, tag, token.EQL, func(e *Expr) bool {
		if IsAnyConst(e) && !IsNilConst(e) {
			k = strip(e)
			return true
		}
		return false
	})
	if !m || k == nil || k.Val == nil {
		return "", 0, false
	}
	succ = 1
	if pol {
		succ = 0
	}
	return k.Val.ExactString(), succ, true
}

func c14TagArms(fn *ssa.Function, tag Pat) []c14Arm {
	var out []c14Arm
	if fn == nil {
		return nil
	}
	for _, b := range fn.Blocks {
		if len(b.Instrs) == 0 {
			continue
		}
		iff, ok := b.Instrs[len(b.Instrs)-1].(*ssa.If)
		if !ok {
			continue
		}
		if key, succ, ok := c14TagCompare(condOf(iff), tag); ok {
			out = append(out, c14Arm{Key: key, From: b, To: b.Succs[succ]})
		}
	}
	return out
}

// c14ValueID names a returned value canonically, like c14ExprID does for syntax.
func c14ValueID(v ssa.Value) string {
	for {
		switch x := v.(type) {
		case *ssa.MakeInterface:
			v = x.X
			continue
		case *ssa.ChangeType:
			v = x.X
			continue
		case *ssa.ChangeInterface:
			v = x.X
			continue
		case *ssa.Convert:
			if c, ok := x.X.(*ssa.Const); ok {
				v = c
				continue
			}
		}
		break
	}
	switch x := v.(type) {
	case *ssa.Const:
		if x.Value == nil {
			return "const:nil"
		}
		return "const:" + x.Value.ExactString()
	case *ssa.Call:
		if fo, _, _ := calleeObj(&x.Call); fo != nil {
			return "call:" + fo.FullName()
		}
	}
	return "?" + trunc(Desc(v).String(), 80)
}

// c14ResolveOnPath resolves v through the phis of blocks the path went
// through (predOf: block → the predecessor it was entered from).
func c14ResolveOnPath(v ssa.Value, predOf map[*ssa.BasicBlock]*ssa.BasicBlock) ssa.Value {
	for i := 0; i < 32; i++ {
		phi, ok := v.(*ssa.Phi)
		if !ok {
			return v
		}
		p, ok := predOf[phi.Block()]
		if !ok {
			return v
		}
		idx := -1
		for j, q := range phi.Block().Preds {
			if q == p {
				idx = j
			}
		}
		if idx < 0 {
			return v
		}
		v = phi.Edges[idx]
	}
	return v
}

// c14WalkArm explores the continuation of an arm.  Branches whose condition
// resolves to a boolean constant along the path (the `||` / `&&` joins) are
// followed on that edge only; other non-tag branches are followed both ways;
// a further tag comparison ends the path (it belongs to the next arm).
func c14WalkArm(a c14Arm, tag Pat, visit func(ssa.Instruction), onReturn func(r *ssa.Return, predOf map[*ssa.BasicBlock]*ssa.BasicBlock)) {
	type state struct {
		b      *ssa.BasicBlock
		predOf map[*ssa.BasicBlock]*ssa.BasicBlock
		depth  int
	}
	clone := func(m map[*ssa.BasicBlock]*ssa.BasicBlock) map[*ssa.BasicBlock]*ssa.BasicBlock {
		n := make(map[*ssa.BasicBlock]*ssa.BasicBlock, len(m)+1)
		for k, v := range m {
			n[k] = v
		}
		return n
	}
	start := state{a.To, map[*ssa.BasicBlock]*ssa.BasicBlock{a.To: a.From}, 0}
	stack := []state{start}
	budget := 4000
	for len(stack) > 0 && budget > 0 {
		st := stack[len(stack)-1]
		stack = stack[:len(stack)-1]
		b := st.b
		for _, in := range b.Instrs {
			budget--
			if visit != nil {
				visit(in)
			}
		}
		if len(b.Instrs) == 0 || st.depth > 40 {
			continue
		}
		next := func(s *ssa.BasicBlock) {
			if _, seen := st.predOf[s]; seen {
				return // loop: do not go round
			}
			m := clone(st.predOf)
			m[s] = b
			stack = append(stack, state{s, m, st.depth + 1})
		}
		switch t := b.Instrs[len(b.Instrs)-1].(type) {
		case *ssa.Return:
			if onReturn != nil {
				onReturn(t, st.predOf)
			}
		case *ssa.Jump:
			next(b.Succs[0])
		case *ssa.If:
			if _, _, isTag := c14TagCompare(condOf(t), tag); isTag {
				continue
			}
			cv := c14ResolveOnPath(t.Cond, st.predOf)
			neg := false
			for {
				u, ok := cv.(*ssa.UnOp)
				if !ok || u.Op != token.NOT {
					break
				}
				neg = !neg
				cv = c14ResolveOnPath(u.X, st.predOf)
			}
			if k, ok := cv.(*ssa.Const); ok && k.Value != nil && k.Value.Kind() == constant.Bool {
				val := constant.BoolVal(k.Value) != neg
				if val {
					next(b.Succs[0])
				} else {
					next(b.Succs[1])
				}
				continue
			}
			next(b.Succs[0])
			next(b.Succs[1])
		}
	}
}

// c14ArmTable: key → canonical id of result #idx on the key's arm ("?…" when
// the arm's returns disagree or cannot be resolved).
func c14ArmTable(fn *ssa.Function, tag Pat, idx int) map[string]string {
	out := map[string]string{}
	for _, a := range c14TagArms(fn, tag) {
		val := ""
		c14WalkArm(a, tag, nil, func(r *ssa.Return, predOf map[*ssa.BasicBlock]*ssa.BasicBlock) {
			id := "?short return"
			if idx < len(r.Results) {
				id = c14ValueID(c14ResolveOnPath(r.Results[idx], predOf))
			}
			switch {
			case val == "":
				val = id
			case val != id:
				val = "?conflict(" + val + " | " + id + ")"
			}
		})
		if val == "" {
			val = "?no return"
		}
		if prev, dup := out[a.Key]; dup && prev != val {
			val = "?conflict(" + prev + " | " + val + ")"
		}
		out[a.Key] = val
	}
	// `… || tag == K` returned as a value: K's verdict is the comparison itself
	if v := c14DefaultValue(fn, tag, idx); v != nil {
		if key, succ, ok := c14TagCompare(Desc(v), tag); ok {
			if _, dup := out[key]; !dup {
				if succ == 0 {
					out[key] = "const:true"
				} else {
					out[key] = "const:false"
				}
			}
		}
	}
	return out
}

// c14ArmFamilies groups keys by the family of the functions called on their arm.
func c14ArmFamilies(fn *ssa.Function, tag Pat, classify func(*types.Func) string) map[string]map[string]bool {
	out := map[string]map[string]bool{}
	for _, a := range c14TagArms(fn, tag) {
		fam := ""
		c14WalkArm(a, tag, func(in ssa.Instruction) {
			cc := callCommon(in)
			if cc == nil {
				return
			}
			fo, _, _ := calleeObj(cc)
			if f := classify(fo); f != "" {
				if fam != "" && fam != f {
					fam = "mixed"
				} else if fam == "" {
					fam = f
				}
			}
		}, nil)
		if fam == "" {
			fam = "none"
		}
		if out[fam] == nil {
			out[fam] = map[string]bool{}
		}
		out[fam][a.Key] = true
	}
	return out
}

// c14DefaultValue follows fn from its entry taking the "not equal" edge of
// every tag comparison and returns the (phi-resolved) value of result #idx
// there; nil when another branch makes it path dependent.
func c14DefaultValue(fn *ssa.Function, tag Pat, idx int) ssa.Value {
	if fn == nil || len(fn.Blocks) == 0 {
		return nil
	}
	b := fn.Blocks[0]
	predOf := map[*ssa.BasicBlock]*ssa.BasicBlock{}
	for steps := 0; steps < 200; steps++ {
		if len(b.Instrs) == 0 {
			return nil
		}
		switch t := b.Instrs[len(b.Instrs)-1].(type) {
		case *ssa.Return:
			if idx >= len(t.Results) {
				return nil
			}
			return c14ResolveOnPath(t.Results[idx], predOf)
		case *ssa.Jump:
			predOf[b.Succs[0]] = b
			b = b.Succs[0]
		case *ssa.If:
			var s *ssa.BasicBlock
			if _, succ, ok := c14TagCompare(condOf(t), tag); ok {
				s = b.Succs[1-succ]
			} else if k, ok := c14ResolveOnPath(t.Cond, predOf).(*ssa.Const); ok && k.Value != nil && k.Value.Kind() == constant.Bool {
				s = b.Succs[1]
				if constant.BoolVal(k.Value) {
					s = b.Succs[0]
				}
			} else {
				return nil
			}
			if _, seen := predOf[s]; seen {
				return nil
			}
			predOf[s] = b
			b = s
		default:
			return nil
		}
	}
	return nil
}

// c14DefaultResult: the value id of result #idx for a key outside the table
// ("" when not determinable).  A result that is itself `tag == K` — the last
// operand of an || chain returned directly — is false for every other key.
func c14DefaultResult(fn *ssa.Function, tag Pat, idx int) string {
	v := c14DefaultValue(fn, tag, idx)
	if v == nil {
		return ""
	}
	if _, succ, ok := c14TagCompare(Desc(v), tag); ok {
		if succ == 0 {
			return "const:false"
		}
		return "const:true"
	}
	return c14ValueID(v)
}

// c14MapTable reads a table function written as a lookup in a package-level
// map literal: key → value id for result #idx (the looked-up value, or
// "const:true" when the result is the comma-ok flag).  The literal is the
// variable's initialiser; later writes to the map are not tracked.
func c14MapTable(p *Prog, fn *ssa.Function, tag Pat, idx int) (map[string]string, bool) {
	if fn == nil {
		return nil, false
	}
	var look *ssa.Lookup
	n := 0
	for _, b := range fn.Blocks {
		for _, in := range b.Instrs {
			if l, ok := in.(*ssa.Lookup); ok && tag(Desc(l.Index)) {
				look = l
				n++
			}
		}
	}
	if n != 1 {
		return nil, false
	}
	g := strip(Desc(look.X))
	if g == nil || g.K != EGlobal || g.Obj == nil || g.Obj.Pkg() == nil {
		return nil, false
	}
	lit, pk := c14PkgVarValue(p, g.Obj.Pkg().Path(), g.Obj.Name())
	if lit == nil {
		return nil, false
	}
	vals, ok := c14MapLitValues(lit, pk.TypesInfo)
	if !ok {
		return nil, false
	}
	// which component of the lookup does result #idx carry?
	kind := ""
	for _, b := range fn.Blocks {
		for _, in := range b.Instrs {
			r, ok := in.(*ssa.Return)
			if !ok || idx >= len(r.Results) {
				continue
			}
			for _, l := range Origins(Desc(r.Results[idx]), nil) {
				ls := strip(l)
				switch {
				case ls.V == ssa.Value(look) && !look.CommaOk:
					kind = "value"
				case ls.K == EExtract && ls.X != nil && ls.X.V == ssa.Value(look) && ls.Idx == 0:
					kind = "value"
				case ls.K == EExtract && ls.X != nil && ls.X.V == ssa.Value(look) && ls.Idx == 1:
					kind = "ok"
				}
			}
		}
	}
	out := map[string]string{}
	for k, v := range vals {
		switch kind {
		case "value":
			out[k] = v
		case "ok":
			out[k] = "const:true"
		default:
			return nil, false
		}
	}
	return out, true
}

// ---------------------------------------------------------------------------
// Accepting exits, independent of return style (round 2).
//
// "fn returns <accept> only when guard G holds" must be decided the same way
// whether the function says `if !a { return false } … return true`,
// `return a && b`, computes named boolean locals first, merges refusals into
// one condition or applies De Morgan.  The paths of the function are therefore
// enumerated (each block at most once per path, so loops are traversed at most
// one iteration), resolving every phi by the edge the path actually took:
//   - a branch whose condition resolves to a boolean constant on this path is
//     followed on that edge only (this is what makes named locals and && / ||
//     joins path-exact);
//   - any other branch contributes the fact "condition holds / fails";
//   - at a Return, result #idx resolved on the path is the accepting constant,
//     or — for booleans — a last operand v returned directly (`… && v`), which
//     contributes the fact "v holds".
// A guard is satisfied on an accepting path if one of its facts is the guard's
// edge, or the path executed one of the guard's instructions.

type c14Fact struct {
	Cond  *Expr
	Truth bool
}

type c14Path struct {
	Facts  []c14Fact
	Instrs []ssa.Instruction // calls executed on the path
	Ret    *ssa.Return
	Trail  []ssa.Instruction
}

// c14ResolveBool resolves v on the path through phis and negations.
func c14ResolveBool(v ssa.Value, predOf map[*ssa.BasicBlock]*ssa.BasicBlock) (val ssa.Value, neg bool) {
	for i := 0; i < 32; i++ {
		v = c14ResolveOnPath(v, predOf)
		if u, ok := v.(*ssa.UnOp); ok && u.Op == token.NOT {
			neg = !neg
			v = u.X
			continue
		}
		break
	}
	return v, neg
}

func c14AcceptPaths(fn *ssa.Function, idx int, accept Pat, also func(*ssa.Return) bool) (paths []c14Path, complete bool) {
	return c14AcceptPathsMode(fn, idx, accept, also, false)
}

// c14NeverNil: a value that cannot be nil — a package-level variable read as a value (the
// error sentinels; the same reading as c07WalkSpec.GlobalsNonNil), a fresh allocation, a
// non-pointer value boxed into an interface, errors.New / fmt.Errorf.
func c14NeverNil(v ssa.Value, d int) bool {
	if d > 4 {
		return false
	}
	switch x := v.(type) {
	case *ssa.UnOp:
		_, isGlobal := x.X.(*ssa.Global)
		return x.Op == token.MUL && isGlobal
	case *ssa.Alloc:
		return true
	case *ssa.MakeInterface:
		if _, isPtr := x.X.Type().Underlying().(*types.Pointer); isPtr {
			return c14NeverNil(x.X, d+1)
		}
		switch x.X.Type().Underlying().(type) {
		case *types.Basic, *types.Struct, *types.Array:
			return true
		}
		return false
	case *ssa.ChangeInterface:
		return c14NeverNil(x.X, d+1)
	case *ssa.Call:
		if sf := x.Call.StaticCallee(); sf != nil && sf.Pkg != nil {
			switch sf.Pkg.Pkg.Path() + "." + sf.Name() {
			case "errors.New", "fmt.Errorf":
				return true
			}
		}
	}
	return false
}

// c14AcceptPathsMode: strict (used for helper summaries) also counts as accepting every
// return whose value is not known to be refusing — a non-constant result that is neither
// fixed by the facts of the path nor never nil.
func c14AcceptPathsMode(fn *ssa.Function, idx int, accept Pat, also func(*ssa.Return) bool, strict bool) (paths []c14Path, complete bool) {
	if fn == nil || len(fn.Blocks) == 0 {
		return nil, true
	}
	acceptsTrue := accept(&Expr{K: EConst, Val: constant.MakeBool(true)})
	acceptsFalse := accept(&Expr{K: EConst, Val: constant.MakeBool(false)})
	acceptsNil := accept(&Expr{K: EConst, IsNil: true})
	isBoolType := func(t types.Type) bool {
		bt, ok := t.Underlying().(*types.Basic)
		return ok && bt.Info()&types.IsBoolean != 0
	}
	type state struct {
		b      *ssa.BasicBlock
		predOf map[*ssa.BasicBlock]*ssa.BasicBlock
		facts  []c14Fact
		calls  []ssa.Instruction
		trail  []ssa.Instruction
	}
	budget := 60000
	var rec func(st state)
	rec = func(st state) {
		if budget <= 0 {
			return
		}
		b := st.b
		for _, in := range b.Instrs {
			budget--
			if callCommon(in) != nil {
				st.calls = append(st.calls[:len(st.calls):len(st.calls)], in)
			}
		}
		if len(b.Instrs) == 0 {
			return
		}
		next := func(s *ssa.BasicBlock, f *c14Fact, via ssa.Instruction) {
			if _, seen := st.predOf[s]; seen || s == fn.Blocks[0] {
				return
			}
			m := make(map[*ssa.BasicBlock]*ssa.BasicBlock, len(st.predOf)+1)
			for k, v := range st.predOf {
				m[k] = v
			}
			m[s] = b
			ns := state{b: s, predOf: m, facts: st.facts, calls: st.calls, trail: st.trail}
			if f != nil {
				ns.facts = append(st.facts[:len(st.facts):len(st.facts)], *f)
				ns.trail = append(st.trail[:len(st.trail):len(st.trail)], via)
			}
			rec(ns)
		}
		switch t := b.Instrs[len(b.Instrs)-1].(type) {
		case *ssa.Return:
			if idx >= len(t.Results) || (also != nil && !also(t)) {
				return
			}
			rv := c14ResolveOnPath(t.Results[idx], st.predOf)
			if k, ok := rv.(*ssa.Const); ok {
				if accept(Desc(k)) {
					paths = append(paths, c14Path{Facts: st.facts, Instrs: st.calls, Ret: t, Trail: st.trail})
				}
				return
			}
			// the verdict of an unexported same-package helper handed on as it is
			// (`return check(x)`, or `return err` with err := check(x)): the exit accepts
			// exactly when the helper's result is nil.  Unless a fact of this path already
			// fixes that result to non-nil (the `err != nil` branch), the path accepts under
			// the additional fact "the helper returned nil", which c14PathCrosses decides
			// from the helper's own returns (summary, parameters replaced by the arguments).
			if acceptsNil && !isBoolType(rv.Type()) {
				d := Desc(rv)
				fixed, truthy := c14FixedByFacts(d, st.facts)
				_, _, _, _, isHelper := helperResultEdge(fn, d)
				switch {
				case fixed && truthy:
					// non-nil on this path
				case fixed:
					paths = append(paths, c14Path{Facts: st.facts, Instrs: st.calls, Ret: t, Trail: st.trail})
				case isHelper:
					f := append(st.facts[:len(st.facts):len(st.facts)], c14Fact{Cond: d, Truth: false})
					paths = append(paths, c14Path{Facts: f, Instrs: st.calls, Ret: t, Trail: st.trail})
				case strict && !c14NeverNil(rv, 0):
					paths = append(paths, c14Path{Facts: st.facts, Instrs: st.calls, Ret: t, Trail: st.trail})
				}
				return
			}
			if isBoolType(rv.Type()) && (acceptsTrue || acceptsFalse) {
				v, neg := c14ResolveBool(rv, st.predOf)
				if k, ok := v.(*ssa.Const); ok && k.Value != nil && k.Value.Kind() == constant.Bool {
					if val := constant.BoolVal(k.Value) != neg; (val && acceptsTrue) || (!val && acceptsFalse) {
						paths = append(paths, c14Path{Facts: st.facts, Instrs: st.calls, Ret: t, Trail: st.trail})
					}
					return
				}
				truth := !neg // the value v has when the result is true
				if !acceptsTrue {
					truth = neg
				}
				f := append(st.facts[:len(st.facts):len(st.facts)], c14Fact{Cond: Desc(v), Truth: truth})
				paths = append(paths, c14Path{Facts: f, Instrs: st.calls, Ret: t, Trail: st.trail})
			}
		case *ssa.Jump:
			next(b.Succs[0], nil, nil)
		case *ssa.If:
			v, neg := c14ResolveBool(t.Cond, st.predOf)
			if k, ok := v.(*ssa.Const); ok && k.Value != nil && k.Value.Kind() == constant.Bool {
				if constant.BoolVal(k.Value) != neg {
					next(b.Succs[0], nil, nil)
				} else {
					next(b.Succs[1], nil, nil)
				}
				return
			}
			e := Desc(v)
			next(b.Succs[0], &c14Fact{Cond: e, Truth: !neg}, t)
			next(b.Succs[1], &c14Fact{Cond: e, Truth: neg}, t)
		}
	}
	rec(state{b: fn.Blocks[0], predOf: map[*ssa.BasicBlock]*ssa.BasicBlock{}})
	return paths, budget > 0
}

// c14FixedByFacts: do the facts of a path fix the truthiness (true / non-nil) of the
// value described by d?  (`err != nil` held on the way ⇒ err is non-nil here.)
func c14FixedByFacts(d *Expr, facts []c14Fact) (fixed, truthy bool) {
	d = strip(d)
	if d == nil {
		return false, false
	}
	ds := d.String()
	for _, f := range facts {
		a, pol := Truthy(f.Cond)
		a = strip(a)
		if a == nil {
			continue
		}
		if (d.V != nil && a.V == d.V) || a.String() == ds {
			return true, pol == f.Truth
		}
	}
	return false, false
}

// c14PathCrosses: does the accepting path satisfy one of bars?
//
// A fact about the verdict of an unexported same-package helper (`if err :=
// check(k, sig); err != nil { return err }`, `return check(sig, rrset)`, `if
// !allowed(x) { return false }`) satisfies a guard when every exit of the helper that
// yields that verdict satisfies it (c14HelperImplies: the same path enumeration, applied
// to the helper, its conditions read with the parameters replaced by the call's
// arguments).  A call to a helper that crosses the guard on every entry→return path
// counts as executing it.
func c14PathCrosses(p c14Path, bars []Barrier) bool {
	return c14PathCrossesAct(p, bars, nil, 0)
}

func c14PathCrossesAct(p c14Path, bars []Barrier, args []*Expr, depth int) bool {
	var fn *ssa.Function
	if p.Ret != nil {
		fn = p.Ret.Parent()
	}
	callArgs := func(cc *ssa.CallCommon) []*Expr {
		out := make([]*Expr, len(cc.Args))
		for i, a := range cc.Args {
			out[i] = inActivation(Desc(a), args)
		}
		return out
	}
	for _, b := range bars {
		if b.Edge != nil {
			for _, f := range p.Facts {
				if m, which := b.Edge(inActivation(f.Cond, args)); m && (which == 0) == f.Truth {
					return true
				}
			}
			if fn != nil {
				for _, f := range p.Facts {
					h, idx, truthySucc, cl, ok := helperResultEdge(fn, f.Cond)
					if !ok {
						continue
					}
					succ := 1
					if f.Truth {
						succ = 0
					}
					if c14HelperImplies(h, idx, succ == truthySucc, b, callArgs(&cl.Call), depth) {
						return true
					}
				}
			}
		}
		if b.Instr != nil {
			for _, in := range p.Instrs {
				if b.Instr(in) {
					return true
				}
			}
		}
		if fn != nil {
			for _, in := range p.Instrs {
				if cl, ok := in.(*ssa.Call); ok {
					if h := localHelper(fn, &cl.Call); h != nil {
						hc := &helperCtx{always: map[helperKey]int{}, implies: map[helperKey]int{}, act: map[*ssa.Function][]*Expr{}}
						if hc.alwaysCrosses(h, []Barrier{b}, callArgs(&cl.Call)) {
							return true
						}
					}
				}
			}
		}
	}
	return false
}

// c14HelperImplies: result #idx of helper h has the given truthiness (true / non-nil)
// only on exits that satisfy b.  Decided for "nil" and for boolean verdicts; an exit
// whose value is unknown counts as yielding the verdict (strict enumeration).
func c14HelperImplies(h *ssa.Function, idx int, truthy bool, b Barrier, args []*Expr, depth int) bool {
	if h == nil || depth >= 3 || h.Signature.Results().Len() <= idx {
		return false
	}
	var accept Pat
	rt := h.Signature.Results().At(idx).Type()
	if bt, ok := rt.Underlying().(*types.Basic); ok && bt.Info()&types.IsBoolean != 0 {
		accept = IsConstBool(truthy)
	} else if !truthy {
		accept = IsNilConst
	} else {
		return false
	}
	paths, complete := c14AcceptPathsMode(h, idx, accept, nil, true)
	if !complete {
		return false
	}
	for _, p := range paths {
		if !c14PathCrossesAct(p, []Barrier{b}, args, depth+1) {
			return false
		}
	}
	if os.Getenv("SDNSVERIF_DEBUG_HELPER") != "" {
		fmt.Fprintf(os.Stderr, "DEBUG c14HelperImplies %s idx=%d truthy=%v paths=%d guard=%s\n", h.Name(), idx, truthy, len(paths), b.Name)
	}
	return true
}

// c14MustCrossAccept: every accepting exit of fn (result #idx matching accept,
// Returns filtered by also) satisfies one of bars.
func (c *Ctx) c14MustCrossAccept(rule string, fn *ssa.Function, what string, idx int, accept Pat, also func(*ssa.Return) bool, bars ...Barrier) int {
	if fn == nil {
		c.unresolved(rule, what, "function not found")
		return 0
	}
	var bn []string
	for _, b := range bars {
		bn = append(bn, b.Name)
	}
	key := fmt.Sprintf("%s|%s|%s|%s", rule, fnKey(fn), what, strings.Join(bn, ","))
	paths, complete := c14AcceptPaths(fn, idx, accept, also)
	if !complete {
		c.undecided(rule, key, fn.Pos(), what+": too many paths to enumerate in "+fnKey(fn))
		return 0
	}
	if len(paths) == 0 {
		c.unresolved(rule, fmt.Sprintf("%s|%s", fnKey(fn), what), "no accepting exit found (rule would pass vacuously)")
		return 0
	}
	bad := 0
	for _, p := range paths {
		if c14PathCrosses(p, bars) {
			continue
		}
		bad++
		if bad > 1 {
			continue // one report per rule instance is enough
		}
		var steps []string
		for i, in := range p.Trail {
			w := "F"
			if p.Facts[i].Truth {
				w = "T"
			}
			steps = append(steps, fmt.Sprintf("%s[%s]", c.lineOf(in), w))
		}
		if len(steps) > 14 {
			steps = append(steps[:5], append([]string{"…"}, steps[len(steps)-8:]...)...)
		}
		c.violation(rule, key, instrPos(p.Ret), fmt.Sprintf("%s in %s without {%s}; path %s", what, fnKey(fn), strings.Join(bn, " | "), strings.Join(steps, "→")))
	}
	if bad == 0 {
		c.ok(rule, key, fn.Pos(), fmt.Sprintf("%s in %s: all %d accepting paths hold {%s}", what, fnKey(fn), len(paths), strings.Join(bn, " | ")))
	}
	return len(paths)
}

func (c *Ctx) c14MustCrossAcceptAll(rule string, fn *ssa.Function, what string, idx int, accept Pat, also func(*ssa.Return) bool, bars ...Barrier) {
	for _, b := range bars {
		c.c14MustCrossAccept(rule, fn, what, idx, accept, also, b)
	}
}

// c14LenOfValue matches the builtin len applied to exactly the SSA value v.
func c14LenOfValue(v ssa.Value) Pat {
	return func(e *Expr) bool {
		e = strip(e)
		return e != nil && e.K == ECall && e.Method == "builtin.len" && len(e.Args) == 1 && e.Args[0] != nil && e.Args[0].V == v
	}
}
