package main

// Helpers private to the C14 rules (table agreement on case → value maps and
// per-clause callee families).  Everything is resolved through type
// information; no source text is compared.

import (
	"go/ast"
	"go/types"
	"sort"
	"strings"

	"golang.org/x/tools/go/packages"
	"golang.org/x/tools/go/ssa"
)

// c14CalleeOf resolves the function object a call expression invokes.
func c14CalleeOf(call *ast.CallExpr, info *types.Info) *types.Func {
	var id *ast.Ident
	switch f := call.Fun.(type) {
	case *ast.Ident:
		id = f
	case *ast.SelectorExpr:
		id = f.Sel
	case *ast.ParenExpr:
		if s, ok := f.X.(*ast.SelectorExpr); ok {
			id = s.Sel
		}
	}
	if id == nil {
		return nil
	}
	fo, _ := info.Uses[id].(*types.Func)
	return fo
}

// c14ExprID names an expression canonically: a constant by its exact value
// ("const:5"), a call by the full name of its callee ("call:crypto/sha1.New").
func c14ExprID(e ast.Expr, info *types.Info) string {
	if e == nil {
		return ""
	}
	if tv, ok := info.Types[e]; ok && tv.Value != nil {
		return "const:" + tv.Value.ExactString()
	}
	if p, ok := e.(*ast.ParenExpr); ok {
		return c14ExprID(p.X, info)
	}
	if call, ok := e.(*ast.CallExpr); ok {
		if fo := c14CalleeOf(call, info); fo != nil {
			return "call:" + fo.FullName()
		}
	}
	return "?" + types.ExprString(e)
}

// c14Switches lists the switch statements of fd selected by pick.
func c14Switches(fd *ast.FuncDecl, pick func(*ast.SwitchStmt) bool) []*ast.SwitchStmt {
	var out []*ast.SwitchStmt
	if fd == nil || fd.Body == nil {
		return nil
	}
	ast.Inspect(fd.Body, func(n ast.Node) bool {
		if sw, ok := n.(*ast.SwitchStmt); ok && (pick == nil || pick(sw)) {
			out = append(out, sw)
		}
		return true
	})
	return out
}

// c14CaseValues maps every case constant of the selected switch to the
// canonical id of the expression sel picks from the clause body (result #idx
// of its return statement, or the right-hand side of its assignment).
func c14CaseValues(fd *ast.FuncDecl, info *types.Info, pick func(*ast.SwitchStmt) bool, resultIdx int) map[string]string {
	out := map[string]string{}
	for _, sw := range c14Switches(fd, pick) {
		for _, st := range sw.Body.List {
			cc := st.(*ast.CaseClause)
			if len(cc.List) == 0 {
				continue // default
			}
			val := ""
			for _, s := range cc.Body {
				switch x := s.(type) {
				case *ast.ReturnStmt:
					if resultIdx < len(x.Results) {
						val = c14ExprID(x.Results[resultIdx], info)
					}
				case *ast.AssignStmt:
					if len(x.Rhs) == 1 && val == "" {
						val = c14ExprID(x.Rhs[0], info)
					}
				}
				if val != "" {
					break
				}
			}
			for _, e := range cc.List {
				k := "?" + types.ExprString(e)
				if tv, ok := info.Types[e]; ok && tv.Value != nil {
					k = tv.Value.ExactString()
				}
				out[k] = val
			}
		}
	}
	return out
}

// c14ClauseFamilies groups the case constants of the selected switch by the
// family (classify) of a function called inside the clause body.
func c14ClauseFamilies(fd *ast.FuncDecl, info *types.Info, pick func(*ast.SwitchStmt) bool, classify func(*types.Func) string) map[string]map[string]bool {
	out := map[string]map[string]bool{}
	for _, sw := range c14Switches(fd, pick) {
		for _, st := range sw.Body.List {
			cc := st.(*ast.CaseClause)
			if len(cc.List) == 0 {
				continue
			}
			fam := ""
			for _, s := range cc.Body {
				ast.Inspect(s, func(n ast.Node) bool {
					if call, ok := n.(*ast.CallExpr); ok {
						if f := classify(c14CalleeOf(call, info)); f != "" {
							if fam != "" && fam != f {
								fam = "mixed"
							} else if fam == "" {
								fam = f
							}
						}
					}
					return true
				})
			}
			if fam == "" {
				fam = "none"
			}
			if out[fam] == nil {
				out[fam] = map[string]bool{}
			}
			for _, e := range cc.List {
				k := "?" + types.ExprString(e)
				if tv, ok := info.Types[e]; ok && tv.Value != nil {
					k = tv.Value.ExactString()
				}
				out[fam][k] = true
			}
		}
	}
	return out
}

// c14MapLitValues reads a map composite literal with constant keys into
// key → canonical value id.
func c14MapLitValues(e ast.Expr, info *types.Info) (map[string]string, bool) {
	cl, ok := e.(*ast.CompositeLit)
	if !ok {
		return nil, false
	}
	out := map[string]string{}
	for _, el := range cl.Elts {
		kv, ok := el.(*ast.KeyValueExpr)
		if !ok {
			return nil, false
		}
		tv, ok := info.Types[kv.Key]
		if !ok || tv.Value == nil {
			return nil, false
		}
		out[tv.Value.ExactString()] = c14ExprID(kv.Value, info)
	}
	return out, true
}

// c14PkgVarValue is pkgVarValue for any loaded package (dependencies too).
func c14PkgVarValue(p *Prog, pkgPath, name string) (ast.Expr, *packages.Package) {
	pk := p.ByPath[pkgPath]
	if pk == nil {
		return nil, nil
	}
	for _, f := range pk.Syntax {
		for _, d := range f.Decls {
			gd, ok := d.(*ast.GenDecl)
			if !ok {
				continue
			}
			for _, sp := range gd.Specs {
				vs, ok := sp.(*ast.ValueSpec)
				if !ok {
					continue
				}
				for i, n := range vs.Names {
					if n.Name == name && i < len(vs.Values) {
						return vs.Values[i], pk
					}
				}
			}
		}
	}
	return nil, nil
}

func c14MapString(m map[string]string) string {
	var ks []string
	for k := range m {
		ks = append(ks, k)
	}
	sort.Slice(ks, func(i, j int) bool {
		if len(ks[i]) != len(ks[j]) {
			return len(ks[i]) < len(ks[j])
		}
		return ks[i] < ks[j]
	})
	var b []string
	for _, k := range ks {
		b = append(b, k+"→"+m[k])
	}
	return "{" + strings.Join(b, ", ") + "}"
}

// c14FieldsReadAST collects the struct fields (types.Var, origin) selected
// anywhere below the given nodes.
func c14FieldsReadAST(nodes []ast.Node, info *types.Info) map[*types.Var]bool {
	out := map[*types.Var]bool{}
	for _, n := range nodes {
		ast.Inspect(n, func(x ast.Node) bool {
			if se, ok := x.(*ast.SelectorExpr); ok {
				if sel := info.Selections[se]; sel != nil && sel.Kind() == types.FieldVal {
					if v, ok := sel.Obj().(*types.Var); ok {
						out[v.Origin()] = true
					}
				}
			}
			return true
		})
	}
	return out
}

// c14GuardConds returns the conditions of the if-statements of fd whose body
// consists of a single `return <package-level error variable>` (optionally
// preceded by nothing else): the refusals of a preflight.
func c14GuardConds(fd *ast.FuncDecl, info *types.Info, errNames map[string]bool) []ast.Node {
	var out []ast.Node
	if fd == nil || fd.Body == nil {
		return nil
	}
	ast.Inspect(fd.Body, func(n ast.Node) bool {
		is, ok := n.(*ast.IfStmt)
		if !ok || len(is.Body.List) != 1 {
			return true
		}
		rs, ok := is.Body.List[0].(*ast.ReturnStmt)
		if !ok || len(rs.Results) != 1 {
			return true
		}
		id, ok := rs.Results[0].(*ast.Ident)
		if !ok {
			return true
		}
		v, ok := info.Uses[id].(*types.Var)
		if !ok || v.Parent() != v.Pkg().Scope() || !errNames[v.Name()] {
			return true
		}
		if is.Init != nil {
			out = append(out, is.Init)
		}
		out = append(out, is.Cond)
		return true
	})
	return out
}

// c14LenOf matches the builtin len applied to a value matching p.
func c14LenOf(p Pat) Pat {
	return func(e *Expr) bool {
		e = strip(e)
		if e == nil || e.K != ECall || e.Method != "builtin.len" || len(e.Args) != 1 {
			return false
		}
		for _, l := range Origins(e.Args[0], nil) {
			if !p(l) {
				return false
			}
		}
		return true
	}
}

func c14ParamIdx(i int) Pat {
	return func(e *Expr) bool { e = strip(e); return e != nil && e.K == EParam && e.Idx == i }
}

// c14HasCall reports whether fn (or a closure) contains a plain call to f.
func c14HasCall(fn *ssa.Function, f *types.Func) bool {
	return fn != nil && f != nil && len(instrsWhere(fn, isPlainCallTo(f))) > 0
}
