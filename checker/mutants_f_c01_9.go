package main

// Regression mutants for finding F-C01-9: a CNAME whose target leg fails (bogus under
// DNSSEC, or unreachable) was answered NOERROR, AD=1 with the lone alias because the
// alias chase never looked at the sub-reply's SERVFAIL.
func init() {
	addMutants("C01", []Mutant{
		{ID: "f-c01-9-servfail-only-with-records", File: "middleware/cache/cache.go", Expect: "C01-R21|(*middleware/cache.Cache).additionalAnswer",
			Old: "\t\tif err == nil && respCname != nil && respCname.Rcode == dns.RcodeServerFailure {\n",
			New: "\t\tif err == nil && respCname != nil && respCname.Rcode == dns.RcodeServerFailure && len(respCname.Answer) > 0 {\n",
			Why: "F-C01-9: the target's SERVFAIL is handed up only when the sub-reply carries records — a validation failure never does, so the bogus target is again answered with the lone alias, NOERROR and the alias zone's AD"},
		{ID: "f-c01-9-wrong-rcode-tested", File: "middleware/cache/cache.go", Expect: "C01-R21|(*middleware/cache.Cache).additionalAnswer",
			Old: "\t\tif err == nil && respCname != nil && respCname.Rcode == dns.RcodeServerFailure {\n",
			New: "\t\tif err == nil && respCname != nil && respCname.Rcode == dns.RcodeRefused {\n",
			Why: "F-C01-9: the failure arm tests another rcode; validation failures surface as SERVFAIL and fall through to `return msg`"},
	})
}
