package main

func init() {
	addMutants("C18", []Mutant{
		{ID: "f-c18-1-skip-covered-on-load", File: "middleware/blocklist/updater.go", Expect: "C18-R10|(*middleware/blocklist.BlockList).parseHostFile|set independent of coverage",
			Old: "\t\t\tb.set(dns.CanonicalName(n))\n",
			New: "\t\t\tif canonical := dns.CanonicalName(n); !b.Exists(canonical) {\n\t\t\t\tb.set(canonical)\n\t\t\t}\n",
			Why: "re-introduces F-C18-1: a line an earlier line covers is not loaded, so {example.com, *.sub.example.com} reloads to {example.com}"},
		{ID: "f-c18-1-skip-covered-in-setlocked", File: "middleware/blocklist/blocklist.go", Expect: "C18-R10|(*middleware/blocklist.BlockList).setLocked|map write independent of coverage",
			Old: "\t} else {\n\t\tb.m[key] = true\n\t}\n",
			New: "\t} else if !matchHierarchy(key, b.m) {\n\t\tb.m[key] = true\n\t}\n",
			Why: "same defect one level down: a plain name is stored only when no parent is listed — what memory holds depends on insertion order and differs from what was listed"},
	})
}
