package main

// C09-R17 (finding F-C09-6) — a record of a received DNSKEY set is never filed
// blind in a one-slot-per-tag map.
//
// A key tag is a 16-bit checksum; two DNSKEY records of one RRset may share
// it (RFC 4034 §5.1 / App. B say so, and a tag can be ground in a few hundred
// key generations).  A map indexed by key tag whose element is ONE record
// (TrustAnchors: tag → *TrustAnchor) therefore cannot hold a set of keys: an
// insert that does not look at the slot first silently replaces a different
// key filed under the same tag.  Collected that way, the fetched root DNSKEY
// set loses a record — the revoked form of a trusted anchor is hidden by a
// newly published key with the same tag (the authenticated, self-signed
// revocation is never staged nor processed and the anchor stays trusted), or
// the new key is hidden by the revocation and never starts its hold-down.
//
// Decided from the SSA alone, for every function of the module:
//
//	tag-keyed map types are discovered, not listed: a map type with a uint16
//	key into which some function of the module stores under a key tag (a result
//	of dnssec.KeyTag / (*dns.DNSKEY).KeyTag, RRSIG.KeyTag, DS.KeyTag);
//
//	for every insert `m[k] = v` into such a map whose element type has a single
//	slot (not a slice / map: `m[k] = append(m[k], v)` keeps every record; not an
//	empty struct: a set of tags stores no record) and whose value v derives from
//	a section of a received message (dns.Msg.Answer / Ns / Extra — followed
//	backwards through range, type assertion, composite literals, append, phis,
//	calls taking it, and the parameters of unexported helpers to their call
//	sites: "every record of the fetched RRset is acted on" is a statement about
//	received records; the first-run seed of the state from the resolver's own
//	configured set is not in scope), every path from the
//	function's entry to the insert follows the edge on which that very slot —
//	the same map, the same key — was found EMPTY (`m[k] == nil`,
//	`_, ok := m[k]; !ok`).  What is done on the occupied edge (skip, log,
//	compare material) is the caller's business; overwriting without having
//	looked is not.
//
//	When the insert sits in an unexported helper that is only ever called and
//	the map / key are its parameters, every call site is examined with the
//	arguments in their place.
//
// One obligation per (function, map type): the key does not depend on how many
// inserts the function has or on local names.

import (
	"fmt"
	"go/token"
	"go/types"
	"sort"
	"strings"

	"golang.org/x/tools/go/ssa"
)

func init() {
	wrap := func(id string, extra func(c *Ctx), explain string) {
		pd := props[id]
		if pd == nil {
			return
		}
		orig := pd.Run
		pd.Run = func(c *Ctx) { orig(c); extra(c) }
		pd.Explanation += " " + explain
	}
	wrap("C09", c09R17, "R17 (F-C09-6): a map that files ONE key record under each 16-bit key tag is never inserted into without testing that slot first — two records of one DNSKEY RRset may share a tag, and a blind insert makes the record stored last stand in for the other (a new key hiding the self-signed revocation of a trusted anchor, or the reverse).")
}

func c09R17(c *Ctx) {
	const R = "C09-R17"
	c.Doc(R, "records of a received RRset that share a key tag are all acted on: every insert m[k]=v of a value derived from a dns.Msg section (Answer/Ns/Extra) into a map keyed by key tag with a single-record element (discovered: uint16-keyed map types stored into under a dnssec.KeyTag / DNSKEY.KeyTag / RRSIG.KeyTag / DS.KeyTag value; element not a slice, map or struct{}) is reached only over the edge on which the lookup of that same slot m[k] came back empty — a blind insert lets the last of two colliding records of the fetched root DNSKEY RRset replace the other before either is looked at")
	tagFns := c.fobjs(R, "middleware/resolver/dnssec.KeyTag", "github.com/miekg/dns.(*DNSKEY).KeyTag")
	sigTag := c.field(R, "github.com/miekg/dns.RRSIG.KeyTag")
	dsTag := c.field(R, "github.com/miekg/dns.DS.KeyTag")
	if len(tagFns) < 2 || sigTag == nil || dsTag == nil {
		return
	}
	isU16 := func(t types.Type) bool {
		b, ok := t.Underlying().(*types.Basic)
		return ok && b.Kind() == types.Uint16
	}
	directTag := AnyOf(CallTo(tagFns...), FieldIs(sigTag, dsTag))
	funcs := c.P.RepoFuncs()

	// ---- tag-keyed map types, discovered from the stores
	var tagMaps []types.Type
	isTagMap := func(t types.Type) bool {
		for _, m := range tagMaps {
			if types.Identical(m, t) || types.Identical(m.Underlying(), t.Underlying()) {
				return true
			}
		}
		return false
	}
	for _, fn := range funcs {
		for _, b := range fn.Blocks {
			for _, in := range b.Instrs {
				mu, ok := in.(*ssa.MapUpdate)
				if !ok {
					continue
				}
				mt, ok := mu.Map.Type().Underlying().(*types.Map)
				if !ok || !isU16(mt.Key()) || isTagMap(mu.Map.Type()) {
					continue
				}
				for _, l := range Origins(Desc(mu.Key), nil) {
					if directTag(l) {
						tagMaps = append(tagMaps, mu.Map.Type())
						break
					}
				}
			}
		}
	}
	if len(tagMaps) == 0 {
		c.unresolved(R, "tag-keyed maps", "no map is stored into under a KeyTag result — the rule has lost its anchors")
		return
	}
	singleSlot := func(t types.Type) bool {
		mt, ok := t.Underlying().(*types.Map)
		if !ok {
			return false
		}
		switch e := mt.Elem().Underlying().(type) {
		case *types.Slice, *types.Map:
			return false
		case *types.Struct:
			return e.NumFields() > 0
		}
		return true
	}
	mapName := func(t types.Type) string {
		return types.TypeString(t, func(p *types.Package) string { return p.Name() })
	}

	// ---- provenance: does v derive from a section of a received message?
	var secs []*types.Var
	for _, n := range []string{"Answer", "Ns", "Extra"} {
		if f := c.field(R, "github.com/miekg/dns.Msg."+n); f != nil {
			secs = append(secs, f)
		}
	}
	if len(secs) != 3 {
		return
	}
	isSec := func(st types.Type, idx int) bool {
		if p, ok := st.Underlying().(*types.Pointer); ok {
			st = p.Elem()
		}
		s, ok := st.Underlying().(*types.Struct)
		if !ok || idx >= s.NumFields() {
			return false
		}
		for _, f := range secs {
			if s.Field(idx).Origin() == f {
				return true
			}
		}
		return false
	}
	onlyCalled := func(fn *ssa.Function) []Site {
		if fn == nil || fn.Parent() != nil {
			return nil
		}
		fo := funcObjOf(fn)
		if fo == nil || fo.Exported() {
			return nil
		}
		var sites []Site
		for _, s := range c.CallSites(fo) {
			if s.Kind != "call" && s.Kind != "defer" && s.Kind != "go" {
				return nil
			}
			sites = append(sites, s)
		}
		return sites
	}
	var fromMsg func(v ssa.Value, seen map[ssa.Value]bool, depth int) bool
	fromMsg = func(v ssa.Value, seen map[ssa.Value]bool, depth int) bool {
		if v == nil || seen[v] || depth > 4 {
			return false
		}
		seen[v] = true
		any := func(vs ...ssa.Value) bool {
			for _, x := range vs {
				if fromMsg(x, seen, depth) {
					return true
				}
			}
			return false
		}
		// what is stored into / through the address a (cell, composite literal, array)
		var stored func(a ssa.Value) bool
		stored = func(a ssa.Value) bool {
			refs := a.Referrers()
			if refs == nil {
				return false
			}
			for _, r := range *refs {
				switch x := r.(type) {
				case *ssa.Store:
					if x.Addr == a && fromMsg(x.Val, seen, depth) {
						return true
					}
				case *ssa.FieldAddr:
					if x.X == a && stored(x) {
						return true
					}
				case *ssa.IndexAddr:
					if x.X == a && stored(x) {
						return true
					}
				}
			}
			return false
		}
		switch x := v.(type) {
		case *ssa.Alloc:
			return stored(x)
		case *ssa.Phi:
			return any(x.Edges...)
		case *ssa.TypeAssert:
			return any(x.X)
		case *ssa.Extract:
			return any(x.Tuple)
		case *ssa.Next:
			return any(x.Iter)
		case *ssa.Range:
			return any(x.X)
		case *ssa.FieldAddr:
			return isSec(x.X.Type(), x.Field) || any(x.X)
		case *ssa.Field:
			return isSec(x.X.Type(), x.Field) || any(x.X)
		case *ssa.UnOp:
			return any(x.X)
		case *ssa.IndexAddr:
			return any(x.X)
		case *ssa.Index:
			return any(x.X)
		case *ssa.Lookup:
			return any(x.X)
		case *ssa.Slice:
			return any(x.X)
		case *ssa.MakeInterface:
			return any(x.X)
		case *ssa.ChangeType:
			return any(x.X)
		case *ssa.ChangeInterface:
			return any(x.X)
		case *ssa.Convert:
			return any(x.X)
		case *ssa.Call:
			return any(x.Call.Args...)
		case *ssa.MakeClosure:
			return any(x.Bindings...)
		case *ssa.MakeMap:
			// a map made here: what is put into it
			if refs := x.Referrers(); refs != nil {
				for _, r := range *refs {
					if mu, ok := r.(*ssa.MapUpdate); ok && mu.Map == ssa.Value(x) && fromMsg(mu.Value, seen, depth) {
						return true
					}
				}
			}
			return false
		case *ssa.FreeVar:
			fn := x.Parent()
			if fn == nil || fn.Parent() == nil {
				return false
			}
			idx := -1
			for i, fv := range fn.FreeVars {
				if fv == x {
					idx = i
				}
			}
			for _, b := range fn.Parent().Blocks {
				for _, in := range b.Instrs {
					if mc, ok := in.(*ssa.MakeClosure); ok && mc.Fn == ssa.Value(fn) && idx >= 0 && idx < len(mc.Bindings) {
						if any(mc.Bindings[idx]) {
							return true
						}
					}
				}
			}
			return false
		case *ssa.Parameter:
			fn := x.Parent()
			idx := -1
			for i, p := range fn.Params {
				if p == x {
					idx = i
				}
			}
			if idx < 0 {
				return false
			}
			for _, s := range onlyCalled(fn) {
				if a := callArg(s.Instr, idx); a != nil && fromMsg(a, seen, depth+1) {
					return true
				}
			}
			return false
		}
		return false
	}
	received := func(v ssa.Value) bool { return fromMsg(v, map[ssa.Value]bool{}, 0) }

	// ---- "that very slot": same map, same key (compared as descriptions, so a
	// key that is recomputed — dnssec.KeyTag(ta.DNSKey) twice — is the same key)
	rangeVals := func(e *Expr) map[ssa.Value]bool {
		out := map[ssa.Value]bool{}
		seen := map[*Expr]bool{}
		var walk func(x *Expr, d int)
		walk = func(x *Expr, d int) {
			if x == nil || seen[x] || d > 40 {
				return
			}
			seen[x] = true
			if x.K == ERange && x.V != nil {
				out[x.V] = true
			}
			walk(x.X, d+1)
			walk(x.Y, d+1)
			for _, a := range x.Args {
				walk(a, d+1)
			}
		}
		walk(e, 0)
		return out
	}
	sameExpr := func(e, t *Expr) bool {
		if e == nil || t == nil {
			return false
		}
		if e.V != nil && e.V == t.V {
			return true
		}
		if se, st := strip(e), strip(t); se != nil && st != nil && se.V != nil && se.V == st.V {
			return true
		}
		if e.String() != t.String() {
			return false
		}
		// two loop variables have the same description: they must be the same loop's
		re, rt := rangeVals(e), rangeVals(t)
		if len(re) != len(rt) {
			return false
		}
		for v := range re {
			if !rt[v] {
				return false
			}
		}
		return true
	}
	// slotAtom: an expression that is truthy exactly when m[k] is occupied —
	// the value of m[k] (pointer / interface element: compared with nil by the
	// engine's normalisation) or the ok of `_, ok := m[k]`.
	slotAtom := func(m, k *Expr) Pat {
		return func(e *Expr) bool {
			e = strip(e)
			if e == nil {
				return false
			}
			l := e
			if e.K == EExtract && e.X != nil && e.X.K == ELookup {
				l = e.X
			}
			if l.K != ELookup {
				return false
			}
			return sameExpr(l.X, m) && sameExpr(l.Y, k)
		}
	}
	// blindAt: the instruction `at` (the insert, or a call that performs it on
	// m[k]) is reachable from its function's entry without following the
	// "slot m[k] empty" edge.
	blindAt := func(at ssa.Instruction, m, k *Expr) (bool, string) {
		bars := []Barrier{OnFalse("slot occupied", slotAtom(m, k))}
		r := reach(entryPoint(at.Parent()), bars, nil)
		if !r.visited[at] {
			return false, ""
		}
		return true, c.trail(r, at)
	}
	hasParam := Contains(func(x *Expr) bool { return x.K == EParam })
	// check returns the descriptions of the places where the insert is blind
	var check func(at ssa.Instruction, m, k *Expr, depth int, via string) []string
	check = func(at ssa.Instruction, m, k *Expr, depth int, via string) []string {
		blind, tr := blindAt(at, m, k)
		if !blind {
			return nil
		}
		fn := at.Parent()
		here := fmt.Sprintf("in %s%s: path %s", fnKey(fn), via, trunc(tr, 300))
		// the slot is named in terms of the helper's parameters: the test may sit
		// in the callers — examine every call site with the arguments in place
		if depth < 3 && (hasParam(m) || hasParam(k)) {
			if sites := onlyCalled(fn); len(sites) > 0 {
				var out []string
				for _, s := range sites {
					cc := callCommon(s.Instr)
					if cc == nil || cc.IsInvoke() {
						out = append(out, here)
						continue
					}
					args := make([]*Expr, len(cc.Args))
					for i, a := range cc.Args {
						args[i] = Desc(a)
					}
					out = append(out, check(s.Instr, inActivation(m, args), inActivation(k, args), depth+1, via+" (called from "+fnKey(TopLevel(s.Fn))+")")...)
				}
				return out
			}
		}
		return []string{here}
	}

	type obl struct {
		fn      string
		mt      string
		pos     token.Pos
		inserts int
		blind   []string
	}
	obls := map[string]*obl{}
	for _, fn := range funcs {
		for _, b := range fn.Blocks {
			for _, in := range b.Instrs {
				mu, ok := in.(*ssa.MapUpdate)
				if !ok || !isTagMap(mu.Map.Type()) || !singleSlot(mu.Map.Type()) || !received(mu.Value) {
					continue
				}
				k := fnKey(TopLevel(fn)) + "|" + mapName(mu.Map.Type())
				o := obls[k]
				if o == nil {
					o = &obl{fn: fnKey(TopLevel(fn)), mt: mapName(mu.Map.Type()), pos: instrPos(in)}
					obls[k] = o
				}
				o.inserts++
				if bl := check(in, Desc(mu.Map), Desc(mu.Key), 0, ""); len(bl) > 0 {
					if len(o.blind) == 0 {
						o.pos = instrPos(in)
					}
					o.blind = append(o.blind, bl...)
				}
			}
		}
	}
	var names []string
	for k := range obls {
		names = append(names, k)
	}
	sort.Strings(names)
	for _, k := range names {
		o := obls[k]
		key := fmt.Sprintf("%s|%s|record of a received message filed in tag-keyed %s only into a slot found empty", R, o.fn, o.mt)
		if len(o.blind) == 0 {
			c.ok(R, key, o.pos, fmt.Sprintf("%d insert(s) of a received record into %s (one record per 16-bit key tag): each is reached only over the edge on which the lookup of the same slot came back empty", o.inserts, o.mt))
			continue
		}
		c.violation(R, key, o.pos, fmt.Sprintf("%d of %d insert(s) of a record taken from a received message into %s (one record per 16-bit key tag) can be reached without the slot having been tested: %s — two records of one DNSKEY RRset may share a tag; the one stored last replaces the other before either is looked at (a new key hides the self-signed revocation of a trusted anchor, or the revocation hides the new key)", len(o.blind), o.inserts, o.mt, trunc(strings.Join(o.blind, "; "), 700)))
	}
	c.Floor(R, 1)
}
