package main

// C06-R10 (finding F-C06-2) — an OPT record that arrives WITH the response is
// another hop's record; what it carries reaches the client only through an
// allow-list.
//
// edns.ResponseWriter.WriteMsg keeps the OPT it finds on the message
// (m.IsEdns0() != nil).  When that record is not the writer's own (w.opt) it
// is what an upstream sent to this server — cookie, NSID, padding, private
// options, EDNS version, Z bits — or a local carrier for an Extended DNS
// Error.  EDNS is hop-by-hop: before the reply goes to the inner writer the
// foreign record's option list must have been replaced by the result of an
// ALLOW-list filter over it (elements are kept only on the ok-edge of a type
// assertion to / an option-code comparison with an allowed option kind; the
// table below names them), and its TTL word (extended rcode, version, Z)
// must have been cleared.  A deny-list (keep everything except X) is exactly
// the defect: whatever nobody thought of goes through.
//
// Decided on the CFG: after the non-nil edge of IsEdns0() every path to the
// delegate WriteMsg crosses the edge `… == w.opt` (the record is the writer's
// own) or such a store; same for the TTL word.

import (
	"go/constant"
	"go/token"
	"go/types"

	"golang.org/x/tools/go/ssa"
)

func init() {
	wrap := func(id string, extra func(c *Ctx), explain string) {
		pd := props[id]
		if pd == nil {
			return
		}
		orig := pd.Run
		pd.Run = func(c *Ctx) { orig(c); extra(c) }
		pd.Explanation += " " + explain
	}
	wrap("C06", c06R10, "R10 (F-C06-2): an OPT record that came with the response (not the writer's own) reaches the client only with its option list replaced by an allow-list filter over it (Extended DNS Error only) and its TTL word zeroed — an upstream's cookie, NSID, padding, private options, EDNS version and Z bits are that hop's, never the client's.")
}

// c06AllowedForeignOptions: the option kinds a response's own OPT may hand on.
var c06AllowedForeignOptions = map[string]struct {
	code string // constant in github.com/miekg/dns
	why  string
}{
	"EDNS0_EDE": {"EDNS0EDE", "the Extended DNS Error is the one option designed to travel with the answer (cache ToMsg, failure cache, SetRcodeWithEDE, dns64)"},
}

func c06R10(c *Ctx) {
	const R = "C06-R10"
	c.Doc(R, "edns.ResponseWriter.WriteMsg: after the non-nil edge of m.IsEdns0() every path to the delegate WriteMsg crosses `<opt> == w.opt` (the record is the writer's own) or (i) a store into that record's OPT.Option of an allow-list filter result — every append that builds the value is behind the ok-edge of a type assertion to (or an Option() code comparison with) an allowed kind {EDNS0_EDE}, and the value starts from an empty slice, never from the list itself — and (ii) a store of 0 into its header TTL word (extended rcode / version / Z). RFC 6891 §6.2.6: options are hop-by-hop; a relayed upstream OPT otherwise hands the client a server cookie it never asked for, the upstream's NSID, padding and private options")
	a := c06Anchors(c, R)
	isEdns0 := c.fobj(R, x5DnsPkg+".(*Msg).IsEdns0")
	ensureOpt := c.fobj(R, "middleware/edns.(*ResponseWriter).ensureOpt")
	optOption := c.field(R, x5DnsPkg+".OPT.Option")
	hdrTtl := c.field(R, x5DnsPkg+".RR_Header.Ttl")
	if a == nil || isEdns0 == nil || ensureOpt == nil || optOption == nil || hdrTtl == nil {
		return
	}
	fn := a.writeMsg
	delegate := func(in ssa.Instruction) bool {
		cc := callCommon(in)
		return cc != nil && cc.IsInvoke() && x5MsgWriteArg(in) != nil
	}

	// --- "this element is of an allowed kind" edges
	allowedCodes := map[int64]bool{}
	for _, row := range c06AllowedForeignOptions {
		if v := c.P.ConstVal(x5DnsPkg + "." + row.code); v != nil {
			if n, ok := constant.Int64Val(constant.ToInt(v)); ok {
				allowedCodes[n] = true
			}
		} else {
			c.unresolved(R, x5DnsPkg+"."+row.code, "option code constant not found")
		}
	}
	assertOK := func(e *Expr) bool {
		if e == nil || e.K != EExtract || e.Idx != 1 || e.X == nil || e.X.K != ETypeAssert || !e.X.CommaOk {
			return false
		}
		ta, ok := e.X.V.(*ssa.TypeAssert)
		if !ok {
			return false
		}
		n, ok := deref(ta.AssertedType).(*types.Named)
		if !ok || n.Obj().Pkg() == nil || n.Obj().Pkg().Path() != x5DnsPkg {
			return false
		}
		_, allowed := c06AllowedForeignOptions[n.Obj().Name()]
		return allowed
	}
	isAllowedCode := func(e *Expr) bool {
		e = strip(e)
		if e == nil || e.K != EConst || e.Val == nil {
			return false
		}
		n, ok := constant.Int64Val(constant.ToInt(e.Val))
		return ok && allowedCodes[n]
	}
	keepEdges := []Barrier{
		OnTrue("element.(*allowed kind) ok", assertOK),
		OnCmp("element.Option() == allowed code", MethodNamed("Option"), token.EQL, isAllowedCode, true),
	}

	// --- is v the result of an allow-list filter?  (built from nothing, grown only behind keepEdges)
	var allowListValue func(f *ssa.Function, e *Expr, depth int, seen map[*Expr]bool) bool
	allowListValue = func(f *ssa.Function, e *Expr, depth int, seen map[*Expr]bool) bool {
		e = strip(e)
		if e == nil || depth > 40 {
			return false
		}
		if seen[e] {
			return true
		}
		seen[e] = true
		switch e.K {
		case EPhi:
			for _, x := range e.Args {
				if !allowListValue(f, x, depth+1, seen) {
					return false
				}
			}
			return len(e.Args) > 0
		case EAlloc:
			if len(e.Args) == 0 {
				return false
			}
			for _, x := range e.Args {
				if !allowListValue(f, x, depth+1, seen) {
					return false
				}
			}
			return true
		case EUnknown:
			return e.Name == "phi-cycle" || e.Name == "cell-cycle"
		case EConst:
			return e.IsNil
		case EMake:
			return len(e.Args) == 0 // make([]T, 0, n) / empty literal
		case ESlice:
			// opts[:0] — the usual in-place start
			return len(e.Args) >= 2 && e.Args[1] != nil && IsConstInt(0)(e.Args[1])
		case EExtract:
			return e.X != nil && allowListValue(f, e.X, depth+1, seen)
		case ECall:
			if x5IsBuiltinCall(e, "append") {
				cl, ok := e.V.(*ssa.Call)
				if !ok || len(e.Args) < 1 {
					return false
				}
				if ug, _ := c.unguarded(cl, keepEdges, TopLevel(cl.Parent())); ug {
					return false
				}
				return allowListValue(f, e.Args[0], depth+1, seen)
			}
			cl, ok := e.V.(*ssa.Call)
			if !ok {
				return false
			}
			h := localHelper(cl.Parent(), &cl.Call)
			if h == nil {
				return false
			}
			nret := 0
			for _, b := range h.Blocks {
				for _, in := range b.Instrs {
					ret, ok := in.(*ssa.Return)
					if !ok {
						continue
					}
					for _, rv := range ret.Results {
						if _, isSlice := rv.Type().Underlying().(*types.Slice); !isSlice {
							continue
						}
						nret++
						if !allowListValue(h, Desc(rv), depth+1, seen) {
							return false
						}
					}
				}
			}
			return nret > 0
		}
		return false
	}

	own := func(e *Expr) bool {
		return Contains(AnyOf(FieldIs(a.opt), CallTo(ensureOpt)))(e)
	}
	onOPT := func(addr *Expr) bool {
		return Contains(func(x *Expr) bool {
			return x != nil && x.V != nil && x5IsNamedType(x.V.Type(), x5DnsPkg, "OPT")
		})(addr) && !own(addr)
	}
	reduce := Barrier{Name: "OPT.Option = allow-list filter(OPT.Option)", Instr: func(in ssa.Instruction) bool {
		st, ok := in.(*ssa.Store)
		if !ok || !isFieldStore(in, optOption, nil) || own(Desc(st.Addr)) {
			return false
		}
		return allowListValue(in.Parent(), Desc(st.Val), 0, map[*Expr]bool{})
	}}
	ttlZero := Barrier{Name: "OPT header Ttl = 0", Instr: func(in ssa.Instruction) bool {
		st, ok := in.(*ssa.Store)
		if !ok || !isFieldStore(in, hdrTtl, IsConstInt(0)) {
			return false
		}
		return onOPT(Desc(st.Addr))
	}}
	ownEdge := OnCmp("<opt> == w.opt", Any, token.EQL, FieldIs(a.opt), true)
	came := OnTrue("m.IsEdns0()", CallTo(isEdns0))

	c.AfterEdge(R, fn, "a response's own OPT goes on with its options reduced to the allow-list", came, delegate, ownEdge, reduce)
	c.AfterEdge(R, fn, "a response's own OPT goes on with its version/flag word cleared", came, delegate, ownEdge, ttlZero)
}
