package main

// Regression mutants for finding F-C09-5 (rule C09-R16): a revocation accepted
// in a refresh whose two writes both failed lived only in that run's locals.

func init() {
	addMutants("C09", []Mutant{
		{ID: "f-c09-5-revocations-not-retained", File: "middleware/resolver/auto_trust_anchor.go",
			Old:    "r.unpersistedRevocations = tombstones",
			New:    "r.unpersistedRevocations = nil",
			Expect: "C09-R16|(*middleware/resolver.Resolver).AutoTA|accepted revocation is durable or retained in the Resolver before return",
			Why:    "the failed tombstone write no longer leaves the in-memory set behind: with the state write failing too AutoTA clears rootKeys and returns, and the next refresh republishes the revoked key from the state file / configuration as soon as one write succeeds"},
		{ID: "f-c09-5-retained-set-not-read-back", File: "middleware/resolver/auto_trust_anchor.go",
			Old:    "unpersisted := r.unpersistedRevocations",
			New:    "var unpersisted Tombstones",
			Expect: "C09-R16|(*middleware/resolver.Resolver).AutoTA|retained revocations are read back before publish and before writeTombstones",
			Why:    "the set is kept but the next refresh never looks at it: the revoked key is derived from disk as a Valid anchor, published, and the successful tombstone write then discards the only record of its revocation"},
	})
}
