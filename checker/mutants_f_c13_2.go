package main

// Regression mutants for finding F-C13-2: a zone failure covers the parent-side DS
// question of its own apex.  Each Old snippet is part of the accepted fix.
func init() {
	addMutants("C13", []Mutant{
		{ID: "f-c13-2-lookup-walks-from-qname", File: "middleware/cache/failure_cache.go", Expect: "C13-R12|(*middleware/cache.FailureCache).Lookup|",
			Old: "\twalkFailureZones(failureZoneWalkOrigin(key.Question), func(zone string) bool {\n\t\tentry, ok := c.loadZone(", New: "\twalkFailureZones(key.Question.Name, func(zone string) bool {\n\t\tentry, ok := c.loadZone(",
			Why: "F-C13-2: Lookup walks from the question name again — the failure of dead.example. answers `dead.example. DS` with SERVFAIL/EDE 13 without asking example."},
		{ID: "f-c13-2-origin-helper-type-blind", File: "middleware/cache/failure_cache.go", Expect: "C13-R12",
			Old: "\tif q.Qtype != dns.TypeDS || name == \".\" {\n\t\treturn name\n\t}\n", New: "\tif name == \".\" || name != \"\" {\n\t\treturn name\n\t}\n",
			Why: "F-C13-2: the helper is still called everywhere but no longer looks at the type, so every presentation-name walk starts at the DS owner name"},
		{ID: "f-c13-2-wire-origin-wrong-type", File: "middleware/cache/failure_cache.go", Expect: "C13-R12|(*middleware/cache.FailureCache).LookupWire|",
			Old: "walkWireSuffixes(wireFailureZoneWalkOrigin(name, qtype), func", New: "walkWireSuffixes(wireFailureZoneWalkOrigin(name, dns.TypeSOA), func",
			Why: "F-C13-2: the wire walk hands the helper a constant type, so the DS arm is dead and the wire fast path serves the child's zone failure for the parent-side DS question"},
	})
}
