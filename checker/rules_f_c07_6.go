package main

// F-C07-6 / C07-R13 — an address taken from an A/AAAA record becomes a
// nameserver endpoint only through usableAddr.
//
// C07-R2 decides the glue filters inside checkGlueRR and searchAddrs, i.e. for
// the two intake routes somebody listed.  The clause of the property is about
// every route: "glue addresses are ... never loopback or local-interface
// addresses".  Root priming (Resolver.checkPriming) was a third intake — it
// builds the root server list from the additional section of the ". NS" reply
// — and converted the record's address with netip.AddrFromSlice directly.
//
// Necessary condition (discovered from the sources, not from a list of
// functions):
//
//   for every read of dns.A.A / dns.AAAA.AAAA in package middleware/resolver
//   (these are the addresses an upstream put into a message), the value does
//   not flow — through conversions, library calls, locals, closures, map and
//   struct cells, unexported or exported module helpers and their results —
//   into
//     (s1) an argument of a function of internal/authority that returns a
//          *Server / Server (the upstream endpoint constructors),
//     (s2) an argument of addIPv4Cache / addIPv6Cache (the glue caches), or
//     (s3) a store into a field of authority.Server,
//   unless it passed usableAddr on the way (usableAddr is the sanitiser: the
//   flow is cut at its argument; its own body is decided by C07-R2 / C07-R11).
//
// This is a forward may-flow (taint) over go/ssa referrers.  Booleans derived
// from the address carry no address and end the flow.  Nothing is executed and
// no address value is looked at.

import (
	"fmt"
	"go/types"
	"sort"
	"strings"

	"golang.org/x/tools/go/ssa"
)

func init() {
	wrap := func(id string, extra func(c *Ctx), explain string) {
		pd := props[id]
		if pd == nil {
			return
		}
		orig := pd.Run
		pd.Run = func(c *Ctx) { orig(c); extra(c) }
		pd.Explanation += " " + explain
	}
	wrap("C07", c07R13, "R13 (added): in middleware/resolver no address read from an A/AAAA record (dns.A.A, dns.AAAA.AAAA) reaches an upstream-server constructor of internal/authority, a glue-cache insert or a Server field except through usableAddr — every intake of nameserver addresses, root priming included, applies the loopback / unspecified / local-interface filter, not only the two that C07-R2 names.")
}

type c07r13Hit struct {
	at   ssa.Instruction
	what string
	via  []string
}

func c07R13(c *Ctx) {
	const R = "C07-R13"
	c.Doc(R, "middleware/resolver: the address field of an A/AAAA record (dns.A.A, dns.AAAA.AAAA) flows into an internal/authority Server constructor, addIPv4Cache/addIPv6Cache or a Server field only through usableAddr (forward may-flow over SSA: conversions, library calls, cells, closures, module helpers and their results; usableAddr cuts the flow)")
	usable := c.fobj(R, c07res+".usableAddr")
	aF := c.field(R, c07dns+".A.A")
	aaaaF := c.field(R, c07dns+".AAAA.AAAA")
	add4 := c.fobj(R, c07res+".(*Resolver).addIPv4Cache")
	add6 := c.fobj(R, c07res+".(*Resolver).addIPv6Cache")
	srvTN := c.P.TypeName("internal/authority.Server")
	if usable == nil || aF == nil || aaaaF == nil || add4 == nil || add6 == nil {
		return
	}
	if srvTN == nil {
		c.unresolved(R, "internal/authority.Server", "type not found")
		return
	}
	srvT := srvTN.Type()
	isServer := func(t types.Type) bool {
		return t != nil && types.Identical(deref(t), srvT)
	}
	// (s1) discovered by signature: any function of the Server's package that hands out a Server
	makesServer := func(fo *types.Func) bool {
		if fo == nil || fo.Pkg() == nil || fo.Pkg() != srvTN.Pkg() {
			return false
		}
		sig, ok := fo.Type().(*types.Signature)
		if !ok {
			return false
		}
		for i := 0; i < sig.Results().Len(); i++ {
			if isServer(sig.Results().At(i).Type()) {
				return true
			}
		}
		return false
	}
	isBool := func(t types.Type) bool {
		b, ok := t.Underlying().(*types.Basic)
		return ok && b.Info()&types.IsBoolean != 0
	}
	ix := c.index()

	// forward may-flow from one source value
	flow := func(src ssa.Value) []c07r13Hit {
		type item struct {
			v   ssa.Value
			via []string
		}
		seen := map[ssa.Value]bool{}
		var work []item
		var hits []c07r13Hit
		push := func(v ssa.Value, via []string) {
			if v == nil || seen[v] {
				return
			}
			if t := v.Type(); t != nil && isBool(t) {
				return // a test of the address carries no address
			}
			seen[v] = true
			work = append(work, item{v, via})
		}
		push(src, nil)
		for len(work) > 0 {
			it := work[len(work)-1]
			work = work[:len(work)-1]
			refs := it.v.Referrers()
			if refs == nil {
				continue
			}
			for _, r := range *refs {
				switch x := r.(type) {
				case *ssa.Store:
					if x.Val != it.v {
						continue // something is stored THROUGH the tainted pointer: not a read
					}
					// which cell receives the address?
					addr := x.Addr
					for {
						switch a := addr.(type) {
						case *ssa.FieldAddr:
							if isServer(a.X.Type()) {
								hits = append(hits, c07r13Hit{r, "store into authority.Server." + fieldName(a), it.via})
							}
							addr = a.X
							continue
						case *ssa.IndexAddr:
							addr = a.X
							continue
						}
						break
					}
					switch a := addr.(type) {
					case *ssa.Alloc, *ssa.FreeVar, *ssa.Parameter:
						push(a.(ssa.Value), it.via)
					case *ssa.UnOp: // *p where p was loaded from a cell (slice header in a cell …)
						push(a, it.via)
					}
				case *ssa.MapUpdate:
					if x.Value == it.v || x.Key == it.v {
						push(x.Map, it.via)
					}
				case *ssa.MakeClosure:
					if f, ok := x.Fn.(*ssa.Function); ok {
						for i, b := range x.Bindings {
							if b == it.v && i < len(f.FreeVars) {
								push(f.FreeVars[i], it.via)
							}
						}
					}
				case *ssa.Return:
					f := x.Parent()
					via := append(append([]string(nil), it.via...), "result of "+fnKey(f))
					if len(via) > 6 {
						continue
					}
					var sites []Site
					if fo := funcObjOf(f); fo != nil {
						sites = append(sites, ix.calls[fo.Origin()]...)
					}
					sites = append(sites, ix.ssaCall[f]...)
					for _, s := range sites {
						if v, ok := s.Instr.(ssa.Value); ok {
							push(v, via)
						}
					}
					// a closure called through the value that was made of it
					if f.Parent() != nil {
						for _, pf := range WithAnons(TopLevel(f)) {
							for _, b := range pf.Blocks {
								for _, in := range b.Instrs {
									mc, ok := in.(*ssa.MakeClosure)
									if !ok || mc.Fn != f {
										continue
									}
									push(mc, via) // calling a tainted callee taints the call (below)
								}
							}
						}
					}
				case ssa.CallInstruction:
					cc := x.Common()
					var idxs []int
					if cc.IsInvoke() && cc.Value == it.v {
						idxs = append(idxs, -1)
					}
					for i, a := range cc.Args {
						if a == it.v {
							idxs = append(idxs, i)
						}
					}
					calleeTainted := !cc.IsInvoke() && cc.Value == it.v
					if len(idxs) == 0 && !calleeTainted {
						continue
					}
					res, _ := r.(ssa.Value)
					if calleeTainted && len(idxs) == 0 {
						push(res, it.via)
						continue
					}
					fo, sf, name := calleeObj(cc)
					if fo != nil && fo.Origin() == usable.Origin() {
						continue // sanitised
					}
					if fo != nil && !cc.IsInvoke() {
						switch {
						case makesServer(fo):
							hits = append(hits, c07r13Hit{r, "argument of authority." + fo.Name(), it.via})
							continue
						case fo.Origin() == add4.Origin() || fo.Origin() == add6.Origin():
							hits = append(hits, c07r13Hit{r, "argument of " + fo.Name(), it.via})
							continue
						}
					}
					if sf != nil && len(sf.Blocks) > 0 && fnPkg(sf) != nil && c.P.inModule(fnPkg(sf).Path()) {
						via := append(append([]string(nil), it.via...), "parameter of "+fnKey(sf))
						if len(via) > 6 {
							continue
						}
						for _, i := range idxs {
							if i >= 0 && i < len(sf.Params) {
								push(sf.Params[i], via)
							}
						}
						continue // the result is tainted only if the body returns the value (Return case)
					}
					_ = name
					// library function, builtin, interface method, function value: the result may carry the address
					push(res, it.via)
				case *ssa.Phi, *ssa.Extract, *ssa.ChangeType, *ssa.Convert, *ssa.MultiConvert, *ssa.MakeInterface,
					*ssa.ChangeInterface, *ssa.TypeAssert, *ssa.Slice, *ssa.Index, *ssa.IndexAddr, *ssa.FieldAddr,
					*ssa.Field, *ssa.Lookup, *ssa.UnOp, *ssa.BinOp, *ssa.SliceToArrayPointer, *ssa.Range, *ssa.Next:
					push(r.(ssa.Value), it.via)
				}
			}
		}
		return hits
	}

	type source struct {
		v    ssa.Value
		fn   *ssa.Function
		what string
	}
	var srcs []source
	for _, fn := range c.P.FuncsInPkg(c07res) {
		for _, b := range fn.Blocks {
			for _, in := range b.Instrs {
				var fv *types.Var
				switch x := in.(type) {
				case *ssa.FieldAddr:
					if s, ok := deref(x.X.Type()).Underlying().(*types.Struct); ok {
						fv = s.Field(x.Field).Origin()
					}
				case *ssa.Field:
					if s, ok := x.X.Type().Underlying().(*types.Struct); ok {
						fv = s.Field(x.Field).Origin()
					}
				}
				if fv == nil || (fv != aF && fv != aaaaF) {
					continue
				}
				what := "dns.A.A"
				if fv == aaaaF {
					what = "dns.AAAA.AAAA"
				}
				srcs = append(srcs, source{in.(ssa.Value), fn, what})
			}
		}
	}
	for _, s := range srcs {
		key := R + "|" + fnKey(TopLevel(s.fn)) + "|" + s.what + " becomes a nameserver address only through usableAddr"
		hits := flow(s.v)
		if len(hits) == 0 {
			c.ok(R, key, instrPos(s.v.(ssa.Instruction)), "the record's address reaches no server constructor, glue cache or Server field except through usableAddr")
			continue
		}
		var descr []string
		for _, h := range hits {
			d := h.what + " in " + fnKey(TopLevel(h.at.Parent())) + " at " + c.P.pos(instrPos(h.at))
			if len(h.via) > 0 {
				d += " (via " + strings.Join(h.via, ", ") + ")"
			}
			descr = append(descr, d)
		}
		sort.Strings(descr)
		c.violation(R, key, instrPos(s.v.(ssa.Instruction)), fmt.Sprintf("an address an upstream put into an A/AAAA record (%s) reaches a nameserver endpoint without passing usableAddr: %s — a loopback (127.0.0.0/8, ::1, ::ffff:127.0.0.1), unspecified (0.0.0.0, ::) or local-interface address in that record becomes a server the resolver sends its queries to, which is what the glue address filter exists to refuse", s.what, strings.Join(descr, "; ")))
	}
	c.Floor(R, 4)
}

func fieldName(fa *ssa.FieldAddr) string {
	if s, ok := deref(fa.X.Type()).Underlying().(*types.Struct); ok && fa.Field < s.NumFields() {
		return s.Field(fa.Field).Name()
	}
	return "?"
}
