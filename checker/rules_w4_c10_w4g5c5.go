package main

// C10-R11 (wave 4, change C10-w4g5c5) — a message assembled IN PLACE in
// storage that outlives one request is written whole.
//
// The job slabs of the listeners (tcpJob.tx, udpJob.tx, …) are byte buffers in
// struct fields: they are not scrubbed on release (C10-R2 decides which fields
// are, and exempts the payload buffers because "the length bounds what is
// sent"), and ordinary replies are packed into them.  A function that cuts a
// window with CONSTANT bounds out of such a field, stores into it and then
// hands the window on (to the stream stager, a socket write, a copy, any other
// function) is assembling a fixed-size message on top of the previous
// occupant's bytes.  Necessary condition decided here:
//
//   for every function of the module that (a) stores at least one byte into a
//   buffer that is a []byte / [N]byte field of a module struct and (b) hands a
//   constant-bounds window [lo,hi) of that same buffer to a consumer, every
//   byte lo..hi-1 has been stored by this activation on EVERY path from the
//   function's entry to the hand-off.
//
// What counts as a store (all decided on SSA, by absolute byte offset in the
// field, so re-slicing, renaming and any order of the stores are accepted):
//   - buf[k] = v, k constant (through any chain of constant re-slicings);
//   - a counted loop `for i := range w` / `for i := c; i < len(w)|const; i++`
//     whose body stores w'[i] on every iteration (the store dominates the back
//     edge): the range is covered on the loop's exit edge;
//   - copy(dst, src) with constant-length src (covers min(len) bytes), clear(w),
//     encoding/binary PutUint16/32/64;
//   - a same-package callee is analysed in the caller's state with its
//     parameters bound to the call's arguments (depth ≤ 3): a helper that
//     zeroes / fills / stages the window is seen through.
// A consumer is any call that receives the window and cannot be seen through
// (other package, interface method, go/defer, a builtin that reads it such as
// copy's source or append).  Windows without an explicit constant upper bound
// (tx[:n] after a Pack, rx[:length], tx[:] / tx[k:] handed to a packer as
// capacity) are not fixed-size assemblies and are not looked at.  Each function
// answers for the windows it cuts itself; a caller's activation that sees the
// same hand-off through the callee does not report it again.
//
// Nothing is executed; the values stored are never looked at.

import (
	"fmt"
	"go/constant"
	"go/token"
	"go/types"
	"sort"
	"strings"

	"golang.org/x/tools/go/ssa"
)

func init() {
	wrap := func(id string, extra func(c *Ctx), explain string) {
		pd := props[id]
		if pd == nil {
			return
		}
		orig := pd.Run
		pd.Run = func(c *Ctx) { orig(c); extra(c) }
		pd.Explanation += " " + explain
	}
	wrap("C10", c10R11, "R11 (added): a fixed-size message assembled in place in a struct-held byte buffer (job slab TX region) is stored whole — every byte of the constant-bounds window handed on was written by this activation on every path — because the slab keeps the previous reply's bytes.")
}

// ---- interval sets (absolute byte offsets, half-open) ----------------------

type w4iv struct{ lo, hi int64 }
type w4set []w4iv

func (s w4set) add(lo, hi int64) w4set {
	if hi <= lo {
		return s
	}
	out := make(w4set, 0, len(s)+1)
	for _, x := range s {
		if x.hi < lo || x.lo > hi {
			out = append(out, x)
			continue
		}
		if x.lo < lo {
			lo = x.lo
		}
		if x.hi > hi {
			hi = x.hi
		}
	}
	out = append(out, w4iv{lo, hi})
	sort.Slice(out, func(i, j int) bool { return out[i].lo < out[j].lo })
	return out
}

func (s w4set) inter(t w4set) w4set {
	var out w4set
	for _, a := range s {
		for _, b := range t {
			lo, hi := a.lo, a.hi
			if b.lo > lo {
				lo = b.lo
			}
			if b.hi < hi {
				hi = b.hi
			}
			if lo < hi {
				out = append(out, w4iv{lo, hi})
			}
		}
	}
	return out
}

func (s w4set) missing(lo, hi int64) w4set {
	var out w4set
	at := lo
	for _, x := range s {
		if x.hi <= at {
			continue
		}
		if x.lo >= hi {
			break
		}
		if x.lo > at {
			out = append(out, w4iv{at, x.lo})
		}
		if x.hi > at {
			at = x.hi
		}
	}
	if at < hi {
		out = append(out, w4iv{at, hi})
	}
	return out
}

func (s w4set) String() string {
	var p []string
	for _, x := range s {
		if x.hi == x.lo+1 {
			p = append(p, fmt.Sprint(x.lo))
		} else {
			p = append(p, fmt.Sprintf("%d..%d", x.lo, x.hi-1))
		}
	}
	return strings.Join(p, ",")
}

// state: per buffer, the bytes stored on every path so far; top = unreached
type w4state struct {
	top bool
	m   map[string]w4set
}

func (a w4state) meet(b w4state) w4state {
	if a.top {
		return b
	}
	if b.top {
		return a
	}
	out := w4state{m: map[string]w4set{}}
	for k, s := range a.m {
		if t, ok := b.m[k]; ok {
			if x := s.inter(t); len(x) > 0 {
				out.m[k] = x
			}
		}
	}
	return out
}

func (a w4state) with(base string, lo, hi int64) w4state {
	if a.top || hi <= lo {
		return a
	}
	out := w4state{m: make(map[string]w4set, len(a.m)+1)}
	for k, s := range a.m {
		out.m[k] = s
	}
	out.m[base] = out.m[base].add(lo, hi)
	return out
}

func (a w4state) String() string {
	if a.top {
		return "T"
	}
	var ks []string
	for k := range a.m {
		ks = append(ks, k)
	}
	sort.Strings(ks)
	var b strings.Builder
	for _, k := range ks {
		b.WriteString(k + "=" + a.m[k].String() + ";")
	}
	return b.String()
}

// ---- windows ----------------------------------------------------------------

type w4win struct {
	base    string // buffer identity: "<owner>.<field>" resolved to the analysed activation
	field   *types.Var
	lo, hi  int64
	loKnown bool
	hiKnown bool          // only from an explicit constant upper bound: buf[:] / buf[k:] hand over capacity, not a message
	cutIn   *ssa.Function // the function that cut the window out of the field
}

type w4bind struct {
	desc string
	win  *w4win
}
type w4env map[*ssa.Parameter]w4bind

type w4sink struct {
	at     ssa.Instruction
	in     *ssa.Function
	win    w4win
	callee string
	miss   w4set
}

type w4an struct {
	c      *Ctx
	wrote  map[string]*types.Var // buffers stored into by the activation
	vague  map[string]bool       // … at an offset the analysis could not bound
	sinks  []w4sink
	budget int
	rec    bool
	touch  map[*ssa.Function]bool
}

func w4const(v ssa.Value) (int64, bool) {
	if v == nil {
		return 0, false
	}
	if k, ok := v.(*ssa.Const); ok && k.Value != nil && k.Value.Kind() == constant.Int {
		n, ok := constant.Int64Val(k.Value)
		return n, ok
	}
	if cv, ok := v.(*ssa.Convert); ok {
		return w4const(cv.X)
	}
	return 0, false
}

func isByteElem(t types.Type) (isBuf bool, n int64) {
	switch u := t.Underlying().(type) {
	case *types.Slice:
		if b, ok := u.Elem().Underlying().(*types.Basic); ok && b.Kind() == types.Uint8 {
			return true, -1
		}
	case *types.Array:
		if b, ok := u.Elem().Underlying().(*types.Basic); ok && b.Kind() == types.Uint8 {
			return true, u.Len()
		}
	case *types.Pointer:
		if a, ok := u.Elem().Underlying().(*types.Array); ok {
			return isByteElem(a)
		}
	}
	return false, 0
}

// key describes an owner value position-free, with callee parameters replaced
// by what the activation bound them to.
func (a *w4an) key(v ssa.Value, env w4env, d int) string {
	if d > 8 {
		return fmt.Sprintf("?%p", v)
	}
	switch x := v.(type) {
	case *ssa.Parameter:
		if b, ok := env[x]; ok && b.desc != "" {
			return b.desc
		}
		return "param " + x.Name()
	case *ssa.FreeVar:
		return "free " + x.Name()
	case *ssa.Global:
		return "global " + x.Name()
	case *ssa.FieldAddr:
		st, _ := deref(x.X.Type()).Underlying().(*types.Struct)
		if st == nil {
			return fmt.Sprintf("?%p", v)
		}
		return a.key(x.X, env, d+1) + "." + st.Field(x.Field).Name()
	case *ssa.Field:
		st, _ := x.X.Type().Underlying().(*types.Struct)
		if st == nil {
			return fmt.Sprintf("?%p", v)
		}
		return a.key(x.X, env, d+1) + "." + st.Field(x.Field).Name()
	case *ssa.UnOp:
		if x.Op == token.MUL {
			return a.key(x.X, env, d+1)
		}
	case *ssa.ChangeType:
		return a.key(x.X, env, d+1)
	case *ssa.Convert:
		return a.key(x.X, env, d+1)
	case *ssa.Alloc:
		// a lifted-away local never shows; a real cell is identified by itself
		return fmt.Sprintf("cell %s@%p", x.Comment, x)
	}
	return fmt.Sprintf("?%p", v)
}

// baseWin: v is a struct-held byte buffer itself (the loaded []byte field, or
// the address of a [N]byte field)
func (a *w4an) baseWin(v ssa.Value, env w4env) (w4win, bool) {
	var fa *ssa.FieldAddr
	switch x := v.(type) {
	case *ssa.UnOp:
		if x.Op != token.MUL {
			return w4win{}, false
		}
		fa, _ = x.X.(*ssa.FieldAddr)
	case *ssa.FieldAddr:
		fa = x
	}
	if fa == nil {
		return w4win{}, false
	}
	st, _ := deref(fa.X.Type()).Underlying().(*types.Struct)
	if st == nil {
		return w4win{}, false
	}
	fv := st.Field(fa.Field)
	if fv.Pkg() == nil || !a.c.P.inModule(fv.Pkg().Path()) {
		return w4win{}, false
	}
	ok, _ := isByteElem(fv.Type())
	if !ok {
		return w4win{}, false
	}
	if _, isPtr := fv.Type().Underlying().(*types.Pointer); isPtr {
		return w4win{}, false
	}
	// the value must be the buffer, not a pointer to the slice header
	if _, isFA := v.(*ssa.FieldAddr); isFA {
		if _, arr := fv.Type().Underlying().(*types.Array); !arr {
			return w4win{}, false
		}
	}
	// no upper bound: the field as a whole is capacity, not a message
	return w4win{base: a.key(fa, env, 0), field: fv.Origin(), lo: 0, loKnown: true}, true
}

func (a *w4an) winOf(v ssa.Value, env w4env, d int) (w4win, bool) {
	if d > 8 || v == nil {
		return w4win{}, false
	}
	switch x := v.(type) {
	case *ssa.Parameter:
		if b, ok := env[x]; ok && b.win != nil {
			return *b.win, true
		}
		return w4win{}, false
	case *ssa.ChangeType:
		return a.winOf(x.X, env, d+1)
	case *ssa.Slice:
		pw, ok := a.winOf(x.X, env, d+1)
		if !ok {
			pw, ok = a.baseWin(x.X, env)
		}
		if !ok {
			return w4win{}, false
		}
		if pw.cutIn == nil {
			pw.cutIn = x.Parent()
		}
		w := w4win{base: pw.base, field: pw.field, cutIn: pw.cutIn}
		if !pw.loKnown {
			return w, true
		}
		lo := int64(0)
		okLo := true
		if x.Low != nil {
			lo, okLo = w4const(x.Low)
		}
		if !okLo {
			return w, true
		}
		w.lo, w.loKnown = pw.lo+lo, true
		if x.High != nil {
			if hi, okHi := w4const(x.High); okHi {
				w.hi, w.hiKnown = pw.lo+hi, true
			}
		} else if pw.hiKnown {
			w.hi, w.hiKnown = pw.hi, true
		}
		return w, true
	}
	return a.baseWin(v, env)
}

// ---- counted loops ----------------------------------------------------------

// loopCover recognises, for the branch that ends header block h, the counted
// loop  t := c0 (+1 per iteration);  t < n  with a store w[t] that dominates
// every back edge; it returns what the loop has stored when it leaves through
// the header's false edge.
func (a *w4an) loopCover(h *ssa.BasicBlock, env w4env) (base string, fv *types.Var, lo, hi int64, idx ssa.Value, ok bool) {
	if len(h.Instrs) == 0 {
		return
	}
	iff, _ := h.Instrs[len(h.Instrs)-1].(*ssa.If)
	if iff == nil {
		return
	}
	cmp, _ := iff.Cond.(*ssa.BinOp)
	if cmp == nil {
		return
	}
	var t, n ssa.Value
	switch cmp.Op {
	case token.LSS:
		t, n = cmp.X, cmp.Y
	case token.GTR:
		t, n = cmp.Y, cmp.X
	default:
		return
	}
	// t is the induction phi itself or phi+1 (range form)
	var phi *ssa.Phi
	off := int64(0)
	if p, isPhi := t.(*ssa.Phi); isPhi {
		phi = p
	} else if b, isBin := t.(*ssa.BinOp); isBin && b.Op == token.ADD {
		if p, isPhi := b.X.(*ssa.Phi); isPhi {
			if k, okk := w4const(b.Y); okk && k == 1 {
				phi, off = p, 1
			}
		}
	}
	if phi == nil || phi.Block() != h {
		return
	}
	var latches []*ssa.BasicBlock
	c0 := int64(0)
	haveC0 := false
	for i, pred := range h.Preds {
		e := phi.Edges[i]
		if h.Dominates(pred) { // back edge
			inc, isBin := e.(*ssa.BinOp)
			if !isBin || inc.Op != token.ADD || inc.X != ssa.Value(phi) {
				return
			}
			if k, okk := w4const(inc.Y); !okk || k != 1 {
				return
			}
			latches = append(latches, pred)
			continue
		}
		k, okk := w4const(e)
		if !okk || (haveC0 && k != c0) {
			return
		}
		c0, haveC0 = k, true
	}
	if !haveC0 || len(latches) == 0 {
		return
	}
	// the bound: a constant, or len(w) of a window with known length
	var bound int64
	if k, okk := w4const(n); okk {
		bound = k
	} else if call, isCall := n.(*ssa.Call); isCall {
		bi, isB := call.Call.Value.(*ssa.Builtin)
		if !isB || bi.Name() != "len" || len(call.Call.Args) != 1 {
			return
		}
		w, okw := a.winOf(call.Call.Args[0], env, 0)
		if !okw || !w.loKnown || !w.hiKnown {
			return
		}
		bound = w.hi - w.lo
	} else {
		return
	}
	body := iff.Block().Succs[0]
	// a store w'[t] inside the loop that dominates every latch
	for _, b := range h.Parent().Blocks {
		if !h.Dominates(b) || !body.Dominates(b) {
			continue
		}
		for _, in := range b.Instrs {
			st, isSt := in.(*ssa.Store)
			if !isSt {
				continue
			}
			ia, isIA := st.Addr.(*ssa.IndexAddr)
			if !isIA || ia.Index != t {
				continue
			}
			w, okw := a.winOf(ia.X, env, 0)
			if !okw || !w.loKnown {
				continue
			}
			all := true
			for _, l := range latches {
				if !b.Dominates(l) {
					all = false
				}
			}
			if !all {
				continue
			}
			return w.base, w.field, w.lo + c0 + off, w.lo + bound, t, true
		}
	}
	return
}

// ---- the dataflow -----------------------------------------------------------

func (a *w4an) localCallee(in ssa.Instruction, caller *ssa.Function) *ssa.Function {
	call, ok := in.(*ssa.Call)
	if !ok {
		return nil
	}
	f := call.Call.StaticCallee()
	if f == nil || len(f.Blocks) == 0 || f.Pkg == nil || caller.Pkg == nil || f.Pkg != caller.Pkg {
		return nil
	}
	return f
}

var w4PutLen = map[string]int64{"PutUint16": 2, "PutUint32": 4, "PutUint64": 8}

// touches: fn (or a same-package callee of it) addresses a struct-held byte buffer
func (a *w4an) touches(fn *ssa.Function, seen map[*ssa.Function]bool) bool {
	if v, ok := a.touch[fn]; ok {
		return v
	}
	if seen[fn] {
		return false
	}
	seen[fn] = true
	res := false
	for _, b := range fn.Blocks {
		for _, ins := range b.Instrs {
			if fa, ok := ins.(*ssa.FieldAddr); ok {
				if st, _ := deref(fa.X.Type()).Underlying().(*types.Struct); st != nil {
					fv := st.Field(fa.Field)
					if isBuf, _ := isByteElem(fv.Type()); isBuf && fv.Pkg() != nil && a.c.P.inModule(fv.Pkg().Path()) {
						res = true
					}
				}
			}
			if cal := a.localCallee(ins, fn); cal != nil && a.touches(cal, seen) {
				res = true
			}
		}
	}
	a.touch[fn] = res
	return res
}

// run analyses one activation of fn (parameters bound by env, entered in
// state init) and returns the state at its returns.  Hand-offs are recorded
// only while a.rec is set (the final pass of the outermost fixpoint).
func (a *w4an) run(fn *ssa.Function, env w4env, init w4state, depth int) w4state {
	a.budget--
	if a.budget < 0 || len(fn.Blocks) == 0 {
		return init
	}
	type loopInfo struct {
		base   string
		lo, hi int64
	}
	loops := map[*ssa.BasicBlock]loopInfo{}
	loopIdx := map[ssa.Value]bool{}
	for _, b := range fn.Blocks {
		if base, _, lo, hi, idx, ok := a.loopCover(b, env); ok {
			loops[b] = loopInfo{base, lo, hi}
			loopIdx[idx] = true
		}
	}
	exit := w4state{top: true}
	record := func(at ssa.Instruction, st w4state, w w4win, callee string) {
		if !a.rec || !w.loKnown || !w.hiKnown || w.hi <= w.lo {
			return
		}
		a.sinks = append(a.sinks, w4sink{at: at, in: fn, win: w, callee: callee, miss: st.m[w.base].missing(w.lo, w.hi)})
	}
	transfer := func(b *ssa.BasicBlock, st w4state) w4state {
		for _, ins := range b.Instrs {
			switch x := ins.(type) {
			case *ssa.Store:
				ia, ok := x.Addr.(*ssa.IndexAddr)
				if !ok {
					continue
				}
				w, ok := a.winOf(ia.X, env, 0)
				if !ok {
					continue
				}
				a.wrote[w.base] = w.field
				if k, okk := w4const(ia.Index); okk && w.loKnown {
					st = st.with(w.base, w.lo+k, w.lo+k+1)
				} else if !loopIdx[ia.Index] {
					a.vague[w.base] = true
				}
			case *ssa.Return:
				exit = exit.meet(st)
			case ssa.CallInstruction:
				cc := x.Common()
				if bi, isB := cc.Value.(*ssa.Builtin); isB {
					switch bi.Name() {
					case "len", "cap":
					case "clear":
						if w, ok := a.winOf(cc.Args[0], env, 0); ok {
							a.wrote[w.base] = w.field
							if w.loKnown && w.hiKnown {
								st = st.with(w.base, w.lo, w.hi)
							} else {
								a.vague[w.base] = true
							}
						}
					case "copy":
						if w, ok := a.winOf(cc.Args[1], env, 0); ok {
							record(ins, st, w, "copy (as the source)")
						}
						if w, ok := a.winOf(cc.Args[0], env, 0); ok {
							a.wrote[w.base] = w.field
							n, known := a.lenOf(cc.Args[1], env)
							if w.loKnown && known {
								if w.hiKnown && w.hi-w.lo < n {
									n = w.hi - w.lo
								}
								st = st.with(w.base, w.lo, w.lo+n)
							} else {
								a.vague[w.base] = true
							}
						}
					default:
						for _, arg := range cc.Args {
							if w, ok := a.winOf(arg, env, 0); ok {
								record(ins, st, w, "builtin "+bi.Name())
							}
						}
					}
					continue
				}
				// byte-order writers of encoding/binary
				name, pkg := "", ""
				args := cc.Args
				if cc.IsInvoke() {
					name = cc.Method.Name()
					if cc.Method.Pkg() != nil {
						pkg = cc.Method.Pkg().Path()
					}
				} else if sc := cc.StaticCallee(); sc != nil {
					if o := sc.Object(); o != nil && o.Pkg() != nil {
						name, pkg = o.Name(), o.Pkg().Path()
					}
					if sc.Signature.Recv() != nil && len(args) > 0 {
						args = args[1:]
					}
				}
				if n, isPut := w4PutLen[name]; isPut && pkg == "encoding/binary" && len(args) > 0 {
					if w, ok := a.winOf(args[0], env, 0); ok {
						a.wrote[w.base] = w.field
						if w.loKnown {
							st = st.with(w.base, w.lo, w.lo+n)
						} else {
							a.vague[w.base] = true
						}
						continue
					}
				}
				if callee := a.localCallee(ins, fn); callee != nil && depth < 3 {
					// see through: bind the parameters, continue in the caller's state
					env2 := w4env{}
					anyWin := false
					for i, p := range callee.Params {
						if i >= len(cc.Args) {
							break
						}
						bd := w4bind{desc: a.key(cc.Args[i], env, 0)}
						if w, ok := a.winOf(cc.Args[i], env, 0); ok {
							ww := w
							bd.win = &ww
							anyWin = true
						}
						env2[p] = bd
					}
					if anyWin || a.touches(callee, map[*ssa.Function]bool{}) {
						st = a.run(callee, env2, st, depth+1)
					}
					continue
				}
				who := "a function value"
				if cc.IsInvoke() {
					who = "interface method " + cc.Method.Name()
				} else if f := cc.StaticCallee(); f != nil {
					who = fnKey(f)
				}
				if _, isGo := ins.(*ssa.Go); isGo {
					who = "go " + who
				}
				for _, arg := range cc.Args {
					if w, ok := a.winOf(arg, env, 0); ok {
						record(ins, st, w, who)
					}
				}
			}
		}
		return st
	}
	in := make([]w4state, len(fn.Blocks))
	out := make([]w4state, len(fn.Blocks))
	for i := range in {
		in[i], out[i] = w4state{top: true}, w4state{top: true}
	}
	edgeState := func(from *ssa.BasicBlock, succIdx int) w4state {
		st := out[from.Index]
		if li, ok := loops[from]; ok && succIdx == 1 && !st.top {
			st = st.with(li.base, li.lo, li.hi)
		}
		return st
	}
	order := fn.DomPreorder()
	rec := a.rec
	a.rec = false
	for iter := 0; iter < 40; iter++ {
		changed := false
		for _, b := range order {
			st := w4state{top: true}
			if b.Index == 0 {
				st = init
			}
			for _, p := range b.Preds {
				for si, s := range p.Succs {
					if s == b {
						st = st.meet(edgeState(p, si))
					}
				}
			}
			in[b.Index] = st
			o := st
			if !st.top {
				o = transfer(b, st)
			}
			if o.String() != out[b.Index].String() {
				out[b.Index] = o
				changed = true
			}
		}
		if !changed {
			break
		}
	}
	// final pass on the stabilised entry states: exits, and (outermost final
	// pass only) the hand-offs
	a.rec = rec
	exit = w4state{top: true}
	for _, b := range order {
		if !in[b.Index].top {
			transfer(b, in[b.Index])
		}
	}
	if exit.top {
		return init
	}
	return exit
}

func (a *w4an) lenOf(v ssa.Value, env w4env) (int64, bool) {
	if w, ok := a.winOf(v, env, 0); ok {
		if w.loKnown && w.hiKnown {
			return w.hi - w.lo, true
		}
		return 0, false
	}
	switch x := v.(type) {
	case *ssa.Const:
		if x.Value != nil && x.Value.Kind() == constant.String {
			return int64(len(constant.StringVal(x.Value))), true
		}
	case *ssa.Slice:
		// a constant-bounds slice of anything: the length is hi-lo
		lo := int64(0)
		okLo := true
		if x.Low != nil {
			lo, okLo = w4const(x.Low)
		}
		if x.High != nil && okLo {
			if hi, ok := w4const(x.High); ok {
				return hi - lo, true
			}
		}
		if x.High == nil && okLo {
			if ok, n := isByteElem(x.X.Type()); ok && n >= 0 {
				return n - lo, true
			}
		}
	case *ssa.ChangeType:
		return a.lenOf(x.X, env)
	}
	return 0, false
}

// ---- the rule ---------------------------------------------------------------

func c10R11(c *Ctx) {
	const R = "C10-R11"
	c.Doc(R, "a fixed-size message assembled in place is whole: a function that stores into a []byte/[N]byte field of a module struct (a job slab's TX region keeps the previous reply) and hands a constant-bounds window of that buffer to a consumer has stored every byte of the window on every path to the hand-off (constant-index stores, counted loops, copy/clear/PutUintNN, same-package helpers seen through)")
	n := 0
	touch := map[*ssa.Function]bool{}
	for _, fn := range c.P.RepoFuncs() {
		if len(fn.Blocks) == 0 || fn.Pkg == nil {
			continue
		}
		if !(&w4an{c: c, touch: touch}).touches(fn, map[*ssa.Function]bool{}) {
			continue
		}
		a := &w4an{c: c, wrote: map[string]*types.Var{}, vague: map[string]bool{}, budget: 3000, rec: true, touch: touch}
		a.run(fn, w4env{}, w4state{m: map[string]w4set{}}, 0)
		if len(a.sinks) == 0 {
			continue
		}
		// one obligation per buffer the activation both writes and hands on
		type agg struct {
			fv    *types.Var
			first ssa.Instruction
			bad   []string
			okN   int
			lo    int64
			hi    int64
		}
		per := map[string]*agg{}
		var bases []string
		for _, s := range a.sinks {
			// each function answers for the windows it cuts itself (a caller's
			// activation sees the same hand-off again; it is decided once, here)
			if s.win.cutIn != fn {
				continue
			}
			if _, w := a.wrote[s.win.base]; !w {
				continue
			}
			g := per[s.win.base]
			if g == nil {
				g = &agg{fv: s.win.field, first: s.at, lo: s.win.lo, hi: s.win.hi}
				per[s.win.base] = g
				bases = append(bases, s.win.base)
			}
			if len(s.miss) == 0 {
				g.okN++
				continue
			}
			where := ""
			if s.in != fn {
				where = " (inside " + fnKey(s.in) + ")"
			}
			g.bad = append(g.bad, fmt.Sprintf("window [%d:%d] reaches %s%s at %s with byte(s) %s never stored", s.win.lo, s.win.hi, s.callee, where, c.lineOf(s.at), s.miss))
			if len(g.bad) == 1 {
				g.first = s.at
			}
		}
		sort.Strings(bases)
		for _, b := range bases {
			g := per[b]
			owner := "?"
			if g.fv != nil {
				owner = g.fv.Name()
			}
			if st := w4ownerOf(c, g.fv); st != "" {
				owner = st + "." + owner
			}
			key := R + "|" + fnKey(fn) + "|window of " + owner + " assembled in place is stored whole before it is handed on"
			n++
			switch {
			case len(g.bad) > 0 && a.vague[b]:
				c.undecided(R, key, instrPos(g.first), "the function also stores into "+owner+" at an offset the analysis cannot bound, and without it: "+trunc(strings.Join(g.bad, "; "), 900))
			case len(g.bad) > 0:
				c.violation(R, key, instrPos(g.first), trunc(strings.Join(g.bad, "; "), 900)+" — "+owner+" is storage that outlives the request (a slab is not scrubbed on release and ordinary replies are packed into the same region), so the bytes not stored here are the previous occupant's: a rejection / fixed header built on a reused slab carries section counts or payload bytes of the last reply staged in it, possibly another client's")
			default:
				c.ok(R, key, instrPos(g.first), fmt.Sprintf("%d hand-off(s) of the window; every byte stored on every path", g.okN))
			}
		}
	}
	if n == 0 {
		c.unresolved(R, "in-place assembly", "no function stores into a struct-held byte buffer and hands a constant window of it on (the TCP in-place rejection must be one): the rule would pass vacuously")
	}
}

// w4ownerOf names the struct that declares the field (for the key).
func w4ownerOf(c *Ctx, fv *types.Var) string {
	if fv == nil || fv.Pkg() == nil {
		return ""
	}
	sc := fv.Pkg().Scope()
	for _, nm := range sc.Names() {
		tn, ok := sc.Lookup(nm).(*types.TypeName)
		if !ok {
			continue
		}
		st, ok := tn.Type().Underlying().(*types.Struct)
		if !ok {
			continue
		}
		for i := 0; i < st.NumFields(); i++ {
			if st.Field(i).Origin() == fv {
				return tn.Name()
			}
		}
	}
	return ""
}
