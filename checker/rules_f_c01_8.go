package main

// F-C01-8 / C01-R20 — the wildcard-expansion test counts the owner's labels the
// way the signer does.
//
// RFC 4034 §3.1.3: the RRSIG Labels field does not count the root label and
// does not count a leading "*" label.  "This RRset was synthesised from a
// wildcard" is therefore  Labels < labelcount(owner) − [owner starts with "*"].
// A test that compares Labels with the plain label count reads the RRset
// stored AT a wildcard owner ("*.zone. A", asked for literally — an ordinary
// existing name, RFC 4592 §2.1.1) as an expansion, demands a next-closer
// denial that cannot exist, and turns a correctly signed answer into SERVFAIL.
//
// Necessary condition, decided on SSA (nothing is executed, no source text):
//   every comparison in module code of the field dns.RRSIG.Labels with a
//   label count of a name — dns.CountLabel(..), len() of a label list
//   ([][]byte / []string), directly, through locals/phis or through the result
//   of a module helper — that asks "fewer labels signed than the owner has"
//   (Labels < n, Labels >= n, ==, != and their mirrored forms) uses a count
//   that has a decremented alternative (n-1) selected by a test that mentions
//   the "*" label (a constant '*' / "*" / "*." compared or handed to
//   strings.HasPrefix, directly or inside a predicate helper).
//   Upper-bound sanity tests (Labels > n, n < Labels: "more labels signed than
//   the owner has") are not expansion tests and are left alone.
//   A comparison with the plain count is accepted when the same function also
//   compares the same Labels value with a discounted count (the spelling
//   `Labels >= n || wild && Labels == n-1`).
//   One table row: the RFC 4035 §5.3.2 owner reconstruction, which is the
//   identity for a literal wildcard owner.
//
// Not decided: that the decrement is exactly one and that the "*" test looks
// at the LEFTMOST label only (value level).

import (
	"fmt"
	"go/constant"
	"go/token"
	"go/types"
	"sort"
	"strings"

	"golang.org/x/tools/go/ssa"
)

const c01R20 = "C01-R20"

func init() {
	wrap := func(id string, extra func(c *Ctx), explain string) {
		pd := props[id]
		if pd == nil {
			return
		}
		orig := pd.Run
		pd.Run = func(c *Ctx) { orig(c); extra(c) }
		pd.Explanation += " " + explain
	}
	wrap("C01", c01R20Run, "R20 (added): every test that classifies an RRset as wildcard-expanded by comparing RRSIG.Labels with the owner's label count discounts the owner's own leading \"*\" label (RFC 4034 §3.1.3), so the RRset stored at a wildcard owner and asked for literally is not held to a next-closer denial that cannot exist.")
}

// c01R20Exempt: expansion-shaped comparisons that need no discount.
var c01R20Exempt = map[string]string{
	"middleware/resolver/dnssec.canonicalRRset": "RFC 4035 §5.3.2 owner reconstruction: for a literal wildcard owner \"*.\"+last Labels labels is the owner itself, so the plain count changes nothing",
}

type c01R20Leaf struct {
	kind string // raw | dec | other
	via  []*ssa.BasicBlock
}

func c01R20IsLabelList(t types.Type) bool {
	sl, ok := t.Underlying().(*types.Slice)
	if !ok {
		return false
	}
	switch e := sl.Elem().Underlying().(type) {
	case *types.Basic:
		return e.Kind() == types.String
	case *types.Slice:
		b, ok := e.Elem().Underlying().(*types.Basic)
		return ok && (b.Kind() == types.Byte || b.Kind() == types.Uint8)
	}
	return false
}

func c01R20IsDNSFunc(f *ssa.Function, name string) bool {
	if f == nil || f.Pkg == nil || f.Pkg.Pkg == nil {
		return false
	}
	return f.Pkg.Pkg.Path() == "github.com/miekg/dns" && f.Name() == name && f.Signature.Recv() == nil
}

func c01R20ConstInt(v ssa.Value, n int64) bool {
	c, ok := v.(*ssa.Const)
	if !ok || c.Value == nil || c.Value.Kind() != constant.Int {
		return false
	}
	x, ok := constant.Int64Val(c.Value)
	return ok && x == n
}

// c01R20CountLeaves walks a would-be label count back to its producers.
func c01R20CountLeaves(v ssa.Value, depth int, seen map[ssa.Value]bool, via []*ssa.BasicBlock) []c01R20Leaf {
	other := []c01R20Leaf{{kind: "other", via: via}}
	if v == nil || depth > 12 || seen[v] {
		return nil
	}
	seen[v] = true
	defer delete(seen, v)
	switch x := v.(type) {
	case *ssa.Convert:
		return c01R20CountLeaves(x.X, depth+1, seen, via)
	case *ssa.ChangeType:
		return c01R20CountLeaves(x.X, depth+1, seen, via)
	case *ssa.Phi:
		var out []c01R20Leaf
		nv := append(append([]*ssa.BasicBlock{}, via...), x.Block())
		for _, e := range x.Edges {
			out = append(out, c01R20CountLeaves(e, depth+1, seen, nv)...)
		}
		return out
	case *ssa.BinOp:
		if (x.Op == token.SUB && c01R20ConstInt(x.Y, 1)) || (x.Op == token.ADD && c01R20ConstInt(x.Y, -1)) {
			sub := c01R20CountLeaves(x.X, depth+1, seen, via)
			if len(sub) > 0 {
				allRaw := true
				for _, l := range sub {
					if l.kind != "raw" {
						allRaw = false
					}
				}
				if allRaw {
					return []c01R20Leaf{{kind: "dec", via: append(append([]*ssa.BasicBlock{}, via...), x.Block())}}
				}
			}
		}
		return other
	case *ssa.UnOp:
		if x.Op == token.MUL {
			if a, ok := x.X.(*ssa.Alloc); ok {
				var out []c01R20Leaf
				nv := append(append([]*ssa.BasicBlock{}, via...), x.Block())
				for _, s := range cellStores(a) {
					out = append(out, c01R20CountLeaves(s, depth+1, seen, nv)...)
				}
				if len(out) > 0 {
					return out
				}
			}
		}
		return other
	case *ssa.Extract:
		if call, ok := x.Tuple.(*ssa.Call); ok {
			return c01R20CallLeaves(call, x.Index, depth, seen, via)
		}
		return other
	case *ssa.Call:
		return c01R20CallLeaves(x, 0, depth, seen, via)
	}
	return other
}

func c01R20CallLeaves(call *ssa.Call, idx int, depth int, seen map[ssa.Value]bool, via []*ssa.BasicBlock) []c01R20Leaf {
	other := []c01R20Leaf{{kind: "other", via: via}}
	if b, ok := call.Call.Value.(*ssa.Builtin); ok {
		if b.Name() == "len" && len(call.Call.Args) == 1 && c01R20IsLabelList(call.Call.Args[0].Type()) {
			return []c01R20Leaf{{kind: "raw", via: via}}
		}
		return other
	}
	sf := call.Call.StaticCallee()
	if sf == nil {
		return other
	}
	if c01R20IsDNSFunc(sf, "CountLabel") {
		return []c01R20Leaf{{kind: "raw", via: via}}
	}
	// a module helper that hands a count back: follow what it returns
	if len(sf.Blocks) == 0 || sf.Pkg == nil || sf.Pkg.Pkg == nil || !strings.HasPrefix(sf.Pkg.Pkg.Path(), modPath) || depth > 8 {
		return other
	}
	var out []c01R20Leaf
	for _, b := range sf.Blocks {
		for _, in := range b.Instrs {
			if r, ok := in.(*ssa.Return); ok && idx < len(r.Results) {
				out = append(out, c01R20CountLeaves(r.Results[idx], depth+4, seen, nil)...)
			}
		}
	}
	if len(out) == 0 {
		return other
	}
	return out
}

// c01R20IsLabelsField: v is (a conversion of) a read of dns.RRSIG.Labels.
func c01R20IsLabelsField(v ssa.Value) bool {
	for i := 0; i < 6; i++ {
		switch x := v.(type) {
		case *ssa.Convert:
			v = x.X
			continue
		case *ssa.ChangeType:
			v = x.X
			continue
		case *ssa.UnOp:
			if x.Op != token.MUL {
				return false
			}
			fa, ok := x.X.(*ssa.FieldAddr)
			if !ok {
				return false
			}
			return c01R20IsRRSIGLabels(deref(fa.X.Type()), fa.Field)
		case *ssa.Field:
			return c01R20IsRRSIGLabels(x.X.Type(), x.Field)
		}
		return false
	}
	return false
}

func c01R20IsRRSIGLabels(t types.Type, field int) bool {
	n, ok := t.(*types.Named)
	if !ok || n.Obj() == nil || n.Obj().Pkg() == nil {
		return false
	}
	if n.Obj().Pkg().Path() != "github.com/miekg/dns" || n.Obj().Name() != "RRSIG" {
		return false
	}
	st, ok := n.Underlying().(*types.Struct)
	return ok && field < st.NumFields() && st.Field(field).Name() == "Labels"
}

// c01R20MentionsStar: the value's expression tree (through phis, call
// arguments and the bodies of module predicate helpers) holds a constant '*'
// octet or a string constant that starts with "*".
func c01R20MentionsStar(v ssa.Value, depth int, seen map[ssa.Value]bool, seenFn map[*ssa.Function]bool) bool {
	if v == nil || depth > 10 || seen[v] {
		return false
	}
	seen[v] = true
	switch x := v.(type) {
	case *ssa.Const:
		if x.Value == nil {
			return false
		}
		switch x.Value.Kind() {
		case constant.Int:
			n, ok := constant.Int64Val(x.Value)
			if !ok || n != '*' {
				return false
			}
			b, ok := x.Type().Underlying().(*types.Basic)
			return ok && (b.Kind() == types.Byte || b.Kind() == types.Uint8 || b.Kind() == types.Rune || b.Kind() == types.Int32 || b.Kind() == types.UntypedRune)
		case constant.String:
			return strings.HasPrefix(constant.StringVal(x.Value), "*")
		}
		return false
	case *ssa.Call:
		for _, a := range x.Call.Args {
			if c01R20MentionsStar(a, depth+1, seen, seenFn) {
				return true
			}
		}
		if sf := x.Call.StaticCallee(); sf != nil && len(sf.Blocks) > 0 && sf.Pkg != nil && sf.Pkg.Pkg != nil &&
			strings.HasPrefix(sf.Pkg.Pkg.Path(), modPath) && !seenFn[sf] && len(seenFn) < 4 {
			seenFn[sf] = true
			for _, b := range sf.Blocks {
				for _, in := range b.Instrs {
					switch y := in.(type) {
					case *ssa.BinOp:
						if y.Op == token.EQL || y.Op == token.NEQ {
							if c01R20MentionsStar(y, depth+1, seen, seenFn) {
								return true
							}
						}
					case *ssa.Call:
						if c01R20MentionsStar(y, depth+1, seen, seenFn) {
							return true
						}
					}
				}
			}
		}
		return false
	}
	if in, ok := v.(ssa.Instruction); ok {
		for _, op := range in.Operands(nil) {
			if op != nil && *op != nil && c01R20MentionsStar(*op, depth+1, seen, seenFn) {
				return true
			}
		}
	}
	return false
}

// c01R20StarSelected: some branch of fn whose condition mentions the "*" label
// sits at or above one of the blocks in which the count was formed, or inside
// the region that selects among the values merged there.
func c01R20StarSelected(via []*ssa.BasicBlock) bool {
	for _, vb := range via {
		if vb == nil || vb.Parent() == nil {
			continue
		}
		for _, b := range vb.Parent().Blocks {
			if len(b.Instrs) == 0 {
				continue
			}
			iff, ok := b.Instrs[len(b.Instrs)-1].(*ssa.If)
			if !ok || !(b.Dominates(vb) || c01R20InSelectionRegion(b, vb)) {
				continue
			}
			if c01R20MentionsStar(iff.Cond, 0, map[ssa.Value]bool{}, map[*ssa.Function]bool{}) {
				return true
			}
		}
	}
	return false
}

// c01R20InSelectionRegion: branch block b lies between the immediate dominator
// of the merge block p and p itself (b is below idom(p) and reaches p without
// passing idom(p) again) — the region in which the choice among p's incoming
// values is made (`n := cnt-1; switch { case !wild: n = cnt }`).
func c01R20InSelectionRegion(b, p *ssa.BasicBlock) bool {
	id := p.Idom()
	if id == nil || b == p || !id.Dominates(b) {
		return false
	}
	seen := map[*ssa.BasicBlock]bool{id: true}
	var walk func(x *ssa.BasicBlock) bool
	walk = func(x *ssa.BasicBlock) bool {
		if x == p {
			return true
		}
		if seen[x] {
			return false
		}
		seen[x] = true
		for _, s := range x.Succs {
			if walk(s) {
				return true
			}
		}
		return false
	}
	if b == id {
		seen = map[*ssa.BasicBlock]bool{}
	}
	return walk(b)
}

type c01R20Site struct {
	fn       *ssa.Function
	cmp      *ssa.BinOp
	labels   string
	adjusted bool
	why      string
}

func c01R20Run(c *Ctx) {
	rule := c01R20
	c.Doc(rule, "every wildcard-expansion test (RRSIG.Labels compared with the owner's label count) discounts the owner's own leading \"*\" label, RFC 4034 §3.1.3")

	byTop := map[string][]*c01R20Site{}
	tops := map[string]*ssa.Function{}
	for _, fn := range c.P.RepoFuncs() {
		for _, b := range fn.Blocks {
			for _, in := range b.Instrs {
				cmp, ok := in.(*ssa.BinOp)
				if !ok {
					continue
				}
				op := cmp.Op
				var lab, cnt ssa.Value
				switch {
				case c01R20IsLabelsField(cmp.X):
					lab, cnt = cmp.X, cmp.Y
				case c01R20IsLabelsField(cmp.Y):
					lab, cnt = cmp.Y, cmp.X
					switch op { // mirror so that Labels is on the left
					case token.LSS:
						op = token.GTR
					case token.GTR:
						op = token.LSS
					case token.LEQ:
						op = token.GEQ
					case token.GEQ:
						op = token.LEQ
					}
				default:
					continue
				}
				switch op {
				case token.LSS, token.GEQ, token.EQL, token.NEQ:
				default:
					continue // upper-bound sanity (Labels > n / Labels <= n) or arithmetic
				}
				leaves := c01R20CountLeaves(cnt, 0, map[ssa.Value]bool{}, []*ssa.BasicBlock{cmp.Block()})
				isCount := false
				for _, l := range leaves {
					if l.kind == "raw" || l.kind == "dec" {
						isCount = true
					}
				}
				if !isCount {
					continue
				}
				s := &c01R20Site{fn: fn, cmp: cmp, labels: Desc(lab).String()}
				for _, l := range leaves {
					if l.kind == "dec" && c01R20StarSelected(l.via) {
						s.adjusted = true
						s.why = "the count has a decremented alternative selected by a test of the \"*\" label"
					}
				}
				top := TopLevel(fn)
				k := fnKey(top)
				byTop[k] = append(byTop[k], s)
				tops[k] = top
			}
		}
	}

	keys := make([]string, 0, len(byTop))
	for k := range byTop {
		keys = append(keys, k)
	}
	sort.Strings(keys)
	used := map[string]bool{}
	for _, k := range keys {
		sites := byTop[k]
		for i, s := range sites {
			key := fmt.Sprintf("%s|%s|RRSIG.Labels vs owner label count discounts a leading * label", rule, k)
			if len(sites) > 1 {
				key += fmt.Sprintf("#%d", i+1)
			}
			if why, ok := c01R20Exempt[k]; ok {
				used[k] = true
				c.ok(rule, key, s.cmp.Pos(), "exempt: "+why)
				continue
			}
			if s.adjusted {
				c.ok(rule, key, s.cmp.Pos(), s.why)
				continue
			}
			covered := false
			for _, o := range sites {
				if o != s && o.adjusted && o.labels == s.labels {
					covered = true
				}
			}
			if covered {
				c.ok(rule, key, s.cmp.Pos(), "plain count, but the same function also compares the same Labels value with the discounted count")
				continue
			}
			c.violation(rule, key, s.cmp.Pos(), "RRSIG.Labels is compared with the owner's plain label count to decide \"wildcard-expanded\": the signer does not count a leading \"*\" label (RFC 4034 §3.1.3), so the RRset stored at a wildcard owner and asked for literally is read as an expansion and held to a next-closer denial that cannot exist (SERVFAIL for a correctly signed answer)")
		}
	}
	for k := range c01R20Exempt {
		if !used[k] {
			c.unresolved(rule, k, "exemption row matches no RRSIG.Labels comparison any more (tables must stay exact)")
		}
	}
	c.Floor(rule, 2)
}
