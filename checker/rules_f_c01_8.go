package main

// F-C01-8 / C01-R20 — the wildcard-expansion test counts the owner's labels the
// way the signer does.
//
// RFC 4034 §3.1.3: the RRSIG Labels field does not count the root label and
// does not count a leading "*" label.  "This RRset was synthesised from a
// wildcard" is therefore  Labels < labelcount(owner) − [owner starts with "*"].
// A test that compares Labels with the plain label count reads the RRset
// stored AT a wildcard owner ("*.zone. A", asked for literally — an ordinary
// existing name, RFC 4592 §2.1.1) as an expansion, demands a next-closer
// denial that cannot exist, and turns a correctly signed answer into SERVFAIL.
//
// Necessary condition, decided on SSA (nothing is executed, no source text):
//   every comparison in module code of the field dns.RRSIG.Labels with a
//   label count of a name — dns.CountLabel(..), len() of a label list
//   ([][]byte / []string), directly, through locals/phis or through the result
//   of a module helper — that asks "fewer labels signed than the owner has"
//   (Labels < n, Labels >= n, ==, != and their mirrored forms) uses a count
//   that has a decremented alternative (n-1) selected by a test that mentions
//   the "*" label (a constant '*' / "*" / "*." compared or handed to
//   strings.HasPrefix, directly or inside a predicate helper).
//   Upper-bound sanity tests (Labels > n, n < Labels: "more labels signed than
//   the owner has") are not expansion tests and are left alone.
//   A comparison with the plain count is accepted when the same function also
//   compares the same Labels value with a discounted count (the spelling
//   `Labels >= n || wild && Labels == n-1`).
//   One table row: the RFC 4035 §5.3.2 owner reconstruction, which is the
//   identity for a literal wildcard owner.
//
// Strengthened (red wave 5, C01-w5g1c1): the test that SELECTS the discount
// compares the WHOLE leading label with the one-octet label "*" (RFC 4592
// §2.1.1: only the label that is exactly "*" is a wildcard label; "*foo" is an
// ordinary label).  Accepted spellings: equality with a constant string
// ("*" for a label, e.g. string(l) == "*"), bytes.Equal / strings.EqualFold /
// Compare with a constant "*", a prefix test whose constant begins with "*."
// (presentation-format name: the first label ends right after the "*"), or the
// first-octet test x[0] == '*' TOGETHER WITH a length test of the same x
// (len(x) == 1, != 1, < 2, >= 2, > 1, <= 1) — or x[1] == '.' for a name
// string — on the same dominator chain, in the same function or, when x is a
// helper's parameter, at the helper's call site.  A first-octet-only test or a
// prefix/contains test against a bare "*" discounts the leading label of
// "*foo.zone." as well: a wildcard RRset + RRSIG replayed over such a name is
// then no longer recognised as an expansion and is accepted without the
// RFC 4035 §5.3.4 next-closer denial.
//
// Not decided: that the decrement is exactly one, that the "*" test looks at
// the LEFTMOST label only, and the polarity of the companion length test
// (value level).

import (
	"fmt"
	"go/constant"
	"go/token"
	"go/types"
	"sort"
	"strings"

	"golang.org/x/tools/go/ssa"
)

const c01R20 = "C01-R20"

func init() {
	wrap := func(id string, extra func(c *Ctx), explain string) {
		pd := props[id]
		if pd == nil {
			return
		}
		orig := pd.Run
		pd.Run = func(c *Ctx) { orig(c); extra(c) }
		pd.Explanation += " " + explain
	}
	wrap("C01", c01R20Run, "R20 (added): every test that classifies an RRset as wildcard-expanded by comparing RRSIG.Labels with the owner's label count discounts the owner's own leading \"*\" label (RFC 4034 §3.1.3), so the RRset stored at a wildcard owner and asked for literally is not held to a next-closer denial that cannot exist; the test that selects the discount compares the WHOLE leading label with \"*\" (equality, or first octet together with a one-octet length test, or a \"*.\" prefix of the presentation name), never a first-octet / bare \"*\" prefix test (RFC 4592 §2.1.1; strengthened in red wave 5).")
}

// c01R20Exempt: expansion-shaped comparisons that need no discount.
var c01R20Exempt = map[string]string{
	"middleware/resolver/dnssec.canonicalRRset": "RFC 4035 §5.3.2 owner reconstruction: for a literal wildcard owner \"*.\"+last Labels labels is the owner itself, so the plain count changes nothing",
}

type c01R20Leaf struct {
	kind string // raw | dec | other
	via  []*ssa.BasicBlock
}

func c01R20IsLabelList(t types.Type) bool {
	sl, ok := t.Underlying().(*types.Slice)
	if !ok {
		return false
	}
	switch e := sl.Elem().Underlying().(type) {
	case *types.Basic:
		return e.Kind() == types.String
	case *types.Slice:
		b, ok := e.Elem().Underlying().(*types.Basic)
		return ok && (b.Kind() == types.Byte || b.Kind() == types.Uint8)
	}
	return false
}

func c01R20IsDNSFunc(f *ssa.Function, name string) bool {
	if f == nil || f.Pkg == nil || f.Pkg.Pkg == nil {
		return false
	}
	return f.Pkg.Pkg.Path() == "github.com/miekg/dns" && f.Name() == name && f.Signature.Recv() == nil
}

func c01R20ConstInt(v ssa.Value, n int64) bool {
	c, ok := v.(*ssa.Const)
	if !ok || c.Value == nil || c.Value.Kind() != constant.Int {
		return false
	}
	x, ok := constant.Int64Val(c.Value)
	return ok && x == n
}

// c01R20CountLeaves walks a would-be label count back to its producers.
func c01R20CountLeaves(v ssa.Value, depth int, seen map[ssa.Value]bool, via []*ssa.BasicBlock) []c01R20Leaf {
	other := []c01R20Leaf{{kind: "other", via: via}}
	if v == nil || depth > 12 || seen[v] {
		return nil
	}
	seen[v] = true
	defer delete(seen, v)
	switch x := v.(type) {
	case *ssa.Convert:
		return c01R20CountLeaves(x.X, depth+1, seen, via)
	case *ssa.ChangeType:
		return c01R20CountLeaves(x.X, depth+1, seen, via)
	case *ssa.Phi:
		var out []c01R20Leaf
		nv := append(append([]*ssa.BasicBlock{}, via...), x.Block())
		for _, e := range x.Edges {
			out = append(out, c01R20CountLeaves(e, depth+1, seen, nv)...)
		}
		return out
	case *ssa.BinOp:
		if (x.Op == token.SUB && c01R20ConstInt(x.Y, 1)) || (x.Op == token.ADD && c01R20ConstInt(x.Y, -1)) {
			sub := c01R20CountLeaves(x.X, depth+1, seen, via)
			if len(sub) > 0 {
				allRaw := true
				for _, l := range sub {
					if l.kind != "raw" {
						allRaw = false
					}
				}
				if allRaw {
					return []c01R20Leaf{{kind: "dec", via: append(append([]*ssa.BasicBlock{}, via...), x.Block())}}
				}
			}
		}
		return other
	case *ssa.UnOp:
		if x.Op == token.MUL {
			if a, ok := x.X.(*ssa.Alloc); ok {
				var out []c01R20Leaf
				nv := append(append([]*ssa.BasicBlock{}, via...), x.Block())
				for _, s := range cellStores(a) {
					out = append(out, c01R20CountLeaves(s, depth+1, seen, nv)...)
				}
				if len(out) > 0 {
					return out
				}
			}
		}
		return other
	case *ssa.Extract:
		if call, ok := x.Tuple.(*ssa.Call); ok {
			return c01R20CallLeaves(call, x.Index, depth, seen, via)
		}
		return other
	case *ssa.Call:
		return c01R20CallLeaves(x, 0, depth, seen, via)
	}
	return other
}

func c01R20CallLeaves(call *ssa.Call, idx int, depth int, seen map[ssa.Value]bool, via []*ssa.BasicBlock) []c01R20Leaf {
	other := []c01R20Leaf{{kind: "other", via: via}}
	if b, ok := call.Call.Value.(*ssa.Builtin); ok {
		if b.Name() == "len" && len(call.Call.Args) == 1 && c01R20IsLabelList(call.Call.Args[0].Type()) {
			return []c01R20Leaf{{kind: "raw", via: via}}
		}
		return other
	}
	sf := call.Call.StaticCallee()
	if sf == nil {
		return other
	}
	if c01R20IsDNSFunc(sf, "CountLabel") {
		return []c01R20Leaf{{kind: "raw", via: via}}
	}
	// a module helper that hands a count back: follow what it returns
	if len(sf.Blocks) == 0 || sf.Pkg == nil || sf.Pkg.Pkg == nil || !strings.HasPrefix(sf.Pkg.Pkg.Path(), modPath) || depth > 8 {
		return other
	}
	var out []c01R20Leaf
	for _, b := range sf.Blocks {
		for _, in := range b.Instrs {
			if r, ok := in.(*ssa.Return); ok && idx < len(r.Results) {
				out = append(out, c01R20CountLeaves(r.Results[idx], depth+4, seen, nil)...)
			}
		}
	}
	if len(out) == 0 {
		return other
	}
	return out
}

// c01R20IsLabelsField: v is (a conversion of) a read of dns.RRSIG.Labels.
func c01R20IsLabelsField(v ssa.Value) bool {
	for i := 0; i < 6; i++ {
		switch x := v.(type) {
		case *ssa.Convert:
			v = x.X
			continue
		case *ssa.ChangeType:
			v = x.X
			continue
		case *ssa.UnOp:
			if x.Op != token.MUL {
				return false
			}
			fa, ok := x.X.(*ssa.FieldAddr)
			if !ok {
				return false
			}
			return c01R20IsRRSIGLabels(deref(fa.X.Type()), fa.Field)
		case *ssa.Field:
			return c01R20IsRRSIGLabels(x.X.Type(), x.Field)
		}
		return false
	}
	return false
}

func c01R20IsRRSIGLabels(t types.Type, field int) bool {
	n, ok := t.(*types.Named)
	if !ok || n.Obj() == nil || n.Obj().Pkg() == nil {
		return false
	}
	if n.Obj().Pkg().Path() != "github.com/miekg/dns" || n.Obj().Name() != "RRSIG" {
		return false
	}
	st, ok := n.Underlying().(*types.Struct)
	return ok && field < st.NumFields() && st.Field(field).Name() == "Labels"
}

// c01R20MentionsStar: the value's expression tree (through phis, call
// arguments and the bodies of module predicate helpers) holds a constant '*'
// octet or a string constant that starts with "*".
func c01R20MentionsStar(v ssa.Value, depth int, seen map[ssa.Value]bool, seenFn map[*ssa.Function]bool) bool {
	if v == nil || depth > 10 || seen[v] {
		return false
	}
	seen[v] = true
	if _, isConst := v.(*ssa.Const); !isConst {
		if _, _, ok := c01R20StarConst(v); ok { // []byte{'*'}, []byte("*"), string(…)
			return true
		}
	}
	switch x := v.(type) {
	case *ssa.Const:
		if x.Value == nil {
			return false
		}
		switch x.Value.Kind() {
		case constant.Int:
			n, ok := constant.Int64Val(x.Value)
			if !ok || n != '*' {
				return false
			}
			b, ok := x.Type().Underlying().(*types.Basic)
			return ok && (b.Kind() == types.Byte || b.Kind() == types.Uint8 || b.Kind() == types.Rune || b.Kind() == types.Int32 || b.Kind() == types.UntypedRune)
		case constant.String:
			return strings.HasPrefix(constant.StringVal(x.Value), "*")
		}
		return false
	case *ssa.Call:
		for _, a := range x.Call.Args {
			if c01R20MentionsStar(a, depth+1, seen, seenFn) {
				return true
			}
		}
		if sf := x.Call.StaticCallee(); sf != nil && len(sf.Blocks) > 0 && sf.Pkg != nil && sf.Pkg.Pkg != nil &&
			strings.HasPrefix(sf.Pkg.Pkg.Path(), modPath) && !seenFn[sf] && len(seenFn) < 4 {
			seenFn[sf] = true
			for _, b := range sf.Blocks {
				for _, in := range b.Instrs {
					switch y := in.(type) {
					case *ssa.BinOp:
						if y.Op == token.EQL || y.Op == token.NEQ {
							if c01R20MentionsStar(y, depth+1, seen, seenFn) {
								return true
							}
						}
					case *ssa.Call:
						if c01R20MentionsStar(y, depth+1, seen, seenFn) {
							return true
						}
					}
				}
			}
		}
		return false
	}
	if in, ok := v.(ssa.Instruction); ok {
		for _, op := range in.Operands(nil) {
			if op != nil && *op != nil && c01R20MentionsStar(*op, depth+1, seen, seenFn) {
				return true
			}
		}
	}
	return false
}

// c01R20StarSelected: some branch of fn whose condition mentions the "*" label
// sits at or above one of the blocks in which the count was formed, or inside
// the region that selects among the values merged there.
func c01R20StarSelected(via []*ssa.BasicBlock) bool {
	for _, vb := range via {
		if vb == nil || vb.Parent() == nil {
			continue
		}
		for _, b := range vb.Parent().Blocks {
			if len(b.Instrs) == 0 {
				continue
			}
			iff, ok := b.Instrs[len(b.Instrs)-1].(*ssa.If)
			if !ok || !(b.Dominates(vb) || c01R20InSelectionRegion(b, vb)) {
				continue
			}
			if c01R20MentionsStar(iff.Cond, 0, map[ssa.Value]bool{}, map[*ssa.Function]bool{}) {
				return true
			}
		}
	}
	return false
}

// c01R20InSelectionRegion: branch block b lies between the immediate dominator
// of the merge block p and p itself (b is below idom(p) and reaches p without
// passing idom(p) again) — the region in which the choice among p's incoming
// values is made (`n := cnt-1; switch { case !wild: n = cnt }`).
func c01R20InSelectionRegion(b, p *ssa.BasicBlock) bool {
	id := p.Idom()
	if id == nil || b == p || !id.Dominates(b) {
		return false
	}
	seen := map[*ssa.BasicBlock]bool{id: true}
	var walk func(x *ssa.BasicBlock) bool
	walk = func(x *ssa.BasicBlock) bool {
		if x == p {
			return true
		}
		if seen[x] {
			return false
		}
		seen[x] = true
		for _, s := range x.Succs {
			if walk(s) {
				return true
			}
		}
		return false
	}
	if b == id {
		seen = map[*ssa.BasicBlock]bool{}
	}
	return walk(b)
}

type c01R20Site struct {
	fn       *ssa.Function
	cmp      *ssa.BinOp
	labels   string
	adjusted bool
	why      string
	tests    []c01R20Test
}

func c01R20Run(c *Ctx) {
	rule := c01R20
	c.Doc(rule, "every wildcard-expansion test (RRSIG.Labels compared with the owner's label count) discounts the owner's own leading \"*\" label, RFC 4034 §3.1.3, and the discount is selected by a comparison of the whole leading label with \"*\"")

	byTop := map[string][]*c01R20Site{}
	tops := map[string]*ssa.Function{}
	for _, fn := range c.P.RepoFuncs() {
		for _, b := range fn.Blocks {
			for _, in := range b.Instrs {
				cmp, ok := in.(*ssa.BinOp)
				if !ok {
					continue
				}
				op := cmp.Op
				var lab, cnt ssa.Value
				switch {
				case c01R20IsLabelsField(cmp.X):
					lab, cnt = cmp.X, cmp.Y
				case c01R20IsLabelsField(cmp.Y):
					lab, cnt = cmp.Y, cmp.X
					switch op { // mirror so that Labels is on the left
					case token.LSS:
						op = token.GTR
					case token.GTR:
						op = token.LSS
					case token.LEQ:
						op = token.GEQ
					case token.GEQ:
						op = token.LEQ
					}
				default:
					continue
				}
				switch op {
				case token.LSS, token.GEQ, token.EQL, token.NEQ:
				default:
					continue // upper-bound sanity (Labels > n / Labels <= n) or arithmetic
				}
				leaves := c01R20CountLeaves(cnt, 0, map[ssa.Value]bool{}, []*ssa.BasicBlock{cmp.Block()})
				isCount := false
				for _, l := range leaves {
					if l.kind == "raw" || l.kind == "dec" {
						isCount = true
					}
				}
				if !isCount {
					continue
				}
				s := &c01R20Site{fn: fn, cmp: cmp, labels: Desc(lab).String()}
				for _, l := range leaves {
					if l.kind == "dec" && c01R20StarSelected(l.via) {
						s.adjusted = true
						s.why = "the count has a decremented alternative selected by a test of the \"*\" label"
						s.tests = append(s.tests, c01R20SelectingTests(l.via)...)
					}
				}
				top := TopLevel(fn)
				k := fnKey(top)
				byTop[k] = append(byTop[k], s)
				tops[k] = top
			}
		}
	}

	keys := make([]string, 0, len(byTop))
	for k := range byTop {
		keys = append(keys, k)
	}
	sort.Strings(keys)
	used := map[string]bool{}
	for _, k := range keys {
		sites := byTop[k]
		for i, s := range sites {
			key := fmt.Sprintf("%s|%s|RRSIG.Labels vs owner label count discounts a leading * label", rule, k)
			if len(sites) > 1 {
				key += fmt.Sprintf("#%d", i+1)
			}
			if why, ok := c01R20Exempt[k]; ok {
				used[k] = true
				c.ok(rule, key, s.cmp.Pos(), "exempt: "+why)
				continue
			}
			if s.adjusted {
				c.ok(rule, key, s.cmp.Pos(), s.why)
				c01R20JudgeTests(c, k, i, len(sites), s)
				continue
			}
			covered := false
			for _, o := range sites {
				if o != s && o.adjusted && o.labels == s.labels {
					covered = true
				}
			}
			if covered {
				c.ok(rule, key, s.cmp.Pos(), "plain count, but the same function also compares the same Labels value with the discounted count")
				continue
			}
			c.violation(rule, key, s.cmp.Pos(), "RRSIG.Labels is compared with the owner's plain label count to decide \"wildcard-expanded\": the signer does not count a leading \"*\" label (RFC 4034 §3.1.3), so the RRset stored at a wildcard owner and asked for literally is read as an expansion and held to a next-closer denial that cannot exist (SERVFAIL for a correctly signed answer)")
		}
	}
	for k := range c01R20Exempt {
		if !used[k] {
			c.unresolved(rule, k, "exemption row matches no RRSIG.Labels comparison any more (tables must stay exact)")
		}
	}
	c.Floor(rule, 2)
}

// ---- red wave 5 (C01-w5g1c1): WHICH test selects the discount ----

// c01R20Test is one test of the "*" label found in a selecting condition.
type c01R20Test struct {
	kind string // whole | partial | unknown
	what string
}

func c01R20Strip(v ssa.Value) ssa.Value {
	for i := 0; i < 8; i++ {
		switch x := v.(type) {
		case *ssa.Convert:
			v = x.X
		case *ssa.ChangeType:
			v = x.X
		case *ssa.MakeInterface:
			v = x.X
		default:
			return v
		}
	}
	return v
}

// c01R20StarConst: v is a constant that begins with the octet '*': an octet /
// rune constant '*', a string constant "*…", a conversion of one ([]byte("*")),
// or a slice of a local array literal whose stored elements are constants
// ([]byte{'*'}).  octet reports the single-character byte/rune form.
func c01R20StarConst(v ssa.Value) (val string, octet bool, ok bool) {
	v = c01R20Strip(v)
	switch x := v.(type) {
	case *ssa.Const:
		if x.Value == nil {
			return "", false, false
		}
		switch x.Value.Kind() {
		case constant.Int:
			n, isInt := constant.Int64Val(x.Value)
			if !isInt || n != '*' {
				return "", false, false
			}
			b, isB := x.Type().Underlying().(*types.Basic)
			if isB && (b.Kind() == types.Byte || b.Kind() == types.Uint8 || b.Kind() == types.Rune || b.Kind() == types.Int32 || b.Kind() == types.UntypedRune) {
				return "*", true, true
			}
		case constant.String:
			sv := constant.StringVal(x.Value)
			if strings.HasPrefix(sv, "*") {
				return sv, false, true
			}
		}
	case *ssa.Slice:
		a, isA := x.X.(*ssa.Alloc)
		if !isA || x.Low != nil || x.High != nil || a.Referrers() == nil {
			return "", false, false
		}
		arr, isArr := deref(a.Type()).Underlying().(*types.Array)
		if !isArr || arr.Len() < 1 || arr.Len() > 64 {
			return "", false, false
		}
		buf := make([]byte, arr.Len())
		set := 0
		for _, r := range *a.Referrers() {
			ia, isIA := r.(*ssa.IndexAddr)
			if !isIA {
				continue
			}
			ic, isC := ia.Index.(*ssa.Const)
			if !isC || ic.Value == nil || ia.Referrers() == nil {
				return "", false, false
			}
			i, _ := constant.Int64Val(ic.Value)
			for _, rr := range *ia.Referrers() {
				st, isSt := rr.(*ssa.Store)
				if !isSt || st.Addr != ia {
					return "", false, false
				}
				sc, isSC := st.Val.(*ssa.Const)
				if !isSC || sc.Value == nil || sc.Value.Kind() != constant.Int || i < 0 || i >= int64(len(buf)) {
					return "", false, false
				}
				n, _ := constant.Int64Val(sc.Value)
				buf[i] = byte(n)
				set++
			}
		}
		if set == len(buf) && buf[0] == '*' {
			return string(buf), false, true
		}
	}
	return "", false, false
}

// c01R20ElemAt: v reads x[i] (slice, array or string); returns x and i.
func c01R20ElemAt(v ssa.Value) (base, idx ssa.Value, ok bool) {
	v = c01R20Strip(v)
	switch x := v.(type) {
	case *ssa.UnOp:
		if x.Op == token.MUL {
			if ia, isIA := x.X.(*ssa.IndexAddr); isIA {
				return ia.X, ia.Index, true
			}
		}
	case *ssa.Index:
		return x.X, x.Index, true
	case *ssa.Lookup:
		if b, isB := x.X.Type().Underlying().(*types.Basic); isB && b.Info()&types.IsString != 0 {
			return x.X, x.Index, true
		}
	}
	return nil, nil, false
}

func c01R20BlocksChained(a, b *ssa.BasicBlock) bool {
	return a != nil && b != nil && a.Parent() == b.Parent() && (a == b || a.Dominates(b) || b.Dominates(a))
}

// c01R20HasLengthCompanion: fn holds, on the dominator chain of block at, a
// test that fixes the length of x to one octet — len(x) ==/!= 1, </>= 2,
// >/<= 1 (x has at least one octet where x[0] is read) — or, for a name
// string, x[1] ==/!= '.'.  x is matched by description (go/ssa has no CSE).
func c01R20HasLengthCompanion(fn *ssa.Function, at *ssa.BasicBlock, x ssa.Value) bool {
	if fn == nil || x == nil {
		return false
	}
	want := Desc(x).String()
	_, isStr := x.Type().Underlying().(*types.Basic)
	for _, b := range fn.Blocks {
		if !c01R20BlocksChained(b, at) {
			continue
		}
		for _, in := range b.Instrs {
			cmp, ok := in.(*ssa.BinOp)
			if !ok {
				continue
			}
			op := cmp.Op
			l, r := cmp.X, cmp.Y
			if _, lc := c01R20Strip(l).(*ssa.Const); lc {
				l, r = r, l
				switch op {
				case token.LSS:
					op = token.GTR
				case token.GTR:
					op = token.LSS
				case token.LEQ:
					op = token.GEQ
				case token.GEQ:
					op = token.LEQ
				}
			}
			rc, ok := c01R20Strip(r).(*ssa.Const)
			if !ok || rc.Value == nil || rc.Value.Kind() != constant.Int {
				continue
			}
			n, _ := constant.Int64Val(rc.Value)
			if call, isCall := c01R20Strip(l).(*ssa.Call); isCall {
				bi, isB := call.Call.Value.(*ssa.Builtin)
				if !isB || bi.Name() != "len" || len(call.Call.Args) != 1 || Desc(call.Call.Args[0]).String() != want {
					continue
				}
				switch {
				case (op == token.EQL || op == token.NEQ) && n == 1,
					(op == token.LSS || op == token.GEQ) && n == 2,
					(op == token.GTR || op == token.LEQ) && n == 1:
					return true
				}
				continue
			}
			if isStr && (op == token.EQL || op == token.NEQ) && n == '.' {
				if eb, ei, isE := c01R20ElemAt(l); isE && c01R20ConstInt(ei, 1) && Desc(eb).String() == want {
					return true
				}
			}
		}
	}
	return false
}

func c01R20CalleeName(call *ssa.Call) (pkg, name string) {
	if sf := call.Call.StaticCallee(); sf != nil {
		if sf.Pkg != nil && sf.Pkg.Pkg != nil {
			pkg = sf.Pkg.Pkg.Path()
		}
		return pkg, sf.Name()
	}
	return "", ""
}

// c01R20CollectTests gathers the tests of the "*" label in the expression tree
// of v (through phis, call arguments and the bodies of module predicate
// helpers; same walk as c01R20MentionsStar) and classifies each one.
// via is the call through which a helper body was entered (nil at the top).
func c01R20CollectTests(v ssa.Value, depth int, seen map[ssa.Value]bool, seenFn map[*ssa.Function]bool, via *ssa.Call, out *[]c01R20Test) {
	if v == nil || depth > 10 || seen[v] {
		return
	}
	seen[v] = true
	add := func(kind, what string) { *out = append(*out, c01R20Test{kind: kind, what: what}) }
	switch x := v.(type) {
	case *ssa.Const:
		if _, _, ok := c01R20StarConst(x); ok {
			add("unknown", "a \"*\" constant used outside an equality / prefix test")
		}
		return
	case *ssa.BinOp:
		if x.Op == token.EQL || x.Op == token.NEQ {
			other := x.Y
			val, octet, ok := c01R20StarConst(x.X)
			if !ok {
				other = x.X
				val, octet, ok = c01R20StarConst(x.Y)
			}
			if ok {
				if !octet {
					add("whole", fmt.Sprintf("equality with the constant %q", val))
					return
				}
				base, idx, isElem := c01R20ElemAt(other)
				if !isElem || !c01R20ConstInt(idx, 0) {
					add("unknown", "an octet compared with '*' that is not read as x[0]")
					return
				}
				fn := x.Parent()
				if c01R20HasLengthCompanion(fn, x.Block(), base) {
					add("whole", "x[0] == '*' together with a one-octet length test of the same x")
					return
				}
				if p, isP := base.(*ssa.Parameter); isP && via != nil {
					for i, q := range fn.Params {
						if q == p && i < len(via.Call.Args) && c01R20HasLengthCompanion(via.Parent(), via.Block(), via.Call.Args[i]) {
							add("whole", "x[0] == '*' in a helper, the one-octet length test of the same x at its call site")
							return
						}
					}
				}
				add("partial", fmt.Sprintf("first octet only: %s[0] == '*' in %s without a length test of the same value", Desc(base).String(), fnKey(fn)))
				return
			}
		}
	case *ssa.Call:
		star := ""
		hasStar := false
		for _, a := range x.Call.Args {
			if val, _, ok := c01R20StarConst(a); ok {
				star, hasStar = val, true
			}
		}
		if hasStar {
			pkg, name := c01R20CalleeName(x)
			switch {
			case (pkg == "strings" || pkg == "bytes") && (name == "HasPrefix" || name == "CutPrefix" || name == "TrimPrefix"):
				if strings.HasPrefix(star, "*.") {
					add("whole", fmt.Sprintf("%s.%s with the constant %q (the first label ends right after the \"*\")", pkg, name, star))
				} else {
					add("partial", fmt.Sprintf("prefix only: %s.%s with the constant %q in %s", pkg, name, star, fnKey(x.Parent())))
				}
			case (pkg == "strings" || pkg == "bytes") && (name == "Equal" || name == "EqualFold" || name == "Compare"):
				add("whole", fmt.Sprintf("%s.%s with the constant %q", pkg, name, star))
			case pkg == "strings" || pkg == "bytes":
				add("partial", fmt.Sprintf("not a whole-label comparison: %s.%s with the constant %q in %s", pkg, name, star, fnKey(x.Parent())))
			default:
				add("unknown", fmt.Sprintf("the constant %q is handed to %s.%s", star, pkg, name))
			}
			return
		}
		for _, a := range x.Call.Args {
			c01R20CollectTests(a, depth+1, seen, seenFn, via, out)
		}
		if sf := x.Call.StaticCallee(); sf != nil && len(sf.Blocks) > 0 && sf.Pkg != nil && sf.Pkg.Pkg != nil &&
			strings.HasPrefix(sf.Pkg.Pkg.Path(), modPath) && !seenFn[sf] && len(seenFn) < 4 {
			seenFn[sf] = true
			for _, b := range sf.Blocks {
				for _, in := range b.Instrs {
					switch y := in.(type) {
					case *ssa.BinOp:
						if y.Op == token.EQL || y.Op == token.NEQ {
							c01R20CollectTests(y, depth+1, seen, seenFn, x, out)
						}
					case *ssa.Call:
						c01R20CollectTests(y, depth+1, seen, seenFn, x, out)
					}
				}
			}
		}
		return
	}
	if in, ok := v.(ssa.Instruction); ok {
		for _, op := range in.Operands(nil) {
			if op != nil && *op != nil {
				c01R20CollectTests(*op, depth+1, seen, seenFn, via, out)
			}
		}
	}
}

// c01R20SelectingTests: the "*" tests in the branch conditions that select the
// discount (the same branches c01R20StarSelected accepts).
func c01R20SelectingTests(via []*ssa.BasicBlock) []c01R20Test {
	var out []c01R20Test
	done := map[*ssa.BasicBlock]bool{}
	for _, vb := range via {
		if vb == nil || vb.Parent() == nil {
			continue
		}
		for _, b := range vb.Parent().Blocks {
			if len(b.Instrs) == 0 || done[b] {
				continue
			}
			iff, ok := b.Instrs[len(b.Instrs)-1].(*ssa.If)
			if !ok || !(b.Dominates(vb) || c01R20InSelectionRegion(b, vb)) {
				continue
			}
			if c01R20MentionsStar(iff.Cond, 0, map[ssa.Value]bool{}, map[*ssa.Function]bool{}) {
				done[b] = true
				c01R20CollectTests(iff.Cond, 0, map[ssa.Value]bool{}, map[*ssa.Function]bool{}, nil, &out)
			}
		}
	}
	return out
}

func c01R20JudgeTests(c *Ctx, top string, i, n int, s *c01R20Site) {
	rule := c01R20
	key := fmt.Sprintf("%s|%s|the * test selecting the discount compares the whole leading label", rule, top)
	if n > 1 {
		key += fmt.Sprintf("#%d", i+1)
	}
	var whole, partial, unknown []string
	for _, t := range s.tests {
		switch t.kind {
		case "whole":
			whole = append(whole, t.what)
		case "partial":
			partial = append(partial, t.what)
		default:
			unknown = append(unknown, t.what)
		}
	}
	switch {
	case len(whole) > 0:
		c.ok(rule, key, s.cmp.Pos(), "whole-label test: "+whole[0])
	case len(partial) > 0:
		c.violation(rule, key, s.cmp.Pos(), "the leading label is discounted from the owner's label count on a test that does not compare the whole label with \"*\" ("+strings.Join(partial, "; ")+"): only the one-octet label \"*\" is a wildcard label (RFC 4592 §2.1.1, RFC 4034 §3.1.3), so an ordinary name such as *foo.zone. has a label discounted too, a wildcard RRset + RRSIG replayed over it is not recognised as an expansion, and the answer is accepted (AD=1) without the RFC 4035 §5.3.4 next-closer denial")
	default:
		c.undecided(rule, key, s.cmp.Pos(), "cannot classify the test of the \"*\" label that selects the discount ("+strings.Join(unknown, "; ")+")")
	}
}
