package main

// C18-R14 (finding F-C18-4) — one list's failure never ends the directory walk.
//
// The in-memory lists are rebuilt from EVERY file under BlockListDir; the
// persisted API list `local` is one of them and, by name, comes late in the
// lexical order filepath.Walk visits.  filepath.Walk / WalkDir stop at the first
// non-nil value their callback returns (SkipDir on a regular file skips the rest
// of the directory, SkipAll everything).  So whatever the callback of the LOADER
// walk (the walk whose callback reaches parseHostFile) returns decides whether
// the files behind the current one are loaded at all: a per-file condition
// (os.Open failed, the scanner met an over-long line) handed back to Walk leaves
// `local` unread, and the next API mutation persists that emptied memory over it.
//
// Necessary condition: every value the loader walk's callback can return
// originates from the nil constant.  Values produced by an unexported helper
// (`return b.loadOne(path)`) are replaced by what the helper returns.  A
// per-file failure may be logged, counted or kept in a captured variable and
// reported by the enclosing function after the walk - that is not the
// callback's result and is not looked at.  The walk is found through the
// identity of filepath.Walk / filepath.WalkDir and of parseHostFile; nothing is
// executed and no source text is matched.

import (
	"fmt"

	"golang.org/x/tools/go/ssa"
)

func init() {
	wrap := func(id string, extra func(c *Ctx), explain string) {
		pd := props[id]
		if pd == nil {
			return
		}
		orig := pd.Run
		pd.Run = func(c *Ctx) { orig(c); extra(c) }
		pd.Explanation += " " + explain
	}
	wrap("C18", c18R14, "R14 (added, F-C18-4): the callback of the directory walk that reloads the lists returns nothing but nil — a file that cannot be opened or read to its end is that file's failure and never stops filepath.Walk before the files behind it (the persisted `local` list among them) are read.")
}

// c18CallbackFn resolves the function value handed to a walk: a closure, a
// package-level function, possibly converted to filepath.WalkFunc / fs.WalkDirFunc.
func c18CallbackFn(v ssa.Value) *ssa.Function {
	for i := 0; i < 8 && v != nil; i++ {
		switch x := v.(type) {
		case *ssa.ChangeType:
			v = x.X
		case *ssa.MakeInterface:
			v = x.X
		case *ssa.MakeClosure:
			f, _ := x.Fn.(*ssa.Function)
			return f
		case *ssa.Function:
			return x
		default:
			return nil
		}
	}
	return nil
}

func c18R14(c *Ctx) {
	const R = "C18-R14"
	const pkg = "middleware/blocklist"
	c.Doc(R, "package blocklist: for every filepath.Walk / filepath.WalkDir whose callback (with its closures and unexported helpers) calls parseHostFile, every value the callback returns originates from the nil constant (results of unexported helpers are replaced by what they return) — a per-file open/parse failure is never handed to Walk, which would stop before the remaining files, the persisted `local` among them, are loaded")
	walk := c.fobj(R, "path/filepath.Walk")
	parse := c.fobj(R, pkg+".(*BlockList).parseHostFile")
	if walk == nil || parse == nil {
		return
	}
	walkers := []Site{}
	walkers = append(walkers, c.CallSites(walk)...)
	if wd := c.P.FuncObj("path/filepath.WalkDir"); wd != nil { // optional
		walkers = append(walkers, c.CallSites(wd)...)
	}
	n := 0
	for _, s := range walkers {
		pk := fnPkg(s.Fn)
		if pk == nil || pk.Path() != c.P.expand(pkg) {
			continue
		}
		top := TopLevel(s.Fn)
		key := fmt.Sprintf("%s|%s|list walk callback returns only nil", R, fnKey(top))
		if s.Kind != "call" || callCommon(s.Instr) == nil {
			// Walk taken as a value: cannot see which callback it gets
			if len(instrsInScope(top, isCallTo(parse))) > 0 {
				n++
				c.undecided(R, key, instrPos(s.Instr), "filepath.Walk is used as a value in the list loader: the callback cannot be determined")
			}
			continue
		}
		cb := c18CallbackFn(callArg(s.Instr, 1))
		if cb == nil || cb.Synthetic != "" || len(cb.Blocks) == 0 {
			if len(instrsInScope(top, isCallTo(parse))) > 0 {
				n++
				c.undecided(R, key, instrPos(s.Instr), "the walk callback of the list loader is not a closure or a declared function: "+trunc(Desc(callArg(s.Instr, 1)).String(), 120))
			}
			continue
		}
		if len(instrsInScope(cb, isCallTo(parse))) == 0 {
			continue // some other walk, not the list loader
		}
		n++
		allowed := []Pat{IsNilConst}
		var leaves []*Expr
		var at ssa.Instruction = s.Instr
		for _, in := range instrsWhere(cb, isReturn) {
			r := in.(*ssa.Return)
			if r.Parent() != cb || len(r.Results) == 0 {
				continue
			}
			ls := Origins(Desc(r.Results[len(r.Results)-1]), nil)
			ls = expandHelperLeaves(ls, nil, allowed, 0)
			for _, l := range ls {
				if !IsNilConst(l) {
					at = in
				}
			}
			leaves = append(leaves, ls...)
		}
		c.judgeOrigins(R, key, at, "result of the callback that filepath.Walk runs per blocklist file (any non-nil value stops the walk: the files behind this one, the persisted `local` among them, are not reloaded and the next API save overwrites them)", leaves, allowed)
	}
	if n == 0 {
		c.unresolved(R, "list walk", "no filepath.Walk/WalkDir whose callback reaches parseHostFile was found in package blocklist: the loader has another shape and this condition must be restated for it (rule would pass vacuously)")
	}
}
