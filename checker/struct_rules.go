package main

// E9 field coverage, E12 constant bounds and small shared helpers.

import (
	"fmt"
	"go/constant"
	"go/token"
	"go/types"
	"sort"
	"strings"

	"golang.org/x/tools/go/ssa"
)

// structFields lists the fields of named struct type path.
func (c *Ctx) structFields(rule, path string) []*types.Var {
	tn := c.P.TypeName(path)
	if tn == nil {
		c.unresolved(rule, path, "type not found")
		return nil
	}
	st, ok := tn.Type().Underlying().(*types.Struct)
	if !ok {
		c.unresolved(rule, path, "not a struct")
		return nil
	}
	var out []*types.Var
	for i := 0; i < st.NumFields(); i++ {
		out = append(out, st.Field(i))
	}
	return out
}

// fieldsStoredIn: the set of fields of the struct written in fns (field store
// through any base, or whole-struct store *p = T{…} which counts as all).
func fieldsStoredIn(fns []*ssa.Function, tn *types.TypeName) (map[string]bool, bool) {
	out := map[string]bool{}
	whole := false
	st, _ := tn.Type().Underlying().(*types.Struct)
	for _, top := range fns {
		for _, fn := range WithAnons(top) {
			for _, b := range fn.Blocks {
				for _, in := range b.Instrs {
					s, ok := in.(*ssa.Store)
					if !ok {
						continue
					}
					if fa, ok := s.Addr.(*ssa.FieldAddr); ok {
						bs, ok := deref(fa.X.Type()).Underlying().(*types.Struct)
						if ok && st != nil && types.Identical(bs, st) {
							out[bs.Field(fa.Field).Name()] = true
						}
						continue
					}
					if pt, ok := s.Addr.Type().Underlying().(*types.Pointer); ok {
						if n, ok := pt.Elem().(*types.Named); ok && n.Obj() == tn {
							whole = true
						}
					}
				}
			}
		}
	}
	return out, whole
}

// FieldCoverage (E9): every field of the struct, minus exemptions (name →
// reason), is assigned somewhere in fns.  Each exemption must name an existing
// field (stale rows are reported).
func (c *Ctx) FieldCoverage(rule, typePath string, fns []*ssa.Function, exempt map[string]string, what string) {
	tn := c.P.TypeName(typePath)
	if tn == nil {
		c.unresolved(rule, typePath, "type not found")
		return
	}
	fields := c.structFields(rule, typePath)
	stored, whole := fieldsStoredIn(fns, tn)
	names := map[string]bool{}
	for _, f := range fields {
		names[f.Name()] = true
		key := fmt.Sprintf("%s|%s|%s.%s", rule, what, tn.Name(), f.Name())
		switch {
		case whole || stored[f.Name()]:
			c.ok(rule, key, f.Pos(), fmt.Sprintf("%s: field %s is (re)assigned", what, f.Name()))
		case exempt[f.Name()] != "":
			c.ok(rule, key, f.Pos(), fmt.Sprintf("%s: field %s exempt: %s", what, f.Name(), exempt[f.Name()]))
		default:
			c.violation(rule, key, f.Pos(), fmt.Sprintf("%s: field %s.%s is neither reset nor exempt — state of the previous user survives reuse", what, tn.Name(), f.Name()))
		}
	}
	var ex []string
	for k := range exempt {
		ex = append(ex, k)
	}
	sort.Strings(ex)
	for _, k := range ex {
		if !names[k] {
			c.unresolved(rule, typePath+"."+k, "exempted field no longer exists (stale table row)")
		}
	}
}

// ConstBound (E12): a package-level constant satisfies cmp against bound
// (both as exact constants; durations are int64 nanoseconds).
func (c *Ctx) ConstBound(rule, path string, op token.Token, bound int64, why string) {
	v := c.P.ConstVal(path)
	key := fmt.Sprintf("%s|const %s %s %d", rule, path, op, bound)
	if v == nil {
		c.unresolved(rule, path, "constant not found")
		return
	}
	if constant.Compare(constant.ToInt(v), op, constant.MakeInt64(bound)) {
		c.ok(rule, key, c.P.Object(path).Pos(), fmt.Sprintf("%s = %s satisfies %s %d (%s)", path, v.ExactString(), op, bound, why))
	} else {
		c.violation(rule, key, c.P.Object(path).Pos(), fmt.Sprintf("%s = %s violates %s %d (%s)", path, v.ExactString(), op, bound, why))
	}
}

// constInt extracts an int64 from a constant Expr.
func constInt(e *Expr) (int64, bool) {
	e = strip(e)
	if e == nil || e.K != EConst || e.Val == nil {
		return 0, false
	}
	v := constant.ToInt(e.Val)
	if v.Kind() != constant.Int {
		return 0, false
	}
	return constant.Int64Val(v)
}

// calleeName returns the (method or function) name of a call-like instruction.
func calleeName(in ssa.Instruction) string {
	cc := callCommon(in)
	if cc == nil {
		return ""
	}
	if cc.IsInvoke() {
		return cc.Method.Name()
	}
	_, _, n := calleeObj(cc)
	return n
}

// isCallNamed matches call-like instructions by callee name (use only where
// the receiver type is irrelevant or checked separately).
func isCallNamed(names ...string) func(ssa.Instruction) bool {
	return func(in ssa.Instruction) bool {
		n := calleeName(in)
		for _, x := range names {
			if n == x {
				return true
			}
		}
		return false
	}
}

// returnsWhere lists Return instructions of fn (top function only) whose
// result #idx matches p.
func returnsWhere(fn *ssa.Function, idx int, p Pat) []ssa.Instruction {
	var out []ssa.Instruction
	for _, b := range fn.Blocks {
		for _, in := range b.Instrs {
			r, ok := in.(*ssa.Return)
			if !ok || idx >= len(r.Results) {
				continue
			}
			if p == nil || p(Desc(r.Results[idx])) {
				out = append(out, in)
			}
		}
	}
	return out
}

// isReturnWith builds an instruction predicate: a return whose result #idx matches p.
func isReturnWith(idx int, p Pat) func(ssa.Instruction) bool {
	return func(in ssa.Instruction) bool {
		r, ok := in.(*ssa.Return)
		if !ok || idx >= len(r.Results) {
			return false
		}
		return p(Desc(r.Results[idx]))
	}
}

// GlobalIs matches a load of the package-level variable obj (e.g. an error sentinel).
func GlobalIs(obj types.Object) Pat {
	return func(e *Expr) bool {
		e = strip(e)
		return e != nil && e.K == EGlobal && obj != nil && e.Obj == obj
	}
}

// NotNilConst matches any value that is not the nil constant.
func NotNilConst(e *Expr) bool { return !IsNilConst(e) }

func joinKeys(m map[string]string) string {
	var ks []string
	for k := range m {
		ks = append(ks, k)
	}
	sort.Strings(ks)
	return strings.Join(ks, ",")
}
