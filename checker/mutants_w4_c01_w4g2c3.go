package main

// Regression mutants for W4 C01-w4g2c3 / C01-R18 (a DNAME applied on an octet boundary).
func init() {
	addMutants("C01", []Mutant{
		{ID: "c01-w4g2c3-answerchain-octet-suffix", File: "middleware/resolver/utils.go", Expect: "C01-R18|middleware/resolver.answerChain",
			Old: "case covered == dns.TypeDNAME && dnsutil.NameInZone(cur, owner):",
			New: "case covered == dns.TypeDNAME && (dnsutil.NameInZone(cur, owner) || (len(cur) > len(owner) && cur[len(cur)-len(owner):] == owner)):",
			Why: "seeded change (strings.HasSuffix(cur, owner)), written without the import swap a one-snippet mutant cannot make: the accepted set is identical — every cur that ends in owner's octets — so shop.corp.test. DNAME is kept for www.myshop.corp.test. and the records of www.my<target> are relayed as the answer with AD=1"},
		{ID: "c01-w4g2c3-synthesized-cname-octet-suffix", File: "middleware/resolver/dnssec/verify.go", Expect: "C01-R18|middleware/resolver/dnssec.isSynthesizedCNAME",
			Old: "\t\tif n != dnameLabels {\n\t\t\tcontinue\n\t\t}\n\t\tprev, _ := dns.PrevLabel(owner, n)",
			New: "\t\tif !strings.HasSuffix(strings.ToLower(owner), strings.ToLower(d.Header().Name)) {\n\t\t\tcontinue\n\t\t}\n\t\tprev, _ := dns.PrevLabel(owner, n)",
			Why: "variant at another substitution site: the DNAME that excuses an unsigned CNAME from the signature requirement is matched by octets, so a DNAME at shop.corp.test. vouches for a forged CNAME at www.myshop.corp.test."},
	})
}
