package main

import (
	"fmt"
	"go/token"
	"go/types"

	"golang.org/x/tools/go/ssa"
)

func init() {
	register(&PropDef{
		ID:    "C11",
		Title: "Exactly one reply per admitted query, in time, whatever upstreams do",
		Run:   runC11,
		Explanation: "Decided (structure only): " +
			"R1 at most one write: every call on responseWriter.Transport (discovered in all responseWriter methods) is behind the Written()==false edge and every path through it stores size (the written mark) before or after the call; Written() is size != -1 and Reset arms size = -1; " +
			"R2 terminal after staging: in serve's/serveInline's deferred block burst.add happens only across txLen > 0, release/handoff only across txLen <= 0, and the handoff arm sets replay before returning the job to Reading; " +
			"R3 slots are paired: every send on Resolver.maxConcurrent/resolutionSlots/probeSlots/v6LookupSlots and CryptoLimiter.tokens is followed on every exit by the receive, a deferred receive, a goroutine that releases on every exit, or a returned release closure; release closures returned by TryAcquire/Acquire/zoneInflight.acquire are called, deferred or handed to the caller at every (transitive) call site; TCP class tokens: acquire returns nil only without a token, serveConn defers put, put returns the token on both arms; UDP lease counter: take rolls back on refusal, release counts down on every path; reader paths after take (as C10-R1); " +
			"R4 leaders always complete: in Cache.ServeDNS every JoinGeneration/Regroup is followed on the leader edge by a deferred DoneGeneration with that generation; lookup defers cancel and interrupts.Close; serveMsgBy defers ctx.Cancel and PutChain; the strict entries defer chain.Finish; Queryer defers PutChain; " +
			"R5 failures stay with their client: writeRequestLocalFailure marks the response request-local before writing it and cancels the chain; groupLookup re-enters the singleflight only across shared ∧ !leader ∧ IsRequestLocalResolutionError ∧ live context; " +
			"R6 deadline source: the strict entries arm the carrier with readTime + queryTimeout() and the decoded fallback passes the same arrival-anchored deadline to serveMsgBy, which hands exactly that deadline to WithLazyDeadline.",
		NotDecided: []string{
			"liveness and latency bounds: that a reply is produced no later than timeout + margin",
			"wake-up ordering and lost wake-ups between leaders and followers (WaitGroup, singleflight)",
			"goroutine quiescence after load stops",
			"that upstream misbehaviour (silence, truncation, wrong ID/question) always terminates in a reply — a schedule/time property",
			"exactly-one (at least one) reply: only at-most-one and the terminal structure are decided",
		},
	})
}

func runC11(c *Ctx) {
	c11R1(c)
	c11R2(c)
	c11R3(c)
	c11R4(c)
	c11R5(c)
	c11R6(c)
}

// ---------------------------------------------------------------------------
// R1 at most one write

func c11R1(c *Ctx) {
	const rule = "C11-R1"
	c.Doc(rule, "every Write/WriteMsg call on responseWriter.Transport (in any responseWriter method or closure thereof) is behind the Written()==false edge, and on every path through it the size field (the written mark) is stored before or after the call; Written() returns size != -1; Reset stores size = -1; CommitWire delegates to WriteWire")
	trF := c.field(rule, "middleware.responseWriter.Transport")
	sizeF := c.field(rule, "middleware.responseWriter.size")
	written := c.fobj(rule, "middleware.(*responseWriter).Written")
	if trF == nil || sizeF == nil || written == nil {
		return
	}
	isTransportWrite := func(in ssa.Instruction) bool {
		cc := callCommon(in)
		if cc == nil || !cc.IsInvoke() {
			return false
		}
		if n := cc.Method.Name(); n != "Write" && n != "WriteMsg" {
			return false
		}
		return FieldIs(trF)(Desc(cc.Value))
	}
	notMinusOne := func(e *Expr) bool { return !IsConstInt(-1)(e) }
	markBar := StoreBarrier("size (written mark)", sizeF, notMinusOne)
	n := 0
	for _, fn := range c.P.FuncsInPkg("middleware") {
		if fn.Parent() != nil || !methodOn(funcObjOf(fn), "responseWriter") {
			continue
		}
		for _, in := range instrsWhere(fn, isTransportWrite) {
			n++
			key := fmt.Sprintf("%s|%s|Transport write", rule, fnKey(fn))
			ug, tr := c.unguarded(in, []Barrier{OnFalse("Written()", CallTo(written))}, fn)
			if ug {
				c.violation(rule, key+"|guard", instrPos(in), "transport write reachable without the Written()==false edge: a second write for the same request reaches the client; path "+tr)
			} else {
				c.ok(rule, key+"|guard", instrPos(in), "transport write is behind Written()==false")
			}
			// marks written: before (on every path to it) or after (on every path to an exit)
			before, _ := c.unguarded(in, []Barrier{markBar}, in.Parent())
			after := false
			if before { // not marked before on some path
				r := reach([]Point{pointAfter(in)}, []Barrier{markBar}, nil)
				after = true
				for _, t := range r.order {
					if isExit(t) {
						after = false
					}
				}
			}
			if !before || after {
				c.ok(rule, key+"|mark", instrPos(in), "the written mark (size) is stored on every path through this write")
			} else {
				c.violation(rule, key+"|mark", instrPos(in), "a path through this transport write never stores size: Written() stays false and a later WriteMsg sends a second reply")
			}
		}
	}
	if n == 0 {
		c.unresolved(rule, "Transport writes", "no transport write found")
	}
	// Written() is size != -1
	if fn := c.fn(rule, "middleware.(*responseWriter).Written"); fn != nil {
		for _, in := range returnsWhere(fn, 0, nil) {
			e := strip(Desc(in.(*ssa.Return).Results[0]))
			key := rule + "|Written|size != -1"
			if m, pol := CmpMatch(e, FieldIs(sizeF), token.NEQ, IsConstInt(-1)); m && pol {
				c.ok(rule, key, instrPos(in), "Written() = (size != -1)")
			} else {
				c.violation(rule, key, instrPos(in), "Written() is not size != -1: "+trunc(e.String(), 100))
			}
		}
	}
	if fn := c.fn(rule, "middleware.(*responseWriter).Reset"); fn != nil {
		c.MustCross(rule, fn, "return", isReturn, StoreBarrier("size = -1", sizeF, IsConstInt(-1)))
	}
	if fn := c.fn(rule, "middleware.(*responseWriter).CommitWire"); fn != nil {
		if ww := c.fobj(rule, "middleware.(*responseWriter).WriteWire"); ww != nil {
			c.MustCross(rule, fn, "return", isReturn, CallBarrier("WriteWire", ww))
		}
	}
	c.Floor(rule, 12)
}

// ---------------------------------------------------------------------------
// R2 terminal after staging

func c11R2(c *Ctx) {
	const rule = "C11-R2"
	c.Doc(rule, "deferred terminal block of udpEngine.serve / serveInline: burst.add only across txLen > 0; release(Serving) and the handoff transition(Serving,Reading) only across txLen <= 0; the handoff arm stores replay = true")
	const pkg = "server"
	txLen := c.field(rule, pkg+".udpJob.txLen")
	replay := c.field(rule, pkg+".udpJob.replay")
	transition := c.fobj(rule, pkg+".(*udpJob).transition")
	release := c.fobj(rule, pkg+".(*udpJob).release")
	burstAdd := c.fobj(rule, pkg+".(*udpTXBurst).add")
	serving, ok1 := c.c10ConstInt(rule, pkg+".udpJobServing")
	reading, ok2 := c.c10ConstInt(rule, pkg+".udpJobReading")
	if txLen == nil || replay == nil || transition == nil || release == nil || burstAdd == nil || !ok1 || !ok2 {
		return
	}
	// "a reply is staged" in any of its equivalent spellings (txLen is a length, never negative)
	staged := func(holds bool) []Barrier {
		n := fmt.Sprintf("txLen > 0 is %v", holds)
		return []Barrier{
			OnCmp(n, FieldIs(txLen), token.GTR, IsConstInt(0), holds),
			OnCmp(n, FieldIs(txLen), token.NEQ, IsConstInt(0), holds),
			OnCmp(n, FieldIs(txLen), token.GEQ, IsConstInt(1), holds),
		}
	}
	relServing := c10CallConstArg(release, 1, serving)
	handoff := func(in ssa.Instruction) bool {
		return c10CallConstArg(transition, 1, serving)(in) && c10CallConstArg(transition, 2, reading)(in)
	}
	for _, name := range []string{"serve", "serveInline"} {
		fn := c.fn(rule, pkg+".(*udpEngine)."+name)
		if fn == nil {
			continue
		}
		for _, in := range instrsWhere(fn, func(in ssa.Instruction) bool { _, ok := in.(*ssa.Defer); return ok }) {
			body := c10CalleeFn(in)
			if body == nil || len(instrsWhere(body, isCallTo(burstAdd))) == 0 {
				continue
			}
			c.MustCross(rule, body, "burst.add (reply staged)", isCallTo(burstAdd), staged(true)...)
			c.MustCross(rule, body, "silent release", relServing, staged(false)...)
			if len(instrsWhere(body, handoff)) > 0 {
				c.MustCross(rule, body, "handoff to the ring", handoff, staged(false)...)
				c.MustCross(rule, body, "handoff marks replay", handoff, StoreBarrier("replay = true", replay, IsConstBool(true)))
			}
		}
	}
	c.Floor(rule, 6)
}

// ---------------------------------------------------------------------------
// R3 slots are paired

func c11R3(c *Ctx) {
	const rule = "C11-R3"
	const rp = "middleware/resolver"
	// UDP reader paths / TCP slab pairing are the same obligations as C10-R1
	c10UDPTypestate(c, rule)
	c10TCPTypestate(c, rule)
	c.Doc(rule, "capacity semaphores: every send on Resolver.{maxConcurrent,resolutionSlots,probeSlots,v6LookupSlots} and CryptoLimiter.tokens is followed on every exit by the matching receive (direct, deferred, in a goroutine that releases on every exit, or as a returned release closure); release closures from CryptoLimiter.TryAcquire/Acquire and zoneInflightLimiter.acquire are called/deferred/handed on at every transitive call site; tcp acquire returns nil only without a token, put returns the token; udp take rolls the lease back on refusal and release counts it down; plus the job typestate of C10-R1")
	var fields []*types.Var
	for _, n := range []string{"maxConcurrent", "resolutionSlots", "probeSlots", "v6LookupSlots"} {
		fields = append(fields, c.field(rule, rp+".Resolver."+n))
	}
	v6 := c.P.Field(rp + ".Resolver.v6LookupSlots")
	c.c11ChanSemaphores(rule, rp, fields, func(f *types.Var) []Barrier {
		if f != v6 {
			return nil
		}
		// the optional v6 enrichment: `spawn` is cleared exactly on the arm that
		// did not take the slot, so the spawn=false edge is a not-acquired edge
		return []Barrier{OnFalse("spawn (cleared only on the default arm)", func(e *Expr) bool {
			if e.K != EPhi {
				return false
			}
			hasFalse := false
			for _, l := range Origins(e, nil) {
				if IsConstBool(false)(l) {
					hasFalse = true
				}
			}
			return hasFalse
		})}
	})
	tok := c.field(rule, rp+"/dnssec.CryptoLimiter.tokens")
	hand := c.c11ChanSemaphores(rule, rp+"/dnssec", []*types.Var{tok}, nil)
	var roots []*types.Func
	for _, h := range hand {
		roots = append(roots, funcObjOf(h))
	}
	if len(hand) == 0 {
		c.unresolved(rule, "CryptoLimiter", "no function hands back a release closure")
	}
	if f := c.fobj(rule, rp+".(*zoneInflightLimiter).acquire"); f != nil {
		roots = append(roots, f)
		// the limiter's own arithmetic: refusal rolls back
		if fn := c.fn(rule, rp+".(*zoneInflightLimiter).acquire"); fn != nil {
			add := c.fobj(rule, "sync/atomic.(*Int32).Add")
			if add != nil {
				c.c10AfterEach(rule, fn, "zone bucket refusal rolls back", c10CallConstArg(add, 1, 1),
					isReturnWith(1, IsConstBool(false)), c10InstrBarrier("bucket.Add(-1)", c10CallConstArg(add, 1, -1)))
			}
		}
	}
	c.c11TokenFlow(rule, roots)

	// TCP class tokens
	const sp = "server"
	if acq := c.fn(rule, sp+".(*tcpEngine).acquire"); acq != nil {
		tokensF := c.fobj(rule, sp+".(*tcpEngine).tokens")
		isTok := func(v ssa.Value) bool {
			for _, l := range Origins(Desc(v), nil) {
				if CallTo(tokensF)(l) {
					return true
				}
			}
			return false
		}
		pick := func(s *ssa.Select) (int, bool) {
			for i, st := range s.States {
				if st.Dir == types.RecvOnly && isTok(st.Chan) {
					return i, true
				}
			}
			return 0, false
		}
		if tokensF != nil {
			c.AfterEdge(rule, acq, "nil job returned although a token was taken", c11SelectEdge("token received", pick, true), isReturnWith(0, IsNilConst))
		}
	}
	if put := c.fn(rule, sp+".(*tcpEngine).put"); put != nil {
		small := c.field(rule, sp+".tcpEngine.smallTokens")
		large := c.field(rule, sp+".tcpEngine.largeTokens")
		c.MustCross(rule, put, "return", isReturn, Barrier{Name: "token sent back", Instr: func(in ssa.Instruction) bool {
			s, ok := in.(*ssa.Send)
			return ok && c11ChanIs(s.Chan, small, large) != nil
		}})
	}
	// UDP lease counter
	leased := c.field(rule, sp+".udpEngine.leased")
	add64 := c.fobj(rule, "sync/atomic.(*Int64).Add")
	if leased != nil && add64 != nil {
		leasedAdd := func(n int64) func(ssa.Instruction) bool {
			return func(in ssa.Instruction) bool {
				if !c10CallConstArg(add64, 1, n)(in) {
					return false
				}
				return FieldIs(leased)(Desc(callArg(in, 0)))
			}
		}
		if take := c.fn(rule, sp+".(*udpEngine).take"); take != nil {
			c.c10AfterEach(rule, take, "lease refused ⇒ rolled back", leasedAdd(1), isReturnWith(0, IsNilConst), c10InstrBarrier("leased.Add(-1)", leasedAdd(-1)))
			c.MustCross(rule, take, "job handed out only under a lease", isReturnWith(0, NotNilConst), c10InstrBarrier("leased.Add(1)", leasedAdd(1)))
		}
		if rel := c.fn(rule, sp+".(*udpJob).release"); rel != nil {
			c.MustCross(rule, rel, "return", isReturn, c10InstrBarrier("leased.Add(-1)", leasedAdd(-1)))
		}
	}
	c.Floor(rule, 56) // 56 in the builds without the batch reader, more with it
}

// ---------------------------------------------------------------------------
// R4 leaders always complete

func c11R4(c *Ctx) {
	const rule = "C11-R4"
	c.Doc(rule, "Cache.ServeDNS: after JoinGeneration/Regroup every exit crosses defer DoneGeneration or the leader=false edge, and DoneGeneration receives a generation returned by them; Resolver.lookup defers cancel and interrupts.Close; serveMsgBy defers ctx.Cancel and PutChain; ServeRawInline/ServeRawReplay/serveWire defer chain.Finish after BindChain; pipelineQueryer.Query defers PutChain and putBufferWriter")
	join := c.fobj(rule, "internal/waitgroup.(*WaitGroup).JoinGeneration")
	regroup := c.fobj(rule, "internal/waitgroup.(*WaitGroup).Regroup")
	done := c.fobj(rule, "internal/waitgroup.(*WaitGroup).DoneGeneration")
	if fn := c.fn(rule, "middleware/cache.(*Cache).ServeDNS"); fn != nil && join != nil && regroup != nil && done != nil {
		c.Paired(rule, fn, "dedup leadership → DoneGeneration", isPlainCallTo(join, regroup), isCallTo(done), OnFalse("leader", ResultOf(1, join, regroup)))
		for _, in := range instrsWhere(fn, isCallTo(done)) {
			c.OriginCheck(rule, rule+"|Cache.ServeDNS|DoneGeneration generation", in, "DoneGeneration generation argument", callArg(in, 2), nil, ResultOf(0, join, regroup))
			if _, isDefer := in.(*ssa.Defer); !isDefer {
				c.violation(rule, rule+"|Cache.ServeDNS|DoneGeneration deferred", instrPos(in), "DoneGeneration is not deferred: a panic or early return below leaves the generation registered until its 15 s timeout and every follower waits it out")
			} else {
				c.ok(rule, rule+"|Cache.ServeDNS|DoneGeneration deferred", instrPos(in), "DoneGeneration is deferred")
			}
		}
	}
	// lookup
	if fn := c.fn(rule, "middleware/resolver.(*Resolver).lookup"); fn != nil {
		if wc := c.fobj(rule, "context.WithCancel"); wc != nil {
			c.c11FuncResultPaired(rule, fn, "lookup fan-out cancel", isPlainCallTo(wc), 1)
		}
		igTN := c.P.TypeName("internal/dnsclient.InterruptGroup")
		cl := c.fobj(rule, "internal/dnsclient.(*InterruptGroup).Close")
		if igTN == nil {
			c.unresolved(rule, "internal/dnsclient.InterruptGroup", "type not found")
		}
		if igTN != nil && cl != nil {
			// the constructor is reached through a package-level alias; anchor on the result type
			makesGroup := func(in ssa.Instruction) bool {
				call, ok := in.(*ssa.Call)
				if !ok {
					return false
				}
				pt, ok := call.Type().(*types.Pointer)
				if !ok {
					return false
				}
				n, ok := pt.Elem().(*types.Named)
				return ok && n.Obj() == igTN
			}
			c.Paired(rule, fn, "interrupt group → Close", makesGroup, isCallTo(cl))
		}
	}
	// serveMsgBy
	wld := c.fobj(rule, "internal/contextutil.WithLazyDeadline")
	ldCancel := c.fobj(rule, "internal/contextutil.(*LazyDeadline).Cancel")
	newChain := c.fobj(rule, "middleware.(*Pipeline).NewChain")
	putChain := c.fobj(rule, "middleware.(*Pipeline).PutChain")
	if fn := c.fn(rule, "server.(*Server).serveMsgBy"); fn != nil && wld != nil && ldCancel != nil && newChain != nil && putChain != nil {
		c.Paired(rule, fn, "lazy deadline → Cancel", isPlainCallTo(wld), isCallTo(ldCancel))
		c.Paired(rule, fn, "NewChain → PutChain", isPlainCallTo(newChain), isCallTo(putChain))
	}
	if fn := c.fn(rule, "middleware.(*pipelineQueryer).Query"); fn != nil && newChain != nil && putChain != nil {
		c.Paired(rule, fn, "NewChain → PutChain", isPlainCallTo(newChain), isCallTo(putChain))
		g := c.fobj(rule, "middleware.getBufferWriter")
		p := c.fobj(rule, "middleware.putBufferWriter")
		if g != nil && p != nil {
			c.Paired(rule, fn, "getBufferWriter → putBufferWriter", isPlainCallTo(g), isCallTo(p))
		}
	}
	bind := c.fobj(rule, "middleware.(*Pipeline).BindChain")
	finish := c.fobj(rule, "middleware.(*Chain).Finish")
	for _, name := range []string{"serveWire", "ServeRawInline", "ServeRawReplay"} {
		fn := c.fn(rule, "server.(*Server)."+name)
		if fn == nil || bind == nil || finish == nil {
			continue
		}
		c.Paired(rule, fn, "BindChain → Finish", isPlainCallTo(bind), isCallTo(finish))
	}
	// detached strict context: Finish runs the detach cleanup
	if fn := c.fn(rule, "middleware.(*Chain).Finish"); fn != nil {
		if fd := c.fobj(rule, "middleware.(*Chain).finishDetach"); fd != nil {
			c.MustCross(rule, fn, "return", isReturn, CallBarrier("finishDetach", fd))
		}
	}
	if fn := c.fn(rule, "middleware.(*Pipeline).PutChain"); fn != nil && finish != nil {
		put := c.fobj(rule, "sync.(*Pool).Put")
		if put != nil {
			c.MustCross(rule, fn, "chain pooled", isPlainCallTo(put), CallBarrier("Finish", finish))
		}
	}
	c.Floor(rule, 13)
}

// ---------------------------------------------------------------------------
// R5 failures stay with their client

func c11R5(c *Ctx) {
	const rule = "C11-R5"
	c.Doc(rule, "Cache.writeRequestLocalFailure: WriteMsg only after MarkRequestLocalFailureResponse, and Cancel before returning; Resolver.groupLookup re-enters TimedDoChanWithRole only across shared=true, leader=false, IsRequestLocalResolutionError=true and EffectiveError(ctx)==nil")
	mark := c.fobj(rule, "middleware.MarkRequestLocalFailureResponse")
	cancel := c.fobj(rule, "middleware.(*Chain).Cancel")
	if fn := c.fn(rule, "middleware/cache.(*Cache).writeRequestLocalFailure"); fn != nil && mark != nil && cancel != nil {
		c.MustCross(rule, fn, "WriteMsg of the local failure", isMethodCallNamed("WriteMsg", nil), CallBarrier("MarkRequestLocalFailureResponse", mark))
		c.MustCross(rule, fn, "return", isReturn, CallBarrier("ch.Cancel", cancel))
	}
	tdc := c.fobj(rule, "middleware/resolver.(*SingleflightWrapper).TimedDoChanWithRole")
	isLocal := c.fobj(rule, "middleware.IsRequestLocalResolutionError")
	eff := c.fobj(rule, "internal/contextutil.EffectiveError")
	if fn := c.fn(rule, "middleware/resolver.(*Resolver).groupLookup"); fn != nil && tdc != nil && isLocal != nil && eff != nil {
		again := func(in ssa.Instruction) bool { return in.Parent() == fn && isPlainCallTo(tdc)(in) }
		for _, b := range []Barrier{
			OnTrue("shared", ResultOf(1, tdc)),
			OnFalse("leader", ResultOf(2, tdc)),
			OnTrue("IsRequestLocalResolutionError", CallTo(isLocal)),
			OnFalse("EffectiveError(ctx)", CallTo(eff)),
		} {
			// with the required edge removed from the graph, the loop must not close
			c.c10AfterEach(rule, fn, "re-entry requires "+b.Name, again, again, b)
		}
	}
	c.Floor(rule, 6)
}

// ---------------------------------------------------------------------------
// R6 deadline source

func c11R6(c *Ctx) {
	const rule = "C11-R6"
	c.Doc(rule, "ServeRaw/ServeRawInline/ServeRawReplay: carrier.reset and serveMsgBy receive readTime.Add(s.queryTimeout()) with readTime the entry's parameter; serveMsgBy passes its deadline parameter to WithLazyDeadline; the engines pass the job's own readTime")
	const sp = "server"
	reset := c.fobj(rule, sp+".(*jobCarrier).reset")
	smb := c.fobj(rule, sp+".(*Server).serveMsgBy")
	qt := c.fobj(rule, sp+".(*Server).queryTimeout")
	tadd := c.fobj(rule, "time.Time.Add")
	wld := c.fobj(rule, "internal/contextutil.WithLazyDeadline")
	if reset == nil || smb == nil || qt == nil || tadd == nil || wld == nil {
		return
	}
	arrival := func(e *Expr) bool {
		e = strip(e)
		if e == nil || e.K != ECall || !CallTo(tadd)(e) || len(e.Args) != 2 {
			return false
		}
		a0 := strip(e.Args[0])
		return a0 != nil && a0.K == EParam && a0.Name == "readTime" && CallTo(qt)(e.Args[1])
	}
	for _, name := range []string{"ServeRaw", "ServeRawInline", "ServeRawReplay"} {
		fn := c.fn(rule, sp+".(*Server)."+name)
		if fn == nil {
			continue
		}
		for _, in := range instrsWhere(fn, isPlainCallTo(reset)) {
			c.OriginCheck(rule, fmt.Sprintf("%s|%s|carrier.reset deadline", rule, name), in, "carrier deadline", callArg(in, 1), nil, arrival)
		}
		for _, in := range instrsWhere(fn, isPlainCallTo(smb)) {
			c.OriginCheck(rule, fmt.Sprintf("%s|%s|serveMsgBy deadline", rule, name), in, "decoded-fallback deadline", callArg(in, 5), nil, arrival)
		}
	}
	if fn := c.fn(rule, sp+".(*Server).serveMsgBy"); fn != nil {
		for _, in := range instrsWhere(fn, isPlainCallTo(wld)) {
			c.OriginCheck(rule, rule+"|serveMsgBy|WithLazyDeadline deadline", in, "request context deadline", callArg(in, 1), nil,
				func(e *Expr) bool { return e.K == EParam && e.Name == "deadline" })
		}
	}
	// the engines hand the chain the read time of the job being served
	udpRT := c.field(rule, sp+".udpJob.readTime")
	tcpRT := c.field(rule, sp+".tcpJob.readTime")
	for _, m := range []string{"ServeRaw", "ServeRawInline", "ServeRawReplay"} {
		for _, fn := range c.P.FuncsInPkg(sp) {
			top := TopLevel(fn)
			if !methodOn(funcObjOf(top), "udpEngine") && !methodOn(funcObjOf(top), "tcpEngine") {
				continue
			}
			for _, in := range instrsWhere(fn, func(in ssa.Instruction) bool { return in.Parent() == fn && isMethodCallNamed(m, nil)(in) }) {
				cc := callCommon(in)
				if !cc.IsInvoke() {
					continue
				}
				key := fmt.Sprintf("%s|%s|%s readTime", rule, fnKey(top), m)
				rt := strip(Desc(callArg(in, 3)))
				job := strip(Desc(callArg(in, 1)))
				if rt != nil && rt.K == EField && (rt.Var == udpRT || rt.Var == tcpRT) && rt.X != nil && job != nil && rt.X.String() == job.String() {
					c.ok(rule, key, instrPos(in), "handler receives the served job's own readTime")
				} else {
					c.violation(rule, key, instrPos(in), "handler is not given the served job's readTime: the query's deadline is not anchored at its arrival")
				}
			}
		}
	}
	c.Floor(rule, 10)
}
