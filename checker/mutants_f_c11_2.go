package main

// Regression mutants for finding F-C11-2: a reply no stream can frame is handed to the transport.
func init() {
	addMutants("C11", []Mutant{
		{ID: "f-c11-2-size-test-udp-only", File: "middleware/edns/edns.go", Expect: "C11-R9|(*middleware/edns.ResponseWriter).WriteMsg|hand-off",
			Old: "\tif udpOverflow(m, limit) {", New: "\tif w.Proto() == \"udp\" && udpOverflow(m, limit) {",
			Why: "F-C11-2: the overflow/TC rule applies to datagrams only again; a composed reply above 65,535 octets is refused by the TCP/DoT framer and the client gets nothing"},
		{ID: "f-c11-2-stream-limit-above-frame", File: "middleware/edns/edns.go", Expect: "C11-R9|(*middleware/edns.ResponseWriter).WriteMsg|limit",
			Old: "\tlimit := dns.MaxMsgSize\n", New: "\tlimit := 2 * dns.MaxMsgSize\n",
			Why: "F-C11-2: the test is made on every protocol but against a bound no two-octet length prefix can carry"},
	})
	// the generalised C06-R6 (limit may be a phi that is w.size on every udp edge) still rejects a
	// limit that lets a datagram take the stream bound
	addMutants("C06", []Mutant{
		{ID: "f-c11-2-udp-takes-stream-limit", File: "middleware/edns/edns.go", Expect: "C06-R6",
			Old: "\tlimit := dns.MaxMsgSize\n\tif w.Proto() == \"udp\" {\n\t\tlimit = w.size", New: "\tlimit := dns.MaxMsgSize\n\tif w.Proto() != \"udp\" {\n\t\tlimit = w.size",
			Why: "protocol test inverted: UDP replies are bounded by 65,535 instead of the advertised size"},
	})
}
