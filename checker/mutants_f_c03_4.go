package main

// Regression mutants for finding F-C03-4 (min_scope re-files an authority's /24-scoped answer
// under the enclosing /16 and serves it to the other /24s).  Old = the fixed tree.
func init() {
	const policy = "internal/ecs/policy.go"
	addMutants("C03", []Mutant{
		{ID: "f-c03-4-minscope-widens-v4", File: policy, Expect: "C03-R12|(*internal/ecs.Policy).ClampScope",
			Old: "\t\tif uint8(bits) > p.MinScopeV4 { //nolint:gosec // bits ≤ 32 for v4\n\t\t\treturn netip.Prefix{}\n",
			New: "\t\tif uint8(bits) > p.MinScopeV4 { //nolint:gosec // bits ≤ 32 for v4\n\t\t\tbits = int(p.MinScopeV4)\n",
			Why: "F-C03-4 as found: a scope narrower than min_scope_v4 is widened to the floor instead of refused — the answer scoped to 203.0.113.0/24 is filed under 203.0.0.0/16 and served to 203.0.5.0/24"},
		{ID: "f-c03-4-minscope-widens-v6", File: policy, Expect: "C03-R12|(*internal/ecs.Policy).ClampScope",
			Old: "\t\tif uint8(bits) > p.MinScopeV6 { //nolint:gosec // bits ≤ 128, fits uint8\n\t\t\treturn netip.Prefix{}\n",
			New: "\t\tif uint8(bits) > p.MinScopeV6 { //nolint:gosec // bits ≤ 128, fits uint8\n\t\t\tbits = int(p.MinScopeV6)\n",
			Why: "the IPv6 arm of the same defect: 2001:db8:0:100::/56 answer filed under the /48 and served to 2001:db8:0:200::/56"},
	})
}
