package main

// Regression mutants for W4 C09-w4g3c6 / C09-R15 (the state-file route into the start-up trust set skips the revocation record).
func init() {
	addMutants("C09", []Mutant{
		{ID: "c09-w4g3c6-startup-state-route-skips-revoked", File: "middleware/resolver/auto_trust_anchor.go", Expect: "C09-R15|middleware/resolver.startupTrustAnchors|key TrustAnchor.DNSKey",
			Old: "\t\tfp := dnskeyMaterialFP(ta.DNSKey)\n\t\tif _, gone := revoked[fp]; gone || ta.DNSKey.Flags&DNSKEYFlagRevoke != 0 {\n\t\t\tcontinue\n\t\t}\n\t\tif _, dup := seen[fp]; dup {",
			New: "\t\tif ta.DNSKey.Flags&DNSKEYFlagRevoke != 0 {\n\t\t\tcontinue\n\t\t}\n\t\tfp := dnskeyMaterialFP(ta.DNSKey)\n\t\tif _, dup := seen[fp]; dup {",
			Why: "seeded change: the state file's Valid/Missing anchors are appended without the revoked[fp] test — after a crash between writeTombstones and writeToTAFile the tombstone names K while the state file still holds K as Valid, and the restarted resolver trusts K again"},
		{ID: "c09-w4g3c6-startup-state-route-record-fp", File: "middleware/resolver/auto_trust_anchor.go", Expect: "C09-R15|middleware/resolver.startupTrustAnchors|key TrustAnchor.DNSKey",
			Old: "\t\tif _, gone := revoked[fp]; gone || ta.DNSKey.Flags&DNSKEYFlagRevoke != 0 {\n\t\t\tcontinue\n\t\t}\n\t\tif _, dup := seen[fp]; dup {",
			New: "\t\tif _, gone := revoked[dnskeyRecordFP(ta.DNSKey)]; gone || ta.DNSKey.Flags&DNSKEYFlagRevoke != 0 {\n\t\t\tcontinue\n\t\t}\n\t\tif _, dup := seen[fp]; dup {",
			Why: "variant: the record is consulted under the wrong identity — the record fingerprint includes the flags, the revocation set is keyed by key material, so the lookup never hits and the revoked key is re-published exactly as in the seeded change"},
		{ID: "c09-w4g3c6-startup-configured-route-skips-revoked", File: "middleware/resolver/auto_trust_anchor.go", Expect: "C09-R15|middleware/resolver.startupTrustAnchors|record (dns.RR)",
			Old: "if _, gone := revoked[fp]; gone || dnskey.Flags&DNSKEYFlagRevoke != 0 {",
			New: "if dnskey.Flags&DNSKEYFlagRevoke != 0 {",
			Why: "variant on the other route: the configured keys are filtered by the REVOKE bit only — a configuration that still lists the revoked key (in its unrevoked form) puts it back into the trust set on every restart"},
	})
}
