package main

// C18-R13 (wave 4, change C18-w4g5c2) — a persist temp file belongs to the
// persist that created it.
//
// persist writes the new `local` file as <BlockListDir>/local.tmp.<random>,
// fsyncs it and renames it over `local`.  Between os.CreateTemp and os.Rename
// the temp file is the only copy of the state the API call is about to
// acknowledge.  The directory is also walked by the loader — at start-up AND by
// the refresh pass (`go refreshRemote()`), which runs beside a live API.  Code
// that deletes (or moves) "whatever file is there" can therefore hit a temp
// file whose persist is still in flight: the rename fails, persist only logs,
// Set/Remove return success, and the change is lost on restart.  C18-R11
// decides that such a file is never READ as a list; this rule decides that it
// is never REMOVED by anybody but its owner:
//
//   every os.Remove / os.RemoveAll / os.Rename(source) in package blocklist
//   whose path names an ENUMERATED file (it derives from the path / FileInfo /
//   DirEntry a directory walk or listing hands out, i.e. "whatever is there")
//     - lies behind the FALSE edge of a name test that covers every name the
//       CreateTemp pattern under BlockListDir can generate (the same guard
//       family as R11: HasPrefix / HasSuffix / Match), or
//     - sits in a function that only runs before the instance exists: every
//       call site is a plain call in New ahead of any `go` statement, or in
//       another such function (the start-up sweep for abandoned temp files).
//   A path that derives from the CreateTemp result itself is the owner's.
//   Paths the code composed from names of its own (the download's
//   <host>.<n>.tmp) are not enumerated files and are not looked at.
//
// Nothing is executed; sites are discovered through callee identity.

import (
	"fmt"
	"go/types"
	"sort"
	"strings"

	"golang.org/x/tools/go/ssa"
)

func init() {
	wrap := func(id string, extra func(c *Ctx), explain string) {
		pd := props[id]
		if pd == nil {
			return
		}
		orig := pd.Run
		pd.Run = func(c *Ctx) { orig(c); extra(c) }
		pd.Explanation += " " + explain
	}
	wrap("C18", c18R13, "R13 (added): a file enumerated from the walked directory is removed/renamed only behind the false edge of the persist-temp name test, or in a function that runs only before the instance exists (plain call in New ahead of any go statement) — the refresh pass walks the directory beside a live API, and deleting an in-flight persist's temp file makes its rename fail after the API call has been acknowledged.")
}

func c18R13(c *Ctx) {
	const R = "C18-R13"
	const pkg = "middleware/blocklist"
	c.Doc(R, "package blocklist: every os.Remove/os.RemoveAll/os.Rename(source) of an enumerated file (path derived from a walk callback's parameters or a DirEntry/FileInfo Name()) is behind the false edge of a name test covering every name of the CreateTemp pattern under BlockListDir, or lies in a function whose every call site is a plain call in New before any go statement (transitively); the CreateTemp result's own name is its owner's to remove")
	createTemp := c.fobj(R, "os.CreateTemp")
	remove := c.fobj(R, "os.Remove")
	removeAll := c.fobj(R, "os.RemoveAll")
	rename := c.fobj(R, "os.Rename")
	dirF := c.field(R, "config.Config.BlockListDir")
	hasPrefix := c.fobj(R, "strings.HasPrefix")
	hasSuffix := c.fobj(R, "strings.HasSuffix")
	fpMatch := c.fobj(R, "path/filepath.Match")
	newFn := c.fn(R, pkg+".New")
	if createTemp == nil || remove == nil || removeAll == nil || rename == nil || dirF == nil || hasPrefix == nil || hasSuffix == nil || fpMatch == nil || newFn == nil {
		return
	}
	inPkg := func(f *ssa.Function) bool {
		pk := fnPkg(f)
		return pk != nil && pk.Path() == c.P.expand(pkg)
	}
	// the temp-name patterns (as C18-R11's T1)
	type tempPat struct{ pattern, prefix, suffix string }
	var pats []tempPat
	for _, s := range c.CallSites(createTemp) {
		if !inPkg(s.Fn) || callCommon(s.Instr) == nil || !Contains(FieldIs(dirF))(Desc(callArg(s.Instr, 0))) {
			continue
		}
		for _, l := range Origins(Desc(callArg(s.Instr, 1)), nil) {
			p, ok := c18ConstString(l)
			if !ok {
				c.undecided(R, R+"|"+fnKey(TopLevel(s.Fn))+"|temp file name pattern", instrPos(s.Instr), "the pattern of a temp file created under BlockListDir is not a constant")
				return
			}
			tp := tempPat{pattern: p, prefix: p}
			if i := strings.LastIndex(p, "*"); i >= 0 {
				tp.prefix, tp.suffix = p[:i], p[i+1:]
			}
			pats = append(pats, tp)
		}
	}
	if len(pats) == 0 {
		c.ok(R, R+"|persist|no temp file under BlockListDir", newFn.Pos(), "no temp file is created inside the walked directory: nothing of persist's can be removed there")
		return
	}
	coversAll := func(test func(tempPat) bool) bool {
		for _, p := range pats {
			if !test(p) {
				return false
			}
		}
		return true
	}
	guard := func(e *Expr) bool {
		x := strip(e)
		if x != nil && x.K == EExtract {
			if x.Idx != 0 {
				return false
			}
			x = strip(x.X)
		}
		if x == nil || x.K != ECall || len(x.Args) != 2 {
			return false
		}
		switch {
		case CallTo(hasPrefix)(x):
			k, ok := c18ConstString(x.Args[1])
			return ok && k != "" && coversAll(func(p tempPat) bool { return strings.HasPrefix(p.prefix, k) })
		case CallTo(hasSuffix)(x):
			k, ok := c18ConstString(x.Args[1])
			return ok && k != "" && coversAll(func(p tempPat) bool { return strings.HasSuffix(p.suffix, k) })
		case CallTo(fpMatch)(x):
			k, ok := c18ConstString(x.Args[0])
			return ok && coversAll(func(p tempPat) bool { return p.pattern == k })
		}
		return false
	}
	bars := []Barrier{OnFalse("name matches the persist temp pattern", guard)}

	// "whatever is there": a walk callback's parameter, or Name() of a DirEntry / FileInfo
	hasIsDir := func(t types.Type) bool {
		ms := types.NewMethodSet(t)
		for i := 0; i < ms.Len(); i++ {
			if ms.At(i).Obj().Name() == "IsDir" {
				return true
			}
		}
		return false
	}
	enumerated := Contains(func(e *Expr) bool {
		e = strip(e)
		if e == nil {
			return false
		}
		if e.K == ECall && e.Method == "Name" && len(e.Args) > 0 && e.Args[0] != nil && e.Args[0].V != nil && hasIsDir(e.Args[0].V.Type()) {
			return true
		}
		if e.K == EParam {
			p, ok := e.V.(*ssa.Parameter)
			if !ok || p.Parent() == nil {
				return false
			}
			ps := p.Parent().Signature.Params()
			if ps.Len() == 3 && hasIsDir(ps.At(1).Type()) {
				if b, ok := ps.At(0).Type().Underlying().(*types.Basic); ok && b.Kind() == types.String {
					return true
				}
			}
		}
		return false
	})
	owner := Contains(CallTo(createTemp))

	// functions that only run before the instance exists
	var startup func(f *ssa.Function, depth int) (bool, string)
	startup = func(f *ssa.Function, depth int) (bool, string) {
		fo := funcObjOf(f)
		if fo == nil {
			return false, "not a declared function"
		}
		sites := c.CallSites(fo)
		if len(sites) == 0 {
			return false, "no call site"
		}
		for _, s := range sites {
			if s.Kind != "call" {
				return false, fmt.Sprintf("%s is used as %s at %s", fo.Name(), s.Kind, c.lineOf(s.Instr))
			}
			caller := TopLevel(s.Fn)
			if s.Fn != caller {
				return false, fmt.Sprintf("%s is called from a closure of %s", fo.Name(), fnKey(caller))
			}
			if caller == newFn {
				at := s.Instr
				r := reach(entryPoint(newFn), nil, func(in ssa.Instruction) bool { return in == at })
				for _, in := range r.order {
					if _, isGo := in.(*ssa.Go); isGo {
						return false, fmt.Sprintf("New reaches the call of %s after a go statement (%s)", fo.Name(), c.lineOf(in))
					}
				}
				continue
			}
			if depth == 0 {
				return false, fmt.Sprintf("%s is called from %s", fo.Name(), fnKey(caller))
			}
			if ok, why := startup(caller, depth-1); !ok {
				return false, fmt.Sprintf("%s is called from %s; %s", fo.Name(), fnKey(caller), why)
			}
		}
		return true, ""
	}

	type verdict struct {
		okN  int
		bad  []string
		at   ssa.Instruction
		note []string
	}
	per := map[*ssa.Function]*verdict{}
	var tops []*ssa.Function
	consider := func(s Site, what string, argIdx int) {
		if !inPkg(s.Fn) || callCommon(s.Instr) == nil {
			return
		}
		path := Desc(callArg(s.Instr, argIdx))
		if owner(path) {
			return
		}
		top := TopLevel(s.Fn)
		// the removal may sit in an unexported helper that is handed the path:
		// the file is then whatever the helper's callers enumerate, and the
		// guard may be on either side of the call
		var outer []Site
		if !enumerated(path) {
			fo := funcObjOf(s.Fn)
			if fo == nil || fo.Exported() || s.Fn != top {
				return
			}
			idx := -1
			Contains(func(e *Expr) bool {
				if e = strip(e); e != nil && e.K == EParam {
					if pv, ok := e.V.(*ssa.Parameter); ok && pv.Parent() == s.Fn {
						idx = e.Idx
					}
				}
				return false
			})(path)
			if idx < 0 {
				return
			}
			for _, cs := range c.CallSites(fo) {
				if cs.Kind == "call" && callCommon(cs.Instr) != nil && idx < len(callCommon(cs.Instr).Args) {
					a := Desc(callCommon(cs.Instr).Args[idx])
					if enumerated(a) && !owner(a) {
						outer = append(outer, cs)
					}
				}
			}
			if len(outer) == 0 {
				return
			}
			if ug, _ := c.unguarded(s.Instr, bars, top); !ug {
				outer = nil // guarded inside the helper: decided here
			}
		}
		if len(outer) > 0 {
			for _, cs := range outer {
				ctop := TopLevel(cs.Fn)
				v := per[ctop]
				if v == nil {
					v = &verdict{at: cs.Instr}
					per[ctop] = v
					tops = append(tops, ctop)
				}
				if ug, tr := c.unguarded(cs.Instr, bars, ctop); !ug {
					v.okN++
					v.note = append(v.note, what+" (in "+fnKey(top)+") behind the temp-name test")
				} else if ok, why := startup(ctop, 3); ok {
					v.okN++
					v.note = append(v.note, what+" (in "+fnKey(top)+") in a start-up-only function")
				} else {
					if len(v.bad) == 0 {
						v.at = cs.Instr
					}
					v.bad = append(v.bad, fmt.Sprintf("%s in %s, called at %s with an enumerated file, can hit a file named like persist's temp file (path %s) and the function does not run at start-up only (%s)", what, fnKey(top), c.lineOf(cs.Instr), tr, why))
				}
			}
			return
		}
		v := per[top]
		if v == nil {
			v = &verdict{at: s.Instr}
			per[top] = v
			tops = append(tops, top)
		}
		if s.Kind != "call" {
			v.bad = append(v.bad, fmt.Sprintf("%s at %s is deferred / started as a goroutine: the path to it cannot be followed", what, c.lineOf(s.Instr)))
			return
		}
		if ug, tr := c.unguarded(s.Instr, bars, top); !ug {
			v.okN++
			v.note = append(v.note, what+" behind the temp-name test")
			return
		} else if ok, why := startup(top, 3); ok {
			v.okN++
			v.note = append(v.note, what+" in a start-up-only function")
			_ = tr
			return
		} else {
			if len(v.bad) == 0 {
				v.at = s.Instr
			}
			v.bad = append(v.bad, fmt.Sprintf("%s at %s can hit a file named like persist's temp file (path %s) and the function does not run at start-up only (%s)", what, c.lineOf(s.Instr), tr, why))
		}
	}
	for _, s := range c.CallSites(remove) {
		consider(s, "os.Remove", 0)
	}
	for _, s := range c.CallSites(removeAll) {
		consider(s, "os.RemoveAll", 0)
	}
	for _, s := range c.CallSites(rename) {
		consider(s, "os.Rename (source)", 0)
	}
	sort.Slice(tops, func(i, j int) bool { return fnKey(tops[i]) < fnKey(tops[j]) })
	var ps []string
	for _, p := range pats {
		ps = append(ps, p.pattern)
	}
	for _, top := range tops {
		v := per[top]
		key := fmt.Sprintf("%s|%s|enumerated files are removed only outside persist's temp names or before the instance runs", R, fnKey(top))
		if len(v.bad) > 0 {
			c.violation(R, key, instrPos(v.at), fmt.Sprintf("%s — persist creates %q inside BlockListDir and owns that file until the rename; this function also runs beside a live API (the refresh pass is started with `go` in New), so a Set/Remove whose persist is between CreateTemp and Rename has its temp file deleted under it: the rename fails, persist only logs, the API call has already succeeded, and `local` never receives the change — a restart loses the addition or resurrects the removal", trunc(strings.Join(v.bad, "; "), 700), ps))
		} else {
			c.ok(R, key, instrPos(v.at), strings.Join(c18DedupStrings(v.note), "; "))
		}
	}
	if len(tops) == 0 {
		c.ok(R, R+"|package|no enumerated file is removed", newFn.Pos(), "no os.Remove/RemoveAll/Rename of a file taken from a directory walk or listing in the package")
	}
}
