package main

// C09-R14 (finding F-C09-4) — no live trust set without the revocation record.
//
// Resolver.rootKeys is what every validation path trusts.  A revocation is
// "immediate and permanent" (RFC 5011 §2.1) and is kept durable in the
// tombstone store precisely because the configuration may go on listing the
// key.  Whoever makes a non-empty key set live must therefore have consulted
// that store: a constructor that publishes the configured keys verbatim hands
// the revoked (by assumption compromised) key back to the validator after
// every restart, for as long as it takes the first AutoTA run to start —
// pipeline start-up plus a root priming query that is itself validated
// against this set.
//
// Decided from the SSA alone, for every store to Resolver.rootKeys in the
// module (sites are discovered through the field):
//
//   (a) the stored value is nil / an empty literal, or every path from the
//       function's entry to the store executes readTombstones (directly or in
//       an unexported helper that does so on all of its paths); or
//   (b) the store is superseded: every path from it to a point where the
//       resolver is handed on — a `go` statement, a return (for an unexported
//       helper that is only ever called: the code after each of its call
//       sites) — crosses a store to rootKeys that satisfies (a).
//
// Whether the consulted record is then applied correctly (by key material,
// markers included) is the business of C09-R4/R10; this rule is the "was it
// looked at at all" precondition that NewResolver lacked.

import (
	"fmt"

	"golang.org/x/tools/go/ssa"
)

func init() {
	wrap := func(id string, extra func(c *Ctx), explain string) {
		pd := props[id]
		if pd == nil {
			return
		}
		orig := pd.Run
		pd.Run = func(c *Ctx) { orig(c); extra(c) }
		pd.Explanation += " " + explain
	}
	wrap("C09", c09R14, "R14 (F-C09-4): every non-empty value that becomes the live trust set (Resolver.rootKeys) is stored after the durable revocation record was read (readTombstones), or is replaced by such a value before the resolver is returned or a goroutine is started — also in the constructor, so a revoked key the configuration still lists is not trusted between process start and the first AutoTA run.")
}

func c09R14(c *Ctx) {
	const R = "C09-R14"
	const pkg = "middleware/resolver"
	c.Doc(R, "the live trust set never bypasses the revocation record: every store of a possibly non-empty value to Resolver.rootKeys is preceded on every path by readTombstones (directly or through a helper that always calls it), or every path from it to a `go` statement / return crosses such a store — the configured keys are not made live verbatim, not even for the window between NewResolver and the first AutoTA run")
	rootKeysF := c.field(R, pkg+".Resolver.rootKeys")
	readTomb := c.fobj(R, pkg+".readTombstones")
	if rootKeysF == nil || readTomb == nil {
		return
	}
	consult := CallBarrier("readTombstones", readTomb)

	empty := func(v ssa.Value) bool {
		ls := Origins(Desc(v), nil)
		if len(ls) == 0 {
			return false
		}
		for _, l := range ls {
			s := strip(l)
			if IsNilConst(s) || (s != nil && s.K == EMake && len(s.Args) == 0) {
				continue
			}
			return false
		}
		return true
	}
	sites := c.StoreSites(rootKeysF)
	if len(sites) == 0 {
		c.unresolved(R, "stores of Resolver.rootKeys", "none found")
		return
	}
	// (a)
	covered := map[ssa.Instruction]bool{}
	for _, s := range sites {
		st, ok := s.Instr.(*ssa.Store)
		if !ok {
			continue
		}
		if empty(st.Val) {
			covered[s.Instr] = true
			continue
		}
		if ug, _ := c.unguarded(s.Instr, []Barrier{consult}, TopLevel(s.Fn)); !ug {
			covered[s.Instr] = true
		}
	}
	coveredStore := Barrier{Name: "rootKeys = <value stored after readTombstones, or empty>", Instr: func(in ssa.Instruction) bool { return covered[in] }}

	// (b) escapes(from): a path from `from` to a hand-over point that crosses no covered store
	var escapes func(from []Point, fn *ssa.Function, depth int) (bool, string)
	escapes = func(from []Point, fn *ssa.Function, depth int) (bool, string) {
		r := reach(from, []Barrier{coveredStore}, nil)
		for _, t := range r.order {
			switch t.(type) {
			case *ssa.Go:
				return true, "goroutine started: " + c.trail(r, t)
			case *ssa.Return:
				top := t.Parent()
				fo := funcObjOf(top)
				onlyCalled := fo != nil && !fo.Exported() && top.Parent() == nil && depth < 3
				var calls []Site
				if onlyCalled {
					for _, cs := range c.CallSites(fo) {
						if cs.Kind != "call" {
							onlyCalled = false
							break
						}
						calls = append(calls, cs)
					}
				}
				if !onlyCalled || len(calls) == 0 {
					return true, "returned: " + c.trail(r, t)
				}
				for _, cs := range calls {
					if esc, tr := escapes([]Point{pointAfter(cs.Instr)}, cs.Fn, depth+1); esc {
						return true, "via " + fnKey(cs.Fn) + ": " + tr
					}
				}
			}
		}
		return false, ""
	}

	n := 0
	for _, s := range sites {
		st, ok := s.Instr.(*ssa.Store)
		if !ok {
			continue
		}
		n++
		key := fmt.Sprintf("%s|%s|live trust set stored after the revocation record was read", R, fnKey(TopLevel(s.Fn)))
		switch {
		case empty(st.Val):
			c.ok(R, key, instrPos(s.Instr), "rootKeys = nil / empty (nothing trusted)")
		case covered[s.Instr]:
			c.ok(R, key, instrPos(s.Instr), "every path to this store has executed readTombstones")
		default:
			if esc, tr := escapes([]Point{pointAfter(s.Instr)}, s.Fn, 0); esc {
				c.violation(R, key, instrPos(s.Instr), "a key set that never met the tombstone store becomes the live trust set and the resolver is handed on with it ("+trunc(tr, 300)+") — a revoked key the configuration still lists is trusted until the first AutoTA run; stored value: "+trunc(Desc(st.Val).String(), 120))
			} else {
				c.ok(R, key, instrPos(s.Instr), "provisional value: replaced by a set stored after readTombstones before the resolver is returned or a goroutine starts")
			}
		}
	}
	_ = n
	c.Floor(R, 5) // 4 stores in AutoTA (2 nil, 2 published sets) + at least one in the constructor
}
