package main

// Regression mutants for finding F-C14-1 (rule C14-R7): each makes the binding
// preflight wider than dns.RRSIG.Verify's on names again.

func init() {
	const f = "middleware/resolver/dnssec/signature.go"
	addMutants("C14", []Mutant{
		{ID: "f-c14-1-unrooted-key-owner", File: f,
			Old:    "if !dns.IsFqdn(k.Hdr.Name) || !sameDNSName(sig.SignerName, k.Hdr.Name) {",
			New:    "if !sameDNSName(sig.SignerName, k.Hdr.Name) {",
			Expect: "C14-R7|middleware/resolver/dnssec.signatureBinding|signatureBinding returns nil|IsFqdn(k.Hdr.Name)=true",
			Why:    "two unrooted spellings compare equal again: signer \"k.example\" is accepted under key owner \"k.example\", which the library (it roots the signer first) refuses with ErrKey"},
		{ID: "f-c14-1-owner-match-by-extractrrset", File: f,
			Old:    "!sameDNSName(h0.Name, sig.Hdr.Name) ||",
			New:    "len(dnsutil.ExtractRRSet(rrset, sig.Hdr.Name, sig.TypeCovered)) != len(rrset) ||",
			Expect: "C14-R7|middleware/resolver/dnssec.signatureBinding|Unicode case folding in the binding preflight: strings.EqualFold",
			Why:    "the RRset-owner test is delegated to dnsutil.ExtractRRSet, which filters with strings.EqualFold: an RRSIG owned by \"k.k.example.\" is accepted for an RRset owned by \"\\u212A.k.example.\" (library: ErrRRset)"},
		{ID: "f-c14-1-fold-range-widened", File: f,
			Old:    "if ca >= 'A' && ca <= 'Z' {",
			New:    "if ca >= '@' && ca <= 'Z' {",
			Expect: "C14-R7|middleware/resolver/dnssec.sameDNSName|name predicate folds exactly A-Z",
			Why:    "the fold reaches '@' (0x40 → 0x60): \"@.example.\" and \"`.example.\" compare equal here and differ for the library"},
	})
}
