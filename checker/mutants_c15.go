package main

func init() {
	addMutants("C15", []Mutant{
		// R1
		{ID: "c15-decline-after-consume", File: "internal/wire/pack.go", Expect: "C15-R1",
			Old: "\treturn true, consume(state.buf[:off:off])", New: "\tif err := consume(state.buf[:off:off]); err != nil {\n\t\treturn false, nil\n\t}\n\treturn true, nil", Why: "a consumer error makes the caller fall back and write a second response"},
		{ID: "c15-size-probe-doubled", File: "internal/wire/pack.go", Expect: "C15-R1",
			Old: "\tif size > packBufferSize {\n\t\treturn false, nil\n\t}", New: "\tif size > 2*packBufferSize {\n\t\treturn false, nil\n\t}", Why: "messages larger than the pooled buffer are admitted"},
		{ID: "c15-inadmissible-skipped", File: "internal/wire/pack.go", Expect: "C15-R1",
			Old: "\t\t\tif !admissibleRR(rr) {\n\t\t\t\treturn false, nil\n\t\t\t}", New: "\t\t\tif !admissibleRR(rr) {\n\t\t\t\tcontinue\n\t\t\t}", Why: "foreign / nil records reach the packer"},
		{ID: "c15-release-dropped", File: "internal/wire/pack.go", Expect: "C15-R1",
			Old: "\tdefer state.release()\n", New: "", Why: "pack state never scrubbed nor returned"},
		{ID: "c15-extended-rcode-without-opt", File: "internal/wire/pack.go", Expect: "C15-R1",
			Old: "\tif opt == nil && msg.Rcode > 0xF {\n\t\treturn false, nil\n\t}\n", New: "", Why: "the library errors on an extended rcode without OPT; the packer would emit bytes"},
		// R2
		{ID: "c15-ext-rcode-into-caller-opt", File: "internal/wire/pack.go", Expect: "C15-R2",
			Old: "\t\t\t\tstate.opt = *o\n", New: "\t\t\t\to.Hdr.Ttl = o.Hdr.Ttl&0x00FFFFFF | uint32(msg.Rcode>>4)<<24\n\t\t\t\tstate.opt = *o\n", Why: "the library's own mutation, reintroduced"},
		{ID: "c15-packrr-on-record", File: "internal/wire/pack.go", Expect: "C15-R2",
			Old: "dns.PackRR(&state.rr, out, off, compression, compress)", New: "dns.PackRR(target, out, off, compression, compress)", Why: "Rdlength written into the caller's record header"},
		{ID: "c15-probe-on-message", File: "internal/wire/pack.go", Expect: "C15-R2",
			Old: "\tsizeProbe := *msg\n", New: "\tsizeProbe := msg\n", Why: "the probe clears the caller's Compress flag"},
		{ID: "c15-immutable-packs-original", File: "internal/wire/pack.go", Expect: "C15-R2",
			Old: "\treturn clone.Pack()", New: "\t_ = clone\n\treturn msg.Pack()", Why: "fallback writes the extended rcode into the caller's OPT"},
		{ID: "c15-shim-returns-record-header", File: "internal/wire/pack.go", Expect: "C15-R2",
			Old: "func (v *rrView) Header() *dns.RR_Header { return &v.hdr }", New: "func (v *rrView) Header() *dns.RR_Header { return v.RR.Header() }", Why: "the shim no longer absorbs the Rdlength write"},
		// R3
		{ID: "c15-release-keeps-opt", File: "internal/wire/pack.go", Expect: "C15-R3",
			Old: "\tstate.opt = dns.OPT{}\n", New: "", Why: "pooled OPT copy keeps the previous message's option list alive"},
		{ID: "c15-release-keeps-dictionary", File: "internal/wire/pack.go", Expect: "C15-R3",
			Old: "\t\t\tclear(state.compression)\n", New: "", Why: "the next pack compresses against the previous message's names"},
		{ID: "c15-release-keeps-shim-record", File: "internal/wire/pack.go", Expect: "C15-R3",
			Old: "func (state *packState) release() {\n\tstate.rr.RR = nil\n", New: "func (state *packState) release() {\n", Why: "pooled shim keeps the last record"},
		// R4
		{ID: "c15-two-index-slice", File: "internal/wire/pack.go", Expect: "C15-R4",
			Old: "consume(state.buf[:off:off])", New: "consume(state.buf[:off])", Why: "callback can reslice into the previous message's tail"},
		// R5
		{ID: "c15-selectopt-forward", File: "internal/wire/pack.go", Expect: "C15-R5",
			Old: "for i := len(msg.Extra) - 1; i >= 0; i-- {", New: "for i := 0; i < len(msg.Extra); i++ {", Why: "with two OPTs the wrong one carries the extended rcode"},
		{ID: "c15-msgbits-ad-cd-swapped", File: "internal/wire/pack.go", Expect: "C15-R5",
			Old: "\t\t{msg.AuthenticatedData, 1 << 5},\n\t\t{msg.CheckingDisabled, 1 << 4},", New: "\t\t{msg.AuthenticatedData, 1 << 4},\n\t\t{msg.CheckingDisabled, 1 << 5},", Why: "AD and CD swapped on the wire"},
		{ID: "c15-msgbits-zero-dropped", File: "internal/wire/pack.go", Expect: "C15-R5",
			Old: "\t\t{msg.Zero, 1 << 6},\n", New: "", Why: "Z bit not packed"},
		{ID: "c15-compressible-ignores-questions", File: "internal/wire/pack.go", Expect: "C15-R5",
			Old: "return len(msg.Question) > 1 || len(msg.Answer) > 0 ||", New: "return len(msg.Answer) > 0 ||", Why: "the multi-question parity defect, reintroduced"},
		{ID: "c15-clearad-wrong-bit", File: "internal/wire/wire.go", Expect: "C15-R5",
			Old: "body[3] &^= FlagAD", New: "body[3] &^= FlagCD", Why: "ClearAD clears CD"},
		{ID: "c15-flagad-wrong", File: "internal/wire/wire.go", Expect: "C15-R5",
			Old: "FlagAD        = 1 << 5", New: "FlagAD        = 1 << 6", Why: "AD constant drifts from the library's"},
		// R6
		{ID: "c15-direct-pack-for-internal", File: "middleware/response_writer.go", Expect: "C15-R6",
			Old: "if w.directPack && !w.internal {", New: "if w.directPack {", Why: "internal sub-queries receive bytes"},
		{ID: "c15-servemsg-direct-pack", File: "server/server.go", Expect: "C15-R6",
			Old: "s.serveMsg(parent, w, r, false)", New: "s.serveMsg(parent, w, r, true)", Why: "embedders' / DoH / DoQ writers receive raw packed bytes"},
		{ID: "c15-fallback-after-handled-error", File: "middleware/response_writer.go", Expect: "C15-R6",
			Old: "\t\tif handled {\n\t\t\treturn err\n\t\t}", New: "\t\tif handled && err == nil {\n\t\t\treturn nil\n\t\t}", Why: "a transport error after the bytes left triggers a second write"},
		{ID: "c15-directpack-in-reset", File: "middleware/response_writer.go", Expect: "C15-R6",
			Old: "\tw.directPack = false\n", New: "\tw.directPack = w.proto == \"udp\"\n", Why: "capability inferred from the proto string instead of declared"},
	})
}
