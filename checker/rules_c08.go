package main

import (
	"fmt"
	"go/token"
	"go/types"
	"strings"
	"time"

	"golang.org/x/tools/go/ssa"
)

func init() {
	register(&PropDef{
		ID:    "C08",
		Title: "A delegation never outlives the lease its parent granted (ghost domains)",
		Run:   runC08,
		Explanation: "Decided (structure only): R1 in processDelegation the lease handed to minCut is built only from <instant>.Add(seconds(nsTTL)) and <instant>.Add(seconds(minRRSetTTL(DS))), both present, merged as a minimum, where every <instant> is a time.Now() call that cannot execute after validateDelegation; " +
			"R2 every authority.Cache.SetUntil argument is an inherited minimum (a minCut result, directly, through a parameter of all callers, or through minNonZero), the re-anchoring Set has no caller, SetUntil passes to store only its argument or now+ceiling chosen as a minimum with ceiling <= 12h, and Get returns a delegation only across now.Before(ExpiresAt); " +
			"R3 every store to resolveState.cutDeadline is result #0 of a minCut call that folds the current cutDeadline; wherever resolveState.servers is loaded from a cached Delegation/delegationMatch the same function folds that entry's deadline; minCut and minNonZero return the not-later argument (zero = unbounded); " +
			"R4 searchCache copies ExpiresAt next to Servers; noteCut forwards its deadline to ResponseMeta.BoundCutFor; every descent (resolve / resolveWithCachedNameservers / groupLookup after the cache seed) is behind a noteCut fed from a minCut result or rs.cutDeadline; every cut-taking store call (SetFromResponse*, ReplaceIfCurrent, RecordDenialProof, RecordNXDomainCut) receives ResponseMeta.Cut() (or zero only where no meta exists), and the cut-less writers have no in-tree caller; " +
			"R6 maximumTTL <= 12h, extractDelegationInfo.nsTTL and minRRSetTTL are min-folds over RR header TTLs; R7 Delegation.ExpiresAt is written only in authority.Cache.store from its parameter, store is called only by Set/SetUntil, and the backing table is touched only by Get/store/Remove.",
		NotDecided: []string{
			"timed behaviour across histories (when the parent withdraws, what is still served at which instant)",
			"that glue address caches (glueV4/6, no lease) cannot keep a withdrawn child reachable in some history — assumption, not analysed",
			"prefetch interplay over time (the CAS shape is C04-R8)",
			"R5 non-progressing referrals cannot insert — decided under C07-R3",
			"that the request-tree bound (ResponseMeta.cut) is itself a min-fold and is read after the synchronous chase — decided under C04-R7",
		},
	})
}

func c08IsParamNamed(name string) Pat {
	return func(e *Expr) bool { e = strip(e); return e != nil && e.K == EParam && e.Name == name }
}

func runC08(c *Ctx) {
	const rp = "middleware/resolver"
	const ap = "internal/authority"
	minCut := c.fobj("C08-R3", rp+".minCut")
	minNonZero := c.fobj("C08-R3", rp+".minNonZero")
	noteCut := c.fobj("C08-R4", rp+".noteCut")
	minRRSetTTL := c.fobj("C08-R6", rp+".minRRSetTTL")
	setUntil := c.fobj("C08-R2", ap+".(*Cache).SetUntil")
	setRel := c.fobj("C08-R2", ap+".(*Cache).Set")
	storeFn := c.fobj("C08-R7", ap+".(*Cache).store")
	validate := c.fobj("C08-R1", rp+".(*Resolver).validateDelegation")
	timeNow := c.fobj("C08-R1", "time.Now")
	timeAdd := c.fobj("C08-R1", "time.Time.Add")
	nsTTL := c.field("C08-R1", rp+".delegationInfo.nsTTL")
	nsRecord := c.field("C08-R6", rp+".delegationInfo.nsRecord")
	cutDeadline := c.field("C08-R3", rp+".resolveState.cutDeadline")
	rsServers := c.field("C08-R3", rp+".resolveState.servers")
	dmDeadline := c.field("C08-R4", rp+".delegationMatch.deadline")
	dmServers := c.field("C08-R4", rp+".delegationMatch.servers")
	expiresAt := c.field("C08-R7", ap+".Delegation.ExpiresAt")
	delServers := c.field("C08-R4", ap+".Delegation.Servers")
	nowField := c.field("C08-R2", ap+".Cache.now")
	cacheField := c.field("C08-R7", ap+".Cache.cache")
	hdrTTL := c.field("C08-R6", "github.com/miekg/dns.RR_Header.Ttl")
	if minCut == nil || minNonZero == nil || noteCut == nil || minRRSetTTL == nil || setUntil == nil || setRel == nil || storeFn == nil ||
		validate == nil || timeNow == nil || timeAdd == nil || nsTTL == nil || nsRecord == nil || cutDeadline == nil || rsServers == nil ||
		dmDeadline == nil || dmServers == nil || expiresAt == nil || delServers == nil || nowField == nil || cacheField == nil || hdrTTL == nil {
		return
	}
	pd := c.fn("C08-R1", rp+".(*Resolver).processDelegation")

	// ------------------------------------------------------------------ R1
	c.Doc("C08-R1", "processDelegation: the lease given to minCut = min(observedAt.Add(nsTTL·s), observedAt.Add(minRRSetTTL(DS)·s)); every observation instant is a time.Now() that cannot run after validateDelegation")
	if pd != nil {
		vcalls := instrsWhere(pd, isPlainCallTo(validate))
		if len(vcalls) == 0 {
			c.unresolved("C08-R1", "processDelegation|validateDelegation", "no validateDelegation call found")
		}
		afterValidation := map[ssa.Instruction]bool{}
		for _, vc := range vcalls {
			r := reach([]Point{pointAfter(vc)}, nil, nil)
			for in := range r.visited {
				afterValidation[in] = true
			}
		}
		mcs := instrsWhere(pd, isPlainCallTo(minCut))
		if len(mcs) == 0 {
			c.unresolved("C08-R1", "processDelegation|minCut", "no minCut call found")
		}
		for _, mc := range mcs {
			lease := callArg(mc, 2)
			// the lease is decided as a min-fold whatever its shape (phi, helper
			// lowering the NS deadline by the DS deadline, builtin min); the
			// folded candidates are what the origin clauses below look at
			terms := c.c08Fold("C08-R1", "C08-R1|processDelegation|lease is the minimum", "leaseDeadline", []c08Alt{{Val: lease, At: mc}}, c08FoldOpt{Producers: true})
			// X.Add(min(a, b)) is the pair of candidates X.Add(a), X.Add(b); minNonZero(a, b) the pair a, b
			leaves := c08SplitMinTerms(c08TermExprs(terms), timeAdd, minNonZero)
			kinds := map[string]bool{}
			okOrigin := len(leaves) > 0
			for _, l := range leaves {
				ls := strip(l)
				kOrigin := "C08-R1|processDelegation|lease origin"
				if !CallTo(timeAdd)(ls) || len(ls.Args) != 2 {
					okOrigin = false
					c.violation("C08-R1", kOrigin, instrPos(mc), "lease deadline has an origin that is not <instant>.Add(duration): "+trunc(ls.String(), 200))
					continue
				}
				inst := strip(ls.Args[0])
				if !CallTo(timeNow)(inst) {
					okOrigin = false
					c.violation("C08-R1", kOrigin, instrPos(mc), "lease deadline is not anchored at a time.Now() observation: "+trunc(inst.String(), 200))
					continue
				}
				secs, ok := c08SecondsOf(ls.Args[1])
				constDur, isConstDur := constInt(ls.Args[1])
				switch {
				case ok && FieldIs(nsTTL)(secs):
					kinds["ns"] = true
				case ok && CallTo(minRRSetTTL)(secs):
					kinds["ds"] = true
				case isConstDur && constDur > 0:
					// a constant candidate of a minimum can only shorten the lease: the
					// hold ceiling (its presence and size are C08-R10); its observation
					// instant is held to the same "before validation" clause below
					kinds["ceiling"] = true
				default:
					okOrigin = false
					c.violation("C08-R1", kOrigin, instrPos(mc), "lease duration is not seconds(nsInfo.nsTTL) or seconds(minRRSetTTL(DS)): "+trunc(ls.Args[1].String(), 200))
					continue
				}
				// the observation instant precedes validation
				kObs := "C08-R1|processDelegation|observation instant precedes validation"
				if nowCall, ok := inst.V.(ssa.Instruction); ok {
					// a time.Now() that sits in a helper (the candidate's computation was
					// extracted) executes where processDelegation calls into that helper
					late, located := afterValidation[nowCall], true
					if TopLevel(nowCall.Parent()) != pd {
						late, located = false, false
						for _, g := range WithAnons(pd) {
							for _, b := range g.Blocks {
								for _, in := range b.Instrs {
									cc := callCommon(in)
									h := localHelper(g, cc)
									if h == nil {
										continue
									}
									for _, hf := range scopeFuncs(h) {
										if hf == nowCall.Parent() {
											located = true
											if afterValidation[in] {
												late = true
											}
										}
									}
								}
							}
						}
					}
					if !located {
						c.undecided("C08-R1", kObs, instrPos(mc), "the time.Now() feeding the lease sits in "+fnKey(nowCall.Parent())+", which processDelegation does not reach through an unexported same-package helper")
					} else if late {
						c.violation("C08-R1", kObs, instrPos(nowCall), "a time.Now() taken after validateDelegation feeds the lease deadline: validation latency is added back onto the parent-granted lease")
					} else {
						c.ok("C08-R1", kObs, instrPos(nowCall), "time.Now() feeding the lease cannot execute after validateDelegation")
					}
				} else {
					c.undecided("C08-R1", kObs, instrPos(mc), "cannot locate the time.Now() call instruction")
				}
			}
			if okOrigin {
				c.ok("C08-R1", "C08-R1|processDelegation|lease origin", instrPos(mc), "lease origins {"+c08ExprList(leaves)+"}")
			}
			kBoth := "C08-R1|processDelegation|lease folds NS and DS TTL"
			if kinds["ns"] && kinds["ds"] {
				c.ok("C08-R1", kBoth, instrPos(mc), "both the NS-TTL deadline and the DS-TTL deadline reach the lease")
			} else {
				c.violation("C08-R1", kBoth, instrPos(mc), fmt.Sprintf("lease does not fold both referral TTLs (ns=%v ds=%v)", kinds["ns"], kinds["ds"]))
			}
		}
	}
	c.Floor("C08-R1", 5)

	// ------------------------------------------------------------------ R3
	c.Doc("C08-R3", "every store to resolveState.cutDeadline is result #0 of a minCut call one of whose deadline arguments is the current cutDeadline; loading rs.servers from a cached delegation comes with folding that delegation's deadline; minCut/minNonZero return the not-later argument")
	isCutFold := func(e *Expr) bool {
		e = strip(e)
		if !ResultOf(0, minCut)(e) {
			return false
		}
		call := e
		if e.K == EExtract {
			call = strip(e.X)
		}
		if len(call.Args) != 4 {
			return false
		}
		return FieldIs(cutDeadline)(call.Args[0]) || FieldIs(cutDeadline)(call.Args[2])
	}
	for _, s := range c.StoreSites(cutDeadline) {
		key := fmt.Sprintf("C08-R3|%s|store cutDeadline", fnKey(TopLevel(s.Fn)))
		c.OriginCheck("C08-R3", key, s.Instr, "resolveState.cutDeadline ←", s.Val, nil, isCutFold)
	}
	// cached servers come with their deadline
	for _, s := range c.StoreSites(rsServers) {
		ve := strip(Desc(s.Val))
		var want *types.Var
		switch {
		case FieldIs(delServers)(ve):
			want = expiresAt
		case FieldIs(dmServers)(ve):
			want = dmDeadline
		default:
			continue
		}
		base := ve.X.String()
		key := fmt.Sprintf("C08-R3|%s|cached servers carry their deadline", fnKey(TopLevel(s.Fn)))
		found := false
		for _, mc := range instrsWhere(TopLevel(s.Fn), isPlainCallTo(minCut)) {
			for _, i := range []int{0, 2} {
				a := strip(Desc(callArg(mc, i)))
				if FieldIs(want)(a) && a.X.String() == base {
					// and its result is what is stored as the new bound
					for _, st := range c.StoreSites(cutDeadline) {
						if TopLevel(st.Fn) != TopLevel(s.Fn) {
							continue
						}
						se := strip(Desc(st.Val))
						if se != nil && se.K == EExtract && se.X != nil && se.X.V == mc.(ssa.Value) {
							found = true
						}
					}
				}
			}
		}
		if found {
			c.ok("C08-R3", key, instrPos(s.Instr), "rs.servers ← cached "+trunc(ve.String(), 80)+" and rs.cutDeadline ← minCut(…, "+want.Name()+" of the same entry, …)")
		} else {
			c.violation("C08-R3", key, instrPos(s.Instr), "rs.servers is taken from a cached delegation ("+trunc(ve.String(), 80)+") but its "+want.Name()+" is not folded into rs.cutDeadline in this function: deeper delegations and answers are not bounded by this cut")
		}
	}
	c.c08ReturnsSmallerParam("C08-R3", c.fn("C08-R3", rp+".minCut"), 0, "a", "b", true)
	c.c08ReturnsSmallerParam("C08-R3", c.fn("C08-R3", rp+".minNonZero"), 0, "a", "b", true)
	c.Floor("C08-R3", 10)

	// ------------------------------------------------------------------ R2
	c.Doc("C08-R2", "SetUntil receives only inherited minima (minCut result / parameter fed so by every caller / minNonZero of one); Set (re-anchoring) is never called; SetUntil stores min(arg, now+maximumTTL); Get hides expired entries")
	var inherited func(e *Expr, fn *ssa.Function, depth int) bool
	inherited = func(e *Expr, fn *ssa.Function, depth int) bool {
		e = strip(e)
		if e == nil || depth > 3 {
			return false
		}
		if ResultOf(0, minCut)(e) {
			return true
		}
		if CallTo(minNonZero)(e) && e.K == ECall {
			for _, a := range e.Args {
				ok := true
				ls := Origins(a, nil)
				for _, l := range ls {
					if !inherited(l, fn, depth+1) {
						ok = false
					}
				}
				if ok && len(ls) > 0 {
					return true
				}
			}
			return false
		}
		if e.K == EParam && fn != nil && fn.Parent() == nil {
			fo := funcObjOf(fn)
			sites := c.CallSites(fo)
			if fo == nil || len(sites) == 0 {
				return false
			}
			for _, s := range sites {
				if s.Kind == "ref" {
					return false
				}
				v := callArg(s.Instr, e.Idx)
				if v == nil {
					return false
				}
				ls := Origins(Desc(v), nil)
				if len(ls) == 0 {
					return false
				}
				for _, l := range ls {
					if !inherited(l, TopLevel(s.Fn), depth+1) {
						return false
					}
				}
			}
			return true
		}
		return false
	}
	for _, s := range c.CallSites(setUntil) {
		key := fmt.Sprintf("C08-R2|%s|SetUntil deadline", fnKey(TopLevel(s.Fn)))
		if s.Kind == "ref" {
			c.undecided("C08-R2", key, instrPos(s.Instr), "SetUntil used as a function value")
			continue
		}
		ls := c08Leaves(callArg(s.Instr, 4))
		bad := []string{}
		for _, l := range ls {
			if !inherited(l, s.Fn, 0) {
				bad = append(bad, trunc(l.String(), 160))
			}
		}
		if len(ls) == 0 {
			c.undecided("C08-R2", key, instrPos(s.Instr), "no origin for the deadline argument")
		} else if len(bad) > 0 {
			c.violation("C08-R2", key, instrPos(s.Instr), "SetUntil deadline is not the inherited minimum (minCut result, or minNonZero of one): "+strings.Join(bad, " ; "))
		} else {
			c.ok("C08-R2", key, instrPos(s.Instr), "SetUntil deadline ← "+c08ExprList(ls))
		}
	}
	if sites := c.CallSites(setRel); len(sites) == 0 {
		c.ok("C08-R2", "C08-R2|authority.Cache.Set|no caller", token.NoPos, "the duration-based Set (lease restarted at insertion) has no caller in the module")
	} else {
		for _, s := range sites {
			c.violation("C08-R2", "C08-R2|authority.Cache.Set|"+fnKey(TopLevel(s.Fn)), instrPos(s.Instr), "authority.Cache.Set re-anchors the lease at insertion time (now+ttl) instead of the observation instant")
		}
	}
	if su := c.fn("C08-R2", ap+".(*Cache).SetUntil"); su != nil {
		// all store(...) calls of SetUntil together: whichever deadline reaches the
		// table is min(argument, now+ceiling) — decided on the CFG, so one call
		// behind a phi and two calls in opposite branches are the same thing
		stores := instrsWhere(su, isPlainCallTo(storeFn))
		terms := c.c08Fold("C08-R2", "C08-R2|authority.SetUntil|clamps down only", "stored deadline", c08ArgSinks(stores, 4), c08FoldOpt{})
		key := "C08-R2|authority.SetUntil|stored deadline"
		ls := c08TermExprs(terms)
		okAll, hasArg, hasCeil := len(ls) > 0, false, false
		for _, l := range ls {
			ll := strip(l)
			if c08IsParamNamed("expiresAt")(ll) {
				hasArg = true
				continue
			}
			if CallTo(timeAdd)(ll) && len(ll.Args) == 2 {
				d, isC := constInt(ll.Args[1])
				nowE := strip(ll.Args[0])
				isNow := CallTo(timeNow)(nowE) || (nowE != nil && nowE.K == ECall && nowE.X != nil && FieldIs(nowField)(nowE.X))
				if isC && isNow && d > 0 && d <= int64(12*time.Hour) {
					hasCeil = true
					continue
				}
			}
			okAll = false
			c.violation("C08-R2", key, su.Pos(), "SetUntil stores a deadline that is neither its argument nor now+ceiling(<=12h): "+trunc(ll.String(), 160))
		}
		switch {
		case !okAll:
		case !hasArg || !hasCeil:
			c.violation("C08-R2", key, su.Pos(), fmt.Sprintf("SetUntil does not store min(argument, now+ceiling) (argument=%v ceiling=%v)", hasArg, hasCeil))
		default:
			c.ok("C08-R2", key, su.Pos(), "stored deadline ∈ {"+c08ExprList(ls)+"}")
		}
	}
	if get := c.fn("C08-R2", ap+".(*Cache).Get"); get != nil {
		c.MustCross("C08-R2", get, "return of a delegation", isReturnWith(0, NotNilConst),
			OnTrue("now.Before(ExpiresAt)", c08TimeMethod("Before", Any, FieldIs(expiresAt))),
			OnFalse("now.After(ExpiresAt)", c08TimeMethod("After", Any, FieldIs(expiresAt))),
			OnTrue("ExpiresAt.After(now)", c08TimeMethod("After", FieldIs(expiresAt), Any)))
	}
	c.Floor("C08-R2", 6)

	// ------------------------------------------------------------------ R4
	c.Doc("C08-R4", "searchCache hands ExpiresAt out with Servers; noteCut forwards to BoundCutFor; descents are behind noteCut(minCut result | rs.cutDeadline); all cut-taking store calls receive ResponseMeta.Cut(); cut-less writers have no caller")
	// searchCache: deadline travels with servers
	for _, s := range c.StoreSites(dmServers) {
		ve := strip(Desc(s.Val))
		if !FieldIs(delServers)(ve) {
			continue
		}
		key := fmt.Sprintf("C08-R4|%s|delegationMatch carries ExpiresAt", fnKey(TopLevel(s.Fn)))
		found := false
		for _, d := range c.StoreSites(dmDeadline) {
			de := strip(Desc(d.Val))
			if d.Instr.Block() == s.Instr.Block() && FieldIs(expiresAt)(de) && de.X.String() == ve.X.String() {
				found = true
			}
		}
		if found {
			c.ok("C08-R4", key, instrPos(s.Instr), "delegationMatch{servers: d.Servers, deadline: d.ExpiresAt} from the same entry")
		} else {
			c.violation("C08-R4", key, instrPos(s.Instr), "a cached delegation's servers are handed out without its ExpiresAt: the descent is unbounded")
		}
	}
	for _, d := range c.StoreSites(dmDeadline) {
		c.OriginCheck("C08-R4", fmt.Sprintf("C08-R4|%s|delegationMatch.deadline origin", fnKey(TopLevel(d.Fn))), d.Instr, "delegationMatch.deadline ←", d.Val, nil, FieldIs(expiresAt))
	}
	// noteCut forwards
	boundCutFor := c.fobj("C08-R4", "middleware.(*ResponseMeta).BoundCutFor")
	if nc := c.fn("C08-R4", rp+".noteCut"); nc != nil && boundCutFor != nil {
		c.MustCross("C08-R4", nc, "return", isReturn, CallBarrier("BoundCutFor", boundCutFor))
		for _, in := range instrsWhere(nc, isPlainCallTo(boundCutFor)) {
			c.OriginCheck("C08-R4", "C08-R4|noteCut|BoundCutFor deadline", in, "BoundCutFor deadline", callArg(in, 1), nil, c08IsParamNamed("deadline"))
		}
	}
	// noteCut arguments
	for _, s := range c.CallSites(noteCut) {
		key := fmt.Sprintf("C08-R4|%s|noteCut deadline", fnKey(TopLevel(s.Fn)))
		if s.Kind == "ref" {
			c.undecided("C08-R4", key, instrPos(s.Instr), "noteCut used as a function value")
			continue
		}
		c.OriginCheck("C08-R4", key, s.Instr, "noteCut deadline", callArg(s.Instr, 1), nil, ResultOf(0, minCut), FieldIs(cutDeadline))
	}
	// descents behind noteCut
	resolveF := c.fobj("C08-R4", rp+".(*Resolver).resolve")
	rwcn := c.fobj("C08-R4", rp+".(*Resolver).resolveWithCachedNameservers")
	groupLookup := c.fobj("C08-R4", rp+".(*Resolver).groupLookup")
	searchCache := c.fobj("C08-R4", rp+".(*Resolver).searchCache")
	if resolveF != nil && rwcn != nil && groupLookup != nil && searchCache != nil {
		if pd != nil {
			c.MustCross("C08-R4", pd, "descent (resolve / resolveWithCachedNameservers)", isCallTo(resolveF, rwcn), c08CallsAlways("noteCut", noteCut))
		}
		if f := c.fn("C08-R4", rp+".(*Resolver).resolveWithCachedNameservers"); f != nil {
			c.MustCross("C08-R4", f, "descent (resolve)", isCallTo(resolveF), c08CallsAlways("noteCut", noteCut))
		}
		if f := c.fn("C08-R4", rp+".(*Resolver).resolve"); f != nil {
			c.MustCrossFrom("C08-R4", f, "query after the delegation-cache seed", isPlainCallTo(searchCache), isCallTo(groupLookup, resolveF), c08CallsAlways("noteCut", noteCut))
		}
	}
	// every cut-taking store call receives the request-tree bound
	cutFn := c.fobj("C08-R4", "middleware.(*ResponseMeta).Cut")
	cutUntilFn := c.fobj("C08-R4", "middleware.(*ResponseMeta).CutUntil")
	type sink struct {
		path string
		arg  int
	}
	sinks := []sink{
		{"middleware/cache.(*Store).SetFromResponse", 3},
		{"middleware/cache.(*Store).SetFromResponseWithCut", 3},
		{"middleware/cache.(*Store).SetFromResponseWithKey", 3},
		{"middleware/cache.(*Store).SetFromResponseScoped", 4},
		{"middleware/cache.(*Store).setFromResponseWithKey", 4},
		{"middleware/cache.(*Store).ReplaceIfCurrent", 4},
		{"middleware/cache.(*Store).RecordDenialProof", 4},
		{"middleware/cache.(*Store).RecordNXDomainCut", 4},
	}
	if cutFn != nil && cutUntilFn != nil {
		isMetaCut := AnyOf(ResultOf(0, cutFn), CallTo(cutUntilFn))
		for _, sk := range sinks {
			fo := c.fobj("C08-R4", sk.path)
			if fo == nil {
				continue
			}
			for _, s := range c.CallSites(fo) {
				key := fmt.Sprintf("C08-R4|%s|%s cutUntil", fnKey(TopLevel(s.Fn)), fo.Name())
				if s.Kind == "ref" {
					c.undecided("C08-R4", key, instrPos(s.Instr), fo.Name()+" used as a function value")
					continue
				}
				v := callArg(s.Instr, sk.arg)
				if v == nil {
					c.undecided("C08-R4", key, instrPos(s.Instr), "cutUntil argument not found")
					continue
				}
				storeFwd := func(ll *Expr) bool {
					if ll == nil || ll.K != EParam {
						return false
					}
					if p, isP := ll.V.(*ssa.Parameter); isP && p.Parent() != s.Fn {
						return false // a parameter met while following a helper's callers
					}
					return ll.Name == "cutUntil" && s.Fn.Parent() == nil && strings.HasSuffix(fnPkg(s.Fn).Path(), "/middleware/cache") && methodOn(funcObjOf(s.Fn), "Store")
				}
				ls := c08Leaves(v)
				var shown []*Expr
				var judge func(ls []*Expr, depth int) (bool, []string)
				judge = func(ls []*Expr, depth int) (bool, []string) {
					hasCut, bad := false, []string{}
					for _, l := range ls {
						ll := strip(l)
						switch {
						case isMetaCut(ll):
							hasCut = true
							shown = append(shown, l)
						case storeFwd(ll):
							// forwarding wrapper of package cache's Store: its own call sites are checked by this same loop
							hasCut = true
							shown = append(shown, l)
						case IsNilConst(ll) || (ll != nil && ll.K == EAlloc && len(ll.Args) == 0):
							// zero time: "no meta sink on this path" — only acceptable next to a Cut() origin
							shown = append(shown, l)
						default:
							// a parameter of an unexported function that is only ever called (a piece
							// split off from the function that read the bound) stands for what its
							// callers pass: EVERY call site must hand it the request-tree bound
							args := c.c08ParamCallerArgs(ll)
							if len(args) == 0 || depth >= 3 {
								bad = append(bad, trunc(ll.String(), 140))
								continue
							}
							all := true
							for _, a := range args {
								h, b := judge(c08Leaves(a), depth+1)
								if len(b) > 0 {
									bad = append(bad, b...)
									all = false
								} else if !h {
									bad = append(bad, "a caller of "+fnKey(ll.V.(*ssa.Parameter).Parent())+" always passes the zero time for "+ll.Name)
									all = false
								}
							}
							if all {
								hasCut = true
							}
						}
					}
					return hasCut, bad
				}
				hasCut, bad := judge(ls, 0)
				ls = shown
				switch {
				case len(bad) > 0:
					c.violation("C08-R4", key, instrPos(s.Instr), fo.Name()+": cutUntil does not come from ResponseMeta.Cut(): "+strings.Join(bad, " ; "))
				case !hasCut:
					c.violation("C08-R4", key, instrPos(s.Instr), fo.Name()+": cutUntil is never the request-tree bound (always zero = unbounded)")
				default:
					c.ok("C08-R4", key, instrPos(s.Instr), fo.Name()+": cutUntil ← "+c08ExprList(ls))
				}
			}
		}
	}
	// cut-less writers
	if setEntry := c.fobj("C08-R4", "middleware/cache.(*Store).SetEntryWithKey"); setEntry != nil {
		c.WhoMay("C08-R4", "cut-less Store.SetEntryWithKey", c.CallSites(setEntry), map[string]string{
			"(*middleware/cache.Cache).Set": "compatibility API for plugin callers; no in-tree caller (checked next)",
		})
	}
	if cset := c.fobj("C08-R4", "middleware/cache.(*Cache).Set"); cset != nil {
		if sites := c.CallSites(cset); len(sites) == 0 {
			c.ok("C08-R4", "C08-R4|cache.Cache.Set|no caller", token.NoPos, "the cut-less compatibility writer Cache.Set has no caller in the module")
		} else {
			for _, s := range sites {
				c.violation("C08-R4", "C08-R4|cache.Cache.Set|"+fnKey(TopLevel(s.Fn)), instrPos(s.Instr), "Cache.Set stores an entry without the delegation-cut bound")
			}
		}
	}
	c.Floor("C08-R4", 24)

	// ------------------------------------------------------------------ R6
	c.Doc("C08-R6", "maximumTTL <= 12h; delegationInfo.nsTTL is initialised on the first NS and afterwards only lowered (h.Ttl < nsTTL); minRRSetTTL is a min-fold over header TTLs")
	c.ConstBound("C08-R6", ap+".maximumTTL", token.LEQ, int64(12*time.Hour), "delegation lease ceiling")
	if f := c.fn("C08-R6", rp+".(*Resolver).extractDelegationInfo"); f != nil {
		vals := c.c08StoreMinFold("C08-R6", "C08-R6|extractDelegationInfo|nsTTL min-fold", f, "delegationInfo.nsTTL",
			func(in ssa.Instruction) bool { return isFieldStore(in, nsTTL, nil) }, FieldIs(nsTTL),
			OnFalse("nsRecord==nil (first NS)", FieldIs(nsRecord)))
		for _, v := range vals {
			if !FieldIs(hdrTTL)(strip(v)) {
				c.violation("C08-R6", "C08-R6|extractDelegationInfo|nsTTL source", f.Pos(), "nsTTL is assigned something other than an RR header TTL: "+trunc(v.String(), 120))
			}
		}
		if len(vals) < 2 {
			c.violation("C08-R6", "C08-R6|extractDelegationInfo|nsTTL min-fold", f.Pos(), "nsTTL has no lowering assignment: the lease is not the minimum TTL of the NS RRset")
		}
	}
	if f := c.fn("C08-R6", rp+".minRRSetTTL"); f != nil {
		for _, in := range returnsWhere(f, 0, nil) {
			r := in.(*ssa.Return)
			cands := c.c08MinFoldAccum("C08-R6", "C08-R6|minRRSetTTL|min-fold", r.Results[0], "minRRSetTTL result", IsAnyConst,
				OnCmp("i==0 (first element)", Any, token.EQL, IsConstInt(0), true))
			for _, cd := range cands {
				if !FieldIs(hdrTTL)(strip(cd)) {
					c.violation("C08-R6", "C08-R6|minRRSetTTL|source", instrPos(in), "minRRSetTTL folds something other than header TTLs: "+trunc(cd.String(), 120))
				}
			}
		}
	}
	c.Floor("C08-R6", 4)

	// ------------------------------------------------------------------ R7
	c.Doc("C08-R7", "Delegation.ExpiresAt is stored only by authority.Cache.store, from its parameter; store is called only by Set/SetUntil; the backing table is used only through Get (Get), Add (store), Remove (Remove)")
	c.WhoMay("C08-R7", "store Delegation.ExpiresAt", c.StoreSites(expiresAt), map[string]string{
		"(*internal/authority.Cache).store": "the single constructor of Delegation values",
	})
	for _, s := range c.StoreSites(expiresAt) {
		if fnKey(TopLevel(s.Fn)) == "(*internal/authority.Cache).store" {
			c.OriginCheck("C08-R7", "C08-R7|authority.store|ExpiresAt origin", s.Instr, "Delegation.ExpiresAt ←", s.Val, nil, c08IsParamNamed("expiresAt"))
		}
	}
	c.WhoMay("C08-R7", "call authority.Cache.store", c.CallSites(storeFn), map[string]string{
		"(*internal/authority.Cache).Set":      "duration form (uncalled, C08-R2)",
		"(*internal/authority.Cache).SetUntil": "absolute form, clamps down only (C08-R2)",
	})
	allowedTable := map[string]string{"Get": "(*internal/authority.Cache).Get", "Add": "(*internal/authority.Cache).store", "Remove": "(*internal/authority.Cache).Remove"}
	for _, fn := range c.P.FuncsInPkg(ap) {
		for _, b := range fn.Blocks {
			for _, in := range b.Instrs {
				cc := callCommon(in)
				if cc == nil || cc.IsInvoke() || len(cc.Args) == 0 {
					continue
				}
				if !FieldIs(cacheField)(Desc(cc.Args[0])) {
					continue
				}
				_, _, name := calleeObj(cc)
				key := fmt.Sprintf("C08-R7|%s|table.%s", fnKey(TopLevel(fn)), name)
				if allowedTable[name] == fnKey(TopLevel(fn)) {
					c.ok("C08-R7", key, instrPos(in), "delegation table "+name+" in its designated method")
				} else {
					c.violation("C08-R7", key, instrPos(in), "delegation table accessed with "+name+" outside Get/store/Remove: a lease can be inserted or read around the deadline logic")
				}
			}
		}
	}
	c.Floor("C08-R7", 7)
}
