package main

import (
	"fmt"
	"go/token"
	"go/types"
	"strings"

	"golang.org/x/tools/go/ssa"
)

func init() {
	register(&PropDef{
		ID:    "C18",
		Title: "Blocklist matching is exact and its persisted form converges to memory",
		Run:   runC18,
		Explanation: "Decided (structure only): R1 m/wild/w/version accessed only under BlockList.mu (write lock for mutations, helpers inherit from all callers), lastPersisted under saveMu; " +
			"R2 every mutating API snapshots under mu, calls persist with that snapshot outside mu, and every success return crosses persist; " +
			"R3 persist returns before any I/O when a newer snapshot already reached disk and records lastPersisted only after a successful Rename; " +
			"R4 atomic replacement: Rename only behind Sync and Close success, temp file removed on every failure exit, file-creating calls in the package are exactly the enumerated ones; " +
			"R5 a blocked name is answered locally (WriteMsg+Cancel, never Next) and blocklist precedes cache/resolver/forwarder; R6 whitelist precedence in Exists and setLocked; " +
			"R7 every looked-up candidate is the canonical name or a suffix starting right after a '.', wildcard entries are consulted only for strict parents, no substring/suffix string matching.",
		NotDecided: []string{
			"exactness of the label walk for every name (boundary cases), case folding inside dns.CanonicalName",
			"reload parsing (updater.go) equality with memory",
			"file-system states after a crash at each step (needs a file-system model)",
			"interleavings of concurrent API calls beyond lock/version discipline",
		},
	})
}

func runC18(c *Ctx) {
	const pkg = "middleware/blocklist"
	mF := c.field("C18-R1", pkg+".BlockList.m")
	wildF := c.field("C18-R1", pkg+".BlockList.wild")
	wF := c.field("C18-R1", pkg+".BlockList.w")
	verF := c.field("C18-R1", pkg+".BlockList.version")
	lastF := c.field("C18-R1", pkg+".BlockList.lastPersisted")
	if mF == nil || wildF == nil || wF == nil || verF == nil || lastF == nil {
		return
	}

	// R1
	c.Doc("C18-R1", "BlockList.m/wild/w/version only under BlockList.mu (write lock for map writes/deletes/version bump; *Locked helpers and lock-free helpers inherit from all their callers); lastPersisted only under saveMu")
	c.GuardedFields(guardSpec{Rule: "C18-R1", Pkg: pkg, Fields: []*types.Var{mF, wildF, wF, verF}, Mutex: "mu"})
	c.GuardedFields(guardSpec{Rule: "C18-R1", Pkg: pkg, Fields: []*types.Var{lastF}, Mutex: "saveMu"})
	c.Floor("C18-R1", 28)

	// R2
	c.Doc("C18-R2", "Set/Remove/SetBatch/RemoveBatch: snapshotLocked under mu(W); persist(arg = that snapshot) with mu released; every return of a non-zero/true result crosses persist")
	snap := c.fobj("C18-R2", pkg+".(*BlockList).snapshotLocked")
	persist := c.fobj("C18-R2", pkg+".(*BlockList).persist")
	for _, name := range []string{"Set", "Remove", "SetBatch", "RemoveBatch"} {
		fn := c.fn("C18-R2", pkg+".(*BlockList)."+name)
		if fn == nil || snap == nil || persist == nil {
			continue
		}
		st := lockStates(fn, nil)
		np := 0
		for _, in := range instrsWhere(fn, isPlainCallTo(persist)) {
			np++
			key := fmt.Sprintf("C18-R2|%s|persist outside mu", name)
			held := st[in]
			bad := false
			for k := range held {
				if strings.HasSuffix(k, ".mu") {
					bad = true
				}
			}
			if bad {
				c.violation("C18-R2", key, instrPos(in), "persist (disk I/O) is called while BlockList.mu is held")
			} else {
				c.ok("C18-R2", key, instrPos(in), "persist runs with mu released")
			}
			c.OriginCheck("C18-R2", fmt.Sprintf("C18-R2|%s|persist arg", name), in, "persist argument", callArg(in, 1), nil, CallTo(snap))
		}
		if np == 0 {
			c.violation("C18-R2", fmt.Sprintf("C18-R2|%s|persist", name), fn.Pos(), name+" never persists")
		}
		var acc []Access
		for _, in := range instrsWhere(fn, isPlainCallTo(snap)) {
			acc = append(acc, Access{In: in, Lock: Desc(callArg(in, 0)).String() + ".mu", Write: true, What: "snapshotLocked"})
		}
		c.LockHeld("C18-R2", fn, nil, acc)
		c.MustCross("C18-R2", fn, "success return", func(in ssa.Instruction) bool {
			r, ok := in.(*ssa.Return)
			if !ok || len(r.Results) != 1 {
				return false
			}
			e := Desc(r.Results[0])
			return !(IsConstBool(false)(e) || IsConstInt(0)(e))
		}, CallBarrier("persist", persist))
	}
	c.Floor("C18-R2", 16)

	// R3
	c.Doc("C18-R3", "persist: on the 'version <= lastPersisted' edge no file operation is reachable; lastPersisted is stored only behind Rename's nil-error edge, from the snapshot's version")
	pfn := c.fn("C18-R3", pkg+".(*BlockList).persist")
	rename := c.fobj("C18-R3", "os.Rename")
	isFileOp := func(in ssa.Instruction) bool {
		cc := callCommon(in)
		if cc == nil {
			return false
		}
		fo, _, _ := calleeObj(cc)
		return fo != nil && fo.Pkg() != nil && fo.Pkg().Path() == "os"
	}
	snapVer := c.field("C18-R3", pkg+".blockSnapshot.version")
	if pfn != nil && rename != nil && snapVer != nil {
		c.AfterEdge("C18-R3", pfn, "stale snapshot still performs I/O", OnCmp("s.version<=lastPersisted", FieldIs(snapVer), token.LEQ, FieldIs(lastF), true), isFileOp)
		c.MustCross("C18-R3", pfn, "store lastPersisted", func(in ssa.Instruction) bool { return isFieldStore(in, lastF, nil) }, OnFalse("Rename err", CallTo(rename)))
		for _, in := range instrsWhere(pfn, func(in ssa.Instruction) bool { return isFieldStore(in, lastF, nil) }) {
			c.OriginCheck("C18-R3", "C18-R3|persist|lastPersisted value", in, "lastPersisted", in.(*ssa.Store).Val, nil, FieldIs(snapVer))
		}
	}

	// R4
	c.Doc("C18-R4", "persist: os.Rename only behind the nil-error edges of tmp.Sync and tmp.Close (in that order, after the writes); every error edge after CreateTemp reaches return only through os.Remove of the temp file; file-creating calls in the package: CreateTemp+Rename in persist, Create in downloadBlocklist")
	fsync := c.fobj("C18-R4", "os.(*File).Sync")
	fclose := c.fobj("C18-R4", "os.(*File).Close")
	fwrite := c.fobj("C18-R4", "os.(*File).WriteString")
	createTemp := c.fobj("C18-R4", "os.CreateTemp")
	osRemove := c.fobj("C18-R4", "os.Remove")
	if pfn != nil && fsync != nil && fclose != nil && fwrite != nil && createTemp != nil && osRemove != nil {
		top := func(p func(ssa.Instruction) bool) func(ssa.Instruction) bool {
			return func(in ssa.Instruction) bool { return in.Parent() == pfn && p(in) }
		}
		c.MustCross("C18-R4", pfn, "os.Rename", top(isPlainCallTo(rename)), OnFalse("Sync err", CallTo(fsync)))
		c.MustCross("C18-R4", pfn, "os.Rename", top(isPlainCallTo(rename)), OnFalse("Close err", CallTo(fclose)))
		c.MustCross("C18-R4", pfn, "tmp.Close (success path)", top(isPlainCallTo(fclose)), OnFalse("Sync err", CallTo(fsync)))
		// no write after Sync — wherever the Sync call lives (persist itself or an unexported helper)
		nsync := 0
		for _, f := range scopeFuncs(pfn) {
			for _, in := range instrsWhere(f, func(in ssa.Instruction) bool { return in.Parent() == f && isPlainCallTo(fsync)(in) }) {
				nsync++
				r := reach([]Point{pointAfter(in)}, nil, nil)
				bad := false
				for _, t := range r.order {
					if hit, ok := hitIn(t, isPlainCallTo(fwrite), nil); ok {
						bad = true
						c.violation("C18-R4", "C18-R4|persist|write after Sync", instrPos(hit), "the temp file is written again after it was synced")
						break
					}
				}
				if !bad {
					c.ok("C18-R4", "C18-R4|persist|write after Sync", instrPos(in), "nothing is written after tmp.Sync()")
				}
			}
		}
		if nsync == 0 {
			c.violation("C18-R4", "C18-R4|persist|write after Sync", pfn.Pos(), "persist never syncs the temp file")
		}
		// and in persist, nothing is written after the helper that syncs returned
		for _, in := range instrsWhere(pfn, func(in ssa.Instruction) bool {
			cl, ok := in.(*ssa.Call)
			if !ok || in.Parent() != pfn {
				return false
			}
			if h := localHelper(pfn, &cl.Call); h != nil {
				_, has := helperHasTarget(h, isPlainCallTo(fsync), nil, 0)
				return has
			}
			return false
		}) {
			r := reach([]Point{pointAfter(in)}, nil, nil)
			for _, t := range r.order {
				if hit, ok := hitIn(t, isPlainCallTo(fwrite), nil); ok {
					c.violation("C18-R4", "C18-R4|persist|write after Sync", instrPos(hit), "the temp file is written again after the syncing helper returned")
					break
				}
			}
		}
		// cleanup on every failure exit: once the temp file exists, persist returns only
		// across a successful Rename or after removing the temp file
		removes := func(in ssa.Instruction) bool { return c18CallReaches(in, osRemove, 3) }
		c.AfterEdge("C18-R4", pfn, "exit that neither renamed nor removed the temp file", OnFalse("CreateTemp err", ResultOf(1, createTemp)), isReturn,
			Barrier{Name: "os.Remove(tmp)", Instr: removes}, OnFalse("Rename err", CallTo(rename)))
	}
	allowedCreate := map[string]string{
		"os.CreateTemp|(*" + pkg + ".BlockList).persist":       "temp file of the atomic replacement",
		"os.Rename|(*" + pkg + ".BlockList).persist":           "the only writer of <dir>/local",
		"os.Create|(*" + pkg + ".BlockList).downloadBlocklist": "per-source remote list file (not the local list)",
	}
	usedCreate := map[string]bool{}
	for _, n := range []string{"os.Create", "os.OpenFile", "os.WriteFile", "os.Rename", "os.CreateTemp", "os.Link", "os.Symlink", "os.Truncate"} {
		f := c.P.FuncObj(n)
		if f == nil {
			continue
		}
		for _, s := range c.CallSites(f) {
			if pk := fnPkg(s.Fn); pk == nil || pk.Path() != c.P.expand(pkg) {
				continue
			}
			k := n + "|" + fnKey(TopLevel(s.Fn))
			key := "C18-R4|file-creating call|" + k
			if why, ok := allowedCreate[k]; ok {
				usedCreate[k] = true
				c.ok("C18-R4", key, instrPos(s.Instr), k+": "+why)
			} else {
				c.violation("C18-R4", key, instrPos(s.Instr), k+": a file is created/replaced outside the temp-file + rename protocol")
			}
		}
	}
	for k := range allowedCreate {
		if !usedCreate[k] {
			c.unresolved("C18-R4", "file-creating call|"+k, "allowed site no longer exists (table row stale)")
		}
	}

	// R5
	c.Doc("C18-R5", "ServeDNS: Next only across Exists=false or the empty-list edge; after Exists=true every return crosses WriteMsg and Cancel; blocklist precedes cache, resolver, forwarder in the default chain")
	exists := c.fobj("C18-R5", pkg+".(*BlockList).Exists")
	next := c.fobj("C18-R5", "middleware.(*Chain).Next")
	cancel := c.fobj("C18-R5", "middleware.(*Chain).Cancel")
	if sfn := c.fn("C18-R5", pkg+".(*BlockList).ServeDNS"); sfn != nil && exists != nil && next != nil && cancel != nil {
		// the chain continues only for a name that is not blocked, or when BOTH tables are empty
		// (two obligations, one per table, so the order and the spelling of the emptiness test do not matter)
		lenPos := func(fv *types.Var) Pat {
			return func(e *Expr) bool {
				e = strip(e)
				return e != nil && e.K == ECall && e.Method == "builtin.len" && len(e.Args) == 1 && FieldIs(fv)(e.Args[0])
			}
		}
		for _, t := range []struct {
			n  string
			fv *types.Var
		}{{"len(b.m)>0", mF}, {"len(b.wild)>0", wildF}} {
			c.MustCross("C18-R5", sfn, "ch.Next", isCallTo(next), OnFalse("Exists", CallTo(exists)),
				OnCmp(t.n+" is false", lenPos(t.fv), token.GTR, IsConstInt(0), false))
		}
		c.AfterEdge("C18-R5", sfn, "blocked name continues the chain", OnTrue("Exists", CallTo(exists)), isCallTo(next))
		c.AfterEdge("C18-R5", sfn, "blocked name returns without an answer", OnTrue("Exists", CallTo(exists)), isReturn, Barrier{Name: "WriteMsg", Instr: isCallNamed("WriteMsg")})
		c.AfterEdge("C18-R5", sfn, "blocked name returns without Cancel", OnTrue("Exists", CallTo(exists)), isReturn, CallBarrier("Cancel", cancel))
	}
	if v, pk := c.P.pkgVarValue("middleware/defaults", "chain"); v != nil {
		if names, _, ok := stringList(v, pk.TypesInfo); ok {
			bi := indexOf(names, "blocklist")
			for _, later := range []string{"cache", "resolver", "forwarder", "failover"} {
				key := "C18-R5|chain|blocklist before " + later
				if li := indexOf(names, later); bi >= 0 && li > bi {
					c.ok("C18-R5", key, v.Pos(), "blocklist precedes "+later)
				} else {
					c.violation("C18-R5", key, v.Pos(), "blocklist does not precede "+later+" in the default chain")
				}
			}
		} else {
			c.undecided("C18-R5", "C18-R5|chain", v.Pos(), "chain literal has an unexpected shape")
		}
	}

	// R6
	c.Doc("C18-R6", "Exists returns true only behind matchHierarchy(key, b.w)=false; setLocked writes m/wild only behind the same edge")
	mh := c.fobj("C18-R6", pkg+".matchHierarchy")
	wlAtom := func(e *Expr) bool {
		return CallTo(mh)(e) && len(e.Args) == 2 && FieldIs(wF)(e.Args[1])
	}
	if efn := c.fn("C18-R6", pkg+".(*BlockList).Exists"); efn != nil && mh != nil {
		c.MustCross("C18-R6", efn, "return true", isReturnWith(0, IsConstBool(true)), OnFalse("whitelisted", wlAtom))
	}
	if sfn := c.fn("C18-R6", pkg+".(*BlockList).setLocked"); sfn != nil && mh != nil {
		c.MustCross("C18-R6", sfn, "map write", func(in ssa.Instruction) bool { _, ok := in.(*ssa.MapUpdate); return ok }, OnFalse("whitelisted", wlAtom))
	}

	// R7
	c.Doc("C18-R7", "in Exists and matchHierarchy every map key looked up is the (canonical) name or name[offset:] with offset accumulated only from IndexByte(…,'.')+1 or taken from the library's label iterator dns.NextLabel; wild is never consulted with the name itself; no strings.HasSuffix/HasPrefix/Contains in either; Exists/setLocked/removeLocked/Get canonicalise before touching the maps")
	indexByte := c.fobj("C18-R7", "strings.IndexByte")
	canon := c.fobj("C18-R7", "github.com/miekg/dns.CanonicalName")
	nextLabel := c.fobj("C18-R7", "github.com/miekg/dns.NextLabel")
	for _, name := range []string{pkg + ".(*BlockList).Exists", pkg + ".matchHierarchy"} {
		fn := c.fn("C18-R7", name)
		if fn == nil || indexByte == nil {
			continue
		}
		for _, b := range fn.Blocks {
			for _, in := range b.Instrs {
				if lk, ok := in.(*ssa.Lookup); ok {
					if _, isMap := lk.X.Type().Underlying().(*types.Map); !isMap {
						continue
					}
					key := fmt.Sprintf("C18-R7|%s|candidate", fnKey(fn))
					ke := Desc(lk.Index)
					isWild := FieldIs(wildF)(Desc(lk.X))
					why, ok := c18CandidateOK(ke, indexByte, nextLabel)
					switch {
					case !ok:
						c.violation("C18-R7", key, instrPos(in), "looked-up candidate is not the name or a whole-label suffix of it: "+why)
					case isWild && why == "name":
						c.violation("C18-R7", key, instrPos(in), "wildcard table consulted with the name itself (a wildcard must match strict subdomains only)")
					default:
						c.ok("C18-R7", key, instrPos(in), "candidate = "+why)
					}
				}
				if cc := callCommon(in); cc != nil {
					if fo, _, _ := calleeObj(cc); fo != nil && fo.Pkg() != nil && fo.Pkg().Path() == "strings" {
						switch fo.Name() {
						case "HasSuffix", "HasPrefix", "Contains", "Index", "LastIndex", "TrimSuffix":
							c.violation("C18-R7", fmt.Sprintf("C18-R7|%s|substring match", fnKey(fn)), instrPos(in), "strings."+fo.Name()+" in the hierarchy walk: matching is no longer on whole labels")
						}
					}
				}
			}
		}
	}
	// canonicalisation on every entry point
	for _, name := range []string{"Exists", "setLocked", "removeLocked", "Get"} {
		fn := c.fn("C18-R7", pkg+".(*BlockList)."+name)
		if fn == nil || canon == nil {
			continue
		}
		for _, b := range fn.Blocks {
			for _, in := range b.Instrs {
				var keyV ssa.Value
				switch x := in.(type) {
				case *ssa.Lookup:
					if _, isMap := x.X.Type().Underlying().(*types.Map); isMap {
						keyV = x.Index
					}
				case *ssa.MapUpdate:
					keyV = x.Key
				case *ssa.Call:
					if bi, ok := x.Call.Value.(*ssa.Builtin); ok && bi.Name() == "delete" {
						keyV = x.Call.Args[1]
					} else if callIs(&x.Call, mh) {
						keyV = x.Call.Args[0]
					}
				}
				if keyV == nil {
					continue
				}
				key := fmt.Sprintf("C18-R7|%s|canonical key", name)
				if Contains(CallTo(canon))(Desc(keyV)) {
					c.ok("C18-R7", key, instrPos(in), "map key derives from dns.CanonicalName")
				} else {
					c.violation("C18-R7", key, instrPos(in), "map key does not derive from dns.CanonicalName: "+trunc(Desc(keyV).String(), 160))
				}
			}
		}
	}
	c.Floor("C18-R7", 14)
}

// c18CallReaches: the call's static callee (function or local closure) calls
// target directly or through further local closures.
func c18CallReaches(in ssa.Instruction, target *types.Func, depth int) bool {
	cc := callCommon(in)
	if cc == nil {
		return false
	}
	if callIs(cc, target) {
		return true
	}
	if depth == 0 {
		return false
	}
	var body *ssa.Function
	if sf := cc.StaticCallee(); sf != nil && sf.Parent() != nil {
		body = sf
	} else {
		// call through a local variable holding a closure
		e := Desc(cc.Value)
		if e.K == EClosure {
			body = e.SFn
		}
	}
	if body == nil {
		return false
	}
	for _, b := range body.Blocks {
		for _, x := range b.Instrs {
			if c18CallReaches(x, target, depth-1) {
				return true
			}
		}
	}
	return false
}

// c18CandidateOK: e is the name itself ("name") or name[low:] where low is
// built only from 0, +1 and strings.IndexByte(…, '.') results, or is the start
// of a label as returned by one of the label iterators (dns.NextLabel, result 0).
func c18CandidateOK(e *Expr, indexByte *types.Func, labelIter ...*types.Func) (string, bool) {
	e = strip(e)
	if e == nil {
		return "nil", false
	}
	if e.K != ESlice {
		switch e.K {
		case EParam, ECall, EExtract, EPhi, EAlloc:
			return "name", true
		}
		return e.String(), false
	}
	if len(e.Args) != 3 || e.Args[1] != nil || e.Args[2] != nil || e.Args[0] == nil {
		return "slice with an upper bound: " + e.String(), false
	}
	seen := map[*Expr]bool{}
	var isDotIndexD func(x *Expr, d int) bool
	isDotIndexD = func(x *Expr, d int) bool {
		x = strip(x)
		if x == nil || d > 8 {
			return false
		}
		// a loop variable fed by several IndexByte(…,'.') calls (for idx := IndexByte(..); …; idx = IndexByte(..))
		if (x.K == EPhi || x.K == EAlloc) && len(x.Args) > 0 {
			for _, a := range x.Args {
				if !isDotIndexD(a, d+1) {
					return false
				}
			}
			return true
		}
		if !CallTo(indexByte)(x) || x.K != ECall || len(x.Args) != 2 {
			return false
		}
		v, ok := constInt(x.Args[1])
		return ok && v == '.'
	}
	isDotIndex := func(x *Expr) bool { return isDotIndexD(x, 0) }
	var okTerm func(x *Expr, d int) bool
	okTerm = func(x *Expr, d int) bool {
		x = strip(x)
		if x == nil || d > 30 {
			return false
		}
		if seen[x] {
			return true
		}
		seen[x] = true
		switch x.K {
		case EConst:
			v, ok := constInt(x)
			return ok && (v == 0 || v == 1)
		case EPhi, EAlloc:
			if len(x.Args) == 0 {
				return false
			}
			for _, a := range x.Args {
				if !okTerm(a, d+1) {
					return false
				}
			}
			return true
		case EBin:
			if x.Op != token.ADD {
				return false
			}
			// a separator position may only enter as IndexByte(…,'.') + 1 (the
			// candidate starts right AFTER the dot)
			if isDotIndex(x.X) {
				v, ok := constInt(x.Y)
				return ok && v == 1
			}
			if isDotIndex(x.Y) {
				v, ok := constInt(x.X)
				return ok && v == 1
			}
			if len(labelIter) > 0 && (ResultOf(0, labelIter...)(x.X) || ResultOf(0, labelIter...)(x.Y)) {
				return false // an iterator result is a label start as it is: nothing is added to it
			}
			return okTerm(x.X, d+1) && okTerm(x.Y, d+1)
		case EUnknown:
			return x.Name == "phi-cycle" || x.Name == "cell-cycle"
		case ECall, EExtract:
			// the library's label iterator returns the offset right after an unescaped dot
			if len(labelIter) > 0 && ResultOf(0, labelIter...)(x) {
				return true
			}
			// an unexported stepper helper: every value it returns is such an offset
			// or a negative "no more labels" sentinel
			call, idx := x, 0
			if x.K == EExtract {
				call, idx = strip(x.X), x.Idx
			}
			if call == nil || call.K != ECall || call.SFn == nil || len(call.SFn.Blocks) == 0 {
				return false
			}
			if fo := funcObjOf(call.SFn); fo == nil || fo.Exported() {
				return false
			}
			nret := 0
			for _, b := range call.SFn.Blocks {
				for _, in := range b.Instrs {
					r, ok := in.(*ssa.Return)
					if !ok || idx >= len(r.Results) {
						continue
					}
					nret++
					rv := Desc(r.Results[idx])
					if v, isC := constInt(rv); isC && v < 0 {
						continue
					}
					if !okTerm(rv, d+1) {
						return false
					}
				}
			}
			return nret > 0
		}
		return false
	}
	if okTerm(e.Args[0], 0) {
		return "name[offset:] with offset = Σ(IndexByte('.')+1) / label iterator", true
	}
	return "slice bound of another origin: " + trunc(e.Args[0].String(), 160), false
}
